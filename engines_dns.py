"""Engine "dns" (properties C07, C08, C09, C10, C18): the real DnsController (dns_control.go,
dns_cache.go, dns_control_optimistic.go), the real forwarders of dns.go (DoUDP / DoTCP, udpConnPool,
connPool, pipelinedConn), domain_routing_tracker.go, and ChooseDialTarget / real-domain probe of
control_plane.go under the deterministic scheduler; upstream servers, sockets, the clock and the
domain_routing_map are simulated (harness/control/dns_*_test.go).

One test binary serves the five properties; ./check exports VERIF_PROP, the harness then activates
only that property's workload bias and oracles (the chosen mode is stored in the first tape entry so
replays do not need the environment)."""

import os, re

_SF = "golang.org/x/sync/singleflight.Group."


def _gen_dns_knobs(REPO, wd):
    """dns_control.go copy in which the capacity of the asynchronous domain-routing update queue (a function-local
    constant, 1024) is read from a harness hook, so that a run can make it small enough to fill with a handful of
    entries ("a cache too large for the miss path to run is the classic blind spot"). If the constant is not found
    in the working tree the file is left as it is (the knob then keeps its production value; noted in the evidence
    by the probe dns.c10-update-queue-filled staying at zero)."""
    srcp = os.path.join(REPO, "control", "dns_control.go")
    src = open(srcp).read()
    pat = re.compile(r"const bpfUpdateQueueSize = (\d+)\n")
    if len(pat.findall(src)) != 1:
        return {}
    src = pat.sub(lambda m: "bpfUpdateQueueSize := verifDnsUpdateQueueSize(%s)\n" % m.group(1), src)
    # tell the harness when sendBpfUpdateTask drops a task at the full queue (its `default:` branch)
    i = src.find("func (c *DnsController) sendBpfUpdateTask(")
    if i >= 0:
        j = src.find("\nfunc ", i + 1)
        body = src[i:j if j > 0 else len(src)]
        body2, n = re.subn(r"(default:\s*\n(?:\s*//[^\n]*\n)*)(\s*)return false", r"\1\2verifDnsUpdateDropped()\n\2return false", body, count=1)
        if n == 1:
            src = src[:i] + body2 + src[i + len(body):]
    dst = os.path.join(wd, "dns_control.knobs.go")
    open(dst, "w").write(src)
    return {srcp: dst}


ENGINES = {
    "dns": {
        "pkg": "control",
        "tags": "dae_stub_ebpf",
        "test": "TestSimDNS",
        "extra_files": {
            "control/zz_verif_hooks.go": "harness/control/hooks.go.txt",
            "control/zz_verif_dns_hooks.go": "harness/control/dns_hooks.go.txt",
        },
        "instrument": [
            {"pkg": "component/outbound/dialer", "files": ["dialer.go"],
             "replace": ["CachedTimeNano=return time.Now().UnixNano()"]},
            {"pkg": "control",
             "files": ["dns_control.go", "dns_cache.go", "dns_control_optimistic.go", "dns.go",
                       "domain_routing_tracker.go", "dns_preference_wait.go", "runtime_dns_accounting.go",
                       "control_plane.go", "bpf_stub.go"],
             "blocking": [_SF + "Do", _SF + "DoChan"],
             # closeWithErr sweeps 4096 atomic slots: one scheduling point per slot would cost 4096 steps per
             # connection close; the sweep runs as one atomic segment instead
             "noyield": ["pipelinedConn.closeWithErr"],
             "replace": ["BpfMapBatchDelete=return verifBpfBatchDelete(m, keys)",
                         "BpfMapBatchUpdate=return verifBpfBatchUpdate(m, keys, values, opts)",
                         "sendRuntimeTrackedPkt=return verifDnsSendPkt(log, data, from, to, recordDownload)"]},
        ],
        "harness": ["harness/control/dns_engine_test.go", "harness/control/dns_world_test.go", "harness/control/dns_rules_test.go",
                    "harness/control/dns_track_test.go", "harness/control/dns_oracle_test.go", "harness/control/dns_c08_test.go", "harness/control/dns_c10_test.go", "harness/control/dns_c07_test.go", "harness/control/dns_c18_test.go", "harness/control/dns_tcp_test.go"],
        "generators": [_gen_dns_knobs],
        "keepgoing": False,
        "quick_secs": 40, "thorough_secs": 600,
        # reach probes; a run serves one property, so only the probes of the checked property can be hit:
        # ./check lists the others as "never hit" warnings (informational).
        "probes_by_prop": {
            "C09": ["dns.udp-socket-reused", "dns.tcp-conn-pipelined", "dns.udp-to-tcp-fallback", "dns.late-copy-delivered",
                    "dns.reply-without-own-upstream-query", "dns.tcp-fast-path-reply", "dns.tcp-fast-path-pipelined-queries", "dns.large-answer"],
            "C08": ["dns.fresh-cache-hit", "dns.stale-served", "dns.background-refresh-query", "dns.lru-eviction"],
            "C07": ["dns.c07-reask", "dns.c07-reask-bound-hit", "dns.c07-request-rejected", "dns.c07-response-rejected",
                    "dns.c07-negative-answer", "dns.c07-reask-upstream-fails"],
            "C10": ["dns.c10-quiescent-comparison", "dns.c10-async-update", "dns.c10-reload-takes-time",
                    "dns.c10-async-update-overtaken-by-replacement-or-eviction", "dns.c10-comparison-after-failed-delete-was-repaired"],
            "C18": ["dns.c18-probe-started", "dns.c18-known-by-dns", "dns.c18-verified-by-probe", "dns.c18-unknown-name",
                    "dns.c18-connection-after-failed-probe"],
        },
        "probes": [],
    },
}

PROPS = {
    "C07": {"engines": ["dns"], "rule_prefixes": ["c07-", "task-panic"]},
    "C08": {"engines": ["dns"], "rule_prefixes": ["c08-", "task-panic"]},
    "C09": {"engines": ["dns"], "rule_prefixes": ["c09-", "task-panic"]},
    "C10": {"engines": ["dns"], "rule_prefixes": ["c10-", "task-panic"]},
    # the relay engine observes what the node dialer of a re-routed flow receives (routeDial/chooseProxyDialer)
    "C18": {"engines": ["dns", "relay"], "rule_prefixes": ["c18-", "task-panic"]},
}
