package outbound

import (
	"errors"
	"fmt"
	"net/netip"
	"sync"
	"sync/atomic"
	"time"

	"github.com/daeuniverse/dae/common/consts"
	"github.com/daeuniverse/dae/component/outbound/dialer"
	_ "github.com/daeuniverse/outbound/dialer"
	"github.com/daeuniverse/outbound/netproxy"
	"github.com/sirupsen/logrus"
)
import verifsim "github.com/daeuniverse/dae/internal/verifsim"

var _ = verifsim.Yield
var _ sync.Locker

var ErrNoAliveDialer = fmt.Errorf("no alive dialer")

type DialerGroup struct {
	netproxy.Dialer

	log	*logrus.Logger
	Name	string

	Dialers	[]*dialer.Dialer

	selectionState		atomic.Pointer[dialerGroupSelectionState]
	selectionStateMu	verifsim.Mutex

	dialersAnnotations	[]*dialer.Annotation
	checkTolerance		time.Duration
	aliveChangeCallback	func(alive bool, networkType *dialer.NetworkType, isInit bool)

	resuscitateLastTime	atomic.Int64
	noAliveLogLastTimes	[8]atomic.Int64

	cachedMinCheckInterval	time.Duration
}

type dialerGroupSelectionState struct {
	policy		DialerSelectionPolicy
	aliveDialerSets	[8]*dialer.AliveDialerSet
}

type ReloadSelectionFallback [8]*dialer.Dialer

func NewDialerGroup(
	option *dialer.GlobalOption,
	name string,
	dialers []*dialer.Dialer,
	dialersAnnotations []*dialer.Annotation,
	p DialerSelectionPolicy,
	aliveChangeCallback func(alive bool, networkType *dialer.NetworkType, isInit bool),
) *DialerGroup {
	log := option.Log

	group := &DialerGroup{
		log:			log,
		Name:			name,
		Dialers:		dialers,
		dialersAnnotations:	dialersAnnotations,
		checkTolerance:		option.CheckTolerance,
		aliveChangeCallback:	aliveChangeCallback,
	}
	state := group.buildSelectionState(p, true)
	group.registerAliveDialerSets(state.aliveDialerSets)
	verifsim.Yield("dialer_group.go:75")
	group.selectionState.Store(state)
	group.cachedMinCheckInterval = group.MinCheckInterval()

	for _, nt := range standardSelectionNetworkTypes() {
		aliveChangeCallback(true, nt, true)
	}

	return group
}

func (g *DialerGroup) Close() error {
	g.unregisterAliveDialerSets(g.currentSelectionState().aliveDialerSets)
	return nil
}

func (g *DialerGroup) SetSelectionPolicy(policy DialerSelectionPolicy) {
	verifsim.Yield("dialer_group.go:91")
	g.selectionStateMu.Lock()
	defer g.selectionStateMu.Unlock()

	current := g.currentSelectionState()
	currentNeedsAliveState := policyNeedsAliveState(current.policy.Policy)
	newNeedsAliveState := policyNeedsAliveState(policy.Policy)

	switch {
	case currentNeedsAliveState && newNeedsAliveState:
		if current.policy.Policy != policy.Policy {
			for _, set := range uniqueAliveDialerSets(current.aliveDialerSets) {
				set.SetSelectionPolicy(policy.Policy)
			}
		}
		next := &dialerGroupSelectionState{
			policy:			policy,
			aliveDialerSets:	current.aliveDialerSets,
		}
		verifsim.Yield("dialer_group.go:109")
		g.selectionState.Store(next)

	case !currentNeedsAliveState && !newNeedsAliveState:
		verifsim.Yield("dialer_group.go:112")
		g.selectionState.Store(&dialerGroupSelectionState{policy: policy})

	case !currentNeedsAliveState && newNeedsAliveState:
		next := g.buildSelectionState(policy, true)
		g.registerAliveDialerSets(next.aliveDialerSets)
		for _, d := range g.Dialers {
			d.ActivateCheck()
		}
		verifsim.Yield("dialer_group.go:120")
		g.selectionState.Store(next)

	case currentNeedsAliveState && !newNeedsAliveState:
		oldSets := current.aliveDialerSets
		verifsim.Yield("dialer_group.go:124")
		g.selectionState.Store(&dialerGroupSelectionState{policy: policy})
		g.unregisterAliveDialerSets(oldSets)
	}
}

func (g *DialerGroup) GetSelectionPolicy() (policy consts.DialerSelectionPolicy) {
	return g.currentSelectionState().policy.Policy
}

func (g *DialerGroup) MinCheckInterval() time.Duration {
	if len(g.Dialers) == 0 {
		return 30 * time.Second
	}
	min := g.Dialers[0].CheckInterval
	for _, d := range g.Dialers[1:] {
		if d.CheckInterval < min {
			min = d.CheckInterval
		}
	}
	if min < 2*time.Second {
		return 2 * time.Second
	}
	return min
}

func (d *DialerGroup) MustGetAliveDialerSet(typ *dialer.NetworkType) *dialer.AliveDialerSet {
	return d.currentSelectionState().aliveDialerSets[typ.Index()]
}

func (g *DialerGroup) CaptureReloadSelectionFallback() ReloadSelectionFallback {
	var fallback ReloadSelectionFallback
	if g == nil {
		return fallback
	}
	for _, nt := range standardSelectionNetworkTypes() {
		d, _, _, err := g.SelectWithExclusionResult(nt, false, nil)
		if err == nil && d != nil {
			fallback[nt.Index()] = d
		}
	}
	return fallback
}

func (g *DialerGroup) EnsureReloadSelectionFloor(fallback ReloadSelectionFallback) {
	if g == nil {
		return
	}
	for _, nt := range standardSelectionNetworkTypes() {
		set := g.MustGetAliveDialerSet(nt)
		if set == nil || set.Len() > 0 {
			continue
		}
		candidate := fallback[nt.Index()]
		if candidate == nil && len(g.Dialers) > 0 {
			candidate = g.Dialers[0]
		}
		if candidate == nil {
			continue
		}
		candidate.MarkAliveForReloadFallback(nt)
		if g.log != nil && g.log.IsLevelEnabled(logrus.DebugLevel) {
			dialerName := ""
			if p := candidate.Property(); p != nil {
				dialerName = p.Name
			}
			g.log.WithFields(logrus.Fields{
				"dialer":	dialerName,
				"group":	g.Name,
				"network":	nt.String(),
			}).Debugln("Reload health inheritance kept a selection fallback alive")
		}
	}
}

func (g *DialerGroup) tryDoRateLimitedAction(last *atomic.Int64, interval time.Duration) bool {
	now := time.Now().UnixNano()
	verifsim.Yield("dialer_group.go:206")
	l := last.Load()
	if now-l < int64(interval) {
		return false
	}
	verifsim.Yield("dialer_group.go:210")
	return last.CompareAndSwap(l, now)
}

func (g *DialerGroup) HandleNoAliveDialer(
	origNetworkType string,
	selectionNetworkType *dialer.NetworkType,
	src netip.AddrPort,
	dst netip.AddrPort,
	domain string,
	strictIpVersion bool,
) {

	if g.tryDoRateLimitedAction(&g.resuscitateLastTime, g.cachedMinCheckInterval) {
		g.resuscitate(selectionNetworkType)
	}

	idx := selectionNetworkType.Index()
	logInterval := max(g.cachedMinCheckInterval*5, 10*time.Second)

	if g.tryDoRateLimitedAction(&g.noAliveLogLastTimes[idx], logInterval) {
		g.logNoAlive(origNetworkType, selectionNetworkType, src, dst, domain, strictIpVersion, logInterval)
	}
}

func (g *DialerGroup) Resuscitate(networkType *dialer.NetworkType) bool {
	if g.tryDoRateLimitedAction(&g.resuscitateLastTime, g.cachedMinCheckInterval) {
		g.resuscitate(networkType)
		return true
	}
	return false
}

func (g *DialerGroup) resuscitate(networkType *dialer.NetworkType) {
	for _, d := range g.Dialers {
		if networkType.L4Proto == consts.L4ProtoStr_UDP {

			d.NotifyCheckDnsUdp()
			d.NotifyCheckTcp()
			continue
		}
		d.NotifyCheckTcp()
	}
}

func (g *DialerGroup) logNoAlive(
	origNetworkType string,
	selectionNetworkType *dialer.NetworkType,
	src netip.AddrPort,
	dst netip.AddrPort,
	domain string,
	strictIpVersion bool,
	interval time.Duration,
) {
	total := len(g.Dialers)
	alive := 0
	if a := g.MustGetAliveDialerSet(selectionNetworkType); a != nil {
		alive = a.Len()
	}

	g.log.WithFields(logrus.Fields{
		"outbound":			g.Name,
		"orig_network_type":		origNetworkType,
		"selection_network_type":	selectionNetworkType.String(),
		"src":				src.String(),
		"to":				dst.String(),
		"sniffed":			domain,
		"interval":			interval.String(),
		"total":			total,
		"alive":			alive,
	}).Warn("no alive dialer for selection (rate-limited)")
}

func (g *DialerGroup) Select(networkType *dialer.NetworkType, strictIpVersion bool) (d *dialer.Dialer, latency time.Duration, err error) {
	d, latency, _, err = g.SelectWithExclusionResult(networkType, strictIpVersion, nil)
	return d, latency, err
}

func (g *DialerGroup) SelectWithExclusion(networkType *dialer.NetworkType, strictIpVersion bool, excluded *dialer.Dialer) (d *dialer.Dialer, latency time.Duration, err error) {
	d, latency, _, err = g.SelectWithExclusionResult(networkType, strictIpVersion, excluded)
	return d, latency, err
}

func (g *DialerGroup) SelectWithExclusionResult(networkType *dialer.NetworkType, strictIpVersion bool, excluded *dialer.Dialer) (d *dialer.Dialer, latency time.Duration, selectedNetworkType *dialer.NetworkType, err error) {
	state := g.currentSelectionState()
	policy := state.policy
	d, latency, selectedNetworkType, err = g._select(networkType, state, policy, excluded)
	if !strictIpVersion && errors.Is(err, ErrNoAliveDialer) {

		nt := *networkType
		nt.IpVersion = (consts.IpVersion_X - networkType.IpVersion.ToIpVersionType()).ToIpVersionStr()
		return g._select(&nt, state, policy, excluded)
	}
	if err == nil {
		return d, latency, selectedNetworkType, nil
	}
	if errors.Is(err, ErrNoAliveDialer) && len(g.Dialers) == 1 {

		if d, _, selectedNetworkType, err = g._select(networkType, state, DialerSelectionPolicy{
			Policy:		consts.DialerSelectionPolicy_Fixed,
			FixedIndex:	0,
		}, excluded); err != nil {
			return nil, 0, nil, err
		}
		return d, dialer.Timeout, selectedNetworkType, nil
	}
	return nil, latency, selectedNetworkType, err
}

func (g *DialerGroup) _select(networkType *dialer.NetworkType, state *dialerGroupSelectionState, policy DialerSelectionPolicy, excluded *dialer.Dialer) (d *dialer.Dialer, latency time.Duration, selectedNetworkType *dialer.NetworkType, err error) {
	if len(g.Dialers) == 0 {
		return nil, 0, nil, fmt.Errorf("no dialer in this group")
	}
	switch policy.Policy {
	case consts.DialerSelectionPolicy_Random:
		networkTypes, count := g.selectionNetworkTypes(networkType, policy)
		for i := range count {
			a := state.aliveDialerSets[networkTypes[i].Index()]
			d := a.GetRandExcluded(excluded)
			if d != nil {
				selected := preferAlternateSelectionNetworkType(d, &networkTypes[i])
				return d, 0, selected, nil
			}
		}
		return nil, time.Hour, nil, ErrNoAliveDialer

	case consts.DialerSelectionPolicy_Fixed:

		if policy.FixedIndex < 0 || policy.FixedIndex >= len(g.Dialers) {
			return nil, 0, nil, fmt.Errorf("selected dialer index is out of range")
		}
		selected := preferAlternateSelectionNetworkType(g.Dialers[policy.FixedIndex], networkType)
		return g.Dialers[policy.FixedIndex], 0, selected, nil

	case consts.DialerSelectionPolicy_MinLastLatency,
		consts.DialerSelectionPolicy_MinAverage10Latencies,
		consts.DialerSelectionPolicy_MinMovingAverageLatencies:
		networkTypes, count := g.selectionNetworkTypes(networkType, policy)
		for i := range count {
			a := state.aliveDialerSets[networkTypes[i].Index()]
			d, latency := a.GetMinLatency(excluded)
			if d != nil {
				selected := preferAlternateSelectionNetworkType(d, &networkTypes[i])
				return d, latency, selected, nil
			}
		}
		return nil, time.Hour, nil, ErrNoAliveDialer

	default:
		return nil, 0, nil, fmt.Errorf("unsupported DialerSelectionPolicy: %v", policy)
	}
}

func (g *DialerGroup) selectionNetworkTypes(networkType *dialer.NetworkType, policy DialerSelectionPolicy) (networkTypes [3]dialer.NetworkType, count int) {
	networkTypes[0] = *networkType
	count = 1

	if policy.Policy == consts.DialerSelectionPolicy_Fixed ||
		networkType.L4Proto != consts.L4ProtoStr_UDP ||
		networkType.EffectiveUdpHealthDomain() != dialer.UdpHealthDomainData {
		return networkTypes, count
	}

	networkTypes[count] = dialer.NetworkType{
		L4Proto:		consts.L4ProtoStr_UDP,
		IpVersion:		networkType.IpVersion,
		IsDns:			true,
		UdpHealthDomain:	dialer.UdpHealthDomainDns,
	}
	count++
	networkTypes[count] = dialer.NetworkType{
		L4Proto:	consts.L4ProtoStr_TCP,
		IpVersion:	networkType.IpVersion,
	}
	count++
	return networkTypes, count
}

func (g *DialerGroup) currentSelectionState() *dialerGroupSelectionState {
	verifsim.Yield("dialer_group.go:413")
	state := g.selectionState.Load()
	if state == nil {
		return &dialerGroupSelectionState{}
	}
	return state
}

func (g *DialerGroup) buildSelectionState(policy DialerSelectionPolicy, setAlive bool) *dialerGroupSelectionState {
	state := &dialerGroupSelectionState{
		policy: policy,
	}
	if !policyNeedsAliveState(policy.Policy) {
		return state
	}

	specs := standardSelectionNetworkTypes()
	keys := dialer.StandardHealthKeys()

	for i, nt := range specs {
		networkType := *nt
		set := dialer.NewAliveDialerSet(
			g.log, g.Name, &networkType, g.checkTolerance, policy.Policy,
			g.Dialers, g.dialersAnnotations,
			func(networkType *dialer.NetworkType) func(alive bool) {
				return func(alive bool) { g.aliveChangeCallback(alive, networkType, false) }
			}(&networkType),
			false,
		)
		if setAlive {
			for _, d := range g.Dialers {
				set.NotifyLatencyChange(d, d.MustGetAlive(&networkType))
			}
		}
		state.aliveDialerSets[keys[i].CollectionIndex()] = set
		if networkType.L4Proto == consts.L4ProtoStr_TCP {
			if networkType.IpVersion == consts.IpVersionStr_4 {
				state.aliveDialerSets[dialer.IdxDnsTcp4] = set
			} else {
				state.aliveDialerSets[dialer.IdxDnsTcp6] = set
			}
		}
	}
	return state
}

func (g *DialerGroup) registerAliveDialerSets(aliveDialerSets [8]*dialer.AliveDialerSet) {
	for _, d := range g.Dialers {
		for _, a := range aliveDialerSets {
			d.RegisterAliveDialerSet(a)
		}
	}
}

func (g *DialerGroup) unregisterAliveDialerSets(aliveDialerSets [8]*dialer.AliveDialerSet) {
	for _, d := range g.Dialers {
		for _, a := range aliveDialerSets {
			d.UnregisterAliveDialerSet(a)
		}
	}
}

func policyNeedsAliveState(policy consts.DialerSelectionPolicy) bool {
	switch policy {
	case consts.DialerSelectionPolicy_Random,
		consts.DialerSelectionPolicy_MinLastLatency,
		consts.DialerSelectionPolicy_MinAverage10Latencies,
		consts.DialerSelectionPolicy_MinMovingAverageLatencies:
		return true
	case consts.DialerSelectionPolicy_Fixed:
		return false
	default:
		panic(fmt.Sprintf("unexpected dialer selection policy: %v", policy))
	}
}

func uniqueAliveDialerSets(aliveDialerSets [8]*dialer.AliveDialerSet) []*dialer.AliveDialerSet {
	unique := make(map[*dialer.AliveDialerSet]struct{}, len(aliveDialerSets))
	var sets []*dialer.AliveDialerSet
	for _, set := range aliveDialerSets {
		if set == nil {
			continue
		}
		if _, ok := unique[set]; ok {
			continue
		}
		unique[set] = struct{}{}
		sets = append(sets, set)
	}
	return sets
}

func standardSelectionNetworkTypes() [6]*dialer.NetworkType {
	keys := dialer.StandardHealthKeys()
	var networkTypes [6]*dialer.NetworkType
	for i, key := range keys {
		networkTypes[i] = key.NetworkType()
	}
	return networkTypes
}

func preferAlternateSelectionNetworkType(d *dialer.Dialer, networkType *dialer.NetworkType) *dialer.NetworkType {
	if d == nil || networkType == nil {
		return networkType
	}
	if d.MustGetAlive(networkType) {
		return networkType
	}
	altType := alternateNetworkType(networkType)
	if altType == nil {
		return networkType
	}
	if d.MustGetAlive(altType) {
		return altType
	}
	return networkType
}

func alternateNetworkType(networkType *dialer.NetworkType) *dialer.NetworkType {
	if networkType == nil {
		return nil
	}
	switch networkType.IpVersion {
	case consts.IpVersionStr_4:
		alt := *networkType
		alt.IpVersion = consts.IpVersionStr_6
		return &alt
	case consts.IpVersionStr_6:
		alt := *networkType
		alt.IpVersion = consts.IpVersionStr_4
		return &alt
	default:
		return nil
	}
}
