package dialer

import (
	"context"
	stderrors "errors"
	"fmt"
	"io"
	"math"
	"net"
	"net/http"
	"net/netip"
	"net/url"
	"path"
	"strconv"
	"strings"
	"sync"
	"sync/atomic"
	"time"
	"unsafe"

	"github.com/daeuniverse/dae/common/consts"
	commonerrors "github.com/daeuniverse/dae/common/errors"
	"github.com/daeuniverse/dae/common/netutils"
	"github.com/daeuniverse/outbound/netproxy"
	_ "github.com/daeuniverse/outbound/pkg/fastrand"
	"github.com/daeuniverse/outbound/pool"
	"github.com/daeuniverse/outbound/protocol/direct"
	dnsmessage "github.com/miekg/dns"
	"github.com/panjf2000/ants/v2"
	"github.com/sirupsen/logrus"
)
import verifsim "github.com/daeuniverse/dae/internal/verifsim"

var _ = verifsim.Yield
var _ sync.Locker

const Timeout = 10 * time.Second

type UdpHealthDomain uint8

const (
	UdpHealthDomainUnset	UdpHealthDomain	= iota
	UdpHealthDomainDns
	UdpHealthDomainData
)

func (d UdpHealthDomain) String() string {
	switch d {
	case UdpHealthDomainDns:
		return "dns_udp"
	case UdpHealthDomainData:
		return "data_udp"
	default:
		return "udp"
	}
}

type NetworkType struct {
	L4Proto		consts.L4ProtoStr
	IpVersion	consts.IpVersionStr
	IsDns		bool
	UdpHealthDomain	UdpHealthDomain
}

func (t *NetworkType) String() string {
	if t.IsDnsSemantic() {
		return t.StringWithoutDns() + "(DNS)"
	} else {
		return t.StringWithoutDns()
	}
}

func (t *NetworkType) StringWithoutDns() string {
	return string(t.L4Proto) + string(t.IpVersion)
}

func (t *NetworkType) EffectiveUdpHealthDomain() UdpHealthDomain {
	if t == nil || t.L4Proto != consts.L4ProtoStr_UDP {
		return UdpHealthDomainUnset
	}

	if t.UdpHealthDomain != UdpHealthDomainUnset {
		return t.UdpHealthDomain
	}
	return UdpHealthDomainData
}

func (t *NetworkType) IsDnsSemantic() bool {
	if t == nil {
		return false
	}
	if t.L4Proto == consts.L4ProtoStr_UDP {
		return t.EffectiveUdpHealthDomain() == UdpHealthDomainDns
	}
	return t.IsDns
}

func (t *NetworkType) Index() int {
	return t.HealthKey().CollectionIndex()
}

type collection struct {
	// AliveDialerSetSet uses reference counting.
	AliveDialerSetSet	AliveDialerSetSet
	Latencies10		*LatenciesN
	MovingAverage		time.Duration
	LastProbe		DialerProbeObservationSnapshot
	Alive			atomic.Bool
}

func newCollection() *collection {
	c := &collection{
		AliveDialerSetSet:	make(AliveDialerSetSet),
		Latencies10:		NewLatenciesN(10),
	}
	verifsim.Yield("connectivity_check.go:134")
	c.Alive.Store(true)
	return c
}

func (d *Dialer) mustGetCollection(typ *NetworkType) *collection {
	return d.collections[typ.Index()]
}

func (d *Dialer) MustGetAlive(typ *NetworkType) bool {
	verifsim.Yield("connectivity_check.go:143")
	return d.mustGetCollection(typ).Alive.Load()
}

func (d *Dialer) SnapshotLastProbe(typ *NetworkType) DialerProbeObservationSnapshot {
	if d == nil || typ == nil {
		return DialerProbeObservationSnapshot{}
	}
	verifsim.Yield("connectivity_check.go:150")
	d.collectionFineMu.RLock()
	defer d.collectionFineMu.RUnlock()
	collection := d.mustGetCollection(typ)
	if collection == nil {
		return DialerProbeObservationSnapshot{}
	}
	return collection.LastProbe
}

type collectionUpdate struct {
	alive			bool
	movingAverage		time.Duration
	aliveDialerGroups	[]*AliveDialerSet
}

func (d *Dialer) hasAliveDialerSets(typ *NetworkType) bool {
	verifsim.Yield("connectivity_check.go:166")
	d.collectionFineMu.RLock()
	has := len(d.mustGetCollection(typ).AliveDialerSetSet) > 0
	d.collectionFineMu.RUnlock()
	return has
}

func (d *Dialer) snapshotLatencyForPolicy(
	typ *NetworkType,
	policy consts.DialerSelectionPolicy,
) (rawLatency time.Duration, hasLatency bool) {
	verifsim.Yield("connectivity_check.go:176")
	d.collectionFineMu.RLock()
	collection := d.mustGetCollection(typ)
	switch policy {
	case consts.DialerSelectionPolicy_MinLastLatency:
		rawLatency, hasLatency = collection.Latencies10.LastLatency()
	case consts.DialerSelectionPolicy_MinAverage10Latencies:
		rawLatency, hasLatency = collection.Latencies10.AvgLatency()
	case consts.DialerSelectionPolicy_MinMovingAverageLatencies:
		rawLatency = collection.MovingAverage
		hasLatency = rawLatency > 0
	}
	d.collectionFineMu.RUnlock()

	if hasLatency {
		rawLatency += d.getBackoffPenaltyForType(typ)
	}
	return rawLatency, hasLatency
}

func (d *Dialer) snapshotAliveDialerGroupsLocked(collection *collection) []*AliveDialerSet {
	if len(collection.AliveDialerSetSet) == 0 {
		return nil
	}
	groups := make([]*AliveDialerSet, 0, len(collection.AliveDialerSetSet))
	for _, a := range verifsim.SortedKeys(collection.AliveDialerSetSet) {
		if _, _vok1 := collection.AliveDialerSetSet[a]; !_vok1 {
			continue
		}
		groups = append(groups, a)
	}
	return groups
}

func parseIp46FromList(ip []string) *netutils.Ip46 {
	ip46 := new(netutils.Ip46)
	for _, ip := range ip {
		addr, err := netip.ParseAddr(ip)
		if err != nil {
			continue
		}
		if addr.Is4() || addr.Is4In6() {
			ip46.Ip4 = addr
		} else if addr.Is6() {
			ip46.Ip6 = addr
		}
	}
	return ip46
}

type TcpCheckOption struct {
	Url	*netutils.URL
	*netutils.Ip46
	Method	string
}

func ParseTcpCheckOption(ctx context.Context, rawURL []string, method string, resolverNetwork string) (opt *TcpCheckOption, err error) {
	if method == "" {
		method = http.MethodGet
	}
	systemDns, err := netutils.SystemDns()
	if err != nil {
		return nil, err
	}
	defer func() {
		if err != nil {
			_ = netutils.TryUpdateSystemDnsElapse(time.Second)
		}
	}()

	if len(rawURL) == 0 {
		return nil, fmt.Errorf("ParseTcpCheckOption: bad format: empty")
	}
	u, err := url.Parse(rawURL[0])
	if err != nil {
		return nil, err
	}
	var ip46 *netutils.Ip46
	if len(rawURL) > 1 {
		ip46 = parseIp46FromList(rawURL[1:])
	} else {
		ip46, _, _ = netutils.ResolveIp46(ctx, direct.SymmetricDirect, systemDns, u.Hostname(), resolverNetwork, false)
		if !ip46.Ip4.IsValid() && !ip46.Ip6.IsValid() {
			return nil, fmt.Errorf("ResolveIp46: no valid ip for %v", u.Hostname())
		}
	}
	return &TcpCheckOption{
		Url:	&netutils.URL{URL: u},
		Ip46:	ip46,
		Method:	method,
	}, nil
}

type CheckDnsOption struct {
	DnsHost	string
	DnsPort	uint16
	*netutils.Ip46
}

func ParseCheckDnsOption(ctx context.Context, dnsHostPort []string, resolverNetwork string) (opt *CheckDnsOption, err error) {
	systemDns, err := netutils.SystemDns()
	if err != nil {
		return nil, err
	}
	defer func() {
		if err != nil {
			_ = netutils.TryUpdateSystemDnsElapse(time.Second)
		}
	}()

	if len(dnsHostPort) == 0 {
		return nil, fmt.Errorf("ParseCheckDnsOption: bad format: empty")
	}

	host, _port, err := net.SplitHostPort(dnsHostPort[0])
	if err != nil {
		return nil, err
	}
	port, err := strconv.ParseUint(_port, 10, 16)
	if err != nil {
		return nil, fmt.Errorf("bad port: %v", err)
	}
	var ip46 *netutils.Ip46
	if len(dnsHostPort) > 1 {
		ip46 = parseIp46FromList(dnsHostPort[1:])
	} else {
		ip46, _, _ = netutils.ResolveIp46(ctx, direct.SymmetricDirect, systemDns, host, resolverNetwork, false)
		if !ip46.Ip4.IsValid() && !ip46.Ip6.IsValid() {
			return nil, fmt.Errorf("ResolveIp46: no valid ip for %v", host)
		}
	}
	return &CheckDnsOption{
		DnsHost:	host,
		DnsPort:	uint16(port),
		Ip46:		ip46,
	}, nil
}

type TcpCheckOptionRaw struct {
	opt		*TcpCheckOption
	mu		verifsim.Mutex
	Log		*logrus.Logger
	Raw		[]string
	ResolverNetwork	string
	Method		string
}

func (c *TcpCheckOptionRaw) Reset() {
	verifsim.Yield("connectivity_check.go:320")
	c.mu.Lock()
	c.opt = nil
	c.mu.Unlock()
}

func (c *TcpCheckOptionRaw) Option() (opt *TcpCheckOption, err error) {
	verifsim.Yield("connectivity_check.go:326")
	c.mu.Lock()
	defer c.mu.Unlock()
	if c.opt == nil {
		ctx, cancel := context.WithTimeout(context.Background(), Timeout)
		defer cancel()
		type contextKey string
		ctx = context.WithValue(ctx, contextKey("logger"), c.Log)
		tcpCheckOption, err := ParseTcpCheckOption(ctx, c.Raw, c.Method, c.ResolverNetwork)
		if err != nil {
			return nil, fmt.Errorf("failed to parse tcp_check_url: %w", err)
		}
		c.opt = tcpCheckOption
	}
	return c.opt, nil
}

type CheckDnsOptionRaw struct {
	opt		*CheckDnsOption
	mu		verifsim.Mutex
	Raw		[]string
	ResolverNetwork	string
	Somark		uint32
}

func (c *CheckDnsOptionRaw) Reset() {
	verifsim.Yield("connectivity_check.go:351")
	c.mu.Lock()
	c.opt = nil
	c.mu.Unlock()
}

func (c *CheckDnsOptionRaw) Option() (opt *CheckDnsOption, err error) {
	verifsim.Yield("connectivity_check.go:357")
	c.mu.Lock()
	defer c.mu.Unlock()
	if c.opt == nil {
		ctx, cancel := context.WithTimeout(context.Background(), Timeout)
		defer cancel()
		udpCheckOption, err := ParseCheckDnsOption(ctx, c.Raw, c.ResolverNetwork)
		if err != nil {
			return nil, fmt.Errorf("failed to parse udp_check_dns: %w", err)
		}
		c.opt = udpCheckOption
	}
	return c.opt, nil
}

type CheckOption struct {
	networkType	*NetworkType
	CheckFunc	func(ctx context.Context, typ *NetworkType) (ok bool, err error)
}

func (d *Dialer) ActivateCheck() {
	verifsim.Yield("connectivity_check.go:377")
	d.tickerMu.Lock()
	defer d.tickerMu.Unlock()
	if d.DisableCheck || d.checkActivated {
		return
	}
	d.checkActivated = true
	{
		_vf2 := d.aliveBackground
		verifsim.Go("connectivity_check.go:383", func() {
			_vf2()
		})
	}
}

var (
	connectivityCheckPool	*ants.Pool
	poolMu			verifsim.Mutex
	poolActiveCount		int
)

func calcPoolSize(nodes int) int {
	if nodes <= 0 {
		return 40
	}
	size := 40 + int(math.Ceil(math.Sqrt(float64(nodes))*10))
	if size > 256 {
		return 256
	}
	return size
}

func initialConnectivityCheckJitterWindow(cycle time.Duration, activeDialers int) time.Duration {
	coldStartWindow := time.Duration(activeDialers) * 50 * time.Millisecond
	if maxWindow := cycle / 4; maxWindow > 0 && coldStartWindow > maxWindow {
		coldStartWindow = maxWindow
	}
	if coldStartWindow < time.Second {
		coldStartWindow = time.Second
	}
	return coldStartWindow
}

func getConnectivityCheckPool() *ants.Pool {
	verifsim.Yield("connectivity_check.go:422")
	poolMu.Lock()
	defer poolMu.Unlock()
	return connectivityCheckPool
}

func registerConnectivityCheckDialer() {
	verifsim.Yield("connectivity_check.go:430")
	poolMu.Lock()
	defer poolMu.Unlock()
	poolActiveCount++
	size := calcPoolSize(poolActiveCount)
	if connectivityCheckPool == nil {

		p, err := ants.NewPool(size, ants.WithNonblocking(true))
		if err != nil {
			panic("failed to initialize ants pool for connectivity check: " + err.Error())
		}
		connectivityCheckPool = p
	} else {
		connectivityCheckPool.Tune(size)
	}
}

func releaseConnectivityCheckDialer() {
	verifsim.Yield("connectivity_check.go:451")
	poolMu.Lock()
	defer poolMu.Unlock()
	if poolActiveCount > 0 {
		poolActiveCount--
	}
	if connectivityCheckPool != nil {
		connectivityCheckPool.Tune(calcPoolSize(poolActiveCount))
	}
}

func getActiveDialerCount() int {
	verifsim.Yield("connectivity_check.go:462")
	poolMu.Lock()
	defer poolMu.Unlock()
	return poolActiveCount
}

func (d *Dialer) aliveBackground() {
	cycle := d.CheckInterval
	var tcpSomark uint32
	var mptcp bool
	if network, err := netproxy.ParseMagicNetwork(d.TcpCheckOptionRaw.ResolverNetwork); err == nil {
		tcpSomark = network.Mark
		mptcp = network.Mptcp
	}
	tcp4CheckOpt := &CheckOption{
		networkType: &NetworkType{
			L4Proto:	consts.L4ProtoStr_TCP,
			IpVersion:	consts.IpVersionStr_4,
			IsDns:		false,
		},
		CheckFunc: func(ctx context.Context, typ *NetworkType) (ok bool, err error) {
			opt, err := d.TcpCheckOptionRaw.Option()
			if err != nil {
				return false, err
			}
			if !opt.Ip4.IsValid() {
				d.Log.WithFields(logrus.Fields{
					"link":		d.TcpCheckOptionRaw.Raw,
					"dialer":	d.property.Name,
					"network":	typ.String(),
				}).Debugln("Skip check due to no DNS record.")
				return false, nil
			}
			return d.HttpCheck(ctx, IdxTcp4, opt.Url, opt.Ip4, opt.Method, tcpSomark, mptcp)
		},
	}
	tcp6CheckOpt := &CheckOption{
		networkType: &NetworkType{
			L4Proto:	consts.L4ProtoStr_TCP,
			IpVersion:	consts.IpVersionStr_6,
			IsDns:		false,
		},
		CheckFunc: func(ctx context.Context, typ *NetworkType) (ok bool, err error) {
			opt, err := d.TcpCheckOptionRaw.Option()
			if err != nil {
				return false, err
			}
			if !opt.Ip6.IsValid() {
				d.Log.WithFields(logrus.Fields{
					"link":		d.TcpCheckOptionRaw.Raw,
					"dialer":	d.property.Name,
					"network":	typ.String(),
				}).Debugln("Skip check due to no DNS record.")
				return false, nil
			}
			return d.HttpCheck(ctx, IdxTcp6, opt.Url, opt.Ip6, opt.Method, tcpSomark, mptcp)
		},
	}
	udpNetwork := netproxy.MagicNetwork{
		Network:	"udp",
		Mark:		d.CheckDnsOptionRaw.Somark,
	}.Encode()

	makeDnsCheckFunc := func(
		ip func(opt *CheckDnsOption) netip.Addr,
		network *string,
	) func(ctx context.Context, typ *NetworkType) (ok bool, err error) {
		return func(ctx context.Context, typ *NetworkType) (ok bool, err error) {
			opt, err := d.CheckDnsOptionRaw.Option()
			if err != nil {
				return false, err
			}
			addr := ip(opt)
			if !addr.IsValid() {
				d.Log.WithFields(logrus.Fields{
					"link":		d.CheckDnsOptionRaw.Raw,
					"network":	typ.String(),
				}).Debugln("Skip check due to no DNS record.")
				return false, nil
			}
			return d.DnsCheck(ctx, netip.AddrPortFrom(addr, opt.DnsPort), *network)
		}
	}

	udp4CheckDnsOpt := &CheckOption{
		networkType: &NetworkType{
			L4Proto:		consts.L4ProtoStr_UDP,
			IpVersion:		consts.IpVersionStr_4,
			IsDns:			true,
			UdpHealthDomain:	UdpHealthDomainDns,
		},
		CheckFunc:	makeDnsCheckFunc(func(o *CheckDnsOption) netip.Addr { return o.Ip4 }, &udpNetwork),
	}
	udp6CheckDnsOpt := &CheckOption{
		networkType: &NetworkType{
			L4Proto:		consts.L4ProtoStr_UDP,
			IpVersion:		consts.IpVersionStr_6,
			IsDns:			true,
			UdpHealthDomain:	UdpHealthDomainDns,
		},
		CheckFunc:	makeDnsCheckFunc(func(o *CheckDnsOption) netip.Addr { return o.Ip6 }, &udpNetwork),
	}
	var CheckOpts = []*CheckOption{tcp4CheckOpt, tcp6CheckOpt, udp4CheckDnsOpt, udp6CheckDnsOpt}

	var unusedOnce bool
	checkUnused := func() bool {
		var unused int
		for _, opt := range CheckOpts {
			if !d.hasAliveDialerSets(opt.networkType) {
				unused++
			}
		}
		if unused == len(CheckOpts) {
			if !unusedOnce {
				d.Log.WithField("dialer", d.Property().Name).
					WithField("p", unsafe.Pointer(d)).
					Debugln("dialer connectivity check is sleeping due to unused")
				unusedOnce = true
			}
			return true
		}
		unusedOnce = false
		return false
	}

	_ = checkUnused()

	registerConnectivityCheckDialer()

	coldStartWindow := initialConnectivityCheckJitterWindow(cycle, getActiveDialerCount())
	initialDelay := time.Duration(verifsim.RandInt63n(int64(coldStartWindow)))
	verifsim.Yield("connectivity_check.go:610")
	if d.reloadInheritedHealth.Swap(false) && cycle > 0 {
		initialDelay += cycle
	}
	verifsim.Yield("connectivity_check.go:613")
	d.tickerMu.Lock()
	d.ticker = time.NewTimer(initialDelay)
	d.tickerMu.Unlock()
	defer func() {
		verifsim.Yield("connectivity_check.go:617")
		d.tickerMu.Lock()
		if d.ticker != nil {
			d.ticker.Stop()
			d.ticker = nil
		}
		d.checkActivated = false
		d.tickerMu.Unlock()
		releaseConnectivityCheckDialer()
		d.Log.WithField("dialer", d.Property().Name).
			WithField("p", unsafe.Pointer(d)).
			Traceln("cleaned up connectivity check goroutine")
	}()

	workerPool := getConnectivityCheckPool()
	isFirstCheck := true

	for {

		if checkUnused() {
			return
		}

		// checkFamily is non-empty when triggered by NotifyCheckDnsUdp/NotifyCheckTcp:
		// only the matching check opts are run (both IPv4 and IPv6), and the
		// periodic ticker is left untouched so the regular schedule is not disrupted.
		var checkFamily consts.L4ProtoStr
		var cycleRes *cycleResult
		{
			verifsim.Yield("connectivity_check.go:645")
			_vc3 := d.ctx.Done()
			_vc4 := d.ticker.C
			_vc5 := d.checkCh
			_vc6 := d.checkDnsUdpCh
			_vc7 := d.checkTcpCh
			_vi8 := -1
			for _, _vo9 := range verifsim.SelectOrder("connectivity_check.go:645", 5) {
				switch _vo9 {
				case 0:
					select {
					case <-_vc3:
						_vi8 = 0
					default:
					}
				case 1:
					select {
					case <-_vc4:
						_vi8 = 1
					default:
					}
				case 2:
					select {
					case <-_vc5:
						_vi8 = 2
					default:
					}
				case 3:
					select {
					case <-_vc6:
						_vi8 = 3
					default:
					}
				case 4:
					select {
					case <-_vc7:
						_vi8 = 4
					default:
					}
				}
				if _vi8 >= 0 {
					break
				}
			}
			if _vi8 < 0 {
				select {
				case <-_vc3:
					_vi8 = 0
				case <-_vc4:
					_vi8 = 1
				case <-_vc5:
					_vi8 = 2
				case <-_vc6:
					_vi8 = 3
				case <-_vc7:
					_vi8 = 4
				}
				verifsim.Yield("connectivity_check.go:645+")
			}
			switch _vi8 {
			case 0:
				return
			case 1:
			case 2:
			case 3:

				checkFamily = consts.L4ProtoStr_UDP
			case 4:

				checkFamily = consts.L4ProtoStr_TCP
			default:
				panic("verifsim: select dispatch: no case chosen")
			}
		}

		d.TcpCheckOptionRaw.Reset()
		d.CheckDnsOptionRaw.Reset()

		opts := CheckOpts
		if checkFamily != "" {

			opts = filterCheckOptsByFamily(CheckOpts, checkFamily)
		} else {

			d.IncrementCheckCycle()
			cycleRes = &cycleResult{}
		}

		var wg sync.WaitGroup
		d.submitCheckTasks(workerPool, &wg, opts, checkFamily != "", cycleRes)
		waitDone := make(chan struct{})
		verifsim.Go("connectivity_check.go:672", func() {
			verifsim.Yield("connectivity_check.go:673")
			wg.Wait()
			verifsim.Yield("connectivity_check.go:673+")
			verifsim.Yield("connectivity_check.go:674")
			close(waitDone)
		})
		{
			verifsim.Yield("connectivity_check.go:676")
			_vc10 := waitDone
			_vc11 := d.ctx.Done()
			_vi12 := -1
			for _, _vo13 := range verifsim.SelectOrder("connectivity_check.go:676", 2) {
				switch _vo13 {
				case 0:
					select {
					case <-_vc10:
						_vi12 = 0
					default:
					}
				case 1:
					select {
					case <-_vc11:
						_vi12 = 1
					default:
					}
				}
				if _vi12 >= 0 {
					break
				}
			}
			if _vi12 < 0 {
				select {
				case <-_vc10:
					_vi12 = 0
				case <-_vc11:
					_vi12 = 1
				}
				verifsim.Yield("connectivity_check.go:676+")
			}
			switch _vi12 {
			case 0:
			case 1:
				return
			default:
				panic("verifsim: select dispatch: no case chosen")
			}
		}

		if checkFamily == "" {

			d.NotifyPeriodicCheckResult(consts.L4ProtoStr_TCP, cycleRes.tcpSuccess, cycleRes.tcpFailure && !cycleRes.tcpSuccess)
			d.NotifyPeriodicCheckResultForType(udp4CheckDnsOpt.networkType, cycleRes.udpSuccess, cycleRes.udpFailure && !cycleRes.udpSuccess)
		}

		if checkFamily != "" {
			continue
		}

		nextDelay := cycle
		if isFirstCheck {
			nextDelay = time.Duration(verifsim.RandInt63n(int64(cycle)))
			isFirstCheck = false
		}
		verifsim.Yield("connectivity_check.go:702")
		d.tickerMu.Lock()
		if d.ticker != nil {

			if !d.ticker.Stop() {
				{
					verifsim.Yield("connectivity_check.go:707")
					_vc14 := d.ticker.C
					_vi15 := -1
					for _, _vo16 := range verifsim.SelectOrder("connectivity_check.go:707", 1) {
						switch _vo16 {
						case 0:
							select {
							case <-_vc14:
								_vi15 = 0
							default:
							}
						}
						if _vi15 >= 0 {
							break
						}
					}
					switch _vi15 {
					case 0:
					default:
					}
				}

			}
			d.ticker.Reset(nextDelay)
		}
		d.tickerMu.Unlock()
	}
}

func filterCheckOptsByFamily(opts []*CheckOption, family consts.L4ProtoStr) []*CheckOption {
	var result []*CheckOption
	for _, opt := range opts {
		if opt.networkType.L4Proto == family {
			result = append(result, opt)
		}
	}
	return result
}

func (d *Dialer) submitCheckTasks(workerPool *ants.Pool, wg *sync.WaitGroup, opts []*CheckOption, isResuscitation bool, cycle *cycleResult) {
	for _, opt := range opts {

		if !d.hasAliveDialerSets(opt.networkType) {
			continue
		}
		{
			verifsim.Yield("connectivity_check.go:738")
			_vc17 := d.ctx.Done()
			_vi18 := -1
			for _, _vo19 := range verifsim.SelectOrder("connectivity_check.go:738", 1) {
				switch _vo19 {
				case 0:
					select {
					case <-_vc17:
						_vi18 = 0
					default:
					}
				}
				if _vi18 >= 0 {
					break
				}
			}
			switch _vi18 {
			case 0:
				return
			default:
			}
		}
		verifsim.Yield("connectivity_check.go:744")

		wg.Add(1)
		checkOpt := opt
		err := workerPool.Submit(func() {
			defer wg.Done()
			{
				verifsim.Yield("connectivity_check.go:748")
				_vc20 := d.ctx.Done()
				_vi21 := -1
				for _, _vo22 := range verifsim.SelectOrder("connectivity_check.go:748", 1) {
					switch _vo22 {
					case 0:
						select {
						case <-_vc20:
							_vi21 = 0
						default:
						}
					}
					if _vi21 >= 0 {
						break
					}
				}
				switch _vi21 {
				case 0:
					return
				default:
				}
			}

			if isResuscitation {

				timer := time.NewTimer(time.Duration(verifsim.RandInt63n(int64(2 * time.Second))))
				defer timer.Stop()
				{
					verifsim.Yield("connectivity_check.go:759")
					_vc23 := d.ctx.Done()
					_vc24 := timer.C
					_vi25 := -1
					for _, _vo26 := range verifsim.SelectOrder("connectivity_check.go:759", 2) {
						switch _vo26 {
						case 0:
							select {
							case <-_vc23:
								_vi25 = 0
							default:
							}
						case 1:
							select {
							case <-_vc24:
								_vi25 = 1
							default:
							}
						}
						if _vi25 >= 0 {
							break
						}
					}
					if _vi25 < 0 {
						select {
						case <-_vc23:
							_vi25 = 0
						case <-_vc24:
							_vi25 = 1
						}
						verifsim.Yield("connectivity_check.go:759+")
					}
					switch _vi25 {
					case 0:
						return
					case 1:
					default:
						panic("verifsim: select dispatch: no case chosen")
					}
				}

			}
			_, _ = d.check(checkOpt, isResuscitation, cycle)
		})

		if err != nil {
			verifsim.Yield("connectivity_check.go:772")

			wg.Done()
			if stderrors.Is(err, ants.ErrPoolClosed) || stderrors.Is(err, ants.ErrPoolOverload) {
				continue
			}
			continue
		}
	}
}

func (d *Dialer) NotifyCheck() {
	{
		verifsim.Yield("connectivity_check.go:783")
		_vc27 := d.ctx.Done()
		_vi28 := -1
		for _, _vo29 := range verifsim.SelectOrder("connectivity_check.go:783", 1) {
			switch _vo29 {
			case 0:
				select {
				case <-_vc27:
					_vi28 = 0
				default:
				}
			}
			if _vi28 >= 0 {
				break
			}
		}
		switch _vi28 {
		case 0:
			return
		default:
		}
	}
	{
		verifsim.Yield("connectivity_check.go:789")
		_vc30 := d.checkCh
		_vs31 := time.Now()
		_vi32 := -1
		for _, _vo33 := range verifsim.SelectOrder("connectivity_check.go:789", 1) {
			switch _vo33 {
			case 0:
				select {
				case _vc30 <- _vs31:
					_vi32 = 0
				default:
				}
			}
			if _vi32 >= 0 {
				break
			}
		}
		switch _vi32 {
		case 0:
		default:
		}
	}

}

func (d *Dialer) NotifyCheckDnsUdp() {
	{
		verifsim.Yield("connectivity_check.go:798")
		_vc34 := d.ctx.Done()
		_vi35 := -1
		for _, _vo36 := range verifsim.SelectOrder("connectivity_check.go:798", 1) {
			switch _vo36 {
			case 0:
				select {
				case <-_vc34:
					_vi35 = 0
				default:
				}
			}
			if _vi35 >= 0 {
				break
			}
		}
		switch _vi35 {
		case 0:
			return
		default:
		}
	}

	now := time.Now().UnixNano()
	verifsim.Yield("connectivity_check.go:806")
	pre := d.lastNotifyUdp.Load()
	if now-pre < int64(2*time.Second) {
		return
	}
	verifsim.Yield("connectivity_check.go:810")
	if !d.lastNotifyUdp.CompareAndSwap(pre, now) {
		return
	}
	{
		verifsim.Yield("connectivity_check.go:814")
		_vc37 := d.checkDnsUdpCh
		_vs38 := struct{}{}
		_vi39 := -1
		for _, _vo40 := range verifsim.SelectOrder("connectivity_check.go:814", 1) {
			switch _vo40 {
			case 0:
				select {
				case _vc37 <- _vs38:
					_vi39 = 0
				default:
				}
			}
			if _vi39 >= 0 {
				break
			}
		}
		switch _vi39 {
		case 0:
		default:
		}
	}

}

func (d *Dialer) NotifyCheckTcp() {
	{
		verifsim.Yield("connectivity_check.go:822")
		_vc41 := d.ctx.Done()
		_vi42 := -1
		for _, _vo43 := range verifsim.SelectOrder("connectivity_check.go:822", 1) {
			switch _vo43 {
			case 0:
				select {
				case <-_vc41:
					_vi42 = 0
				default:
				}
			}
			if _vi42 >= 0 {
				break
			}
		}
		switch _vi42 {
		case 0:
			return
		default:
		}
	}

	now := time.Now().UnixNano()
	verifsim.Yield("connectivity_check.go:830")
	pre := d.lastNotifyTcp.Load()
	if now-pre < int64(2*time.Second) {
		return
	}
	verifsim.Yield("connectivity_check.go:834")
	if !d.lastNotifyTcp.CompareAndSwap(pre, now) {
		return
	}
	{
		verifsim.Yield("connectivity_check.go:838")
		_vc44 := d.checkTcpCh
		_vs45 := struct{}{}
		_vi46 := -1
		for _, _vo47 := range verifsim.SelectOrder("connectivity_check.go:838", 1) {
			switch _vo47 {
			case 0:
				select {
				case _vc44 <- _vs45:
					_vi46 = 0
				default:
				}
			}
			if _vi46 >= 0 {
				break
			}
		}
		switch _vi46 {
		case 0:
		default:
		}
	}

}

func (d *Dialer) MustGetLatencies10(typ *NetworkType) *LatenciesN {
	return d.mustGetCollection(typ).Latencies10
}

func (d *Dialer) RegisterAliveDialerSet(a *AliveDialerSet) {
	if a == nil {
		return
	}
	verifsim.Yield("connectivity_check.go:853")
	d.collectionFineMu.Lock()
	d.mustGetCollection(a.CheckTyp).AliveDialerSetSet[a]++
	d.collectionFineMu.Unlock()
}

func (d *Dialer) UnregisterAliveDialerSet(a *AliveDialerSet) {
	if a == nil {
		return
	}
	verifsim.Yield("connectivity_check.go:863")
	d.collectionFineMu.Lock()
	defer d.collectionFineMu.Unlock()
	setSet := d.mustGetCollection(a.CheckTyp).AliveDialerSetSet
	setSet[a]--
	if setSet[a] <= 0 {
		delete(setSet, a)
	}
}

func (d *Dialer) logUnavailable(
	network *NetworkType,
	err error,
) {
	if err != nil {

		if commonerrors.IsNetworkUnreachable(err) {
			err = fmt.Errorf("network is unreachable")
		} else if commonerrors.IsAddressNotSuitable(err) {
			err = fmt.Errorf("IPv%v is not supported", network.IpVersion)
		}
		d.Log.WithFields(logrus.Fields{
			"network":	network.String(),
			"node":		d.property.Name,
			"err":		err.Error(),
		}).Debugln("Connectivity Check Failed")
	}
}

func (d *Dialer) markUnavailable(typ *NetworkType) collectionUpdate {
	return d.markUnavailableInternal(typ, false, false)
}

func (d *Dialer) markUnavailableInternal(typ *NetworkType, force bool, isTraffic bool) collectionUpdate {
	verifsim.Yield("connectivity_check.go:897")
	d.collectionFineMu.Lock()
	idx := typ.Index()
	collection := d.collections[idx]
	if !force && proxyFailureSuppressedForReload() {
		verifsim.Yield("connectivity_check.go:901")
		update := collectionUpdate{
			alive:		collection.Alive.Load(),
			movingAverage:	collection.MovingAverage,
		}
		d.collectionFineMu.Unlock()
		if d.Log != nil && d.Log.IsLevelEnabled(logrus.DebugLevel) {
			nodeName := ""
			if d.property != nil {
				nodeName = d.property.Name
			}
			d.Log.WithFields(logrus.Fields{
				"network":	typ.String(),
				"node":		nodeName,
			}).Debugln("Suppressing dialer availability failure during reload handoff")
		}
		return update
	}

	threshold := 1
	switch typ.L4Proto {
	case consts.L4ProtoStr_UDP:
		if isTraffic {

			threshold = 50
		} else {

			threshold = 3
		}
	case consts.L4ProtoStr_TCP:
		if isTraffic {

			threshold = 10
		}
	}

	alive := false
	if !force {
		if isTraffic {
			verifsim.Yield("connectivity_check.go:944")
			d.trafficFailCount[idx].Add(1)
			verifsim.Yield("connectivity_check.go:945")
			if int(d.trafficFailCount[idx].Load()) < threshold {
				verifsim.Yield("connectivity_check.go:946")
				alive = collection.Alive.Load()
			}
		} else {
			d.failCount[idx]++
			if d.failCount[idx] < threshold {
				verifsim.Yield("connectivity_check.go:951")
				alive = collection.Alive.Load()
			}
		}
	} else {
		verifsim.Yield("connectivity_check.go:956")

		d.trafficFailCount[idx].Store(int32(threshold))
		d.failCount[idx] = threshold
	}
	verifsim.Yield("connectivity_check.go:959")
	wasAlive := collection.Alive.Load()
	verifsim.Yield("connectivity_check.go:960")
	collection.Alive.Store(alive)

	update := collectionUpdate{
		alive:			alive,
		movingAverage:		collection.MovingAverage,
		aliveDialerGroups:	d.snapshotAliveDialerGroupsLocked(collection),
	}
	d.collectionFineMu.Unlock()

	if wasAlive != alive {
		d.notifyAliveTransition(typ, alive)
	}

	if wasAlive && !alive && !force {
		d.NotifyHealthCheckResult(typ, false, false)
	}

	return update
}

func (d *Dialer) markAvailable(typ *NetworkType, latency time.Duration) (collectionUpdate, time.Duration) {
	verifsim.Yield("connectivity_check.go:984")
	d.collectionFineMu.Lock()
	idx := typ.Index()
	collection := d.collections[idx]

	d.failCount[idx] = 0
	verifsim.Yield("connectivity_check.go:990")
	d.trafficFailCount[idx].Store(0)

	collection.Latencies10.AppendLatency(latency)
	avg, _ := collection.Latencies10.AvgLatency()
	collection.MovingAverage = (collection.MovingAverage + latency) / 2
	verifsim.Yield("connectivity_check.go:995")
	wasAlive := collection.Alive.Swap(true)
	update := collectionUpdate{
		alive:			true,
		movingAverage:		collection.MovingAverage,
		aliveDialerGroups:	d.snapshotAliveDialerGroupsLocked(collection),
	}
	d.collectionFineMu.Unlock()

	isRevival := !wasAlive
	d.NotifyHealthCheckResult(typ, true, isRevival)
	if isRevival {
		d.notifyAliveTransition(typ, true)
	}

	return update, avg
}

func (d *Dialer) markAvailableTraffic(typ *NetworkType) collectionUpdate {
	verifsim.Yield("connectivity_check.go:1017")
	d.collectionFineMu.Lock()
	idx := typ.Index()
	collection := d.collections[idx]

	d.failCount[idx] = 0
	verifsim.Yield("connectivity_check.go:1022")
	d.trafficFailCount[idx].Store(0)
	verifsim.Yield("connectivity_check.go:1023")
	wasAlive := collection.Alive.Swap(true)
	update := collectionUpdate{
		alive:			true,
		movingAverage:		collection.MovingAverage,
		aliveDialerGroups:	d.snapshotAliveDialerGroupsLocked(collection),
	}
	d.collectionFineMu.Unlock()

	isRevival := !wasAlive
	d.NotifyHealthCheckResult(typ, true, isRevival)
	if isRevival {
		d.notifyAliveTransition(typ, true)
	}
	return update
}

func (d *Dialer) informDialerGroupUpdate(update collectionUpdate) {
	for _, a := range update.aliveDialerGroups {
		alive := update.alive
		for {
			a.NotifyLatencyChange(d, alive)

			cur := d.MustGetAlive(a.CheckTyp)
			if cur == alive {
				break
			}
			alive = cur
		}
	}
}

func (d *Dialer) shouldIgnoreAvailabilityError(typ *NetworkType, err error) bool {
	if !commonerrors.IsCanceledOrClosed(err) {
		return false
	}
	if d != nil && d.Log != nil && d.Log.IsLevelEnabled(logrus.DebugLevel) {
		nodeName := ""
		networkName := ""
		if d.property != nil {
			nodeName = d.property.Name
		}
		if typ != nil {
			networkName = typ.String()
		}
		d.Log.WithFields(logrus.Fields{
			"network":	networkName,
			"node":		nodeName,
			"err":		err.Error(),
		}).Debugln("Ignoring teardown-related dialer failure")
	}
	return true
}

func (d *Dialer) ReportUnavailable(typ *NetworkType, err error) {
	if d.shouldIgnoreAvailabilityError(typ, err) {
		return
	}
	d.logUnavailable(typ, err)
	d.informDialerGroupUpdate(d.markUnavailableInternal(typ, false, true))
}

func (d *Dialer) ReportUnavailableTransactional(typ *NetworkType, err error) {
	if d.shouldIgnoreAvailabilityError(typ, err) {
		return
	}
	d.logUnavailable(typ, err)
	d.informDialerGroupUpdate(d.markUnavailableInternal(typ, false, false))
}

func (d *Dialer) ReportUnavailableForced(typ *NetworkType, err error) {
	d.logUnavailable(typ, err)
	d.informDialerGroupUpdate(d.markUnavailableInternal(typ, true, true))
}

func (d *Dialer) ReportAvailableTraffic(typ *NetworkType) {
	idx := typ.Index()
	verifsim.Yield("connectivity_check.go:1102")
	if d.trafficFailCount[idx].Load() != 0 {
		verifsim.Yield("connectivity_check.go:1103")
		d.trafficFailCount[idx].Store(0)
	}
	if typ.L4Proto == consts.L4ProtoStr_UDP && typ.EffectiveUdpHealthDomain() == UdpHealthDomainData && !d.MustGetAlive(typ) {
		d.informDialerGroupUpdate(d.markAvailableTraffic(typ))
	}
}

func (d *Dialer) Check(opts *CheckOption) (ok bool, err error) {
	return d.check(opts, false, nil)
}

func (d *Dialer) check(opts *CheckOption, isResuscitation bool, cycle *cycleResult) (ok bool, err error) {
	const maxAttempts = 2
	var bestLatency time.Duration
	checkedAt := time.Now()

	for i := 0; i < maxAttempts; i++ {
		ctx, cancel := context.WithTimeout(d.ctx, Timeout)
		start := time.Now()
		ok, err = opts.CheckFunc(ctx, opts.networkType)
		latency := time.Since(start)
		checkedAt = time.Now()
		cancel()

		if ok && err == nil {
			bestLatency = latency
			break
		}
		if stderrors.Is(err, context.Canceled) {
			break
		}
		if err == nil {

			break
		}

	}
	if ok && err == nil {
		verifsim.Yield("connectivity_check.go:1143")
		d.collectionFineMu.Lock()
		collection := d.mustGetCollection(opts.networkType)
		collection.LastProbe = DialerProbeObservationSnapshot{
			CheckedAt:	checkedAt,
			Alive:		true,
			Latency:	bestLatency,
			HasLatency:	true,
			Message:	FormatLatencyMessage(&LatencyProbeResult{Alive: true, Latency: bestLatency}),
		}
		d.collectionFineMu.Unlock()

		update, avg := d.markAvailable(opts.networkType, bestLatency)

		if cycle != nil {
			verifsim.Yield("connectivity_check.go:1158")
			cycle.Lock()
			if opts.networkType.L4Proto == consts.L4ProtoStr_TCP {
				cycle.tcpSuccess = true
			} else {
				cycle.udpSuccess = true
			}
			cycle.Unlock()
		}

		fields := logrus.Fields{
			"network":	opts.networkType.String(),
			"node":		d.property.Name,
			"last":		bestLatency.Truncate(time.Millisecond).String(),
			"avg_10":	avg.Truncate(time.Millisecond),
			"mov_avg":	update.movingAverage.Truncate(time.Millisecond),
		}
		if isResuscitation {
			d.Log.WithFields(fields).Infof("%s resuscitated by emergency probe", strings.ToUpper(string(opts.networkType.L4Proto)))
		} else {
			d.Log.WithFields(fields).Debugln("Connectivity Check")
		}
		d.informDialerGroupUpdate(update)
	} else if err != nil && !stderrors.Is(err, context.Canceled) {
		verifsim.Yield("connectivity_check.go:1181")
		d.collectionFineMu.Lock()
		collection := d.mustGetCollection(opts.networkType)
		collection.LastProbe = DialerProbeObservationSnapshot{
			CheckedAt:	checkedAt,
			Alive:		false,
			Message:	err.Error(),
		}
		d.collectionFineMu.Unlock()

		d.logUnavailable(opts.networkType, err)
		d.informDialerGroupUpdate(d.markUnavailable(opts.networkType))

		if cycle != nil {
			verifsim.Yield("connectivity_check.go:1195")
			cycle.Lock()
			if opts.networkType.L4Proto == consts.L4ProtoStr_TCP {
				cycle.tcpFailure = true
			} else {
				cycle.udpFailure = true
			}
			cycle.Unlock()
		}
	}

	return ok, err
}

func (d *Dialer) HttpCheck(ctx context.Context, networkIdx int, u *netutils.URL, ip netip.Addr, method string, soMark uint32, mptcp bool) (ok bool, err error) {

	if method == "" {
		method = http.MethodGet
	}
	cli := d.GetHttpClient(networkIdx, ip, soMark, mptcp)
	req, err := http.NewRequestWithContext(ctx, method, u.String(), nil)
	if err != nil {
		return false, err
	}
	resp, err := cli.Do(req)
	if err != nil {
		var netErr net.Error
		if stderrors.As(err, &netErr); netErr.Timeout() {
			err = fmt.Errorf("timeout")
		}
		return false, err
	}
	defer func() { _ = resp.Body.Close() }()

	if page := path.Base(req.URL.Path); strings.HasPrefix(page, "generate_") {
		if strconv.Itoa(resp.StatusCode) != strings.TrimPrefix(page, "generate_") {
			b, _ := io.ReadAll(io.LimitReader(resp.Body, 4096))
			buf := pool.GetBuffer()
			defer pool.PutBuffer(buf)
			_ = resp.Request.Write(buf)
			d.Log.Debugln(buf.String(), "Resp: ", string(b))
			return false, fmt.Errorf("unexpected status code: %v", resp.StatusCode)
		}
		return true, nil
	} else {
		if resp.StatusCode < 200 || resp.StatusCode >= 500 {
			return false, fmt.Errorf("bad status code: %v", resp.StatusCode)
		}
		return true, nil
	}
}

func (d *Dialer) DnsCheck(ctx context.Context, dns netip.AddrPort, network string) (ok bool, err error) {
	addrs, err := netutils.ResolveNetip(ctx, d, dns, consts.UdpCheckLookupHost, dnsmessage.TypeA, network)
	if err != nil {
		return false, err
	}
	if len(addrs) == 0 {
		return false, fmt.Errorf("bad DNS response: no record")
	}
	return true, nil
}

type cycleResult struct {
	verifsim.Mutex
	tcpSuccess	bool
	tcpFailure	bool
	udpSuccess	bool
	udpFailure	bool
}
