package dialer

import (
	"sync"
	"sync/atomic"
	"time"

	stickyip "github.com/daeuniverse/outbound/dialer/stickyip"
)
import verifsim "github.com/daeuniverse/dae/internal/verifsim"

var _ = verifsim.Yield
var _ sync.Locker

type StickyIpDialer = stickyip.StickyIpDialer
type ProxyIpCache = stickyip.ProxyIpCache

var NewProxyIpCache = stickyip.NewProxyIpCache

var globalProxyIpCache = NewProxyIpCache()

type proxyIpCacheRegistry struct {
	verifsim.Mutex
	caches	map[string]map[*ProxyIpCache]int
}

var globalProxyIpCacheRegistry = &proxyIpCacheRegistry{
	caches: make(map[string]map[*ProxyIpCache]int),
}

func registerProxyCache(proxyAddr string, cache *ProxyIpCache) {
	if proxyAddr == "" || cache == nil || cache == globalProxyIpCache {
		return
	}
	verifsim.Yield("sticky_cache.go:39")
	globalProxyIpCacheRegistry.Lock()
	defer globalProxyIpCacheRegistry.Unlock()
	cacheSet := globalProxyIpCacheRegistry.caches[proxyAddr]
	if cacheSet == nil {
		cacheSet = make(map[*ProxyIpCache]int)
		globalProxyIpCacheRegistry.caches[proxyAddr] = cacheSet
	}
	cacheSet[cache]++
}

func unregisterProxyCache(proxyAddr string, cache *ProxyIpCache) {
	if proxyAddr == "" || cache == nil || cache == globalProxyIpCache {
		return
	}
	verifsim.Yield("sticky_cache.go:53")
	globalProxyIpCacheRegistry.Lock()
	defer globalProxyIpCacheRegistry.Unlock()
	cacheSet := globalProxyIpCacheRegistry.caches[proxyAddr]
	if cacheSet == nil {
		return
	}
	cacheSet[cache]--
	if cacheSet[cache] <= 0 {
		delete(cacheSet, cache)
	}
	if len(cacheSet) == 0 {
		delete(globalProxyIpCacheRegistry.caches, proxyAddr)
	}
}

func invalidateProxyCache(proxyAddr string) {
	globalProxyIpCache.Invalidate(proxyAddr)
	verifsim.Yield("sticky_cache.go:73")

	globalProxyIpCacheRegistry.Lock()
	cacheSet := globalProxyIpCacheRegistry.caches[proxyAddr]
	caches := make([]*ProxyIpCache, 0, len(cacheSet))
	for _, cache := range verifsim.SortedKeys(cacheSet) {
		if _, _vok1 := cacheSet[cache]; !_vok1 {
			continue
		}
		caches = append(caches, cache)
	}
	globalProxyIpCacheRegistry.Unlock()

	for _, cache := range caches {
		cache.Invalidate(proxyAddr)
	}
}

type proxyIpHealthTracker struct {
	verifsim.Mutex
	failures	map[string]proxyIpFailureEntry
	nextCleanupAt	time.Time
}

var globalProxyIpHealthTracker = &proxyIpHealthTracker{
	failures: make(map[string]proxyIpFailureEntry),
}

var reloadProxyFailureSuppression atomic.Int32
var reloadProxyFailureSuppressUntil atomic.Int64

type proxyIpFailureEntry struct {
	count		int32
	lastUpdated	time.Time
}

const (
	maxConsecutiveFailures		= 3
	proxyFailureTTL			= 15 * time.Minute
	proxyFailureCleanupInterval	= 5 * time.Minute
	reloadFailureQuiesce		= Timeout + 10*time.Second
)

func (t *proxyIpHealthTracker) maybeCleanupLocked(now time.Time) {
	if !t.nextCleanupAt.IsZero() && now.Before(t.nextCleanupAt) {
		return
	}
	for _, proxyAddr := range verifsim.SortedKeys(t.failures) {
		entry, _vok2 := t.failures[proxyAddr]
		if !_vok2 {
			continue
		}
		if now.Sub(entry.lastUpdated) >= proxyFailureTTL {
			delete(t.failures, proxyAddr)
		}
	}
	t.nextCleanupAt = now.Add(proxyFailureCleanupInterval)
}

func resetGlobalProxyState() {
	globalProxyIpCache = NewProxyIpCache()
	verifsim.Yield("sticky_cache.go:127")

	globalProxyIpCacheRegistry.Lock()
	globalProxyIpCacheRegistry.caches = make(map[string]map[*ProxyIpCache]int)
	globalProxyIpCacheRegistry.Unlock()
	verifsim.Yield("sticky_cache.go:131")

	globalProxyIpHealthTracker.Lock()
	globalProxyIpHealthTracker.failures = make(map[string]proxyIpFailureEntry)
	globalProxyIpHealthTracker.nextCleanupAt = time.Time{}
	globalProxyIpHealthTracker.Unlock()
}

func ResetGlobalProxyStateForReload() {
	resetGlobalProxyState()
}

func BeginReloadProxyFailureSuppression() {
	verifsim.Yield("sticky_cache.go:151")
	reloadProxyFailureSuppression.Add(1)
}

func EndReloadProxyFailureSuppression() {
	for {
		verifsim.Yield("sticky_cache.go:158")
		current := reloadProxyFailureSuppression.Load()
		if current <= 0 {
			return
		}
		verifsim.Yield("sticky_cache.go:162")
		if reloadProxyFailureSuppression.CompareAndSwap(current, current-1) {
			if current == 1 {
				verifsim.Yield("sticky_cache.go:164")
				reloadProxyFailureSuppressUntil.Store(time.Now().Add(reloadFailureQuiesce).UnixNano())
			}
			return
		}
	}
}

func proxyFailureSuppressedForReload() bool {
	verifsim.Yield("sticky_cache.go:172")
	if reloadProxyFailureSuppression.Load() > 0 {
		return true
	}
	verifsim.Yield("sticky_cache.go:175")
	return time.Now().UnixNano() < reloadProxyFailureSuppressUntil.Load()
}

func recordProxyFailure(proxyAddr string) bool {
	now := time.Now()
	verifsim.Yield("sticky_cache.go:183")

	globalProxyIpHealthTracker.Lock()
	globalProxyIpHealthTracker.maybeCleanupLocked(now)

	entry := globalProxyIpHealthTracker.failures[proxyAddr]
	entry.count++
	entry.lastUpdated = now

	if entry.count >= maxConsecutiveFailures {
		delete(globalProxyIpHealthTracker.failures, proxyAddr)
		globalProxyIpHealthTracker.Unlock()

		invalidateProxyCache(proxyAddr)
		return true
	}

	globalProxyIpHealthTracker.failures[proxyAddr] = entry
	globalProxyIpHealthTracker.Unlock()
	return false
}

func recordProxySuccess(proxyAddr string) {
	verifsim.Yield("sticky_cache.go:206")
	globalProxyIpHealthTracker.Lock()
	defer globalProxyIpHealthTracker.Unlock()
	delete(globalProxyIpHealthTracker.failures, proxyAddr)
}
