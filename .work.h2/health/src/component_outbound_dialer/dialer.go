package dialer

import (
	"context"
	"fmt"
	"net"
	"net/http"
	"net/netip"
	"sync"
	"sync/atomic"
	"time"
	"unsafe"

	"github.com/daeuniverse/dae/common"
	"github.com/daeuniverse/dae/common/consts"
	"github.com/daeuniverse/dae/component/daedns"
	"github.com/daeuniverse/dae/config"
	D "github.com/daeuniverse/outbound/dialer"
	stickyip "github.com/daeuniverse/outbound/dialer/stickyip"
	"github.com/daeuniverse/outbound/netproxy"
	"github.com/sirupsen/logrus"
)
import verifsim "github.com/daeuniverse/dae/internal/verifsim"

var _ = verifsim.Yield
var _ sync.Locker

const (
	IdxDnsTcp4	= 0
	IdxDnsTcp6	= 1
	IdxDnsUdp4	= 2
	IdxDnsUdp6	= 3
	IdxTcp4		= 4
	IdxTcp6		= 5
	IdxUdp4		= 6
	IdxUdp6		= 7

	idxTcp		= 0
	idxDnsUdp	= 1
	idxDataUdp	= 2
)

var (
	ErrUnexpectedField	= fmt.Errorf("unexpected field")
	ErrInvalidParameter	= fmt.Errorf("invalid parameters")
)

var cachedTimeNano atomic.Int64

func init() {
	verifsim.Yield("dialer.go:75")
	cachedTimeNano.Store(time.Now().UnixNano())
	verifsim.Go("dialer.go:76", func() {
		ticker := time.NewTicker(time.Second)
		verifsim.Yield("dialer.go:78")
		for range ticker.C {
			verifsim.Yield("dialer.go:78~")
			verifsim.Yield("dialer.go:79")
			cachedTimeNano.Store(time.Now().UnixNano())
		}
	})
}

func CachedTimeNano() int64 {
	return time.Now().UnixNano()

}

type Dialer struct {
	*GlobalOption
	InstanceOption
	netproxy.Dialer
	property	*Property

	collectionFineMu	verifsim.RWMutex
	collections		[8]*collection

	aliveTransitionMu		verifsim.RWMutex
	aliveTransitionCallbacks	[]func(networkType *NetworkType, alive bool)

	tickerMu	verifsim.Mutex
	ticker		*time.Timer
	checkCh		chan time.Time
	checkDnsUdpCh	chan struct{}	// trigger resuscitation for DNS-UDP collections (IPv4+v6)
	checkTcpCh	chan struct{}	// trigger resuscitation for all TCP collections (IPv4+v6)
	ctx		context.Context
	cancel		context.CancelFunc

	checkActivated	bool

	httpClients	map[string]*http.Client
	httpClientMu	verifsim.Mutex

	failCount		[8]int
	trafficFailCount	[8]atomic.Int32

	// reloadInheritedHealth defers the first health check after a warm reload.
	// The replacement generation already has a usable health snapshot; running
	// another cold-start probe immediately would amplify reload storms.
	reloadInheritedHealth	atomic.Bool

	// stickyIpDialer holds reference to the sticky IP wrapper for cache management
	// This is used for health check cycle management and failover tracking
	stickyIpDialer	*stickyip.StickyIpDialer
	proxyIpCache	*ProxyIpCache

	// recoveryState manages exponential backoff for recovery detection.
	// It is intentionally scoped to a single dialer instance so cloned or
	// recreated dialers start clean under their own health-check semantics.
	// Reload snapshots may explicitly restore this state into a replacement
	// dialer to keep health selection seamless across generations.
	// Domains:
	//   0: TCP
	//   1: DNS UDP
	//   2: Data UDP
	recoveryState	[3]dialerRecoveryState
	lastNotifyUdp	atomic.Int64
	lastNotifyTcp	atomic.Int64
	lastPunish	[3]atomic.Int64

	recoveryManagerMu	verifsim.Mutex
	recoveryManager		*dialerRecoveryManager
}

type DialerCollectionHealthSnapshot struct {
	Alive			bool
	MovingAverage		time.Duration
	Latencies		LatenciesNSnapshot
	LastProbe		DialerProbeObservationSnapshot
	FailCount		int
	TrafficFailCount	int32
}

type DialerProbeObservationSnapshot struct {
	CheckedAt	time.Time
	Alive		bool
	Latency		time.Duration
	HasLatency	bool
	Message		string
}

type DialerRecoveryHealthSnapshot struct {
	BackoffLevel		int
	StableSuccessCount	int
	PendingNetworkType	*NetworkType
	PendingConfirmDelay	time.Duration
	LastPunishUnixNano	int64
}

type DialerHealthSnapshot struct {
	Collections	[8]DialerCollectionHealthSnapshot
	Recovery	[3]DialerRecoveryHealthSnapshot
}

type GlobalOption struct {
	D.ExtraOption
	Log			*logrus.Logger
	DaeDNS			*daedns.Router
	TcpCheckOptionRaw	TcpCheckOptionRaw	// Lazy parse
	CheckDnsOptionRaw	CheckDnsOptionRaw	// Lazy parse
	CheckInterval		time.Duration
	CheckTolerance		time.Duration
	CheckDnsTcp		bool
	SoMarkFromDae		uint32
	Mptcp			bool
	// TransportCacheNamespace isolates process-global transport caches
	// across reload generations so a replacement control plane never reuses
	// transports bound to the previous generation's dialer lifecycle.
	TransportCacheNamespace	string
}

type InstanceOption struct {
	DisableCheck bool
}

type Property struct {
	D.Property
	SubscriptionTag	string
}

const (
	minRecoveryBackoff	= 10 * time.Second

	backoffMultiplier	= 2
)

type AliveDialerSetSet map[*AliveDialerSet]int

func NewGlobalOption(global *config.Global, log *logrus.Logger) *GlobalOption {
	soMarkFromDae := common.EffectiveSoMarkFromDae(global.SoMarkFromDae)
	return &GlobalOption{
		ExtraOption: D.ExtraOption{
			AllowInsecure:		global.AllowInsecure,
			TlsImplementation:	global.TlsImplementation,
			UtlsImitate:		global.UtlsImitate,
			BandwidthMaxTx:		global.BandwidthMaxTx,
			BandwidthMaxRx:		global.BandwidthMaxRx,
			TlsFragment:		global.TlsFragment,
			TlsFragmentLength:	global.TlsFragmentLength,
			TlsFragmentInterval:	global.TlsFragmentInterval,
			UDPHopInterval:		global.UDPHopInterval,
		},
		Log:				log,
		TcpCheckOptionRaw:		TcpCheckOptionRaw{Raw: global.TcpCheckUrl, Log: log, ResolverNetwork: common.MagicNetwork("udp", soMarkFromDae, global.Mptcp), Method: global.TcpCheckHttpMethod},
		CheckDnsOptionRaw:		CheckDnsOptionRaw{Raw: global.UdpCheckDns, ResolverNetwork: common.MagicNetwork("udp", soMarkFromDae, global.Mptcp), Somark: soMarkFromDae},
		CheckInterval:			global.CheckInterval,
		CheckTolerance:			global.CheckTolerance,
		CheckDnsTcp:			true,
		SoMarkFromDae:			soMarkFromDae,
		Mptcp:				global.Mptcp,
		TransportCacheNamespace:	newTransportCacheNamespace(),
	}
}

func NewDialer(dialer netproxy.Dialer, option *GlobalOption, iOption InstanceOption, property *Property) *Dialer {
	return NewDialerContext(context.Background(), dialer, option, iOption, property)
}

func NewDialerContext(ctx context.Context, dialer netproxy.Dialer, option *GlobalOption, iOption InstanceOption, property *Property) *Dialer {
	var collections [8]*collection
	for _, i := range []int{IdxDnsUdp4, IdxDnsUdp6, IdxTcp4, IdxTcp6, IdxUdp4, IdxUdp6} {
		collections[i] = newCollection()
	}
	collections[IdxDnsTcp4] = collections[IdxTcp4]
	collections[IdxDnsTcp6] = collections[IdxTcp6]

	ctx, cancel := context.WithCancel(ctx)
	d := &Dialer{
		GlobalOption:		option,
		InstanceOption:		iOption,
		property:		property,
		collectionFineMu:	verifsim.RWMutex{},
		collections:		collections,
		tickerMu:		verifsim.Mutex{},
		ticker:			nil,
		checkCh:		make(chan time.Time, 1),
		checkDnsUdpCh:		make(chan struct{}, 1),
		checkTcpCh:		make(chan struct{}, 1),
		ctx:			ctx,
		cancel:			cancel,
		httpClients:		make(map[string]*http.Client),
	}
	d.Dialer = dialer
	d.recoveryManager = newDialerRecoveryManager(d)

	d.initRecoveryDetection(option.CheckInterval)

	option.Log.WithField("dialer", d.Property().Name).
		WithField("p", unsafe.Pointer(d)).
		Traceln("NewDialer")
	return d
}

func (d *Dialer) Clone() *Dialer {
	return d.CloneWithGlobalOption(d.GlobalOption)
}

func (d *Dialer) CloneWithGlobalOption(option *GlobalOption) *Dialer {
	return d.CloneWithGlobalOptionContext(d.ctx, option)
}

func (d *Dialer) CloneWithGlobalOptionContext(ctx context.Context, option *GlobalOption) *Dialer {
	if d.property != nil && d.property.Link != "" {
		clone, err := NewFromLinkWithProxyCacheContext(ctx, option, d.InstanceOption, d.property.Link, d.property.SubscriptionTag, NewProxyIpCache())
		if err == nil {
			clone.property = cloneProperty(d.property)
			return clone
		}
		if option != nil && option.Log != nil {
			option.Log.WithError(err).
				WithField("dialer", d.Property().Name).
				Warnln("Failed to reconstruct dialer clone from link; falling back to shared dialer instance")
		}
	}

	clone := NewDialerContext(ctx, d.Dialer, option, d.InstanceOption, cloneProperty(d.property))
	clone.stickyIpDialer = d.stickyIpDialer
	clone.proxyIpCache = d.proxyIpCache
	return clone
}

func (d *Dialer) Close() error {
	d.cancel()
	if d.property != nil {
		unregisterProxyCache(d.property.Address, d.proxyIpCache)
	}

	d.cancelPendingRecoveryConfirmation(consts.L4ProtoStr_TCP)
	d.cancelPendingRecoveryConfirmationForType(&NetworkType{
		L4Proto:		consts.L4ProtoStr_UDP,
		IpVersion:		consts.IpVersionStr_4,
		IsDns:			true,
		UdpHealthDomain:	UdpHealthDomainDns,
	})
	d.cancelPendingRecoveryConfirmationForType(&NetworkType{
		L4Proto:		consts.L4ProtoStr_UDP,
		IpVersion:		consts.IpVersionStr_4,
		UdpHealthDomain:	UdpHealthDomainData,
	})
	verifsim.Yield("dialer.go:331")

	d.tickerMu.Lock()
	if d.ticker != nil {
		d.ticker.Stop()
	}
	d.tickerMu.Unlock()
	verifsim.Yield("dialer.go:337")

	d.httpClientMu.Lock()
	for _, k := range verifsim.SortedKeys(d.httpClients) {
		cli, _vok1 := d.httpClients[k]
		if !_vok1 {
			continue
		}
		if cli != nil {
			cli.CloseIdleConnections()

			if t, ok := cli.Transport.(*http.Transport); ok {
				t.CloseIdleConnections()
			}
			delete(d.httpClients, k)
		}
	}
	d.httpClientMu.Unlock()

	if closer, ok := d.Dialer.(interface{ Close() error }); ok {
		_ = closer.Close()
	}

	return nil
}

func (d *Dialer) Property() *Property {
	return d.property
}

func cloneProperty(property *Property) *Property {
	if property == nil {
		return nil
	}
	cloned := *property
	return &cloned
}

func (d *Dialer) RegisterAliveTransitionCallback(callback func(networkType *NetworkType, alive bool)) {
	if callback == nil {
		return
	}
	verifsim.Yield("dialer.go:375")
	d.aliveTransitionMu.Lock()
	d.aliveTransitionCallbacks = append(d.aliveTransitionCallbacks, callback)
	d.aliveTransitionMu.Unlock()
}

func (d *Dialer) notifyAliveTransition(networkType *NetworkType, alive bool) {
	verifsim.Yield("dialer.go:381")
	d.aliveTransitionMu.RLock()
	if len(d.aliveTransitionCallbacks) == 0 {
		d.aliveTransitionMu.RUnlock()
		return
	}
	callbacks := append([]func(networkType *NetworkType, alive bool){}, d.aliveTransitionCallbacks...)
	d.aliveTransitionMu.RUnlock()

	networkTypeCopy := *networkType
	for _, callback := range callbacks {
		callback(&networkTypeCopy, alive)
	}
}

func networkTypeForCollectionIndex(idx int) *NetworkType {
	switch idx {
	case IdxDnsTcp4:
		return &NetworkType{L4Proto: consts.L4ProtoStr_TCP, IpVersion: consts.IpVersionStr_4, IsDns: true}
	case IdxDnsTcp6:
		return &NetworkType{L4Proto: consts.L4ProtoStr_TCP, IpVersion: consts.IpVersionStr_6, IsDns: true}
	default:
		if key, ok := HealthKeyFromCollectionIndex(idx); ok {
			return key.NetworkType()
		}
		return nil
	}
}

func cloneNetworkType(networkType *NetworkType) *NetworkType {
	if networkType == nil {
		return nil
	}
	cloned := *networkType
	return &cloned
}

func networkTypesEqual(a, b *NetworkType) bool {
	if a == nil || b == nil {
		return a == b
	}
	return *a == *b
}

type dialerRecoveryState struct {
	verifsim.Mutex

	// backoffLevel indicates current backoff level (0, 1, 2, 3...)
	// Backoff duration = minBackoff * (2 ^ level), capped at maxBackoff
	backoffLevel	int

	// stableSuccessCount is the number of consecutive stable periodic checks
	// When this reaches 6, backoffLevel is decremented.
	stableSuccessCount	int

	// maxBackoff is the maximum backoff duration, calculated based on check interval
	// This is set during initialization and prevents overlap with health checks
	maxBackoff	time.Duration

	// confirmTimer is the scheduled timer to confirm recovery after backoff period
	confirmTimer	*time.Timer

	// pendingNetworkType is the network type being verified for recovery
	pendingNetworkType	*NetworkType

	// confirmDeadlineUnixNano tracks when the current confirmation timer
	// should fire so reload snapshots can restore the remaining delay.
	confirmDeadlineUnixNano	int64

	// confirmSequence uniquely identifies the currently pending confirmation timer.
	// It is incremented under the state lock every time a new confirmation is armed.
	confirmSequence	uint64
}

func (s *dialerRecoveryState) nextConfirmSequenceLocked() uint64 {
	s.confirmSequence++
	if s.confirmSequence == 0 {
		s.confirmSequence = 1
	}
	return s.confirmSequence
}

func (d *Dialer) HealthSnapshot() DialerHealthSnapshot {
	var snapshot DialerHealthSnapshot
	if d == nil {
		return snapshot
	}
	verifsim.Yield("dialer.go:468")

	d.collectionFineMu.RLock()
	defer d.collectionFineMu.RUnlock()
	for idx, collection := range d.collections {
		if collection == nil {
			continue
		}
		verifsim.Yield("dialer.go:474")
		snapshot.Collections[idx] = DialerCollectionHealthSnapshot{
			Alive:			collection.Alive.Load(),
			MovingAverage:		collection.MovingAverage,
			Latencies:		collection.Latencies10.Snapshot(),
			LastProbe:		collection.LastProbe,
			FailCount:		d.failCount[idx],
			TrafficFailCount:	d.trafficFailCount[idx].Load(),
		}
	}
	snapshot.Recovery = d.ensureRecoveryManager().snapshot(time.Now().UnixNano())
	return snapshot
}

func (d *Dialer) ReloadHealthSnapshot() DialerHealthSnapshot {
	snapshot := d.HealthSnapshot()
	for idx := range snapshot.Collections {
		collection := &snapshot.Collections[idx]
		collection.FailCount = 0
		collection.TrafficFailCount = 0
	}
	snapshot.Recovery = [3]DialerRecoveryHealthSnapshot{}
	return snapshot
}

func (d *Dialer) RestoreHealthSnapshot(snapshot DialerHealthSnapshot) {
	if d == nil {
		return
	}

	type restoreUpdate struct {
		typ	*NetworkType
		was	bool
		alive	bool
		groups	[]*AliveDialerSet
	}

	allAlive := true
	updates := make([]restoreUpdate, 0, len(d.collections))
	verifsim.Yield("dialer.go:517")
	d.collectionFineMu.Lock()
	for idx, collection := range d.collections {
		if collection == nil {
			continue
		}
		s := snapshot.Collections[idx]
		verifsim.Yield("dialer.go:523")
		wasAlive := collection.Alive.Load()
		verifsim.Yield("dialer.go:524")
		collection.Alive.Store(s.Alive)
		collection.MovingAverage = s.MovingAverage
		collection.Latencies10.Restore(s.Latencies)
		collection.LastProbe = s.LastProbe
		d.failCount[idx] = s.FailCount
		verifsim.Yield("dialer.go:529")
		d.trafficFailCount[idx].Store(s.TrafficFailCount)
		if !s.Alive {
			allAlive = false
		}
		updates = append(updates, restoreUpdate{
			typ:	networkTypeForCollectionIndex(idx),
			was:	wasAlive,
			alive:	s.Alive,
			groups:	d.snapshotAliveDialerGroupsLocked(collection),
		})
	}
	d.collectionFineMu.Unlock()

	if allAlive {
		verifsim.Yield("dialer.go:547")
		d.reloadInheritedHealth.Store(true)
	}

	for _, update := range updates {
		for _, a := range update.groups {
			a.NotifyLatencyChange(d, update.alive)
		}
		if update.typ != nil && update.was != update.alive {
			d.notifyAliveTransition(update.typ, update.alive)
		}
	}

	d.ensureRecoveryManager().restore(snapshot.Recovery)
}

func (d *Dialer) MarkAliveForReloadFallback(typ *NetworkType) {
	if d == nil || typ == nil {
		return
	}
	verifsim.Yield("dialer.go:568")
	d.reloadInheritedHealth.Store(true)

	type restoreUpdate struct {
		typ	*NetworkType
		was	bool
		groups	[]*AliveDialerSet
	}

	idx := typ.Index()
	verifsim.Yield("dialer.go:577")
	d.collectionFineMu.Lock()
	collection := d.collections[idx]
	if collection == nil {
		d.collectionFineMu.Unlock()
		return
	}
	verifsim.Yield("dialer.go:583")
	wasAlive := collection.Alive.Load()
	verifsim.Yield("dialer.go:584")
	collection.Alive.Store(true)
	d.failCount[idx] = 0
	verifsim.Yield("dialer.go:586")
	d.trafficFailCount[idx].Store(0)
	update := restoreUpdate{
		typ:	cloneNetworkType(typ),
		was:	wasAlive,
		groups:	d.snapshotAliveDialerGroupsLocked(collection),
	}
	d.collectionFineMu.Unlock()

	for _, a := range update.groups {
		a.NotifyLatencyChange(d, true)
	}
	if update.typ != nil && !update.was {
		d.notifyAliveTransition(update.typ, true)
	}
}

func (d *Dialer) IncrementCheckCycle() {
	if d.stickyIpDialer != nil {
		d.stickyIpDialer.IncrementCheckCycle()
	}
}

func (d *Dialer) NotifyHealthCheckResult(typ *NetworkType, success bool, isRevival bool) {
	if success {

		if d.property.Address != "" {
			recordProxySuccess(d.property.Address)
		}
		verifsim.Yield("dialer.go:621")

		notifyQuicDcidCacheClearImpl.Load().(func())()

		if isRevival {
			d.triggerRecoveryDetection(typ)
		}
	} else {

		d.incrementBackoffLevelForType(typ)

		d.resetStabilityCountForType(typ)

		d.cancelPendingRecoveryConfirmationForType(typ)

		if d.property.Address != "" {
			if proxyFailureSuppressedForReload() {
				if d.Log != nil && d.Log.IsLevelEnabled(logrus.DebugLevel) {
					d.Log.WithField("dialer", d.property.Name).
						Debugln("Suppressing proxy failure promotion during reload handoff")
				}
			} else if recordProxyFailure(d.property.Address) {

				d.markUnavailableFromProxyFailure()
			}
		}
	}
}

func (d *Dialer) recoveryIdxForType(typ *NetworkType) int {
	return d.ensureRecoveryManager().indexForType(typ)
}

func (d *Dialer) protoIdx(proto consts.L4ProtoStr) int {
	return d.ensureRecoveryManager().indexForProto(proto)
}

func (d *Dialer) NotifyProxyFailure(proxyAddr string, networkType *NetworkType) {
	if d.stickyIpDialer == nil {
		return
	}
	if networkType == nil {
		return
	}
	if networkType.IpVersion != "" {
		d.stickyIpDialer.InvalidateProtocolAndIpVersionCache(proxyAddr, string(networkType.L4Proto), string(networkType.IpVersion))
		return
	}
	d.stickyIpDialer.InvalidateProtocolCache(proxyAddr, string(networkType.L4Proto))
}

var defaultNotifyQuicDcidCacheClearImpl = func() {}
var notifyQuicDcidCacheClearImpl atomic.Value

func init() {
	verifsim.Yield("dialer.go:685")
	notifyQuicDcidCacheClearImpl.Store(defaultNotifyQuicDcidCacheClearImpl)
}

func SetQuicDcidCacheClearFunc(fn func()) {
	if fn == nil {
		fn = defaultNotifyQuicDcidCacheClearImpl
	}
	verifsim.Yield("dialer.go:694")
	notifyQuicDcidCacheClearImpl.Store(fn)
}

func (d *Dialer) initRecoveryDetection(checkInterval time.Duration) {
	d.ensureRecoveryManager().init(checkInterval)
}

func (d *Dialer) triggerRecoveryDetection(typ *NetworkType) {
	d.ensureRecoveryManager().trigger(typ)
}

func (d *Dialer) confirmRecovery(networkType *NetworkType, confirmSequence uint64) {
	d.ensureRecoveryManager().confirm(networkType, confirmSequence)
}

func (d *Dialer) cancelPendingRecoveryConfirmation(proto consts.L4ProtoStr) {
	protoIdx := d.protoIdx(proto)
	d.cancelPendingRecoveryConfirmationByIndex(protoIdx, proto)
}

func (d *Dialer) cancelPendingRecoveryConfirmationForType(typ *NetworkType) {
	if typ == nil {
		return
	}
	protoIdx := d.recoveryIdxForType(typ)
	d.cancelPendingRecoveryConfirmationByIndex(protoIdx, typ.L4Proto)
}

func (d *Dialer) cancelPendingRecoveryConfirmationByIndex(protoIdx int, proto consts.L4ProtoStr) {
	d.ensureRecoveryManager().cancelPendingConfirmationByIndex(protoIdx, proto)
}

func (d *Dialer) getRecoveryBackoffDurationByIndex(protoIdx int) time.Duration {
	return d.ensureRecoveryManager().getRecoveryBackoffDurationByIndex(protoIdx)
}

func (d *Dialer) calculateBackoffDurationLocked(level int, maxBackoff time.Duration) time.Duration {

	duration := minRecoveryBackoff
	for i := 0; i < level; i++ {
		duration *= time.Duration(backoffMultiplier)
		if duration >= maxBackoff {
			return maxBackoff
		}
	}

	if duration > maxBackoff {
		duration = maxBackoff
	}

	return duration
}

func (d *Dialer) resetStabilityCountForType(typ *NetworkType) {
	if typ == nil {
		return
	}
	d.resetStabilityCountByIndex(d.recoveryIdxForType(typ))
}

func (d *Dialer) resetStabilityCountByIndex(protoIdx int) {
	d.ensureRecoveryManager().resetStabilityCountByIndex(protoIdx)
}

const maxBackoffLevel = 6

func (d *Dialer) incrementBackoffLevelForType(typ *NetworkType) {
	if typ == nil {
		return
	}
	d.incrementBackoffLevelByIndex(d.recoveryIdxForType(typ))
}

func (d *Dialer) incrementBackoffLevelByIndex(protoIdx int) {
	d.ensureRecoveryManager().incrementBackoffLevelByIndex(protoIdx)
}

func (d *Dialer) GetBackoffLevel(proto consts.L4ProtoStr) int {
	protoIdx := d.protoIdx(proto)
	return d.getBackoffLevelByIndex(protoIdx)
}

func (d *Dialer) getBackoffLevelByIndex(protoIdx int) int {
	return d.ensureRecoveryManager().getBackoffLevelByIndex(protoIdx)
}

func (d *Dialer) GetBackoffPenalty(proto consts.L4ProtoStr) time.Duration {
	protoIdx := d.protoIdx(proto)
	return d.getBackoffPenaltyByIndex(protoIdx)
}

func (d *Dialer) getBackoffPenaltyForType(typ *NetworkType) time.Duration {
	if typ == nil {
		return 0
	}
	return d.getBackoffPenaltyByIndex(d.recoveryIdxForType(typ))
}

func (d *Dialer) getBackoffPenaltyByIndex(protoIdx int) time.Duration {
	return d.ensureRecoveryManager().getBackoffPenaltyByIndex(protoIdx)
}

func (d *Dialer) NotifyPeriodicCheckResult(proto consts.L4ProtoStr, success bool, failure bool) {
	protoIdx := d.protoIdx(proto)
	d.notifyPeriodicCheckResultByIndex(protoIdx, proto, success, failure)
}

func (d *Dialer) NotifyPeriodicCheckResultForType(typ *NetworkType, success bool, failure bool) {
	if typ == nil {
		return
	}
	d.notifyPeriodicCheckResultByIndex(d.recoveryIdxForType(typ), typ.L4Proto, success, failure)
}

func (d *Dialer) notifyPeriodicCheckResultByIndex(protoIdx int, proto consts.L4ProtoStr, success bool, failure bool) {
	d.ensureRecoveryManager().notifyPeriodicCheckResultByIndex(protoIdx, proto, success, failure)
}

func (d *Dialer) markUnavailableFromProxyFailure() {
	d.Log.WithFields(logrus.Fields{
		"dialer": d.Property().Name,
	}).Warnln("Marking dialer as unavailable due to persistent proxy IP failures")

	for _, networkType := range []*NetworkType{
		{L4Proto: consts.L4ProtoStr_TCP, IpVersion: consts.IpVersionStr_4},
		{L4Proto: consts.L4ProtoStr_TCP, IpVersion: consts.IpVersionStr_6},
		{L4Proto: consts.L4ProtoStr_UDP, IpVersion: consts.IpVersionStr_4, UdpHealthDomain: UdpHealthDomainDns, IsDns: true},
		{L4Proto: consts.L4ProtoStr_UDP, IpVersion: consts.IpVersionStr_6, UdpHealthDomain: UdpHealthDomainDns, IsDns: true},
		{L4Proto: consts.L4ProtoStr_UDP, IpVersion: consts.IpVersionStr_4, UdpHealthDomain: UdpHealthDomainData},
		{L4Proto: consts.L4ProtoStr_UDP, IpVersion: consts.IpVersionStr_6, UdpHealthDomain: UdpHealthDomainData},
	} {
		d.ReportUnavailableForced(networkType, nil)
	}

	for _, recovery := range []struct {
		idx	int
		proto	consts.L4ProtoStr
	}{
		{idx: idxTcp, proto: consts.L4ProtoStr_TCP},
		{idx: idxDnsUdp, proto: consts.L4ProtoStr_UDP},
		{idx: idxDataUdp, proto: consts.L4ProtoStr_UDP},
	} {
		d.incrementBackoffLevelByIndex(recovery.idx)
		d.resetStabilityCountByIndex(recovery.idx)
		d.cancelPendingRecoveryConfirmationByIndex(recovery.idx, recovery.proto)
	}
}

func (d *Dialer) isRecoveryTypeAlive(networkType *NetworkType) bool {
	if networkType == nil {
		return false
	}
	v4 := &NetworkType{
		L4Proto:		networkType.L4Proto,
		IpVersion:		consts.IpVersionStr_4,
		IsDns:			networkType.IsDns,
		UdpHealthDomain:	networkType.EffectiveUdpHealthDomain(),
	}
	v6 := &NetworkType{
		L4Proto:		networkType.L4Proto,
		IpVersion:		consts.IpVersionStr_6,
		IsDns:			networkType.IsDns,
		UdpHealthDomain:	networkType.EffectiveUdpHealthDomain(),
	}
	return d.MustGetAlive(v4) || d.MustGetAlive(v6)
}

func (d *Dialer) GetHttpClient(idx int, ip netip.Addr, soMark uint32, mptcp bool) *http.Client {
	if d == nil {
		return nil
	}

	key := fmt.Sprintf("%d-%s", idx, ip.String())
	verifsim.Yield("dialer.go:892")
	d.httpClientMu.Lock()
	defer d.httpClientMu.Unlock()

	if cli, ok := d.httpClients[key]; ok {
		return cli
	}

	cli := &http.Client{
		Transport: &http.Transport{
			DialContext: func(reqCtx context.Context, network, addr string) (c net.Conn, err error) {
				verifsim.Yield("dialer.go:903")

				if d == nil || d.ctx == nil || d.ctx.Err() != nil {
					return nil, context.Canceled
				}

				if d.Dialer == nil {
					return nil, fmt.Errorf("dialer de-initialized")
				}

				_, port, _ := net.SplitHostPort(addr)
				addr = net.JoinHostPort(ip.String(), port)

				conn, err := d.DialContext(reqCtx, common.MagicNetwork("tcp", soMark, mptcp), addr)
				if err != nil {
					return nil, err
				}
				return &netproxy.FakeNetConn{
					Conn:	conn,
					LAddr:	nil,
					RAddr:	nil,
				}, nil
			},

			TLSHandshakeTimeout:	10 * time.Second,

			IdleConnTimeout:	90 * time.Second,
			ResponseHeaderTimeout:	30 * time.Second,

			MaxIdleConnsPerHost:	2,

			DisableCompression:	true,
		},
	}
	d.httpClients[key] = cli
	return cli
}
