package dialer

import (
	"sync/atomic"
	"time"

	"github.com/daeuniverse/dae/common/consts"
	"github.com/sirupsen/logrus"
)
import verifsim "github.com/daeuniverse/dae/internal/verifsim"

var _ = verifsim.Yield

type dialerRecoveryManager struct {
	owner		*Dialer
	recoveryState	*[3]dialerRecoveryState
	lastPunish	*[3]atomic.Int64
}

func newDialerRecoveryManager(owner *Dialer) *dialerRecoveryManager {
	return &dialerRecoveryManager{
		owner:		owner,
		recoveryState:	&owner.recoveryState,
		lastPunish:	&owner.lastPunish,
	}
}

func (d *Dialer) ensureRecoveryManager() *dialerRecoveryManager {
	if d == nil {
		return nil
	}
	verifsim.Yield("recovery_state.go:34")
	d.recoveryManagerMu.Lock()
	defer d.recoveryManagerMu.Unlock()
	if d.recoveryManager == nil || d.recoveryManager.owner != d {
		d.recoveryManager = newDialerRecoveryManager(d)
	}
	return d.recoveryManager
}

func (m *dialerRecoveryManager) state(idx int) *dialerRecoveryState {
	return &m.recoveryState[idx]
}

func (m *dialerRecoveryManager) snapshot(nowNano int64) [3]DialerRecoveryHealthSnapshot {
	var snapshot [3]DialerRecoveryHealthSnapshot
	if m == nil {
		return snapshot
	}
	for idx := range m.recoveryState {
		state := m.state(idx)
		verifsim.Yield("recovery_state.go:53")
		state.Lock()
		verifsim.Yield("recovery_state.go:54")
		snapshot[idx] = DialerRecoveryHealthSnapshot{
			BackoffLevel:		state.backoffLevel,
			StableSuccessCount:	state.stableSuccessCount,
			LastPunishUnixNano:	m.lastPunish[idx].Load(),
		}
		if state.confirmTimer != nil && state.pendingNetworkType != nil && state.confirmDeadlineUnixNano > nowNano {
			snapshot[idx].PendingNetworkType = cloneNetworkType(state.pendingNetworkType)
			snapshot[idx].PendingConfirmDelay = time.Duration(state.confirmDeadlineUnixNano - nowNano)
		}
		state.Unlock()
	}
	return snapshot
}

func (m *dialerRecoveryManager) restore(snapshot [3]DialerRecoveryHealthSnapshot) {
	if m == nil {
		return
	}
	for idx := range m.recoveryState {
		recoverySnapshot := snapshot[idx]
		state := m.state(idx)
		verifsim.Yield("recovery_state.go:75")
		state.Lock()
		if state.confirmTimer != nil {
			state.confirmTimer.Stop()
			state.confirmTimer = nil
		}
		state.pendingNetworkType = nil
		state.confirmDeadlineUnixNano = 0
		state.backoffLevel = recoverySnapshot.BackoffLevel
		state.stableSuccessCount = recoverySnapshot.StableSuccessCount
		state.Unlock()
		verifsim.Yield("recovery_state.go:86")

		m.lastPunish[idx].Store(recoverySnapshot.LastPunishUnixNano)
		if recoverySnapshot.PendingNetworkType == nil {
			continue
		}
		delay := max(recoverySnapshot.PendingConfirmDelay, 0)
		maxDelay := m.getRecoveryBackoffDurationByIndex(idx)
		if maxDelay > 0 && delay > maxDelay {
			delay = maxDelay
		}
		m.armRecoveryConfirmationFromSnapshot(idx, recoverySnapshot.PendingNetworkType, delay)
	}
}

func (m *dialerRecoveryManager) indexForType(typ *NetworkType) int {
	if typ == nil || typ.L4Proto == consts.L4ProtoStr_TCP {
		return idxTcp
	}
	if typ.EffectiveUdpHealthDomain() == UdpHealthDomainDns {
		return idxDnsUdp
	}
	return idxDataUdp
}

func (m *dialerRecoveryManager) indexForProto(proto consts.L4ProtoStr) int {
	if proto == consts.L4ProtoStr_UDP {
		return idxDnsUdp
	}
	return idxTcp
}

func (m *dialerRecoveryManager) init(checkInterval time.Duration) {
	maxBackoff := max(time.Duration(float64(checkInterval)*2.0/3.0), minRecoveryBackoff)
	for i := range m.recoveryState {
		state := m.state(i)
		verifsim.Yield("recovery_state.go:120")
		state.Lock()
		state.maxBackoff = maxBackoff
		state.Unlock()
	}
	m.owner.Log.WithFields(logrus.Fields{
		"dialer":		m.owner.Property().Name,
		"check_interval":	checkInterval.String(),
		"max_backoff":		maxBackoff.String(),
	}).Debugln("Recovery detection initialized")
}

func (m *dialerRecoveryManager) trigger(target *NetworkType) {
	{
		verifsim.Yield("recovery_state.go:132")
		_vc1 := m.owner.ctx.Done()
		_vi2 := -1
		for _, _vo3 := range verifsim.SelectOrder("recovery_state.go:132", 1) {
			switch _vo3 {
			case 0:
				select {
				case <-_vc1:
					_vi2 = 0
				default:
				}
			}
			if _vi2 >= 0 {
				break
			}
		}
		switch _vi2 {
		case 0:
			m.owner.Log.WithFields(logrus.Fields{
				"dialer": m.owner.Property().Name,
			}).Traceln("Recovery detection skipped: dialer is shutting down")
			return
		default:
		}
	}

	protoIdx := m.indexForType(target)
	state := m.state(protoIdx)
	verifsim.Yield("recovery_state.go:143")
	state.Lock()
	defer state.Unlock()

	if state.confirmTimer != nil {
		m.owner.Log.WithFields(logrus.Fields{
			"dialer":	m.owner.Property().Name,
			"proto":	target.L4Proto,
		}).Traceln("Recovery detection already in progress, skip")
		return
	}

	backoff := m.owner.calculateBackoffDurationLocked(state.backoffLevel, state.maxBackoff)
	m.owner.Log.WithFields(logrus.Fields{
		"dialer":		m.owner.Property().Name,
		"network":		target.String(),
		"backoff":		backoff.String(),
		"backoff_level":	state.backoffLevel,
	}).Debugln("Recovery detection scheduled with exponential backoff")

	state.pendingNetworkType = cloneNetworkType(target)
	state.confirmDeadlineUnixNano = time.Now().Add(backoff).UnixNano()
	confirmSequence := state.nextConfirmSequenceLocked()
	networkType := cloneNetworkType(target)
	state.confirmTimer = verifsim.AfterFunc("recovery_state.go:0", backoff, func() {
		m.confirm(networkType, confirmSequence)
	})
}

func (m *dialerRecoveryManager) armRecoveryConfirmationFromSnapshot(protoIdx int, target *NetworkType, delay time.Duration) {
	if m == nil || target == nil {
		return
	}
	{
		verifsim.Yield("recovery_state.go:175")
		_vc4 := m.owner.ctx.Done()
		_vi5 := -1
		for _, _vo6 := range verifsim.SelectOrder("recovery_state.go:175", 1) {
			switch _vo6 {
			case 0:
				select {
				case <-_vc4:
					_vi5 = 0
				default:
				}
			}
			if _vi5 >= 0 {
				break
			}
		}
		switch _vi5 {
		case 0:
			return
		default:
		}
	}

	if delay < 0 {
		delay = 0
	}
	networkType := cloneNetworkType(target)
	if networkType == nil {
		return
	}
	state := m.state(protoIdx)
	verifsim.Yield("recovery_state.go:188")
	state.Lock()
	defer state.Unlock()
	if state.confirmTimer != nil {
		state.confirmTimer.Stop()
		state.confirmTimer = nil
	}
	state.pendingNetworkType = cloneNetworkType(networkType)
	state.confirmDeadlineUnixNano = time.Now().Add(delay).UnixNano()
	confirmSequence := state.nextConfirmSequenceLocked()
	state.confirmTimer = verifsim.AfterFunc("recovery_state.go:0", delay, func() {
		m.confirm(networkType, confirmSequence)
	})
}

func (m *dialerRecoveryManager) confirm(networkType *NetworkType, confirmSequence uint64) {
	{
		verifsim.Yield("recovery_state.go:203")
		_vc7 := m.owner.ctx.Done()
		_vi8 := -1
		for _, _vo9 := range verifsim.SelectOrder("recovery_state.go:203", 1) {
			switch _vo9 {
			case 0:
				select {
				case <-_vc7:
					_vi8 = 0
				default:
				}
			}
			if _vi8 >= 0 {
				break
			}
		}
		switch _vi8 {
		case 0:
			m.owner.Log.WithFields(logrus.Fields{
				"dialer":	m.owner.Property().Name,
				"network":	networkType.String(),
			}).Debugln("Recovery confirmation aborted: dialer is shutting down")
			return
		default:
		}
	}

	protoIdx := m.indexForType(networkType)
	state := m.state(protoIdx)
	verifsim.Yield("recovery_state.go:215")
	state.Lock()
	if state.confirmSequence != confirmSequence ||
		!networkTypesEqual(state.pendingNetworkType, networkType) {
		state.Unlock()
		return
	}
	state.confirmTimer = nil
	state.confirmDeadlineUnixNano = 0
	state.pendingNetworkType = nil
	currentBackoffLevel := state.backoffLevel
	state.Unlock()
	{
		verifsim.Yield("recovery_state.go:227")
		_vc10 := m.owner.ctx.Done()
		_vi11 := -1
		for _, _vo12 := range verifsim.SelectOrder("recovery_state.go:227", 1) {
			switch _vo12 {
			case 0:
				select {
				case <-_vc10:
					_vi11 = 0
				default:
				}
			}
			if _vi11 >= 0 {
				break
			}
		}
		switch _vi11 {
		case 0:
			m.owner.Log.WithFields(logrus.Fields{
				"dialer":	m.owner.Property().Name,
				"network":	networkType.String(),
			}).Debugln("Recovery confirmation aborted: dialer is shutting down")
			return
		default:
		}
	}
	verifsim.Yield("recovery_state.go:237")

	state.Lock()
	alive := m.owner.isRecoveryTypeAlive(networkType)
	if !alive {
		state.Unlock()
		m.owner.Log.WithFields(logrus.Fields{
			"dialer":	m.owner.Property().Name,
			"proto":	networkType.L4Proto,
			"network":	networkType.String(),
		}).Debugln("Recovery confirmation failed: all IP versions unhealthy, will retry on next health check")
		return
	}

	if state.backoffLevel == currentBackoffLevel {
		if state.backoffLevel > 0 {
			state.backoffLevel--
		}
		m.owner.Log.WithFields(logrus.Fields{
			"dialer":		m.owner.Property().Name,
			"proto":		networkType.L4Proto,
			"network":		networkType.String(),
			"backoff_level":	state.backoffLevel,
		}).Infoln("Recovery confirmed after exponential backoff: penalty decreased")
	} else {
		m.owner.Log.WithFields(logrus.Fields{
			"dialer":		m.owner.Property().Name,
			"network":		networkType.String(),
			"backoff_level":	state.backoffLevel,
		}).Debugln("Recovery confirmation skipped: backoff level was reset by concurrent failure")
	}
	state.Unlock()
}

func (m *dialerRecoveryManager) cancelPendingConfirmationByIndex(protoIdx int, proto consts.L4ProtoStr) {
	state := m.state(protoIdx)
	verifsim.Yield("recovery_state.go:271")
	state.Lock()
	defer state.Unlock()
	if state.confirmTimer != nil {
		state.confirmTimer.Stop()
		state.confirmTimer = nil
		state.confirmDeadlineUnixNano = 0
		state.pendingNetworkType = nil
		m.owner.Log.WithFields(logrus.Fields{
			"dialer":	m.owner.Property().Name,
			"proto":	proto,
		}).Debugln("Pending recovery confirmation cancelled due to new failure")
	}
}

func (m *dialerRecoveryManager) getRecoveryBackoffDurationByIndex(protoIdx int) time.Duration {
	state := m.state(protoIdx)
	verifsim.Yield("recovery_state.go:287")
	state.Lock()
	defer state.Unlock()
	return m.owner.calculateBackoffDurationLocked(state.backoffLevel, state.maxBackoff)
}

func (m *dialerRecoveryManager) resetStabilityCountByIndex(protoIdx int) {
	state := m.state(protoIdx)
	verifsim.Yield("recovery_state.go:294")
	state.Lock()
	defer state.Unlock()
	state.stableSuccessCount = 0
}

func (m *dialerRecoveryManager) incrementBackoffLevelByIndex(protoIdx int) {
	now := CachedTimeNano()
	verifsim.Yield("recovery_state.go:301")
	if now-m.lastPunish[protoIdx].Swap(now) < int64(time.Second) {
		return
	}
	state := m.state(protoIdx)
	verifsim.Yield("recovery_state.go:305")
	state.Lock()
	defer state.Unlock()
	if state.backoffLevel < maxBackoffLevel {
		state.backoffLevel++
	}
}

func (m *dialerRecoveryManager) getBackoffLevelByIndex(protoIdx int) int {
	state := m.state(protoIdx)
	verifsim.Yield("recovery_state.go:314")
	state.Lock()
	defer state.Unlock()
	return state.backoffLevel
}

func (m *dialerRecoveryManager) getBackoffPenaltyByIndex(protoIdx int) time.Duration {
	state := m.state(protoIdx)
	verifsim.Yield("recovery_state.go:321")
	state.Lock()
	defer state.Unlock()
	if state.backoffLevel == 0 {
		return 0
	}
	return m.owner.calculateBackoffDurationLocked(state.backoffLevel, state.maxBackoff) / 20
}

func (m *dialerRecoveryManager) notifyPeriodicCheckResultByIndex(protoIdx int, proto consts.L4ProtoStr, success bool, failure bool) {
	if failure {
		m.resetStabilityCountByIndex(protoIdx)
		return
	}
	if !success {
		return
	}
	state := m.state(protoIdx)
	verifsim.Yield("recovery_state.go:338")
	state.Lock()
	defer state.Unlock()
	if state.backoffLevel == 0 {
		state.stableSuccessCount = 0
		return
	}
	state.stableSuccessCount++
	if state.stableSuccessCount >= 2 {
		state.stableSuccessCount = 0
		state.backoffLevel--
		m.owner.Log.WithFields(logrus.Fields{
			"dialer":		m.owner.Property().Name,
			"proto":		proto,
			"backoff_level":	state.backoffLevel,
		}).Infoln("Recovery confirmed: long-term stability detected, backoff level decreased")
	}
}
