package control

import (
	"strconv"

	"github.com/cilium/ebpf"
	"github.com/daeuniverse/dae/common/consts"
	"github.com/daeuniverse/dae/component/outbound/dialer"
	"github.com/sirupsen/logrus"
)
import verifsim "github.com/daeuniverse/dae/internal/verifsim"

var _ = verifsim.Yield

const (
	outboundConnectivitySlotsPerDomain	= uint32(2)
	outboundConnectivityDomainTCP		= uint32(0)
	outboundConnectivityDomainDnsUDP	= uint32(1)
	outboundConnectivityDomainDataUDP	= uint32(2)
	outboundConnectivitySlotsPerOutbound	= outboundConnectivitySlotsPerDomain * 3
)

func FormatL4Proto(l4proto uint8) string {
	if l4proto == consts.IPPROTO_TCP {
		return "tcp"
	}
	if l4proto == consts.IPPROTO_UDP {
		return "udp"
	}
	return strconv.Itoa(int(l4proto))
}

func outboundConnectivityDomainIndex(networkType *dialer.NetworkType) uint32 {
	if networkType.L4Proto != consts.L4ProtoStr_UDP {
		return outboundConnectivityDomainTCP
	}
	if networkType.EffectiveUdpHealthDomain() == dialer.UdpHealthDomainDns {
		return outboundConnectivityDomainDnsUDP
	}
	return outboundConnectivityDomainDataUDP
}

func outboundConnectivityMapKey(outbound uint8, networkType *dialer.NetworkType) uint32 {
	domainIdx := outboundConnectivityDomainIndex(networkType)
	ipVersionIdx := uint32(0)
	if networkType.IpVersion == consts.IpVersionStr_6 {
		ipVersionIdx = 1
	}
	return uint32(outbound)*outboundConnectivitySlotsPerOutbound + domainIdx*outboundConnectivitySlotsPerDomain + ipVersionIdx
}

func (c *controlPlaneCore) outboundAliveChangeCallback(outbound uint8, dryrun bool) func(alive bool, networkType *dialer.NetworkType, isInit bool) {
	return func(alive bool, networkType *dialer.NetworkType, isInit bool) {
		{
			verifsim.Yield("connectivity.go:56")
			_vc1 := c.closed.Done()
			_vi2 := -1
			for _, _vo3 := range verifsim.SelectOrder("connectivity.go:56", 1) {
				switch _vo3 {
				case 0:
					select {
					case <-_vc1:
						_vi2 = 0
					default:
					}
				}
				if _vi2 >= 0 {
					break
				}
			}
			switch _vi2 {
			case 0:
				return
			default:
			}
		}
		verifsim.Yield("connectivity.go:61")

		if c.retired.Load() {
			return
		}
		if !isInit && dryrun {
			return
		}
		if c.log.IsLevelEnabled(logrus.TraceLevel) {
			strAlive := "NOT ALIVE"
			if alive {
				strAlive = "ALIVE"
			}
			c.log.WithFields(logrus.Fields{
				"outboundId": outbound,
			}).Tracef("Outbound <%v> %v -> %v, notify the kernel program.", c.outboundId2Name[outbound], networkType.StringWithoutDns(), strAlive)
		}

		value := uint32(0)
		if alive {
			value = 1
		}

		key := outboundConnectivityMapKey(outbound, networkType)
		if err := c.PeekBpf().OutboundConnectivityMap.Update(key, value, ebpf.UpdateAny); err != nil {
			c.log.WithFields(logrus.Fields{
				"alive":	alive,
				"network":	networkType.StringWithoutDns(),
				"outbound":	c.outboundId2Name[outbound],
			}).Warnf("Failed to notify the kernel program: %v", err)
		}
	}
}

func (c *controlPlaneCore) dialerAliveTransitionCallback(d *dialer.Dialer) func(networkType *dialer.NetworkType, alive bool) {
	return func(networkType *dialer.NetworkType, alive bool) {
		if alive || d == nil || networkType == nil || networkType.L4Proto != consts.L4ProtoStr_UDP {
			return
		}

		if networkType.EffectiveUdpHealthDomain() == dialer.UdpHealthDomainDns {
			return
		}
		removed := DefaultUdpEndpointPool.InvalidateDialerNetworkType(d, networkType)
		if removed == 0 || !c.log.IsLevelEnabled(logrus.DebugLevel) {
			return
		}
		c.log.WithFields(logrus.Fields{
			"dialer":	d.Property().Name,
			"network":	networkType.String(),
			"removed":	removed,
		}).Debug("Invalidated probing UDP endpoints after dialer transitioned to not alive")
	}
}
