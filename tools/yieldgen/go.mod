module yieldgen

go 1.26
