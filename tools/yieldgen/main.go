// yieldgen: type-driven source instrumenter for the deterministic simulator.
//
// It loads one package of /repo (current working tree) with go/types, rewrites a
// list of its files and writes the copies to an output directory together with a
// go-build overlay fragment. /repo is never modified.
//
// Rewrites (see DESIGN.md 2.3): yields before synchronisation operations and
// after blocking ones, lock bracketing, `go` -> verifsim.Go, time.AfterFunc ->
// verifsim.AfterFunc, sync.Map/sync.Pool -> deterministic replacements, range
// over map -> sorted keys, select -> tape-ordered polling, named body
// replacements.
package main

import (
	"bytes"
	"encoding/json"
	"flag"
	"fmt"
	"go/ast"
	"go/importer"
	"go/parser"
	"go/printer"
	"go/token"
	"go/types"
	"io"
	"os"
	"os/exec"
	"path/filepath"
	"reflect"
	"strings"
)

const simPath = "github.com/daeuniverse/dae/internal/verifsim"

type listPkg struct {
	ImportPath string
	Dir        string
	GoFiles    []string
	Export     string
	ImportMap  map[string]string
	Standard   bool
}

type multiFlag []string

func (m *multiFlag) String() string     { return strings.Join(*m, ",") }
func (m *multiFlag) Set(s string) error { *m = append(*m, s); return nil }

var (
	fRepo     = flag.String("repo", "/repo", "module root")
	fPkg      = flag.String("pkg", "", "package path relative to the module root, e.g. ./control")
	fTags     = flag.String("tags", "", "build tags")
	fFiles    = flag.String("files", "", "comma separated base names of files to instrument")
	fOut      = flag.String("out", "", "output directory")
	fOverlay  = flag.String("overlay", "", "existing overlay json to honour (and to merge into the output)")
	fGo       = flag.String("go", "go1.26", "go command")
	fBlocking multiFlag
	fReplace  multiFlag
	fNoYield  multiFlag
)

func die(f string, a ...any) {
	fmt.Fprintf(os.Stderr, "yieldgen: "+f+"\n", a...)
	os.Exit(2)
}

type ctx struct {
	fset     *token.FileSet
	info     *types.Info
	pkg      *types.Package
	file     string
	blocking map[string]bool
	noYield  map[string]bool // function names whose bodies get no yields (still get det rewrites)
	used     bool
	tmpN     int
	curFunc  string
	inst     map[string]bool // full paths of the files being instrumented (their sync types are substituted)
	regTypes map[*types.TypeName]bool // named types whose pointers are keys of ranged-over maps
}

func main() {
	flag.Var(&fBlocking, "blocking", "fully qualified function (pkgpath.Recv.Name or pkgpath.Name) treated as blocking: yield before and after")
	flag.Var(&fReplace, "replace", "Func=statements : replace the body of the named top-level function or Recv.Method; Func^=statements : prepend to it")
	flag.Var(&fNoYield, "noyield", "function or Recv.Method that is rewritten for determinism but gets no yields")
	flag.Parse()
	if *fPkg == "" || *fFiles == "" || *fOut == "" {
		die("need -pkg -files -out")
	}
	overlay := map[string]string{}
	if *fOverlay != "" {
		b, err := os.ReadFile(*fOverlay)
		if err != nil {
			die("%v", err)
		}
		var o struct{ Replace map[string]string }
		if err := json.Unmarshal(b, &o); err != nil {
			die("%v", err)
		}
		overlay = o.Replace
	}
	args := []string{"list", "-json", "-export", "-deps"}
	if *fTags != "" {
		args = append(args, "-tags", *fTags)
	}
	if *fOverlay != "" {
		args = append(args, "-overlay", *fOverlay)
	}
	args = append(args, *fPkg)
	cmd := exec.Command(*fGo, args...)
	cmd.Dir = *fRepo
	var stderr bytes.Buffer
	cmd.Stderr = &stderr
	out, err := cmd.Output()
	if err != nil {
		die("go list failed: %v\n%s", err, stderr.String())
	}
	dec := json.NewDecoder(bytes.NewReader(out))
	exports := map[string]string{}
	var target *listPkg
	for dec.More() {
		var p listPkg
		if err := dec.Decode(&p); err != nil {
			die("decode: %v", err)
		}
		if p.Export != "" {
			exports[p.ImportPath] = p.Export
		}
		pp := p
		target = &pp // last one is the named package
	}
	if target == nil {
		die("no package")
	}
	fset := token.NewFileSet()
	var files []*ast.File
	byBase := map[string]*ast.File{}
	for _, gf := range target.GoFiles {
		path := filepath.Join(target.Dir, gf)
		src := path
		if r, ok := overlay[path]; ok {
			if r == "" {
				continue
			}
			src = r
		}
		b, err := os.ReadFile(src)
		if err != nil {
			die("%v", err)
		}
		f, err := parser.ParseFile(fset, path, b, parser.ParseComments)
		if err != nil {
			die("parse %s: %v", path, err)
		}
		files = append(files, f)
		byBase[gf] = f
	}
	imp := importer.ForCompiler(fset, "gc", func(path string) (io.ReadCloser, error) {
		if m, ok := target.ImportMap[path]; ok {
			path = m
		}
		e, ok := exports[path]
		if !ok {
			return nil, fmt.Errorf("no export data for %s", path)
		}
		return os.Open(e)
	})
	info := &types.Info{
		Types:      map[ast.Expr]types.TypeAndValue{},
		Uses:       map[*ast.Ident]types.Object{},
		Defs:       map[*ast.Ident]types.Object{},
		Selections: map[*ast.SelectorExpr]*types.Selection{},
	}
	conf := types.Config{Importer: imp.(types.ImporterFrom), Error: nil}
	pkg, err := conf.Check(target.ImportPath, fset, files, info)
	if err != nil {
		die("type check of %s failed (a tree that does not compile is not a mutant): %v", target.ImportPath, err)
	}
	os.MkdirAll(*fOut, 0o755)
	blocking := map[string]bool{}
	for _, b := range fBlocking {
		blocking[b] = true
	}
	noYield := map[string]bool{}
	for _, b := range fNoYield {
		noYield[b] = true
	}
	instSet := map[string]bool{}
	for _, base := range strings.Split(*fFiles, ",") {
		if base = strings.TrimSpace(base); base != "" {
			instSet[filepath.Join(target.Dir, base)] = true
		}
	}
	result := map[string]string{}
	for k, v := range overlay {
		result[k] = v
	}
	regTypes := map[*types.TypeName]bool{}
	for _, base := range strings.Split(*fFiles, ",") {
		f := byBase[strings.TrimSpace(base)]
		if f == nil {
			continue
		}
		ast.Inspect(f, func(n ast.Node) bool {
			rs, ok := n.(*ast.RangeStmt)
			if !ok {
				return true
			}
			if tv, ok := info.Types[rs.X]; ok && tv.Type != nil {
				if m, ok := tv.Type.Underlying().(*types.Map); ok {
					if p, ok := m.Key().(*types.Pointer); ok {
						if nm, ok := p.Elem().(*types.Named); ok {
							regTypes[nm.Obj()] = true
						}
					}
				}
			}
			return true
		})
	}
	for _, base := range strings.Split(*fFiles, ",") {
		base = strings.TrimSpace(base)
		if base == "" {
			continue
		}
		f := byBase[base]
		if f == nil {
			die("file %s is not part of package %s under tags %q", base, target.ImportPath, *fTags)
		}
		c := &ctx{fset: fset, info: info, pkg: pkg, file: base, blocking: blocking, noYield: noYield, inst: instSet, regTypes: regTypes}
		c.rewriteFile(f)
		var buf bytes.Buffer
		if err := printer.Fprint(&buf, fset, f); err != nil {
			die("print %s: %v", base, err)
		}
		// sanity: must parse
		if _, err := parser.ParseFile(token.NewFileSet(), base, buf.Bytes(), 0); err != nil {
			os.WriteFile(filepath.Join(*fOut, base+".broken"), buf.Bytes(), 0o644)
			die("rewritten %s does not parse: %v", base, err)
		}
		outp := filepath.Join(*fOut, base)
		if err := os.WriteFile(outp, buf.Bytes(), 0o644); err != nil {
			die("%v", err)
		}
		result[filepath.Join(target.Dir, base)] = outp
	}
	b, _ := json.MarshalIndent(map[string]any{"Replace": result}, "", " ")
	fmt.Println(string(b))
}

// ---------------------------------------------------------------------------

func (c *ctx) site(n ast.Node) string {
	p := c.fset.Position(n.Pos())
	return fmt.Sprintf("%s:%d", c.file, p.Line)
}

func (c *ctx) tmp(prefix string) string {
	c.tmpN++
	return fmt.Sprintf("_v%s%d", prefix, c.tmpN)
}

func str(s string) *ast.BasicLit { return &ast.BasicLit{Kind: token.STRING, Value: fmt.Sprintf("%q", s)} }

func simCall(name string, args ...ast.Expr) *ast.CallExpr {
	return &ast.CallExpr{Fun: &ast.SelectorExpr{X: ast.NewIdent("verifsim"), Sel: ast.NewIdent(name)}, Args: args}
}

func (c *ctx) yield(site string) ast.Stmt {
	c.used = true
	return &ast.ExprStmt{X: simCall("Yield", str(site))}
}

func (c *ctx) exprString(e ast.Node) string {
	var b bytes.Buffer
	printer.Fprint(&b, c.fset, e)
	return b.String()
}

// parseStmts parses statements text and strips positions.
func parseStmts(src string) []ast.Stmt {
	fs := token.NewFileSet()
	f, err := parser.ParseFile(fs, "snip.go", "package p\nfunc _() {\n"+src+"\n}", 0)
	if err != nil {
		die("internal: snippet does not parse: %v\n%s", err, src)
	}
	body := f.Decls[0].(*ast.FuncDecl).Body
	clearPos(reflect.ValueOf(body))
	return body.List
}

var posType = reflect.TypeOf(token.NoPos)

func clearPos(v reflect.Value) {
	switch v.Kind() {
	case reflect.Pointer, reflect.Interface:
		if !v.IsNil() {
			clearPos(v.Elem())
		}
	case reflect.Struct:
		if v.Type() == reflect.TypeOf(ast.Object{}) || v.Type() == reflect.TypeOf(ast.Scope{}) {
			return
		}
		for i := 0; i < v.NumField(); i++ {
			f := v.Field(i)
			if f.Type() == posType {
				if f.CanSet() {
					f.SetInt(0)
				}
				continue
			}
			clearPos(f)
		}
	case reflect.Slice:
		for i := 0; i < v.Len(); i++ {
			clearPos(v.Index(i))
		}
	}
}

func (c *ctx) rewriteFile(f *ast.File) {
	// keep only //go: directives and build constraints
	var keep []*ast.CommentGroup
	for _, cg := range f.Comments {
		var l []*ast.Comment
		for _, cm := range cg.List {
			if strings.HasPrefix(cm.Text, "//go:") || strings.HasPrefix(cm.Text, "// +build") {
				l = append(l, cm)
			}
		}
		if len(l) > 0 {
			keep = append(keep, &ast.CommentGroup{List: l})
		}
	}
	f.Comments = keep
	f.Doc = nil
	for _, d := range f.Decls {
		switch d := d.(type) {
		case *ast.FuncDecl:
			if d.Doc != nil {
				d.Doc = filterDoc(d.Doc)
			}
			if d.Body == nil {
				continue
			}
			name := d.Name.Name
			if d.Recv != nil && len(d.Recv.List) > 0 {
				name = recvName(d.Recv.List[0].Type) + "." + name
			}
			c.curFunc = name
			replaced := false
			var prepend []ast.Stmt
			for _, r := range fReplace {
				// "Func^=stmts" prepends to the body (which is then instrumented as usual);
				// "Func=stmts" replaces it.
				if k, v, ok := strings.Cut(r, "^="); ok && !strings.Contains(k, "=") {
					if k == name {
						prepend = append(prepend, parseStmts(v)...)
					}
					continue
				}
				k, v, ok := strings.Cut(r, "=")
				if ok && k == name {
					d.Body.List = parseStmts(v)
					replaced = true
				}
			}
			if replaced {
				continue
			}
			c.typeSubst(d.Type)
			if d.Recv != nil {
				c.typeSubst(d.Recv)
			}
			d.Body.List = append(prepend, c.rewriteList(d.Body.List)...)
		case *ast.GenDecl:
			d.Doc = filterDoc(d.Doc)
			for _, sp := range d.Specs {
				switch sp := sp.(type) {
				case *ast.TypeSpec:
					sp.Doc, sp.Comment = nil, nil
				case *ast.ValueSpec:
					sp.Doc, sp.Comment = nil, nil
				}
			}
			c.curFunc = "<decl>"
			c.typeSubst(d)
			// function literals in package-level var initialisers
			ast.Inspect(d, func(n ast.Node) bool {
				if fl, ok := n.(*ast.FuncLit); ok {
					fl.Body.List = c.rewriteList(fl.Body.List)
					return false
				}
				return true
			})
		}
	}
	// creation sites of objects whose pointers key ranged-over maps get a serial number
	if len(c.regTypes) > 0 {
		c.wrapRegs(reflect.ValueOf(f))
	}
	// imports that became unused through the rewrites are blanked
	usedNames := map[string]bool{}
	ast.Inspect(f, func(n ast.Node) bool {
		if se, ok := n.(*ast.SelectorExpr); ok {
			if id, ok := se.X.(*ast.Ident); ok {
				usedNames[id.Name] = true
			}
		}
		return true
	})
	for _, im := range f.Imports {
		path := strings.Trim(im.Path.Value, `"`)
		name := ""
		if im.Name != nil {
			name = im.Name.Name
		} else {
			for _, ip := range c.pkg.Imports() {
				if ip.Path() == path {
					name = ip.Name()
				}
			}
		}
		if name == "" || name == "_" || name == "." {
			continue
		}
		if !usedNames[name] && path != "sync" {
			im.Name = ast.NewIdent("_")
		}
	}
	syncName := ""
	for _, im := range f.Imports {
		if im.Path.Value == `"sync"` {
			syncName = "sync"
			if im.Name != nil {
				syncName = im.Name.Name
			}
		}
	}
	imp := &ast.GenDecl{Tok: token.IMPORT, Specs: []ast.Spec{&ast.ImportSpec{Name: ast.NewIdent("verifsim"), Path: str(simPath)}}}
	// insert after existing imports
	idx := 0
	for i, d := range f.Decls {
		if g, ok := d.(*ast.GenDecl); ok && g.Tok == token.IMPORT {
			idx = i + 1
		}
	}
	decls := append([]ast.Decl{}, f.Decls[:idx]...)
	decls = append(decls, imp)
	keepAlive := "var _ = verifsim.Yield\n"
	if syncName != "" && syncName != "_" && syncName != "." {
		keepAlive += "var _ " + syncName + ".Locker\n"
	}
	fs := token.NewFileSet()
	kf, err := parser.ParseFile(fs, "k.go", "package p\n"+keepAlive, 0)
	if err != nil {
		die("internal: %v", err)
	}
	for _, d := range kf.Decls {
		clearPos(reflect.ValueOf(d))
		decls = append(decls, d)
	}
	decls = append(decls, f.Decls[idx:]...)
	f.Decls = decls
}

func filterDoc(cg *ast.CommentGroup) *ast.CommentGroup {
	if cg == nil {
		return nil
	}
	var l []*ast.Comment
	for _, cm := range cg.List {
		if strings.HasPrefix(cm.Text, "//go:") {
			l = append(l, cm)
		}
	}
	if len(l) == 0 {
		return nil
	}
	return &ast.CommentGroup{List: l}
}

func recvName(e ast.Expr) string {
	switch e := e.(type) {
	case *ast.StarExpr:
		return recvName(e.X)
	case *ast.Ident:
		return e.Name
	case *ast.IndexExpr:
		return recvName(e.X)
	case *ast.IndexListExpr:
		return recvName(e.X)
	}
	return "?"
}

// typeSubst replaces sync.Map / sync.Pool by the deterministic versions anywhere
// below n (type expressions and composite literals).
func (c *ctx) typeSubst(n ast.Node) {
	if n == nil || reflect.ValueOf(n).IsNil() {
		return
	}
	ast.Inspect(n, func(x ast.Node) bool {
		se, ok := x.(*ast.SelectorExpr)
		if !ok {
			return true
		}
		id, ok := se.X.(*ast.Ident)
		if !ok {
			return true
		}
		pn, ok := c.info.Uses[id].(*types.PkgName)
		if !ok || pn.Imported().Path() != "sync" {
			return true
		}
		switch se.Sel.Name {
		case "Map", "Pool", "Mutex", "RWMutex", "Once", "Cond", "NewCond":
			id.Name = "verifsim"
			c.used = true
		}
		return true
	})
}

// ---------------------------------------------------------------------------
// operation classification

type ops struct {
	sync  bool // needs a yield before
	block bool // needs a yield after
}

func (c *ctx) callee(call *ast.CallExpr) types.Object {
	fun := ast.Unparen(call.Fun)
	switch f := fun.(type) {
	case *ast.Ident:
		return c.info.Uses[f]
	case *ast.SelectorExpr:
		if sel, ok := c.info.Selections[f]; ok {
			return sel.Obj()
		}
		return c.info.Uses[f.Sel]
	case *ast.IndexExpr:
		if id, ok := f.X.(*ast.Ident); ok {
			return c.info.Uses[id]
		}
		if se, ok := f.X.(*ast.SelectorExpr); ok {
			return c.info.Uses[se.Sel]
		}
	}
	return nil
}

func fullName(o types.Object) string {
	fn, ok := o.(*types.Func)
	if !ok || fn.Pkg() == nil {
		return ""
	}
	sig := fn.Type().(*types.Signature)
	if r := sig.Recv(); r != nil {
		t := r.Type()
		if p, ok := t.(*types.Pointer); ok {
			t = p.Elem()
		}
		if n, ok := t.(*types.Named); ok {
			return fn.Pkg().Path() + "." + n.Obj().Name() + "." + fn.Name()
		}
		if n, ok := t.(*types.Alias); ok {
			return fn.Pkg().Path() + "." + n.Obj().Name() + "." + fn.Name()
		}
		return fn.Pkg().Path() + ".?." + fn.Name()
	}
	return fn.Pkg().Path() + "." + fn.Name()
}

func (c *ctx) isChan(e ast.Expr) bool {
	tv, ok := c.info.Types[e]
	if !ok || tv.Type == nil {
		return false
	}
	_, ok = tv.Type.Underlying().(*types.Chan)
	return ok
}

// scan classifies the expressions directly inside n (not descending into
// function literals) and rewrites those literals' bodies.
func (c *ctx) scan(n ast.Node) (o ops) {
	if n == nil || reflect.ValueOf(n).IsNil() {
		return
	}
	ast.Inspect(n, func(x ast.Node) bool {
		switch x := x.(type) {
		case *ast.FuncLit:
			c.typeSubst(x.Type)
			x.Body.List = c.rewriteList(x.Body.List)
			return false
		case *ast.CompositeLit:
			if x.Type != nil {
				c.typeSubst(x.Type)
			}
		case *ast.UnaryExpr:
			if x.Op == token.ARROW {
				o.sync, o.block = true, true
			}
		case *ast.CallExpr:
			obj := c.callee(x)
			switch ob := obj.(type) {
			case *types.Builtin:
				switch ob.Name() {
				case "close":
					o.sync = true
				case "len", "cap":
					if len(x.Args) == 1 && c.isChan(x.Args[0]) {
						o.sync = true
					}
				case "new", "make":
					c.typeSubst(x)
				}
			case *types.Func:
				if ob.Pkg() == nil {
					break
				}
				fnm := fullName(ob)
				switch ob.Pkg().Path() {
				case "sync", "sync/atomic":
					o.sync = true
					if fnm == "sync.NewCond" {
						c.typeSubst(x.Fun)
					}
					if ob.Name() == "Wait" {
						o.block = true
					}
				case "time":
					if fnm == "time.Sleep" {
						o.sync, o.block = true, true
					}
					if fnm == "time.AfterFunc" && len(x.Args) == 2 {
						x.Fun = &ast.SelectorExpr{X: ast.NewIdent("verifsim"), Sel: ast.NewIdent("AfterFunc")}
						x.Args = append([]ast.Expr{str(c.site(x))}, x.Args...)
						c.used = true
					}
				case "context":
					if fnm == "context.Context.Err" {
						o.sync = true
					}
				}
				if c.blocking[fnm] {
					o.sync, o.block = true, true
				}
				// unseeded global RNGs -> tape
				if strings.HasSuffix(ob.Pkg().Path(), "/pkg/fastrand") || ob.Pkg().Path() == "math/rand" || ob.Pkg().Path() == "math/rand/v2" {
					if sig, ok := ob.Type().(*types.Signature); ok && sig.Recv() == nil {
						switch ob.Name() {
						case "Intn", "IntN":
							x.Fun = &ast.SelectorExpr{X: ast.NewIdent("verifsim"), Sel: ast.NewIdent("RandIntn")}
							c.used = true
						case "Int63n", "Int64N":
							x.Fun = &ast.SelectorExpr{X: ast.NewIdent("verifsim"), Sel: ast.NewIdent("RandInt63n")}
							c.used = true
						}
					}
				}
			}
		}
		return true
	})
	return
}

// substituted reports whether the sync object a method is called on is declared
// in an instrumented file (its type was replaced by the simulator's version,
// which needs no Locked/Unlocked bracketing).
func (c *ctx) substituted(call *ast.CallExpr) bool {
	sel, ok := ast.Unparen(call.Fun).(*ast.SelectorExpr)
	if !ok {
		return false
	}
	return c.substitutedRecv(sel)
}

func (c *ctx) substitutedRecv(sel *ast.SelectorExpr) bool {
	// promoted method through embedded fields: find the embedded field
	if s, ok := c.info.Selections[sel]; ok && len(s.Index()) > 1 {
		t := s.Recv()
		var fld *types.Var
		idx := s.Index()
		for _, i := range idx[:len(idx)-1] {
			if p, ok := t.Underlying().(*types.Pointer); ok {
				t = p.Elem()
			}
			st, ok := t.Underlying().(*types.Struct)
			if !ok {
				return false
			}
			fld = st.Field(i)
			t = fld.Type()
		}
		if fld != nil {
			return c.inst[c.fset.Position(fld.Pos()).Filename]
		}
		return false
	}
	x := ast.Unparen(sel.X)
	for {
		switch e := x.(type) {
		case *ast.UnaryExpr:
			x = ast.Unparen(e.X)
			continue
		case *ast.StarExpr:
			x = ast.Unparen(e.X)
			continue
		case *ast.IndexExpr:
			x = ast.Unparen(e.X)
			continue
		}
		break
	}
	var obj types.Object
	switch e := x.(type) {
	case *ast.Ident:
		obj = c.info.Uses[e]
	case *ast.SelectorExpr:
		if s, ok := c.info.Selections[e]; ok {
			obj = s.Obj()
		} else {
			obj = c.info.Uses[e.Sel]
		}
	}
	v, ok := obj.(*types.Var)
	if !ok {
		return false
	}
	// the variable/field must itself be of a sync type (or pointer/array of it) declared in an instrumented file
	t := v.Type()
	for {
		switch u := t.(type) {
		case *types.Pointer:
			t = u.Elem()
			continue
		case *types.Array:
			t = u.Elem()
			continue
		case *types.Slice:
			t = u.Elem()
			continue
		}
		break
	}
	if n, ok := t.(*types.Named); ok && n.Obj().Pkg() != nil && n.Obj().Pkg().Path() == "sync" {
		return c.inst[c.fset.Position(v.Pos()).Filename]
	}
	return false
}

// syncCallKind: Lock/RLock -> 'L', Unlock/RUnlock -> 'U', Once.Do -> 'O'.
func (c *ctx) syncCallKind(e ast.Expr) byte {
	call, ok := e.(*ast.CallExpr)
	if !ok {
		return 0
	}
	fn, ok := c.callee(call).(*types.Func)
	if !ok || fn.Pkg() == nil || fn.Pkg().Path() != "sync" {
		return 0
	}
	switch fn.Name() {
	case "Lock", "RLock":
		return 'L'
	case "Unlock", "RUnlock":
		return 'U'
	case "Do":
		if fullName(fn) == "sync.Once.Do" {
			return 'O'
		}
	}
	return 0
}

// ---------------------------------------------------------------------------
// statements

func (c *ctx) rewriteList(list []ast.Stmt) []ast.Stmt {
	var out []ast.Stmt
	for _, s := range list {
		out = append(out, c.rewriteStmt(s)...)
	}
	return out
}

func (c *ctx) rewriteBlock(b *ast.BlockStmt) {
	if b != nil {
		b.List = c.rewriteList(b.List)
	}
}

func (c *ctx) wrap(s ast.Stmt, o ops, anchor ast.Node) []ast.Stmt {
	if c.noYield[c.curFunc] {
		return []ast.Stmt{s}
	}
	var out []ast.Stmt
	if o.sync {
		out = append(out, c.yield(c.site(anchor)))
	}
	out = append(out, s)
	if o.block {
		out = append(out, c.yield(c.site(anchor)+"+"))
	}
	return out
}

func (c *ctx) rewriteStmt(s ast.Stmt) []ast.Stmt {
	switch s := s.(type) {
	case nil:
		return nil
	case *ast.BlockStmt:
		c.rewriteBlock(s)
		return []ast.Stmt{s}
	case *ast.LabeledStmt:
		if sel, ok := s.Stmt.(*ast.SelectStmt); ok {
			return c.rewriteSelect(sel, s.Label)
		}
		inner := c.rewriteStmt(s.Stmt)
		// the label stays on the original statement (the one that is a loop/switch)
		var out []ast.Stmt
		placed := false
		for _, st := range inner {
			if !placed && (st == s.Stmt || isLabelTarget(st)) {
				out = append(out, &ast.LabeledStmt{Label: s.Label, Stmt: st})
				placed = true
			} else {
				out = append(out, st)
			}
		}
		if !placed {
			// label on the first statement
			out[0] = &ast.LabeledStmt{Label: s.Label, Stmt: out[0]}
		}
		return out
	case *ast.IfStmt:
		var o ops
		if s.Init != nil {
			o1 := c.scan(s.Init)
			o.sync = o.sync || o1.sync
		}
		o1 := c.scan(s.Cond)
		o.sync = o.sync || o1.sync
		c.rewriteBlock(s.Body)
		if s.Else != nil {
			el := c.rewriteStmt(s.Else)
			if len(el) == 1 {
				s.Else = el[0]
			} else {
				s.Else = &ast.BlockStmt{List: el}
			}
			if _, isIf := s.Else.(*ast.IfStmt); !isIf {
				if _, isBlk := s.Else.(*ast.BlockStmt); !isBlk {
					s.Else = &ast.BlockStmt{List: []ast.Stmt{s.Else}}
				}
			}
		}
		return c.wrap(s, ops{sync: o.sync}, s)
	case *ast.ForStmt:
		var o ops
		if s.Init != nil {
			if c.scan(s.Init).sync {
				o.sync = true
			}
		}
		loopSync := false
		if s.Cond != nil && c.scan(s.Cond).sync {
			o.sync, loopSync = true, true
		}
		if s.Post != nil && c.scan(s.Post).sync {
			loopSync = true
		}
		c.rewriteBlock(s.Body)
		if loopSync && !c.noYield[c.curFunc] {
			s.Body.List = append([]ast.Stmt{c.yield(c.site(s) + "~")}, s.Body.List...)
		}
		return c.wrap(s, ops{sync: o.sync}, s)
	case *ast.RangeStmt:
		o := c.scan(s.X)
		tv := c.info.Types[s.X]
		c.rewriteBlock(s.Body)
		if tv.Type != nil {
			switch tv.Type.Underlying().(type) {
			case *types.Chan:
				if !c.noYield[c.curFunc] {
					s.Body.List = append([]ast.Stmt{c.yield(c.site(s) + "~")}, s.Body.List...)
				}
				return c.wrap(s, ops{sync: true}, s)
			case *types.Map:
				return c.wrap(c.rewriteMapRange(s), ops{sync: o.sync}, s)
			}
		}
		return c.wrap(s, ops{sync: o.sync}, s)
	case *ast.SwitchStmt:
		var o ops
		if s.Init != nil && c.scan(s.Init).sync {
			o.sync = true
		}
		if s.Tag != nil && c.scan(s.Tag).sync {
			o.sync = true
		}
		for _, cc := range s.Body.List {
			cl := cc.(*ast.CaseClause)
			for _, e := range cl.List {
				c.scan(e)
			}
			cl.Body = c.rewriteList(cl.Body)
		}
		return c.wrap(s, o, s)
	case *ast.TypeSwitchStmt:
		var o ops
		if s.Init != nil && c.scan(s.Init).sync {
			o.sync = true
		}
		if c.scan(s.Assign).sync {
			o.sync = true
		}
		for _, cc := range s.Body.List {
			cl := cc.(*ast.CaseClause)
			cl.Body = c.rewriteList(cl.Body)
		}
		return c.wrap(s, o, s)
	case *ast.SelectStmt:
		return c.rewriteSelect(s, nil)
	case *ast.GoStmt:
		return c.rewriteGo(s)
	case *ast.DeferStmt:
		if c.syncCallKind(s.Call) == 'U' && !c.substituted(s.Call) {
			// defer mu.Unlock() -> defer verifsim.DeferUnlock(mu.Unlock)
			c.used = true
			c.scan(s.Call.Fun)
			s.Call = simCall("DeferUnlock", s.Call.Fun)
			return []ast.Stmt{s}
		}
		c.scan(s.Call)
		return []ast.Stmt{s}
	case *ast.ExprStmt:
		kind := c.syncCallKind(s.X)
		if kind != 0 && c.substituted(s.X.(*ast.CallExpr)) {
			c.scan(s.X)
			if kind == 'U' {
				return []ast.Stmt{s}
			}
			return c.wrap(s, ops{sync: true}, s)
		}
		switch kind {
		case 'L':
			c.scan(s.X)
			c.used = true
			out := []ast.Stmt{}
			if !c.noYield[c.curFunc] {
				out = append(out, c.yield(c.site(s)))
			}
			return append(out, s, &ast.ExprStmt{X: simCall("Locked")})
		case 'U':
			c.scan(s.X)
			c.used = true
			return []ast.Stmt{s, &ast.ExprStmt{X: simCall("Unlocked")}}
		case 'O':
			call := s.X.(*ast.CallExpr)
			c.scan(call)
			sel := ast.Unparen(call.Fun).(*ast.SelectorExpr)
			recv := sel.X
			if tv := c.info.Types[recv]; tv.Type != nil {
				if _, isPtr := tv.Type.Underlying().(*types.Pointer); !isPtr {
					recv = &ast.UnaryExpr{Op: token.AND, X: recv}
				}
			}
			c.used = true
			ns := &ast.ExprStmt{X: simCall("OnceDo", recv, call.Args[0])}
			return c.wrap(ns, ops{sync: true}, s)
		}
		return c.wrap(s, c.scan(s.X), s)
	case *ast.SendStmt:
		c.scan(s.Chan)
		c.scan(s.Value)
		return c.wrap(s, ops{sync: true, block: true}, s)
	case *ast.AssignStmt:
		var o ops
		for _, e := range s.Rhs {
			o1 := c.scan(e)
			o.sync, o.block = o.sync || o1.sync, o.block || o1.block
		}
		for _, e := range s.Lhs {
			o1 := c.scan(e)
			o.sync = o.sync || o1.sync
		}
		return c.wrap(s, o, s)
	case *ast.ReturnStmt:
		var o ops
		for _, e := range s.Results {
			if c.scan(e).sync {
				o.sync = true
			}
		}
		return c.wrap(s, o, s)
	case *ast.DeclStmt:
		c.typeSubst(s.Decl)
		o := c.scan(s.Decl)
		return c.wrap(s, ops{sync: o.sync}, s)
	case *ast.IncDecStmt:
		return c.wrap(s, ops{sync: c.scan(s.X).sync}, s)
	case *ast.CaseClause, *ast.CommClause:
		return []ast.Stmt{s}
	}
	return []ast.Stmt{s}
}

func isLabelTarget(s ast.Stmt) bool {
	switch s.(type) {
	case *ast.ForStmt, *ast.RangeStmt, *ast.SwitchStmt, *ast.TypeSwitchStmt, *ast.SelectStmt:
		return true
	}
	return false
}

func (c *ctx) isConstOrNil(e ast.Expr) bool {
	tv, ok := c.info.Types[e]
	if !ok {
		return false
	}
	return tv.Value != nil || tv.IsNil()
}

func (c *ctx) rewriteGo(s *ast.GoStmt) []ast.Stmt {
	c.used = true
	site := c.site(s)
	call := s.Call
	if fl, ok := call.Fun.(*ast.FuncLit); ok && len(call.Args) == 0 {
		c.typeSubst(fl.Type)
		fl.Body.List = c.rewriteList(fl.Body.List)
		return []ast.Stmt{&ast.ExprStmt{X: simCall("Go", str(site), fl)}}
	}
	var pre []ast.Stmt
	// bind function value
	var fun ast.Expr = call.Fun
	c.scan(call.Fun)
	bindFun := true
	if id, ok := call.Fun.(*ast.Ident); ok {
		if _, isFunc := c.info.Uses[id].(*types.Func); isFunc {
			bindFun = false
		}
	}
	if se, ok := call.Fun.(*ast.SelectorExpr); ok {
		if id, ok := se.X.(*ast.Ident); ok {
			if _, isPkg := c.info.Uses[id].(*types.PkgName); isPkg {
				bindFun = false
			}
		}
	}
	if bindFun {
		fv := c.tmp("f")
		pre = append(pre, &ast.AssignStmt{Lhs: []ast.Expr{ast.NewIdent(fv)}, Tok: token.DEFINE, Rhs: []ast.Expr{call.Fun}})
		fun = ast.NewIdent(fv)
	}
	var args []ast.Expr
	for _, a := range call.Args {
		c.scan(a)
		if c.isConstOrNil(a) {
			args = append(args, a)
			continue
		}
		av := c.tmp("a")
		pre = append(pre, &ast.AssignStmt{Lhs: []ast.Expr{ast.NewIdent(av)}, Tok: token.DEFINE, Rhs: []ast.Expr{a}})
		args = append(args, ast.NewIdent(av))
	}
	inner := &ast.CallExpr{Fun: fun, Args: args}
	if call.Ellipsis.IsValid() {
		inner.Ellipsis = 1
	}
	lit := &ast.FuncLit{Type: &ast.FuncType{Params: &ast.FieldList{}}, Body: &ast.BlockStmt{List: []ast.Stmt{&ast.ExprStmt{X: inner}}}}
	pre = append(pre, &ast.ExprStmt{X: simCall("Go", str(site), lit)})
	return []ast.Stmt{&ast.BlockStmt{List: pre}}
}

func simpleExpr(e ast.Expr) bool {
	switch e := e.(type) {
	case *ast.Ident:
		return true
	case *ast.SelectorExpr:
		return simpleExpr(e.X)
	case *ast.ParenExpr:
		return simpleExpr(e.X)
	case *ast.StarExpr:
		return simpleExpr(e.X)
	}
	return false
}

func (c *ctx) rewriteMapRange(s *ast.RangeStmt) ast.Stmt {
	if s.Tok != token.DEFINE && (s.Key != nil || s.Value != nil) {
		fmt.Fprintf(os.Stderr, "yieldgen: note: %s: range over map with '=' left as is\n", c.site(s))
		return s
	}
	if !simpleExpr(s.X) {
		fmt.Fprintf(os.Stderr, "yieldgen: note: %s: range over non-trivial map expression left as is\n", c.site(s))
		return s
	}
	c.used = true
	keyName := "_"
	if id, ok := s.Key.(*ast.Ident); ok && id.Name != "_" {
		keyName = id.Name
	}
	valName := ""
	if id, ok := s.Value.(*ast.Ident); ok && id.Name != "_" {
		valName = id.Name
	}
	if valName != "" && keyName == "_" {
		keyName = c.tmp("k")
	}
	if s.Key == nil && s.Value == nil {
		keyName = "_"
	}
	ns := &ast.RangeStmt{
		Key: ast.NewIdent("_"), Value: ast.NewIdent(keyName), Tok: token.DEFINE,
		X:    simCall("SortedKeys", s.X),
		Body: s.Body,
	}
	if keyName == "_" {
		ns.Value = nil
		ns.Key = nil
		ns.Tok = token.ILLEGAL
	}
	if valName != "" {
		okv := c.tmp("ok")
		mexpr := c.exprString(s.X)
		pre := parseStmts(fmt.Sprintf("%s, %s := %s[%s]\nif !%s { continue }", valName, okv, mexpr, keyName, okv))
		ns.Body.List = append(pre, ns.Body.List...)
	} else if keyName != "_" {
		okv := c.tmp("ok")
		mexpr := c.exprString(s.X)
		pre := parseStmts(fmt.Sprintf("if _, %s := %s[%s]; !%s { continue }", okv, mexpr, keyName, okv))
		ns.Body.List = append(pre, ns.Body.List...)
	}
	return ns
}

// rewriteSelect: see DESIGN.md 2.3 — poll the cases in tape order, block only if
// none is ready, then dispatch on the chosen index.
func (c *ctx) rewriteSelect(s *ast.SelectStmt, label *ast.Ident) []ast.Stmt {
	c.used = true
	site := c.site(s)
	type cl struct {
		comm    *ast.CommClause
		idx     int
		isSend  bool
		chVar   string
		valVar  string // send value
		recvVar string
		okVar   string
		lhs     []ast.Expr
		tok     token.Token
	}
	var cls []*cl
	var def *ast.CommClause
	for _, st := range s.Body.List {
		cc := st.(*ast.CommClause)
		if cc.Comm == nil {
			def = cc
			continue
		}
		cls = append(cls, &cl{comm: cc, idx: len(cls)})
	}
	if c.noYield[c.curFunc] {
		for _, st := range s.Body.List {
			cc := st.(*ast.CommClause)
			cc.Body = c.rewriteList(cc.Body)
		}
		var st ast.Stmt = s
		if label != nil {
			st = &ast.LabeledStmt{Label: label, Stmt: s}
		}
		return []ast.Stmt{st}
	}
	var pre []ast.Stmt
	pre = append(pre, c.yield(site))
	assign := func(name string, e ast.Expr) ast.Stmt {
		return &ast.AssignStmt{Lhs: []ast.Expr{ast.NewIdent(name)}, Tok: token.DEFINE, Rhs: []ast.Expr{e}}
	}
	for _, k := range cls {
		switch cm := k.comm.Comm.(type) {
		case *ast.SendStmt:
			k.isSend = true
			c.scan(cm.Chan)
			c.scan(cm.Value)
			k.chVar = c.tmp("c")
			pre = append(pre, assign(k.chVar, cm.Chan))
			if c.isConstOrNil(cm.Value) {
				k.valVar = c.exprString(cm.Value)
			} else {
				k.valVar = c.tmp("s")
				pre = append(pre, assign(k.valVar, cm.Value))
			}
		case *ast.ExprStmt:
			ue := ast.Unparen(cm.X).(*ast.UnaryExpr)
			c.scan(ue.X)
			k.chVar = c.tmp("c")
			pre = append(pre, assign(k.chVar, ue.X))
		case *ast.AssignStmt:
			ue := ast.Unparen(cm.Rhs[0]).(*ast.UnaryExpr)
			c.scan(ue.X)
			k.chVar = c.tmp("c")
			pre = append(pre, assign(k.chVar, ue.X))
			k.lhs = cm.Lhs
			k.tok = cm.Tok
			k.recvVar = c.tmp("r")
			pre = append(pre, parseStmts(fmt.Sprintf("var %s = verifsim.ChanZero(%s)", k.recvVar, k.chVar))...)
			if len(cm.Lhs) == 2 {
				k.okVar = c.tmp("k")
				pre = append(pre, parseStmts(fmt.Sprintf("var %s bool", k.okVar))...)
			}
		}
	}
	iv := c.tmp("i")
	commText := func(k *cl) string {
		switch {
		case k.isSend:
			return fmt.Sprintf("case %s <- %s: %s = %d", k.chVar, k.valVar, iv, k.idx)
		case k.recvVar == "":
			return fmt.Sprintf("case <-%s: %s = %d", k.chVar, iv, k.idx)
		case k.okVar != "":
			return fmt.Sprintf("case %s, %s = <-%s: %s = %d", k.recvVar, k.okVar, k.chVar, iv, k.idx)
		default:
			return fmt.Sprintf("case %s = <-%s: %s = %d", k.recvVar, k.chVar, iv, k.idx)
		}
	}
	var b strings.Builder
	fmt.Fprintf(&b, "%s := -1\n", iv)
	if len(cls) > 0 {
		ov := c.tmp("o")
		fmt.Fprintf(&b, "for _, %s := range verifsim.SelectOrder(%q, %d) {\nswitch %s {\n", ov, site, len(cls), ov)
		for _, k := range cls {
			fmt.Fprintf(&b, "case %d:\nselect {\n%s\ndefault:\n}\n", k.idx, commText(k))
		}
		fmt.Fprintf(&b, "}\nif %s >= 0 { break }\n}\n", iv)
		if def == nil {
			fmt.Fprintf(&b, "if %s < 0 {\nselect {\n", iv)
			for _, k := range cls {
				fmt.Fprintf(&b, "%s\n", commText(k))
			}
			fmt.Fprintf(&b, "}\nverifsim.Yield(%q)\n}\n", site+"+")
		}
	} else if def == nil {
		// select {} : block forever
		fmt.Fprintf(&b, "select {}\n")
	}
	pre = append(pre, parseStmts(b.String())...)
	// dispatch
	sw := &ast.SwitchStmt{Tag: ast.NewIdent(iv), Body: &ast.BlockStmt{}}
	for _, k := range cls {
		var body []ast.Stmt
		if k.recvVar != "" {
			rhs := []ast.Expr{ast.NewIdent(k.recvVar)}
			if k.okVar != "" {
				rhs = append(rhs, ast.NewIdent(k.okVar))
			}
			body = append(body, &ast.AssignStmt{Lhs: k.lhs, Tok: k.tok, Rhs: rhs})
			// silence "declared and not used" for := of blank-ish names is the author's problem, as in the original
		}
		body = append(body, c.rewriteList(k.comm.Body)...)
		sw.Body.List = append(sw.Body.List, &ast.CaseClause{List: []ast.Expr{&ast.BasicLit{Kind: token.INT, Value: fmt.Sprint(k.idx)}}, Body: body})
	}
	if def != nil {
		sw.Body.List = append(sw.Body.List, &ast.CaseClause{Body: c.rewriteList(def.Body)})
	} else {
		// keeps the block a terminating statement when every clause returns
		sw.Body.List = append(sw.Body.List, &ast.CaseClause{Body: parseStmts("panic(\"verifsim: select dispatch: no case chosen\")")})
	}
	var swStmt ast.Stmt = sw
	if label != nil {
		swStmt = &ast.LabeledStmt{Label: label, Stmt: sw}
	}
	pre = append(pre, swStmt)
	return []ast.Stmt{&ast.BlockStmt{List: pre}}
}

var exprIface = reflect.TypeOf((*ast.Expr)(nil)).Elem()

// wrapRegs walks the AST generically and replaces `&T{...}` (T in regTypes) held
// in any ast.Expr-typed field or slice element by verifsim.Reg(&T{...}).
func (c *ctx) wrapRegs(v reflect.Value) {
	switch v.Kind() {
	case reflect.Pointer:
		if !v.IsNil() {
			c.wrapRegs(v.Elem())
		}
	case reflect.Interface:
		if v.IsNil() {
			return
		}
		if v.Type() == exprIface {
			if ue, ok := v.Interface().(*ast.UnaryExpr); ok && ue.Op == token.AND {
				if cl, ok := ast.Unparen(ue.X).(*ast.CompositeLit); ok {
					if tv, ok := c.info.Types[cl]; ok && tv.Type != nil {
						if nm, ok := tv.Type.(*types.Named); ok && c.regTypes[nm.Obj()] && v.CanSet() {
							c.wrapRegs(reflect.ValueOf(cl))
							v.Set(reflect.ValueOf(ast.Expr(simCall("Reg", ue))))
							c.used = true
							return
						}
					}
				}
			}
		}
		c.wrapRegs(v.Elem())
	case reflect.Struct:
		if v.Type() == reflect.TypeOf(ast.Object{}) || v.Type() == reflect.TypeOf(ast.Scope{}) {
			return
		}
		for i := 0; i < v.NumField(); i++ {
			c.wrapRegs(v.Field(i))
		}
	case reflect.Slice:
		for i := 0; i < v.Len(); i++ {
			c.wrapRegs(v.Index(i))
		}
	}
}
