module bindgen

go 1.26
