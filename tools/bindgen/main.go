// bindgen derives the bpf2go binding declarations that the NON-stub build of
// package control needs from the working tree's bpf_stub.go:
//
//   - every top-level declaration of bpf_stub.go whose name is not also declared
//     in bpf_utils.go (which is compiled in the non-stub build) is kept;
//   - struct types made only of fixed-size fields get explicit `_ [n]byte`
//     padding wherever the Go layout would insert implicit padding (inside or
//     at the tail), the way bpf2go emits them; cilium/ebpf refuses to
//     (un)marshal structs with implicit padding. Field offsets are unchanged.
//     A field whose type is a named struct declared in bpf_utils.go that itself
//     carries implicit padding (bpfRoutingResult) is inlined as an anonymous
//     struct with explicit padding, which is what bpf2go generates for nested
//     C structs.
//
// Only the standard library is used (go/parser, go/ast, go/printer).
package main

import (
	"bytes"
	"flag"
	"fmt"
	"go/ast"
	"go/format"
	"go/parser"
	"go/printer"
	"go/token"
	"os"
	"sort"
	"strconv"
	"strings"
)

type layout struct {
	size, align int
	ok          bool
}

var (
	fset      = token.NewFileSet()
	typeDecls = map[string]ast.Expr{} // all named types of both files
	fromUtils = map[string]bool{}
)

func die(f string, a ...any) {
	fmt.Fprintf(os.Stderr, "bindgen: "+f+"\n", a...)
	os.Exit(1)
}

func basic(name string) (layout, bool) {
	switch name {
	case "bool", "uint8", "int8", "byte":
		return layout{1, 1, true}, true
	case "uint16", "int16":
		return layout{2, 2, true}, true
	case "uint32", "int32", "float32":
		return layout{4, 4, true}, true
	case "uint64", "int64", "float64", "uintptr", "int", "uint":
		return layout{8, 8, true}, true
	}
	return layout{}, false
}

func arrayLen(e ast.Expr) (int, bool) {
	if l, ok := e.(*ast.BasicLit); ok && l.Kind == token.INT {
		n, err := strconv.ParseInt(l.Value, 0, 64)
		return int(n), err == nil
	}
	return 0, false
}

func isHostLayout(e ast.Expr) bool {
	s, ok := e.(*ast.SelectorExpr)
	if !ok {
		return false
	}
	x, ok := s.X.(*ast.Ident)
	return ok && x.Name == "structs" && s.Sel.Name == "HostLayout"
}

func layoutOf(e ast.Expr, depth int) layout {
	if depth > 20 {
		return layout{}
	}
	switch t := e.(type) {
	case *ast.Ident:
		if l, ok := basic(t.Name); ok {
			return l
		}
		if d, ok := typeDecls[t.Name]; ok {
			return layoutOf(d, depth+1)
		}
		return layout{}
	case *ast.ArrayType:
		if t.Len == nil {
			return layout{}
		}
		n, ok := arrayLen(t.Len)
		if !ok {
			return layout{}
		}
		el := layoutOf(t.Elt, depth+1)
		if !el.ok {
			return layout{}
		}
		return layout{el.size * n, el.align, true}
	case *ast.SelectorExpr:
		if isHostLayout(t) {
			return layout{0, 1, true}
		}
		return layout{}
	case *ast.StructType:
		off, al := 0, 1
		for _, f := range t.Fields.List {
			fl := layoutOf(f.Type, depth+1)
			if !fl.ok {
				return layout{}
			}
			n := len(f.Names)
			if n == 0 {
				n = 1
			}
			for i := 0; i < n; i++ {
				off = (off + fl.align - 1) / fl.align * fl.align
				off += fl.size
			}
			if fl.align > al {
				al = fl.align
			}
		}
		return layout{(off + al - 1) / al * al, al, true}
	}
	return layout{}
}

// hasImplicitPadding reports whether the struct (recursively) has padding that
// is not spelled out as a field.
func hasImplicitPadding(e ast.Expr, depth int) bool {
	if depth > 20 {
		return false
	}
	switch t := e.(type) {
	case *ast.Ident:
		if d, ok := typeDecls[t.Name]; ok {
			return hasImplicitPadding(d, depth+1)
		}
	case *ast.ArrayType:
		return hasImplicitPadding(t.Elt, depth+1)
	case *ast.StructType:
		off, al := 0, 1
		for _, f := range t.Fields.List {
			fl := layoutOf(f.Type, depth+1)
			if !fl.ok {
				return false
			}
			if hasImplicitPadding(f.Type, depth+1) {
				return true
			}
			n := len(f.Names)
			if n == 0 {
				n = 1
			}
			for i := 0; i < n; i++ {
				a := (off + fl.align - 1) / fl.align * fl.align
				if a != off {
					return true
				}
				off = a + fl.size
			}
			if fl.align > al {
				al = fl.align
			}
		}
		return off%al != 0
	}
	return false
}

func exprString(e ast.Expr) string {
	var b bytes.Buffer
	printer.Fprint(&b, fset, e)
	return b.String()
}

// renderType prints a type, rewriting plain-layout structs with explicit padding.
func renderType(e ast.Expr, depth int) string {
	switch t := e.(type) {
	case *ast.Ident:
		if fromUtils[t.Name] {
			if d, ok := typeDecls[t.Name]; ok {
				if _, isStruct := d.(*ast.StructType); isStruct && layoutOf(d, 0).ok && hasImplicitPadding(d, 0) {
					return renderType(d, depth+1) // inline with explicit padding
				}
			}
		}
		return t.Name
	case *ast.ArrayType:
		if t.Len != nil {
			return "[" + exprString(t.Len) + "]" + renderType(t.Elt, depth+1)
		}
		return exprString(e)
	case *ast.StructType:
		if !layoutOf(t, 0).ok {
			return exprString(e)
		}
		var b strings.Builder
		b.WriteString("struct {\n")
		off, al := 0, 1
		hostLayout := false
		for _, f := range t.Fields.List {
			if isHostLayout(f.Type) {
				hostLayout = true
			}
		}
		if !hostLayout {
			b.WriteString("_ structs.HostLayout\n")
		}
		for _, f := range t.Fields.List {
			fl := layoutOf(f.Type, 0)
			names := []string{"_"}
			if len(f.Names) > 0 {
				names = names[:0]
				for _, n := range f.Names {
					names = append(names, n.Name)
				}
			}
			for _, n := range names {
				a := (off + fl.align - 1) / fl.align * fl.align
				if a != off {
					fmt.Fprintf(&b, "_ [%d]byte\n", a-off)
				}
				off = a + fl.size
				fmt.Fprintf(&b, "%s %s", n, renderType(f.Type, depth+1))
				if f.Tag != nil {
					b.WriteString(" " + f.Tag.Value)
				}
				b.WriteString("\n")
			}
			if fl.align > al {
				al = fl.align
			}
		}
		if off%al != 0 {
			fmt.Fprintf(&b, "_ [%d]byte\n", al-off%al)
		}
		b.WriteString("}")
		return b.String()
	}
	return exprString(e)
}

func declNames(d ast.Decl) []string {
	var out []string
	switch t := d.(type) {
	case *ast.FuncDecl:
		name := t.Name.Name
		if t.Recv != nil && len(t.Recv.List) > 0 {
			name = strings.TrimPrefix(exprString(t.Recv.List[0].Type), "*") + "." + name
		}
		out = append(out, name)
	case *ast.GenDecl:
		for _, s := range t.Specs {
			switch sp := s.(type) {
			case *ast.TypeSpec:
				out = append(out, sp.Name.Name)
			case *ast.ValueSpec:
				for _, n := range sp.Names {
					out = append(out, n.Name)
				}
			}
		}
	}
	return out
}

func main() {
	stub := flag.String("stub", "", "bpf_stub.go")
	utils := flag.String("utils", "", "bpf_utils.go")
	out := flag.String("out", "", "output file")
	flag.Parse()
	fs, err := parser.ParseFile(fset, *stub, nil, parser.ParseComments)
	if err != nil {
		die("%v", err)
	}
	fu, err := parser.ParseFile(fset, *utils, nil, 0)
	if err != nil {
		die("%v", err)
	}
	inUtils := map[string]bool{}
	for _, d := range fu.Decls {
		for _, n := range declNames(d) {
			inUtils[n] = true
		}
		if g, ok := d.(*ast.GenDecl); ok && g.Tok == token.TYPE {
			for _, s := range g.Specs {
				ts := s.(*ast.TypeSpec)
				typeDecls[ts.Name.Name] = ts.Type
				fromUtils[ts.Name.Name] = true
			}
		}
	}
	for _, d := range fs.Decls {
		if g, ok := d.(*ast.GenDecl); ok && g.Tok == token.TYPE {
			for _, s := range g.Specs {
				ts := s.(*ast.TypeSpec)
				if !inUtils[ts.Name.Name] {
					typeDecls[ts.Name.Name] = ts.Type
				}
			}
		}
	}

	var body strings.Builder
	kept := 0
	for _, d := range fs.Decls {
		switch t := d.(type) {
		case *ast.FuncDecl:
			if inUtils[declNames(d)[0]] {
				continue
			}
			var b bytes.Buffer
			printer.Fprint(&b, fset, t)
			body.WriteString(b.String() + "\n\n")
			kept++
		case *ast.GenDecl:
			if t.Tok == token.IMPORT {
				continue
			}
			for _, s := range t.Specs {
				switch sp := s.(type) {
				case *ast.TypeSpec:
					if inUtils[sp.Name.Name] {
						continue
					}
					fmt.Fprintf(&body, "type %s %s\n\n", sp.Name.Name, renderType(sp.Type, 0))
					kept++
				case *ast.ValueSpec:
					drop := false
					for _, n := range sp.Names {
						if inUtils[n.Name] {
							drop = true
						}
					}
					if drop {
						continue
					}
					var b bytes.Buffer
					printer.Fprint(&b, fset, &ast.GenDecl{Tok: t.Tok, Specs: []ast.Spec{sp}})
					body.WriteString(b.String() + "\n\n")
					kept++
				}
			}
		}
	}
	if kept == 0 {
		die("nothing kept from %s", *stub)
	}
	// imports actually used by the kept declarations
	text := body.String()
	var imps []string
	for _, im := range fs.Imports {
		path, _ := strconv.Unquote(im.Path.Value)
		name := path[strings.LastIndex(path, "/")+1:]
		if im.Name != nil {
			name = im.Name.Name
		}
		if strings.Contains(text, name+".") {
			if im.Name != nil {
				imps = append(imps, im.Name.Name+" "+im.Path.Value)
			} else {
				imps = append(imps, im.Path.Value)
			}
		}
	}
	if strings.Contains(text, "structs.") {
		found := false
		for _, i := range imps {
			if i == `"structs"` {
				found = true
			}
		}
		if !found {
			imps = append(imps, `"structs"`)
		}
	}
	sort.Strings(imps)
	src := "//go:build !dae_stub_ebpf\n\n// Code generated by /verif/tools/bindgen from bpf_stub.go; DO NOT EDIT.\n\npackage control\n\nimport (\n\t" +
		strings.Join(imps, "\n\t") + "\n)\n\n" + text
	fmtd, err := format.Source([]byte(src))
	if err != nil {
		os.WriteFile(*out+".broken", []byte(src), 0o644)
		die("generated source does not parse: %v", err)
	}
	if err := os.WriteFile(*out, fmtd, 0o644); err != nil {
		die("%v", err)
	}
}
