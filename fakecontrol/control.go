// Package control — SIMULATED. This file replaces the whole of /repo/control for the
// "reload" engine (property C20) through a go-build overlay; nothing of it lives in
// /repo. It exposes exactly the API package cmd uses (cmd/run.go,
// cmd/reload_manager.go) and turns every operation into a scripted event of the
// deterministic simulator: the environment hook (VerifEnv, implemented by the
// harness in package cmd) is asked what the operation should do — succeed after a
// simulated delay, fail, or hang until its context / listener ends — and is told
// about every state change so that the oracle can be evaluated over the history.
//
// Scheduling rules followed here (see /verif/simgo): every operation starts with a
// verifsim.Yield, and after every durable block (timer, channel) the task yields
// again before it touches shared state.
package control

import (
	"context"
	"fmt"
	"time"

	"github.com/daeuniverse/dae/config"
	verifsim "github.com/daeuniverse/dae/internal/verifsim"
	"github.com/sirupsen/logrus"
)

// VerifPlan is the scripted behaviour of one operation.
type VerifPlan struct {
	Delay time.Duration // simulated duration of the operation
	Err   error         // result (after Delay)
	Hang  bool          // construct: block until ctx ends; serve: never become ready; sessions: never drain
	Flag  bool          // inherit-health: true = NO dialer overlap
	N     int           // sessions: active sessions at retirement
	After time.Duration // sessions: drain completes after this long
}

// VerifEnv is implemented by the harness.
type VerifEnv interface {
	Plan(op string, c *ControlPlane, l *Listener) VerifPlan
	Event(ev string, c *ControlPlane, l *Listener)
}

// VerifState is the registry of everything the fake created in the current run.
type VerifStateT struct {
	Env       VerifEnv
	Planes    []*ControlPlane // successfully constructed, in order
	Listeners []*Listener
	Building  int // constructions in progress
	Serving   int // Serve calls that have not returned
	nextPlane int
	nextLis   int
	Netns     *DaeNetns
}

var VerifState = &VerifStateT{}

// VerifReset starts a new run.
func VerifReset(env VerifEnv) {
	VerifState = &VerifStateT{Env: env, Netns: &DaeNetns{}}
}

func plan(op string, c *ControlPlane, l *Listener) VerifPlan {
	if e := VerifState.Env; e != nil {
		return e.Plan(op, c, l)
	}
	return VerifPlan{}
}

func event(ev string, c *ControlPlane, l *Listener) {
	if e := VerifState.Env; e != nil {
		e.Event(ev, c, l)
	}
}

// pause lets d of simulated time pass; stops early (returning the reason) when
// one of the given channels is closed.
func pause(site string, d time.Duration, stop ...<-chan struct{}) (stopped int) {
	stopped = -1
	if d <= 0 {
		return
	}
	var s0, s1 <-chan struct{}
	if len(stop) > 0 {
		s0 = stop[0]
	}
	if len(stop) > 1 {
		s1 = stop[1]
	}
	t := time.NewTimer(d)
	select {
	case <-t.C:
	case <-s0:
		stopped = 0
	case <-s1:
		stopped = 1
	}
	t.Stop()
	verifsim.Yield(site + "+")
	return
}

// ---------------------------------------------------------------------------

type bpfObjects struct{ closed bool }

func (o *bpfObjects) Close() error {
	if o != nil {
		o.closed = true
	}
	return nil
}

type DnsCache struct{}

type DaeNetns struct{ Closed bool }

func GetDaeNetns() *DaeNetns { return VerifState.Netns }

func (ns *DaeNetns) WithRequired(op string, f func() error) error {
	if err := f(); err != nil {
		if op == "" {
			return err
		}
		return fmt.Errorf("%s: %w", op, err)
	}
	return nil
}

func (ns *DaeNetns) Close() error {
	ns.Closed = true
	event("netns-close", nil, nil)
	return nil
}

func PurgeStaleTCFilters(log *logrus.Logger) {}

func ResetGlobalUdpState() { event("reset-global-udp", nil, nil) }

// ---------------------------------------------------------------------------

type Listener struct {
	ID       int
	Port     uint16
	Owner    *ControlPlane // plane whose Listen created it (nil for clones)
	CloneOf  *Listener
	Closed   bool
	closedCh chan struct{}
}

func newListener(port uint16) *Listener {
	st := VerifState
	l := &Listener{ID: st.nextLis, Port: port, closedCh: make(chan struct{})}
	st.nextLis++
	st.Listeners = append(st.Listeners, l)
	return l
}

func (l *Listener) Close() error {
	if l == nil {
		return nil
	}
	verifsim.Yield("fake.listener-close")
	if l.Closed {
		return nil
	}
	l.Closed = true
	close(l.closedCh)
	event("listener-close", nil, l)
	return plan("listener-close", nil, l).Err
}

func (l *Listener) Clone() (*Listener, error) {
	if l == nil {
		return nil, fmt.Errorf("nil listener")
	}
	verifsim.Yield("fake.clone")
	p := plan("clone", nil, l)
	pause("fake.clone", p.Delay)
	if p.Err != nil {
		event("clone-fail", nil, l)
		return nil, p.Err
	}
	if l.Closed {
		event("clone-fail", nil, l)
		return nil, fmt.Errorf("clone of a closed listener")
	}
	n := newListener(l.Port)
	n.CloneOf = l
	event("clone-ok", nil, n)
	return n, nil
}

// ---------------------------------------------------------------------------

type ControlPlane struct {
	ID       int
	Prepared bool   // built by NewPreparedControlPlaneWithContext
	Port     uint16 // global.tproxy_port it was built from
	Marker   time.Duration
	LogLevel string
	HadBpf   bool // built from a previous generation's objects
	ctx      context.Context

	Built     bool
	Retired   bool
	Closing   bool
	Closed    bool
	Ready     bool // Serve signalled readiness at least once
	ServeN    int  // Serve calls in progress on this plane
	Sessions  int
	DnsUp     bool
	Bpf       *bpfObjects
	closedCh  chan struct{}
	idleCh    chan struct{}
	startHook func() error
	reuseHook func() error
}

var closedIdle = func() chan struct{} { c := make(chan struct{}); close(c); return c }()

func construct(ctx context.Context, bpf any, global *config.Global, prepared bool) (*ControlPlane, error) {
	st := VerifState
	c := &ControlPlane{ID: st.nextPlane, Prepared: prepared, ctx: ctx, closedCh: make(chan struct{})}
	st.nextPlane++
	if global != nil {
		c.Port, c.Marker, c.LogLevel = global.TproxyPort, global.CheckTolerance, global.LogLevel
	}
	if o, ok := bpf.(*bpfObjects); ok && o != nil {
		c.HadBpf = true
	}
	op := "construct"
	if prepared {
		op = "construct-prepared"
	}
	verifsim.Yield("fake." + op)
	st.Building++
	event("construct-begin", c, nil)
	p := plan(op, c, nil)
	var err error
	if p.Hang {
		<-ctx.Done()
		verifsim.Yield("fake." + op + "+")
		err = ctx.Err()
	} else if pause("fake."+op, p.Delay, ctx.Done()) == 0 {
		err = ctx.Err()
	} else if p.Err != nil {
		err = p.Err
	} else if e := ctx.Err(); e != nil {
		err = e
	}
	st = VerifState
	st.Building--
	if err != nil {
		event("construct-fail", c, nil)
		return nil, err
	}
	c.Built, c.DnsUp = true, !prepared
	c.Bpf = &bpfObjects{}
	st.Planes = append(st.Planes, c)
	event("construct-ok", c, nil)
	return c, nil
}

func NewControlPlaneWithContext(ctx context.Context, log *logrus.Logger, _bpf any, dnsCache map[string]*DnsCache,
	tagToNodeList map[string][]string, groups []config.Group, routingA *config.Routing, global *config.Global,
	dnsConfig *config.Dns, externGeoDataDirs []string) (*ControlPlane, error) {
	return construct(ctx, _bpf, global, false)
}

func NewPreparedControlPlaneWithContext(ctx context.Context, log *logrus.Logger, _bpf any, dnsCache map[string]*DnsCache,
	tagToNodeList map[string][]string, groups []config.Group, routingA *config.Routing, global *config.Global,
	dnsConfig *config.Dns, externGeoDataDirs []string) (*ControlPlane, error) {
	return construct(ctx, _bpf, global, true)
}

func (c *ControlPlane) Listen(port uint16) (*Listener, error) {
	verifsim.Yield("fake.listen")
	p := plan("listen", c, nil)
	pause("fake.listen", p.Delay)
	if p.Err != nil {
		event("listen-fail", c, nil)
		return nil, p.Err
	}
	l := newListener(port)
	l.Owner = c
	event("listen-ok", c, l)
	return l, nil
}

// Serve mirrors the contract of the real one: it reports readiness (true) once,
// or false if it returns before becoming ready, and then serves until the
// listener or the control plane is closed.
func (c *ControlPlane) Serve(readyChan chan<- bool, l *Listener) (err error) {
	verifsim.Yield("fake.serve")
	st := VerifState
	st.Serving++
	c.ServeN++
	sentReady := false
	defer func() {
		if !sentReady {
			select {
			case readyChan <- false:
			default:
			}
		}
		VerifState.Serving--
		c.ServeN--
		event("serve-exit", c, l)
	}()
	event("serve-begin", c, l)
	p := plan("serve", c, l)
	if l == nil {
		return fmt.Errorf("serve: nil listener")
	}
	if c.reuseHook != nil {
		_ = c.reuseHook()
	}
	if c.startHook != nil {
		if herr := c.startHook(); herr != nil {
			event("serve-fail", c, l)
			return herr
		}
	}
	if pause("fake.serve", p.Delay, l.closedCh, c.closedCh) >= 0 {
		event("serve-fail", c, l)
		return fmt.Errorf("serve: closed before ready")
	}
	if p.Err != nil {
		event("serve-fail", c, l)
		return p.Err
	}
	if l.Closed || c.Closed {
		event("serve-fail", c, l)
		return fmt.Errorf("serve: closed before ready")
	}
	if !p.Hang {
		c.Ready, c.DnsUp = true, true
		sentReady = true
		event("serve-ready", c, l)
		select {
		case readyChan <- true:
		default:
		}
	} else {
		event("serve-never-ready", c, l)
	}
	select {
	case <-l.closedCh:
	case <-c.closedCh:
	}
	verifsim.Yield("fake.serve+")
	return nil
}

func (c *ControlPlane) Close() error {
	if c == nil {
		return nil
	}
	verifsim.Yield("fake.close")
	if c.Closing || c.Closed {
		return nil
	}
	c.Closing = true
	event("close-begin", c, nil)
	p := plan("close", c, nil)
	pause("fake.close", p.Delay)
	c.Closed = true
	close(c.closedCh)
	event("close-end", c, nil)
	return p.Err
}

func (c *ControlPlane) MarkRetired() {
	verifsim.Yield("fake.mark-retired")
	c.Retired = true
	p := plan("sessions", c, nil)
	c.Sessions = p.N
	if p.N > 0 {
		ch := make(chan struct{})
		c.idleCh = ch
		if !p.Hang {
			verifsim.AfterFunc("fake.drain", p.After, func() {
				if c.Sessions > 0 {
					c.Sessions = 0
					close(ch)
					event("drained", c, nil)
				}
			})
		}
	}
	event("mark-retired", c, nil)
}

func (c *ControlPlane) ActiveSessionCount() int {
	if c == nil {
		return 0
	}
	return c.Sessions
}

func (c *ControlPlane) DrainIdleCh() <-chan struct{} {
	if c == nil || c.idleCh == nil {
		return closedIdle
	}
	return c.idleCh
}

func (c *ControlPlane) AbortConnections() error {
	if c == nil {
		return nil
	}
	verifsim.Yield("fake.abort")
	if c.Sessions > 0 {
		c.Sessions = 0
		if c.idleCh != nil {
			close(c.idleCh)
		}
	}
	event("abort", c, nil)
	return plan("abort", c, nil).Err
}

func (c *ControlPlane) simple(op string) error {
	verifsim.Yield("fake." + op)
	event(op, c, nil)
	return plan(op, c, nil).Err
}

func (c *ControlPlane) DetachBpfHooks() error { return c.simple("detach") }
func (c *ControlPlane) StopDNSListener() error {
	err := c.simple("stop-dns")
	c.DnsUp = false
	return err
}
func (c *ControlPlane) RestartDNSListener() error {
	err := c.simple("restart-dns")
	if err == nil {
		c.DnsUp = true
	}
	return err
}
func (c *ControlPlane) PublishListenerSockets(l *Listener) error { return c.simple("publish") }
func (c *ControlPlane) RebuildReloadDatapath() error             { return c.simple("rebuild") }
func (c *ControlPlane) RunReloadRetirementCleanup(staleBeforeNs uint64) {
	_ = c.simple("retire-cleanup")
}

func (c *ControlPlane) InheritDialerHealthFrom(previous *ControlPlane) bool {
	verifsim.Yield("fake.inherit-health")
	return !plan("inherit-health", c, nil).Flag
}

func (c *ControlPlane) PeekBpf() *bpfObjects { return c.Bpf }
func (c *ControlPlane) EjectBpf() *bpfObjects {
	b := c.Bpf
	c.Bpf = nil
	return b
}
func (c *ControlPlane) InjectBpf(bpf *bpfObjects)                          { c.Bpf = bpf }
func (c *ControlPlane) EjectLpmIndices() []uint32                          { return nil }
func (c *ControlPlane) InheritLpmIndices(indices []uint32)                 {}
func (c *ControlPlane) CloneDnsCache() map[string]*DnsCache                { return map[string]*DnsCache{} }
func (c *ControlPlane) SharesActiveDnsControllerWith(o *ControlPlane) bool { return false }
func (c *ControlPlane) ReuseDNSControllerFrom(previous *ControlPlane) bool {
	return plan("reuse-dns-controller", c, nil).Flag
}
func (c *ControlPlane) ReuseDNSListenerFrom(previous *ControlPlane) bool {
	return plan("reuse-dns-listener", c, nil).Flag
}
func (c *ControlPlane) SetPreparedDNSReuseHook(hook func() error) { c.reuseHook = hook }
func (c *ControlPlane) SetPreparedDNSStartHook(hook func() error) { c.startHook = hook }
