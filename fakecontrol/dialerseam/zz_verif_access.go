package dialer

// Added to package dialer by the "reload" engine's overlay (never present in
// /repo): read-only accessors for the reload-time failure-report suppression.

// VerifReloadSuppressionDepth is the number of outstanding Begin...Suppression scopes.
func VerifReloadSuppressionDepth() int32 { return reloadProxyFailureSuppression.Load() }

// VerifProxyFailureSuppressed reports whether a node failure report would be muted now.
func VerifProxyFailureSuppressed() bool { return proxyFailureSuppressedForReload() }

// VerifReloadFailureQuiesce is the documented tail during which reports stay muted
// after the last scope ended.
func VerifReloadFailureQuiesce() int64 { return int64(reloadFailureQuiesce) }

// VerifResetReloadSuppression clears the counters between simulated runs.
func VerifResetReloadSuppression() {
	reloadProxyFailureSuppression.Store(0)
	reloadProxyFailureSuppressUntil.Store(0)
}
