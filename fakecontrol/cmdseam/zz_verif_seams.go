package cmd

// Added to package cmd by the "reload" engine's overlay (never present in /repo).
// The engine's generator rewrites the single call `signal.Notify(` in cmd/run.go
// into `verifSignalNotify(` so that the simulator, not the OS, delivers signals.

import "os"

// verifSigCh is the channel Runner.Run registered for signals in the current run.
var verifSigCh chan<- os.Signal

// verifSigSet is the set of signals Run asked for.
var verifSigSet []os.Signal

func verifSignalNotify(c chan<- os.Signal, sig ...os.Signal) {
	verifSigCh = c
	verifSigSet = append([]os.Signal(nil), sig...)
}

// verifReloadReqs is the reload-request queue of the current Run (registered through a
// second textual seam, only so that the harness can let the worker goroutine end after
// Run has returned; the worker otherwise lives until process exit by design).
var verifReloadReqs chan reloadRequest

func verifReloadReqsCreated(c chan reloadRequest) chan reloadRequest {
	verifReloadReqs = c
	return c
}
