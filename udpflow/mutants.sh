#!/bin/bash
export GOFLAGS=-mod=mod GOPROXY=off GOSUMDB=off GOTOOLCHAIN=local VERIF_EXTRA_ENGINES=engines_udpflow VERIF_PROCS=6 MUT_ENGINES=udpflow VERIF_KNOWN_FILE=/verif/udpflow/known_private.json
cd /verif
m() { ./mutest "$@" 2>&1 | head -3 >> /verif/.work-udpflow/mut.out; }
: > /verif/.work-udpflow/mut.out
m C06 M1-replay-order-reversed control/udp.go 'payloads = append(payloads, pkt)' 'payloads = append([][]byte{pkt}, payloads...)'
m C06 M2-replay-copy-shifted control/udp.go 'copy(dCopy, d)' 'copy(dCopy, d[1:])'
m C06 M3-retry-resends-all control/udp.go '			_ = DefaultUdpEndpointPool.Remove(ueKey, ue)
			retry++
			goto getNew' '			_ = DefaultUdpEndpointPool.Remove(ueKey, ue)
			retry++
			packetIndex = 0
			goto getNew'
m C13 M4-slowpath-recheck-dropped control/udp_endpoint_pool.go '	var staleToClose *UdpEndpoint
	shard.mu.Lock()
	ue, ok = shard.pool[key]' '	var staleToClose *UdpEndpoint
	shard.mu.Lock()
	ue, ok = nil, false'
m C13 M5-established-endpoints-retired-on-health-change control/udp_endpoint_pool.go 'return ue.hasSent.Load() || ue.hasReply.Load()' 'return false'
m C13 M6-transport-never-closed control/udp_endpoint_pool.go 'if ue.conn != nil {
			ue.closeErr = ue.conn.Close()' 'if ue.conn != nil && ue.failed.Load() {
			ue.closeErr = ue.conn.Close()'
m C18 M7-name-not-used-for-routing control/udp.go '					Domain:      domain,' '					Domain:      "",'
m C18 M8-target-is-client-address control/udp.go '	// Keep UDP target pinned to original destination IP to avoid QUIC session issues.
	dialTarget := realDst.String()' '	// Keep UDP target pinned to original destination IP to avoid QUIC session issues.
	dialTarget := src.String()'
m C06 M9-sniffer-buffers-shifted-slice component/sniffing/sniffer.go 's.data = append(s.data, s.buf.Bytes()[ori:])' 's.data = append(s.data, s.buf.Bytes()[ori+1:])'
m C13 M10-reply-sent-to-destination control/udp.go 'return forwardUdpEndpointReplyToClient(c.log, ue, data, from, realSrc, nil,' 'return forwardUdpEndpointReplyToClient(c.log, ue, data, from, realDst, nil,'
m C06 M11-buffered-datagrams-not-replayed control/udp.go 'if len(toReplay) > 0 {' 'if len(toReplay) > 99 {'
m C13 M12-health-check-removes-established control/udp.go '	if ue.hasSent.Load() || ue.hasReply.Load() {
		// Once an endpoint has forwarded real traffic' '	if false {
		// Once an endpoint has forwarded real traffic'
m C06 M13-quic-sni-case-not-normalised component/sniffing/sniffer.go 'return NormalizeDomain(d), nil' 'return d + "x", nil'
m C18 M14-reroute-dropped control/dial.go '	if shouldReroute {
		outboundIndex = consts.OutboundControlPlaneRouting
	}' '	if shouldReroute && false {
		outboundIndex = consts.OutboundControlPlaneRouting
	}'
echo DONE >> /verif/.work-udpflow/mut.out
