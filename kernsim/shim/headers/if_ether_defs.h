#ifndef KERNSIM_IF_ETHER_DEFS_H
#define KERNSIM_IF_ETHER_DEFS_H
#include <linux/if_ether.h>
#endif
