/* kernsim shim: errno values come from the UAPI header. */
#ifndef KERNSIM_ERRNO_BASE_H
#define KERNSIM_ERRNO_BASE_H
#include <asm-generic/errno-base.h>
#endif
