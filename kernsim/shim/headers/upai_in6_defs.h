#ifndef KERNSIM_UAPI_IN6_DEFS_H
#define KERNSIM_UAPI_IN6_DEFS_H
#include <linux/in.h>
#include <linux/in6.h>
#endif
