#ifndef KERNSIM_BPF_CORE_READ_H
#define KERNSIM_BPF_CORE_READ_H
/* CO-RE is meaningless natively: a read is a read. */
#define ___ks_arrow1(a) a
#define ___ks_arrow2(a, b) a->b
#define ___ks_arrow3(a, b, c) a->b->c
#define ___ks_arrow4(a, b, c, d) a->b->c->d
#define ___ks_nth(_1, _2, _3, _4, N, ...) N
#define BPF_CORE_READ(...) \
	___ks_nth(__VA_ARGS__, ___ks_arrow4, ___ks_arrow3, ___ks_arrow2, ___ks_arrow1)(__VA_ARGS__)
long ks_core_read_user_str(void *dst, int sz, const void *unsafe_ptr);
#define bpf_core_read_user_str(dst, sz, src) ks_core_read_user_str(dst, sz, (const void *)(src))
#endif
