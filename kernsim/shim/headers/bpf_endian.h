#ifndef KERNSIM_BPF_ENDIAN_H
#define KERNSIM_BPF_ENDIAN_H
/* host is little-endian x86-64 */
#define bpf_htons(x) ((__be16)__builtin_bswap16((__u16)(x)))
#define bpf_ntohs(x) ((__u16)__builtin_bswap16((__u16)(x)))
#define bpf_htonl(x) ((__be32)__builtin_bswap32((__u32)(x)))
#define bpf_ntohl(x) ((__u32)__builtin_bswap32((__u32)(x)))
#define bpf_cpu_to_be64(x) __builtin_bswap64((__u64)(x))
#define bpf_be64_to_cpu(x) __builtin_bswap64((__u64)(x))
#endif
