#ifndef KERNSIM_SOCKET_DEFS_H
#define KERNSIM_SOCKET_DEFS_H
/* AF_*, SOCK_* are not used by tproxy.c beyond what linux/in.h provides. */
#ifndef AF_INET
#define AF_INET 2
#endif
#ifndef AF_INET6
#define AF_INET6 10
#endif
#endif
