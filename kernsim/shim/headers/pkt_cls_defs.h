#ifndef KERNSIM_PKT_CLS_DEFS_H
#define KERNSIM_PKT_CLS_DEFS_H
#include <linux/pkt_cls.h>
#endif
