// SPDX-License-Identifier: AGPL-3.0-only
// Copyright (c) 2022-2026, daeuniverse Organization <dae@v2raya.org>

// +build ignore

// Disable implicit CO-RE from vmlinux.h to bypass bad relocation.
// Note: Previously misattributed to GCC 15 DTE. The actual root cause is that
// pahole fails to parse DWARF5 debug info correctly, which strips UAPI structs
// from the generated BTF.
// Workaround for implicit CO-RE: compile kernel with CONFIG_DEBUG_INFO_DWARF4=y.
// However, it is highly recommended to keep this macro defined, as it still
// significantly improves overall compatibility across different environments.
#define BPF_NO_PRESERVE_ACCESS_INDEX 1

#include "headers/errno-base.h"
#include "headers/if_ether_defs.h"
#include "headers/pkt_cls_defs.h"
#include "headers/socket_defs.h"
#include "headers/upai_in6_defs.h"
#include "headers/vmlinux.h"

#include "headers/bpf_core_read.h"
#include "headers/bpf_endian.h"
#include "headers/bpf_helpers.h"
#include "ebpf_sync_defs.h"

// #define __DEBUG_ROUTING
// #define __PRINT_ROUTING_RESULT
// #define __PRINT_SETUP_PROCESS_CONNNECTION
// #define __DEBUG
// #define __UNROLL_ROUTE_LOOP

#ifndef __DEBUG
#undef bpf_printk
#define bpf_printk(...) ((void)0)
#endif
// #define likely(x) x
// #define unlikely(x) x
#define likely(x) __builtin_expect((x), 1)
#define unlikely(x) __builtin_expect((x), 0)
#ifndef BIT
#define BIT(nr) (1UL << (nr))
#endif

#define IPV6_BYTE_LENGTH 16
#define TASK_COMM_LEN 16

#define PACKET_HOST 0
#define PACKET_OTHERHOST 3

#define NOWHERE_IFINDEX 0

#define MAX_INTERFACE_NUM 256
#ifndef MAX_MATCH_SET_LEN
#define MAX_MATCH_SET_LEN \
	(32 * 32) // Should be sync with common/consts/ebpf_sync_spec.json.
#endif
#define MAX_LPM_SIZE 2048000
#define MAX_LPM_NUM (MAX_MATCH_SET_LEN + 8)
#define MAX_CONN_STATE_NUM (65536 * 4)
#define MAX_REDIRECT_TRACK_NUM 65536
#define MAX_ROUTING_HANDOFF_NUM 65536
#define MAX_COOKIE_PID_PNAME_MAPPING_NUM 65536
#define MAX_DOMAIN_ROUTING_NUM 65536
#define MAX_ARG_LEN 128
#define IPV6_MAX_EXTENSIONS 8

#define ipv6_optlen(p) (((p)+1) << 3)

#define TPROXY_MARK 0x8000000

#define NDP_REDIRECT 137

// Param keys:
static const __u32 zero_key;
static const __u32 one_key = 1;
static const __u32 two_key = 2;

// Outbound Connectivity Map:

// Key format: outbound_id * 6 + domain * 2 + ipversion
// domain: 0=TCP, 1=DNS UDP, 2=data UDP; ipversion: 0=IPv4, 1=IPv6

struct {
	__uint(type, BPF_MAP_TYPE_ARRAY);
	__type(key, __u32);
	__type(value, __u32); // true, false
	__uint(max_entries, 1536); // 256 outbounds * 3 domains * 2 ipversions
} outbound_connectivity_map SEC(".maps");

// Sockmap:
struct {
	__uint(type, BPF_MAP_TYPE_SOCKMAP);
	__type(key, __u32); // 0 is tcp4, 1 is udp, 2 is tcp6.
	__type(value, __u64); // fd of socket.
	__uint(max_entries, 3);
} listen_socket_map SEC(".maps");

union ip6 {
	__u8 u6_addr8[16];
	__be16 u6_addr16[8];
	__be32 u6_addr32[4];
	__be64 u6_addr64[2];
};

struct redirect_tuple {
	union ip6 sip;
	union ip6 dip;
};

struct redirect_entry {
	__u32 ifindex;
	__u8 smac[6];
	__u8 dmac[6];
	__u8 from_wan;
	__u8 padding[3];
	__u64 last_seen_ns;
};

// redirect_track: reply traffic routing; HASH with timestamp-based cleanup.
struct {
	__uint(type, BPF_MAP_TYPE_HASH);
	__type(key, struct redirect_tuple);
	__type(value, struct redirect_entry);
	__uint(max_entries, MAX_REDIRECT_TRACK_NUM);
	__uint(map_flags, BPF_F_NO_PREALLOC);
} redirect_track SEC(".maps");

struct ip_port {
	union ip6 ip;
	__be16 port;
};

// routing_result: routing decision for userspace cache and first-packet handoff.
struct routing_result {
	__u32 mark;
	__u8 must;
	__u8 mac[6];
	__u8 outbound;
	__u8 pname[TASK_COMM_LEN];
	__u32 pid;
	__u8 dscp;
};

struct tuples_key {
	union ip6 sip;
	union ip6 dip;
	__u16 sport;
	__u16 dport;
	__u8 l4proto;
};

struct tuples {
	struct tuples_key five;
	__u8 dscp;
};

struct routing_handoff_entry {
	__u64 last_seen_ns;
	struct routing_result result;
};

struct dae_param {
	__u32 tproxy_port;
	__u32 control_plane_pid;
	__u32 dae0_ifindex;
	__u32 dae_netns_id;
	__u8 dae0peer_mac[6];
	__u8 padding_after_mac[2]; // pad to align use_redirect_peer
	__u8 use_redirect_peer;
	__u8 has_bpf_get_current_task;
	__u16 padding2;
	// dae_socket_mark is set on dae's own sockets (Anyfrom pool) to identify them.
	// When bpf_sk_lookup_* finds a socket, we check this mark to skip dae's own sockets.
	// This prevents false positives in NAT loopback detection for transparent proxying.
	__u32 dae_socket_mark;
};

/* Use const volatile for cilium/ebpf v0.20.0 compatibility.
 * This ensures the variable is placed in .rodata section and
 * can be rewritten from userspace via RewriteConstants. */
const volatile struct dae_param PARAM = {};

/* fast_sock map and sk_msg programs are preserved here strictly for ABI compatibility
 * with Go's generated bpf2go code (bpf_stub.go) and tcp_offload_linux.go.
 * BPF_PROG_TYPE_SOCK_OPS + BPF_PROG_TYPE_SK_MSG (bpf_msg_redirect_hash) combination
 * has been proven to cause Kernel Panic. We use TC-based redirect instead.
 * The Go side will still interact with these stubs, but they do nothing in the kernel.
 */
struct {
	__uint(type, BPF_MAP_TYPE_SOCKHASH);
	__type(key, struct tuples_key);
	__type(value, __u64);
	__uint(max_entries, 1);
} fast_sock SEC(".maps");

struct {
	__uint(type, BPF_MAP_TYPE_HASH);
	__type(key, struct tuples_key);
	__type(value, struct routing_handoff_entry);
	__uint(max_entries, MAX_ROUTING_HANDOFF_NUM);
	__uint(map_flags, BPF_F_NO_PREALLOC);
} routing_handoff_map SEC(".maps");

// Array of LPM tries:
struct lpm_key {
	/* Keep the LPM trie header layout local to avoid unnecessary CO-RE
	 * relocations against struct bpf_lpm_trie_key. The map ABI only
	 * requires prefixlen to be the first u32 in the key. */
	__u32 prefixlen;
	__be32 data[4];
};

struct map_lpm_type {
	__uint(type, BPF_MAP_TYPE_LPM_TRIE);
	__uint(map_flags, BPF_F_NO_PREALLOC);
	__uint(max_entries, MAX_LPM_SIZE);
	__uint(key_size, sizeof(struct lpm_key));
	__uint(value_size, sizeof(__u32));
} unused_lpm_type SEC(".maps");

struct {
	__uint(type, BPF_MAP_TYPE_ARRAY_OF_MAPS);
	__uint(key_size, sizeof(__u32));
	__uint(max_entries, MAX_LPM_NUM);
	// __uint(pinning, LIBBPF_PIN_BY_NAME);
	__array(values, struct map_lpm_type);
} lpm_array_map SEC(".maps");

struct port_range {
	__u16 port_start;
	__u16 port_end;
};

/*
 * Rule is like as following:
 *
 * domain(geosite:cn, suffix: google.com) && l4proto(tcp) -> my_group
 *
 * pseudocode: domain(geosite:cn || suffix:google.com) && l4proto(tcp) ->
 * my_group
 *
 * A match_set can be: IP set geosite:cn, suffix google.com, tcp proto
 */
struct match_set {
	union {
		__u8 __value[16]; // Placeholder for bpf2go.

		__u32 index;
		struct port_range port_range;
		enum L4ProtoType l4proto_type;
		enum IpVersionType ip_version;
		__u32 pname[TASK_COMM_LEN / 4];
		__u8 dscp;
	};
	__u8 not; // Subrule inversion flag.
	enum MatchType type;
	__u8 outbound; // User-defined value range is [0, 252].
	__u8 must;
	__u32 mark;
};

struct {
	__uint(type, BPF_MAP_TYPE_ARRAY);
	__type(key, __u32);
	__type(value, struct match_set);
	__uint(max_entries, MAX_MATCH_SET_LEN);
	// __uint(pinning, LIBBPF_PIN_BY_NAME);
} routing_map SEC(".maps");

// key=0: active routing rules length in routing_map.
struct {
	__uint(type, BPF_MAP_TYPE_ARRAY);
	__type(key, __u32);
	__type(value, __u32);
	__uint(max_entries, 1);
} routing_meta_map SEC(".maps");

struct domain_routing {
	__u32 bitmap[MAX_MATCH_SET_LEN / 32];
};

// domain_routing_map: domain → routing bitmap cache (HASH, no LRU).
struct {
	__uint(type, BPF_MAP_TYPE_HASH);
	__uint(map_flags, BPF_F_NO_PREALLOC);
	__type(key, __be32[4]);
	__type(value, struct domain_routing);
	__uint(max_entries, MAX_DOMAIN_ROUTING_NUM);
} domain_routing_map SEC(".maps");

struct ip_port_proto {
	__u32 ip[4];
	__be16 port;
	__u8 proto;
};

struct pid_pname {
	__u64 last_seen_ns;
	__u32 pid;
	char pname[TASK_COMM_LEN];
};

struct {
	__uint(type, BPF_MAP_TYPE_HASH);
	__type(key, __u64);
	__type(value, struct pid_pname);
	__uint(max_entries, MAX_COOKIE_PID_PNAME_MAPPING_NUM);
	__uint(map_flags, BPF_F_NO_PREALLOC);
} cookie_pid_map SEC(".maps");

// conn_state: shared TCP/UDP connection state with embedded routing.
union routing_meta {
	struct {
		__u32 mark;
		__u8 outbound;
		__u8 must;
		__u8 dscp;
		__u8 has_routing;
	} data;
	__u64 raw;
} __attribute__((aligned(8)));

static __always_inline union routing_meta
build_routing_meta(__u8 outbound, __u32 mark, __u8 must, __u8 dscp)
{
	union routing_meta meta = { 0 };

	meta.data.outbound = outbound;
	meta.data.mark = mark;
	meta.data.must = must;
	meta.data.dscp = dscp;
	meta.data.has_routing = 1;
	return meta;
}

static __always_inline void
publish_routing_meta(union routing_meta *dst, union routing_meta meta)
{
	/* Publish routing only after side fields (mac/pname/pid) are ready. */
	barrier();
	*(volatile __u64 *)&dst->raw = meta.raw;
}

static __always_inline bool bpf_sock_is_dae_socket(const struct bpf_sock *sk)
{
	if (!sk || !PARAM.dae_socket_mark)
		return false;

	struct bpf_sock *fullsock = bpf_sk_fullsock((struct bpf_sock *)sk);

	return fullsock && fullsock->mark == PARAM.dae_socket_mark;
}

struct conn_state {
	// For each flow (echo symmetric path), note the original flow direction.
	// Mark as true if traffic go through wan ingress.
	// For traffic from lan that go through wan ingress, dae parse them in lan egress
	bool is_wan_ingress_direction;

	// TCP state. UDP entries leave this as TCP_STATE_ACTIVE.
	__u8 state;

	// Last seen timestamp in nanoseconds (bpf_ktime_get_ns()).
	// Userspace janitor periodically cleans up expired entries by protocol.
	__u64 last_seen_ns;

	// Embedded routing decision result for this flow.
	// This avoids a separate routing_tuples_map lookup and ensures consistency.
	union routing_meta meta;
	__u8 mac[6];               // Next hop MAC for redirected packets
	__u8 padding[2];           // Alignment
	__u8 pname[TASK_COMM_LEN]; // Process name (for WAN egress; empty for LAN)
	__u32 pid;                 // Process ID (for WAN egress; 0 for LAN)
};

struct {
	__uint(type, BPF_MAP_TYPE_HASH);
	__uint(max_entries, MAX_CONN_STATE_NUM);
	__type(key, struct tuples_key);
	__type(value, struct conn_state);
	__uint(pinning, LIBBPF_PIN_BY_NAME);  // Loader may override pinning on cold start.
	__uint(map_flags, BPF_F_NO_PREALLOC);
} conn_state_map SEC(".maps");

// key=0: UDP conn overflow count; key=1: TCP conn overflow count.
struct {
	__uint(type, BPF_MAP_TYPE_ARRAY);
	__type(key, __u32);
	__type(value, __u64);
	__uint(max_entries, 2);
} bpf_stats_map SEC(".maps");

enum bpf_stats_key {
	BPF_STATS_UDP_CONN_OVERFLOW = 0,
	BPF_STATS_TCP_CONN_OVERFLOW = 1,
};

// Events delivered to userspace via ring buffer.
enum dae_event_type {
	DAE_EVENT_BLOCKED = 0,       // Connection blocked (OUTBOUND_BLOCK)
	DAE_EVENT_UDP_CONN_OVERFLOW = 1, // UDP conn state map overflow
	DAE_EVENT_TCP_CONN_OVERFLOW = 2, // TCP conn state map overflow
};

struct dae_event {
	__u64 timestamp;
	__u32 type;
	__u32 pid;
	__u8 pname[16];
	__u8 outbound;
	__u8 l4proto;
	__u8 pad[2];
	__u32 sip[4];
	__u32 dip[4];
	__u16 sport;
	__u16 dport;
};

struct {
	__uint(type, BPF_MAP_TYPE_RINGBUF);
	__uint(max_entries, 256 * 1024);  // 256KB ring buffer
} event_ringbuf SEC(".maps");

// TCP connection state constants.
enum tcp_state {
	TCP_STATE_ACTIVE = 0,
	TCP_STATE_CLOSING = 1,  // FIN or RST seen
};

// Parsed header state; lives in per-CPU scratch map to stay under 512-byte stack.
struct parse_transport_ctx {
	struct ethhdr ethh;
	struct iphdr iph;
	struct ipv6hdr ipv6h;
	struct icmp6hdr icmp6h;
	struct tcphdr tcph;
	struct udphdr udph;
	__u8 ihl;
	__u8 l4proto;
	__u8 listener_l4proto;
	__u8 pad;
};

struct {
	__uint(type, BPF_MAP_TYPE_PERCPU_ARRAY);
	__type(key, __u32);
	__type(value, struct parse_transport_ctx);
	__uint(max_entries, 1);
} parse_ctx_scratch_map SEC(".maps");

// Functions:

static __always_inline int
send_dae_event(__u32 type, __u32 pid, const char *pname, __u8 outbound,
	       __u8 l4proto, const __u32 *sip, const __u32 *dip,
	       __u16 sport, __u16 dport)
{
	struct dae_event e = {};

	e.timestamp = bpf_ktime_get_ns();
	e.type = type;
	e.pid = pid;
	e.outbound = outbound;
	e.l4proto = l4proto;
	e.sport = sport;
	e.dport = dport;

	if (pname)
		__builtin_memcpy(e.pname, pname, 16);

	if (sip)
		__builtin_memcpy(e.sip, sip, 16);

	if (dip)
		__builtin_memcpy(e.dip, dip, 16);

	return bpf_ringbuf_output(&event_ringbuf, &e, sizeof(e), 0);
}

static __always_inline __u8 ipv4_get_dscp(const struct iphdr *iph)
{
	return (iph->tos & 0xfc) >> 2;
}

static __always_inline __u8 ipv6_get_dscp(const struct ipv6hdr *ipv6h)
{
	const __u8 *version_and_tc = (const __u8 *)ipv6h;

	/* Read DSCP from raw bytes to avoid bitfield layout variability. */
	return ((version_and_tc[0] & 0x0f) << 2) | (version_and_tc[1] >> 6);
}

static __always_inline void
get_tuples(const struct __sk_buff *skb, struct tuples *tuples,
	   const struct iphdr *iph, const struct ipv6hdr *ipv6h,
	   const struct tcphdr *tcph, const struct udphdr *udph, __u8 l4proto)
{
	__builtin_memset(tuples, 0, sizeof(*tuples));
	tuples->five.l4proto = l4proto;

	// Both iph and ipv6h are stack-allocated; check version field.
	if (iph->version == 4) {
		tuples->five.sip.u6_addr32[2] = bpf_htonl(0x0000ffff);
		tuples->five.sip.u6_addr32[3] = iph->saddr;

		tuples->five.dip.u6_addr32[2] = bpf_htonl(0x0000ffff);
		tuples->five.dip.u6_addr32[3] = iph->daddr;

		tuples->dscp = ipv4_get_dscp(iph);

	} else {
		// IPv6
		__builtin_memcpy(&tuples->five.dip, &ipv6h->daddr,
				 IPV6_BYTE_LENGTH);
		__builtin_memcpy(&tuples->five.sip, &ipv6h->saddr,
				 IPV6_BYTE_LENGTH);

		tuples->dscp = ipv6_get_dscp(ipv6h);
	}
	if (l4proto == IPPROTO_TCP && tcph) {
		tuples->five.sport = tcph->source;
		tuples->five.dport = tcph->dest;
	} else if (udph) {
		tuples->five.sport = udph->source;
		tuples->five.dport = udph->dest;
	}
}

static __always_inline bool equal16(const __be32 x[4], const __be32 y[4])
{
	return ((__be64 *)x)[0] == ((__be64 *)y)[0] &&
	       ((__be64 *)x)[1] == ((__be64 *)y)[1];
}

static __always_inline bool is_extension_header(__u8 nexthdr)
{
	switch (nexthdr) {
	case IPPROTO_HOPOPTS:
	case IPPROTO_ROUTING:
	case IPPROTO_FRAGMENT:
	case IPPROTO_DSTOPTS:
		return true;
	default:
		return false;
	}
}

#define PARSE_FRAGMENT 2

static __always_inline __u8
tcp_listener_l4proto(const struct tcphdr *tcph)
{
	return tcph && tcph->syn && !tcph->ack ? IPPROTO_TCP : 0;
}

// Fast-path packet parsing via bpf_skb_pull_data + direct access.
// Returns 0 on success, -1 for slow-path fallback, -EFAULT for malformed.
static __always_inline int
parse_transport_fast(struct __sk_buff *skb, __u32 link_h_len,
		     struct parse_transport_ctx *ctx)
{
	struct ethhdr *ethh = &ctx->ethh;
	struct iphdr *iph = &ctx->iph;
	struct ipv6hdr *ipv6h = &ctx->ipv6h;
	struct icmp6hdr *icmp6h = &ctx->icmp6h;
	struct tcphdr *tcph = &ctx->tcph;
	struct udphdr *udph = &ctx->udph;
	__u8 *ihl = &ctx->ihl;
	__u8 *l4proto = &ctx->l4proto;
	__u8 *listener_l4proto = &ctx->listener_l4proto;

	void *data, *data_end;
	__u32 offset = 0;

	*ihl = 0;
	*l4proto = 0;
	*listener_l4proto = 0;
	__builtin_memset(ethh, 0, sizeof(struct ethhdr));
	__builtin_memset(iph, 0, sizeof(struct iphdr));
	__builtin_memset(ipv6h, 0, sizeof(struct ipv6hdr));
	__builtin_memset(icmp6h, 0, sizeof(struct icmp6hdr));
	__builtin_memset(tcph, 0, sizeof(struct tcphdr));
	__builtin_memset(udph, 0, sizeof(struct udphdr));

	// Pull 128 bytes: eth(14)+IP(20)+TCP(20)+options. Larger sizes hurt verifier.
#define HEADER_PULL_SIZE 128
	if (bpf_skb_pull_data(skb, HEADER_PULL_SIZE))
		return -1;

	data = (void *)(long)skb->data;
	data_end = (void *)(long)skb->data_end;

	// Parse Ethernet header (or L3-only)
	if (link_h_len == ETH_HLEN) {
		struct ethhdr *eth_ptr = data;

		if ((void *)(eth_ptr + 1) > data_end)
			return -1;

		ethh->h_proto = eth_ptr->h_proto;
		ethh->h_dest[0] = eth_ptr->h_dest[0];
		ethh->h_dest[1] = eth_ptr->h_dest[1];
		ethh->h_dest[2] = eth_ptr->h_dest[2];
		ethh->h_dest[3] = eth_ptr->h_dest[3];
		ethh->h_dest[4] = eth_ptr->h_dest[4];
		ethh->h_dest[5] = eth_ptr->h_dest[5];
		ethh->h_source[0] = eth_ptr->h_source[0];
		ethh->h_source[1] = eth_ptr->h_source[1];
		ethh->h_source[2] = eth_ptr->h_source[2];
		ethh->h_source[3] = eth_ptr->h_source[3];
		ethh->h_source[4] = eth_ptr->h_source[4];
		ethh->h_source[5] = eth_ptr->h_source[5];
		offset += sizeof(struct ethhdr);
	} else {
		ethh->h_proto = skb->protocol;
	}

	// Parse IP header
	if (ethh->h_proto == bpf_htons(ETH_P_IP)) {
		struct iphdr *iph_ptr = data + offset;

		if ((void *)(iph_ptr + 1) > data_end)
			return -1;
		// Malformed IP header: ihl < 5 is invalid, no point falling back
		if (iph_ptr->ihl < 5)
			return -EFAULT;

		// Copy saddr/daddr early so get_tuples() works for PARSE_FRAGMENT.
		iph->version = iph_ptr->version;
		iph->ihl = iph_ptr->ihl;
		iph->tos = iph_ptr->tos;
		iph->protocol = iph_ptr->protocol;
		iph->saddr = iph_ptr->saddr;
		iph->daddr = iph_ptr->daddr;
		*ihl = iph_ptr->ihl;
		*l4proto = iph_ptr->protocol;

		__u32 ip_hdr_len = iph_ptr->ihl * 4;
		__u32 l4_offset = offset + ip_hdr_len;

		// First fragment carries L4 header; non-initial fragments fall back.
		__u16 frag_off = bpf_ntohs(iph_ptr->frag_off);

		if ((frag_off & 0x1FFF) != 0)
			return PARSE_FRAGMENT;

		switch (iph->protocol) {
		case IPPROTO_TCP: {
			struct tcphdr *tcph_ptr = data + l4_offset;

			if ((void *)(tcph_ptr + 1) > data_end)
				return -1;
			tcph->source = tcph_ptr->source;
			tcph->dest = tcph_ptr->dest;
			tcph->seq = tcph_ptr->seq;
			tcph->ack_seq = tcph_ptr->ack_seq;
			tcph->doff = tcph_ptr->doff;
			tcph->rst = tcph_ptr->rst;
			tcph->syn = tcph_ptr->syn;
			tcph->fin = tcph_ptr->fin;
			tcph->ack = tcph_ptr->ack;
			tcph->window = tcph_ptr->window;
			*listener_l4proto = tcp_listener_l4proto(tcph_ptr);
			return 0;
		}
		case IPPROTO_UDP: {
			struct udphdr *udph_ptr = data + l4_offset;

			if ((void *)(udph_ptr + 1) > data_end)
				return -1;
			udph->source = udph_ptr->source;
			udph->dest = udph_ptr->dest;
			udph->len = udph_ptr->len;
			udph->check = udph_ptr->check;
			*listener_l4proto = IPPROTO_UDP;
			return 0;
		}
		default:
			return 1;
		}
	}

	if (ethh->h_proto == bpf_htons(ETH_P_IPV6)) {
		struct ipv6hdr *ipv6h_ptr = data + offset;

		if ((void *)(ipv6h_ptr + 1) > data_end)
			return -1;

		/* Preserve version, traffic class, and flow label for DSCP extraction. */
		__builtin_memcpy(ipv6h, ipv6h_ptr, 4);
		ipv6h->nexthdr = ipv6h_ptr->nexthdr;
		ipv6h->payload_len = ipv6h_ptr->payload_len;
		__u32 *saddr_dst = (__u32 *)ipv6h->saddr.in6_u.u6_addr32;
		const __u32 *saddr_src = (const __u32 *)ipv6h_ptr->saddr.in6_u.u6_addr32;

		saddr_dst[0] = saddr_src[0];
		saddr_dst[1] = saddr_src[1];
		saddr_dst[2] = saddr_src[2];
		saddr_dst[3] = saddr_src[3];
		__u32 *daddr_dst = (__u32 *)ipv6h->daddr.in6_u.u6_addr32;
		const __u32 *daddr_src = (const __u32 *)ipv6h_ptr->daddr.in6_u.u6_addr32;

		daddr_dst[0] = daddr_src[0];
		daddr_dst[1] = daddr_src[1];
		daddr_dst[2] = daddr_src[2];
		daddr_dst[3] = daddr_src[3];

		*l4proto = ipv6h_ptr->nexthdr;
		*ihl = sizeof(struct ipv6hdr) / 4;
		offset += sizeof(struct ipv6hdr);

		__u8 nexthdr = ipv6h_ptr->nexthdr;
		const __u8 *ext_hdr;

		for (int i = 0; i < IPV6_MAX_EXTENSIONS; i++) {
			if (nexthdr == IPPROTO_NONE)
				return -EFAULT;
			if (nexthdr == IPPROTO_FRAGMENT) {
				// First fragment still has L4; non-initial falls back.
				struct frag_hdr *fragh = data + offset;

				if ((void *)(fragh + 1) > data_end)
					return -1;
				__u16 frag_off = bpf_ntohs(fragh->frag_off);

				nexthdr = fragh->nexthdr;
				*l4proto = nexthdr;
				offset += sizeof(*fragh);
				if ((frag_off & 0xFFF8) != 0)
					return PARSE_FRAGMENT;
				continue;
			}
			if (!is_extension_header(nexthdr))
				break;

			ext_hdr = data + offset;
			if ((void *)(ext_hdr + 2) > data_end)
				return -1;

			nexthdr = ext_hdr[0];
			offset += ipv6_optlen(ext_hdr[1]);
			*l4proto = nexthdr;
		}

		if (is_extension_header(nexthdr))
			return -EFAULT;

		// L4 parsing for IPv6
		switch (nexthdr) {
		case IPPROTO_TCP: {
			struct tcphdr *tcph_ptr = data + offset;

			if ((void *)(tcph_ptr + 1) > data_end)
				return -1;
			tcph->source = tcph_ptr->source;
			tcph->dest = tcph_ptr->dest;
			tcph->seq = tcph_ptr->seq;
			tcph->ack_seq = tcph_ptr->ack_seq;
			tcph->doff = tcph_ptr->doff;
			tcph->rst = tcph_ptr->rst;
			tcph->syn = tcph_ptr->syn;
			tcph->fin = tcph_ptr->fin;
			tcph->ack = tcph_ptr->ack;
			tcph->window = tcph_ptr->window;
			*listener_l4proto = tcp_listener_l4proto(tcph_ptr);
			return 0;
		}
		case IPPROTO_UDP: {
			struct udphdr *udph_ptr = data + offset;

			if ((void *)(udph_ptr + 1) > data_end)
				return -1;
			udph->source = udph_ptr->source;
			udph->dest = udph_ptr->dest;
			udph->len = udph_ptr->len;
			udph->check = udph_ptr->check;
			*listener_l4proto = IPPROTO_UDP;
			return 0;
		}
		case IPPROTO_ICMPV6: {
			struct icmp6hdr *icmp6h_ptr = data + offset;

			if ((void *)(icmp6h_ptr + 1) > data_end)
				return -1;
			icmp6h->icmp6_type = icmp6h_ptr->icmp6_type;
			icmp6h->icmp6_code = icmp6h_ptr->icmp6_code;
			return 0;
		}
		default:
			return 1;
		}
	}

	return 1;
}

// Slow-path fallback using bpf_skb_load_bytes.
static __always_inline int
parse_transport_slow(struct __sk_buff *skb, __u32 link_h_len,
		     struct parse_transport_ctx *ctx)
{
	struct ethhdr *ethh = &ctx->ethh;
	struct iphdr *iph = &ctx->iph;
	struct ipv6hdr *ipv6h = &ctx->ipv6h;
	struct icmp6hdr *icmp6h = &ctx->icmp6h;
	struct tcphdr *tcph = &ctx->tcph;
	struct udphdr *udph = &ctx->udph;
	__u8 *ihl = &ctx->ihl;
	__u8 *l4proto = &ctx->l4proto;
	__u8 *listener_l4proto = &ctx->listener_l4proto;

	__u32 offset = 0;
	int ret;

	if (link_h_len == ETH_HLEN) {
		ret = bpf_skb_load_bytes(skb, offset, ethh,
					 sizeof(struct ethhdr));
		if (ret)
			return 1;
		offset += sizeof(struct ethhdr);
	} else {
		__builtin_memset(ethh, 0, sizeof(struct ethhdr));
		ethh->h_proto = skb->protocol;
	}

	*ihl = 0;
	*l4proto = 0;
	*listener_l4proto = 0;
	__builtin_memset(iph, 0, sizeof(struct iphdr));
	__builtin_memset(ipv6h, 0, sizeof(struct ipv6hdr));
	__builtin_memset(icmp6h, 0, sizeof(struct icmp6hdr));
	__builtin_memset(tcph, 0, sizeof(struct tcphdr));
	__builtin_memset(udph, 0, sizeof(struct udphdr));

	if (ethh->h_proto == bpf_htons(ETH_P_IP)) {
		ret = bpf_skb_load_bytes(skb, offset, iph,
					 sizeof(struct iphdr));
		if (ret)
			return -EFAULT;
		if (iph->ihl < 5)
			return -EFAULT;
		*ihl = iph->ihl;
		*l4proto = iph->protocol;

		// First fragment carries L4; non-initial falls back.
		__u16 frag_off = bpf_ntohs(iph->frag_off);

		if ((frag_off & 0x1FFF) != 0)
			return PARSE_FRAGMENT;

		offset += iph->ihl * 4;

		switch (iph->protocol) {
		case IPPROTO_TCP:
			ret = bpf_skb_load_bytes(skb, offset, tcph,
						 sizeof(struct tcphdr));
			if (ret)
				return -EFAULT;
			*listener_l4proto = tcp_listener_l4proto(tcph);
			break;
		case IPPROTO_UDP:
			ret = bpf_skb_load_bytes(skb, offset, udph,
						 sizeof(struct udphdr));
			if (ret)
				return -EFAULT;
			*listener_l4proto = IPPROTO_UDP;
			break;
		default:
			return 1;
		}
		return 0;
	}

	if (ethh->h_proto == bpf_htons(ETH_P_IPV6)) {
		ret = bpf_skb_load_bytes(skb, offset, ipv6h,
					 sizeof(struct ipv6hdr));
		if (ret)
			return -EFAULT;

		offset += sizeof(struct ipv6hdr);
		*ihl = sizeof(struct ipv6hdr) / 4;
		__u8 nexthdr = ipv6h->nexthdr;

		// Skip extension headers using bpf_skb_load_bytes
		for (int i = 0; i < IPV6_MAX_EXTENSIONS; i++) {
			if (nexthdr == IPPROTO_NONE)
				return -EFAULT;
			if (nexthdr == IPPROTO_FRAGMENT) {
				// First fragment still has L4; non-initial falls back.
				struct frag_hdr fragh = {};

				ret = bpf_skb_load_bytes(skb, offset, &fragh,
							 sizeof(fragh));
				if (ret)
					return -EFAULT;
				nexthdr = fragh.nexthdr;
				*l4proto = nexthdr;
				offset += sizeof(fragh);
				if ((bpf_ntohs(fragh.frag_off) & 0xFFF8) != 0)
					return PARSE_FRAGMENT;
				continue;
			}

			if (!is_extension_header(nexthdr))
				break;

			ret = bpf_skb_load_bytes(skb, offset, &nexthdr, 1);
			if (ret)
				return -EFAULT;

			__u8 hdr_ext_len = 0;

			ret = bpf_skb_load_bytes(skb, offset + 1, &hdr_ext_len,
						 sizeof(hdr_ext_len));
			if (ret)
				return -EFAULT;

			__u32 ext_len = ipv6_optlen(hdr_ext_len);

			offset += ext_len;
		}

		if (is_extension_header(nexthdr))
			return -EFAULT;

		*l4proto = nexthdr;
		switch (nexthdr) {
		case IPPROTO_TCP:
			ret = bpf_skb_load_bytes(skb, offset, tcph,
						 sizeof(struct tcphdr));
			if (ret)
				return -EFAULT;
			*listener_l4proto = tcp_listener_l4proto(tcph);
			break;
		case IPPROTO_UDP:
			ret = bpf_skb_load_bytes(skb, offset, udph,
						 sizeof(struct udphdr));
			if (ret)
				return -EFAULT;
			*listener_l4proto = IPPROTO_UDP;
			break;
		case IPPROTO_ICMPV6:
			ret = bpf_skb_load_bytes(skb, offset, icmp6h,
						 sizeof(struct icmp6hdr));
			if (ret)
				return -EFAULT;
			break;
		default:
			return 1;
		}
		return 0;
	}

	return 1;
}

// Try fast path first; fall back to slow path on -1.
static __always_inline int
parse_transport(struct __sk_buff *skb, __u32 link_h_len,
		struct parse_transport_ctx *ctx)
{
	int ret = parse_transport_fast(skb, link_h_len, ctx);

	if (ret == -1)
		return parse_transport_slow(skb, link_h_len, ctx);
	return ret;
}

struct parsed_packet {
	struct ethhdr ethh;
	struct tuples tuples;
	struct tcphdr tcph;
	struct udphdr udph;
	__u8 l4proto;
	__u8 listener_l4proto;
};

struct {
	__uint(type, BPF_MAP_TYPE_PERCPU_ARRAY);
	__type(key, __u32);
	__type(value, struct parsed_packet);
	__uint(max_entries, 1);
} pkt_scratch_map SEC(".maps");

static __always_inline int
parse_packet(struct __sk_buff *skb, __u32 link_h_len,
	     struct parsed_packet *out)
{
	__u32 scratch_key = 0;
	struct parse_transport_ctx *ctx =
		bpf_map_lookup_elem(&parse_ctx_scratch_map, &scratch_key);

	if (!ctx)
		return -EFAULT;

	int ret = parse_transport(skb, link_h_len, ctx);

	if (ret < 0)
		return ret;
	if (ctx->l4proto == IPPROTO_ICMPV6)
		return 1;

	// PARSE_FRAGMENT still populates the IP tuple for callers.
	__builtin_memset(out, 0, sizeof(*out));
	out->ethh = ctx->ethh;
	out->tcph = ctx->tcph;
	out->udph = ctx->udph;
	out->l4proto = ctx->l4proto;
	out->listener_l4proto = ctx->listener_l4proto;
	get_tuples(skb, &out->tuples, &ctx->iph, &ctx->ipv6h, &ctx->tcph, &ctx->udph, ctx->l4proto);
	return ret;
}

struct route_ctx {
	__u32 flag[8];
	__u8 is_wan;
	__be32 mac[4];
	__u16 h_dport;
	__u16 h_sport;
	__s64 result;
	struct lpm_key lpm_key_saddr, lpm_key_daddr, lpm_key_mac;
	__u32 domain_word_idx;
	__u32 domain_word_bits;
	bool domain_word_cached;
	__u8 route_state;
};

struct route_loop_ctx {
	struct route_ctx *work;
};

struct {
	__uint(type, BPF_MAP_TYPE_PERCPU_ARRAY);
	__type(key, __u32);
	__type(value, struct route_ctx);
	__uint(max_entries, 1);
} route_ctx_scratch_map SEC(".maps");

enum route_state_flags {
	ROUTE_STATE_BAD_RULE = 1U << 0,
	ROUTE_STATE_GOOD_SUBRULE = 1U << 1,
	ROUTE_STATE_MUST = 1U << 2,
	ROUTE_STATE_DNS_QUERY = 1U << 3,
};

struct wan_egress_route_scratch {
	__u32 flag[8];
	__be32 mac_be[4];
	__u8 is_wan;
	__u8 must_val;
	__u8 mac[6];
};

struct {
	__uint(type, BPF_MAP_TYPE_PERCPU_ARRAY);
	__type(key, __u32);
	__type(value, struct wan_egress_route_scratch);
	__uint(max_entries, 1);
} wan_egress_route_scratch_map SEC(".maps");

// Per-CPU scratch to tunnel conntrack args past the BPF 5-argument limit.
#define CT_ARGS_HAS_ROUTING  BIT(0)
#define CT_ARGS_HAS_MAC      BIT(1)
#define CT_ARGS_HAS_PNAME    BIT(2)

struct conntrack_args {
	__u8 flags;        // CT_ARGS_HAS_* bitmask
	__u8 outbound;
	__u8 must;
	__u8 dscp;
	__u32 mark;
	__u32 pid;
	__u8 mac[6];
	__u8 padding[2];
	__u8 pname[TASK_COMM_LEN];
};

struct {
	__uint(type, BPF_MAP_TYPE_PERCPU_ARRAY);
	__type(key, __u32);
	__type(value, struct conntrack_args);
	__uint(max_entries, 1);
} conntrack_args_map SEC(".maps");

static __always_inline void
conntrack_args_set(struct conntrack_args *a,
		   __u8 *outbound, __u32 *mark, __u8 *must, __u8 *mac,
		   __u8 dscp, const char *pname, __u32 pid)
{
	__u8 flags = 0;

	a->outbound = 0;
	a->must = 0;
	a->dscp = dscp;
	a->mark = 0;
	a->pid = 0;
	__builtin_memset(a->mac, 0, sizeof(a->mac));
	__builtin_memset(a->pname, 0, sizeof(a->pname));

	if (outbound) {
		flags |= CT_ARGS_HAS_ROUTING;
		a->outbound = *outbound;
		a->mark = *mark;
		a->must = *must;
	}
	if (mac) {
		flags |= CT_ARGS_HAS_MAC;
		__builtin_memcpy(a->mac, mac, 6);
	}
	if (pname) {
		flags |= CT_ARGS_HAS_PNAME;
		__builtin_memcpy(a->pname, pname, TASK_COMM_LEN);
	}
	a->pid = pid;
	a->flags = flags;
}

static __always_inline const char *
conntrack_args_pname_or_null(const struct conntrack_args *a)
{
	return a->flags & CT_ARGS_HAS_PNAME ? (const char *)a->pname : NULL;
}

static __always_inline int
route_match_lpm(struct route_ctx *ctx, const struct match_set *match_set,
		struct lpm_key *lpm_key)
{
	struct map_lpm_type *lpm;

	lpm = bpf_map_lookup_elem(&lpm_array_map, &match_set->index);
	if (unlikely(!lpm)) {
		ctx->result = -EFAULT;
		return 1;
	}

	if (bpf_map_lookup_elem(lpm, lpm_key)) {
		// match_set hits.
		ctx->route_state |= ROUTE_STATE_GOOD_SUBRULE;
	}
	return 0;
}

static __always_inline struct lpm_key *
route_select_lpm_key(struct route_ctx *ctx, __u8 match_type)
{
	if (match_type == MatchType_Mac)
		return &ctx->lpm_key_mac;
	if (match_type == MatchType_IpSet)
		return &ctx->lpm_key_daddr;
	return &ctx->lpm_key_saddr;
}

static __always_inline int route_match_domain_set(struct route_ctx *ctx,
						  __u32 index)
{
	__u32 bitmap_word_idx = index / 32;
	struct domain_routing *domain_routing;

	if (unlikely(bitmap_word_idx >= MAX_MATCH_SET_LEN / 32)) {
		ctx->result = -EFAULT;
		return 1;
	}

	if (!ctx->domain_word_cached || ctx->domain_word_idx != bitmap_word_idx) {
		// Refresh one 32-rule bitmap word at a time.
		__be32 daddr[4];

		__builtin_memcpy(daddr, ctx->lpm_key_daddr.data, sizeof(daddr));
		domain_routing = bpf_map_lookup_elem(&domain_routing_map, daddr);
		ctx->domain_word_idx = bitmap_word_idx;
		if (domain_routing)
			ctx->domain_word_bits =
				domain_routing->bitmap[bitmap_word_idx];
		else
			ctx->domain_word_bits = 0;
		ctx->domain_word_cached = true;
	}

	if ((ctx->domain_word_bits >> (index % 32)) & 1)
		ctx->route_state |= ROUTE_STATE_GOOD_SUBRULE;
	return 0;
}

static __always_inline int
route_eval_match(struct route_ctx *ctx, const struct match_set *match_set,
		 __u32 index, __u8 l4proto_type, __u8 ipversion_type,
		 const __u32 *pname, __u8 is_wan, __u8 dscp)
{
	__u8 match_type = match_set->type;

	switch (match_type) {
	case MatchType_Mac:
	case MatchType_IpSet:
	case MatchType_SourceIpSet:
	{
		struct lpm_key *lpm_key = route_select_lpm_key(ctx, match_type);

#ifdef __DEBUG_ROUTING
		bpf_printk(
			"CHECK: lpm_key_map, match_set->type: %u, not: %d, outbound: %u",
			match_type, match_set->not, match_set->outbound);
		bpf_printk("\tip: %pI6", lpm_key->data);
#endif
		if (route_match_lpm(ctx, match_set, lpm_key))
			return 1;
		break;
	}
	case MatchType_Port:
	case MatchType_SourcePort:
	{
		__u16 check_port = match_type == MatchType_Port ? ctx->h_dport :
						      ctx->h_sport;
#ifdef __DEBUG_ROUTING
		bpf_printk(
			"CHECK: h_port_map, match_set->type: %u, not: %d, outbound: %u",
			match_type, match_set->not, match_set->outbound);
		bpf_printk("\tport: %u, range: [%u, %u]", check_port,
			   match_set->port_range.port_start,
			   match_set->port_range.port_end);
#endif
		if (check_port >= match_set->port_range.port_start &&
		    check_port <= match_set->port_range.port_end)
			ctx->route_state |= ROUTE_STATE_GOOD_SUBRULE;
		break;
	}
	case MatchType_L4Proto:
	case MatchType_IpVersion:
	{
		__u8 value = match_type == MatchType_L4Proto ? l4proto_type :
							      ipversion_type;
		__u8 mask = match_type == MatchType_L4Proto ?
				    match_set->l4proto_type :
				    match_set->ip_version;
#ifdef __DEBUG_ROUTING
		if (match_type == MatchType_L4Proto) {
			bpf_printk(
				"CHECK: l4proto, match_set->type: %u, not: %d, outbound: %u",
				match_type, match_set->not,
				match_set->outbound);
		} else {
			bpf_printk(
				"CHECK: ipversion, match_set->type: %u, not: %d, outbound: %u",
				match_type, match_set->not,
				match_set->outbound);
		}
#endif
		if (value & mask)
			ctx->route_state |= ROUTE_STATE_GOOD_SUBRULE;
		break;
	}
	case MatchType_DomainSet:
#ifdef __DEBUG_ROUTING
		bpf_printk(
			"CHECK: domain, match_set->type: %u, not: %d, outbound: %u",
			match_type, match_set->not, match_set->outbound);
#endif
		if (route_match_domain_set(ctx, index))
			return 1;
		break;
	case MatchType_ProcessName:
#ifdef __DEBUG_ROUTING
		bpf_printk(
			"CHECK: pname, match_set->type: %u, not: %d, outbound: %u",
			match_type, match_set->not, match_set->outbound);
#endif
		if (is_wan && equal16(match_set->pname, pname))
			ctx->route_state |= ROUTE_STATE_GOOD_SUBRULE;
		break;
	case MatchType_Dscp:
#ifdef __DEBUG_ROUTING
		bpf_printk(
			"CHECK: dscp, match_set->type: %u, not: %d, outbound: %u",
			match_type, match_set->not, match_set->outbound);
#endif
		if (dscp == match_set->dscp)
			ctx->route_state |= ROUTE_STATE_GOOD_SUBRULE;
		break;
	case MatchType_Fallback:
#ifdef __DEBUG_ROUTING
		bpf_printk("CHECK: hit fallback");
#endif
		ctx->route_state |= ROUTE_STATE_GOOD_SUBRULE;
		break;
	default:
#ifdef __DEBUG_ROUTING
		bpf_printk(
			"CHECK: <unknown>, match_set->type: %u, not: %d, outbound: %u",
			match_type, match_set->not, match_set->outbound);
#endif
		ctx->result = -EINVAL;
		return 1;
	}

	return 0;
}

static __always_inline int
route_finalize_match(struct route_ctx *ctx, const struct match_set *match_set)
{
	__u8 match_outbound = match_set->outbound;
	bool match_not = match_set->not;

#ifdef __DEBUG_ROUTING
	bpf_printk("good_subrule: %d, bad_rule: %d",
		   !!(ctx->route_state & ROUTE_STATE_GOOD_SUBRULE),
		   !!(ctx->route_state & ROUTE_STATE_BAD_RULE));
#endif
	if (match_outbound != OUTBOUND_LOGICAL_OR) {
		// This match_set reaches the end of subrule.
		// We are now at end of rule, or next match_set belongs to another
		// subrule.
		if (!!(ctx->route_state & ROUTE_STATE_GOOD_SUBRULE) == match_not)
			// This subrule does not hit.
			ctx->route_state |= ROUTE_STATE_BAD_RULE;

		// Reset good_subrule.
		ctx->route_state &= ~ROUTE_STATE_GOOD_SUBRULE;
	}
#ifdef __DEBUG_ROUTING
	bpf_printk("_bad_rule: %d", !!(ctx->route_state & ROUTE_STATE_BAD_RULE));
#endif
	if ((match_outbound & OUTBOUND_LOGICAL_MASK) != OUTBOUND_LOGICAL_MASK) {
		// Tail of a rule (line).
		// Decide whether to hit.
		if (!(ctx->route_state & ROUTE_STATE_BAD_RULE)) {
#ifdef __DEBUG_ROUTING
			bpf_printk(
				"MATCHED: match_set->type: %u, match_set->not: %d",
				match_set->type, match_not);
#endif
			// DNS requests should routed by control plane if outbound is not
			// must_direct.
			if (unlikely(match_outbound == OUTBOUND_MUST_RULES)) {
				ctx->route_state |= ROUTE_STATE_MUST;
			} else {
				bool must = !!(ctx->route_state & ROUTE_STATE_MUST) ||
					    match_set->must;

				if (!must &&
				    (ctx->route_state & ROUTE_STATE_DNS_QUERY)) {
					ctx->result =
						(__s64)OUTBOUND_CONTROL_PLANE_ROUTING |
						((__s64)match_set->mark << 8) |
						((__s64)must << 40);
#ifdef __DEBUG_ROUTING
					bpf_printk(
						"OUTBOUND_CONTROL_PLANE_ROUTING: %ld",
						ctx->result);
#endif
					return 1;
				}
				ctx->result = (__s64)match_outbound |
					      ((__s64)match_set->mark << 8) |
					      ((__s64)must << 40);
#ifdef __DEBUG_ROUTING
				bpf_printk("outbound %u: %ld",
					   match_outbound, ctx->result);
#endif
				return 1;
			}
		}
		ctx->route_state &= ~ROUTE_STATE_BAD_RULE;
	}
	return 0;
}

static __noinline int route_loop_cb(__u32 index, void *data)
{
	struct route_loop_ctx *loop = data;
	struct route_ctx *ctx = loop->work;
	struct match_set *match_set;
	__u8 l4proto_type = ctx->flag[0];
	__u8 ipversion_type = ctx->flag[1];
	const __u32 *pname = &ctx->flag[2];
	__u8 is_wan = ctx->is_wan;
	__u8 dscp = ctx->flag[6];

	// Rule is like: domain(suffix:baidu.com, suffix:google.com) && port(443) ->
	// proxy Subrule is like: domain(suffix:baidu.com, suffix:google.com) Match
	// set is like: suffix:baidu.com
	if (unlikely(index >= MAX_MATCH_SET_LEN)) {
		ctx->result = -EFAULT;
		return 1;
	}

	__u32 k = index; // Clone to pass code checker.

	match_set = bpf_map_lookup_elem(&routing_map, &k);
	if (unlikely(!match_set)) {
		ctx->result = -EFAULT;
		return 1;
	}

	if (!(ctx->route_state &
	      (ROUTE_STATE_BAD_RULE | ROUTE_STATE_GOOD_SUBRULE))) {
		if (route_eval_match(ctx, match_set, k, l4proto_type,
				     ipversion_type, pname, is_wan, dscp))
			return 1;
	} else {
#ifdef __DEBUG_ROUTING
		bpf_printk("key(match_set->type): %llu", match_set->type);
		bpf_printk("Skip to judge. bad_rule: %d, good_subrule: %d",
			   !!(ctx->route_state & ROUTE_STATE_GOOD_SUBRULE),
			   !!(ctx->route_state & ROUTE_STATE_BAD_RULE));
#endif
	}

	return route_finalize_match(ctx, match_set);
}

static __noinline __s64 route(const __u32 *flag, const void *l4hdr,
			      const __be32 *saddr, const __be32 *daddr,
			      const __be32 *mac)
{
#define _l4proto_type flag[0]
#define _ipversion_type flag[1]
#define _pname (&flag[2])
#define _is_wan flag[7]
#define _dscp flag[6]

	__u32 scratch_key = 0;
	struct route_ctx *ctx =
		bpf_map_lookup_elem(&route_ctx_scratch_map, &scratch_key);

	if (!ctx)
		return -EFAULT;

	__builtin_memset(ctx, 0, sizeof(*ctx));
	__builtin_memcpy(ctx->flag, flag, sizeof(ctx->flag));
	ctx->is_wan = _is_wan;
	__builtin_memcpy(ctx->mac, mac, sizeof(ctx->mac));
	ctx->result = -ENOEXEC;

	// Variables for further use.
	if (_l4proto_type == L4ProtoType_TCP) {
		ctx->h_dport = bpf_ntohs(((struct tcphdr *)l4hdr)->dest);
		ctx->h_sport =
			bpf_ntohs(((struct tcphdr *)l4hdr)->source);
	} else {
		ctx->h_dport = bpf_ntohs(((struct udphdr *)l4hdr)->dest);
		ctx->h_sport =
			bpf_ntohs(((struct udphdr *)l4hdr)->source);
	}

	// Rule is like: domain(suffix:baidu.com, suffix:google.com) && port(443) ->
	// proxy Subrule is like: domain(suffix:baidu.com, suffix:google.com) Match
	// set is like: suffix:baidu.com
	ctx->route_state =
		(ctx->h_dport == 53 &&
		 (_l4proto_type == L4ProtoType_UDP ||
		  _l4proto_type == L4ProtoType_TCP))
		? ROUTE_STATE_DNS_QUERY
		: 0;

	ctx->lpm_key_saddr.prefixlen = IPV6_BYTE_LENGTH * 8;
	ctx->lpm_key_daddr.prefixlen = IPV6_BYTE_LENGTH * 8;
	ctx->lpm_key_mac.prefixlen = IPV6_BYTE_LENGTH * 8;
	__builtin_memcpy(ctx->lpm_key_saddr.data, saddr,
			 IPV6_BYTE_LENGTH);
	__builtin_memcpy(ctx->lpm_key_daddr.data, daddr,
			 IPV6_BYTE_LENGTH);
	__builtin_memcpy(ctx->lpm_key_mac.data, mac, IPV6_BYTE_LENGTH);

	__u32 active_rules_len = MAX_MATCH_SET_LEN;
	__u32 *active_rules_len_ptr =
		bpf_map_lookup_elem(&routing_meta_map, &zero_key);
	int ret;

	if (active_rules_len_ptr && *active_rules_len_ptr <= MAX_MATCH_SET_LEN)
		active_rules_len = *active_rules_len_ptr;

	struct route_loop_ctx loop_ctx = {
		.work = ctx,
	};
	ret = bpf_loop(active_rules_len, route_loop_cb, &loop_ctx, 0);
	if (unlikely(ret < 0))
		return ret;
	if (ctx->result >= 0)
		return ctx->result;
#ifdef __DEBUG_ROUTING
	bpf_printk(
		"No match_set hits. Did coder forget to sync common/consts/ebpf_sync_spec.json with enum MatchType?");
#endif
	return -EPERM;
#undef _l4proto_type
#undef _ipversion_type
#undef _pname
#undef _is_wan
#undef _dscp
}

static __always_inline int assign_listener(struct __sk_buff *skb, __u8 l4proto)
{
	struct bpf_sock *sk;
	const __u32 *key = &one_key;

	if (l4proto == IPPROTO_TCP)
		key = skb->protocol == bpf_htons(ETH_P_IPV6) ? &two_key : &zero_key;

	sk = bpf_map_lookup_elem(&listen_socket_map, key);

	if (!sk)
		return -1;

	int ret = bpf_sk_assign(skb, sk, 0);

	bpf_sk_release(sk);
	return ret;
}

static __always_inline int redirect_to_control_plane_ingress(void)
{
	// bpf_redirect_peer requires kernel >= 6.8 (CVE-2025-37959 fix).
	if (PARAM.use_redirect_peer)
		return bpf_redirect_peer(PARAM.dae0_ifindex, 0);
	return bpf_redirect(PARAM.dae0_ifindex, 0);
}

static __always_inline int redirect_to_control_plane_egress(void)
{
	// bpf_redirect_peer() is NOT supported in egress direction.
	// Only use it for ingress hooks.
	return bpf_redirect(PARAM.dae0_ifindex, 0);
}

static __always_inline bool
wan_egress_needs_control_plane(__u8 outbound, __u32 mark)
{
	return !(outbound == OUTBOUND_DIRECT && mark == 0);
}

static __always_inline void
fill_routing_result(struct routing_result *dst,
		    __u32 mark, __u8 must, __u8 outbound,
		    const __u8 mac[6], __u8 dscp,
		    const char *pname, __u32 pid)
{
	__builtin_memset(dst, 0, sizeof(*dst));
	dst->mark = mark;
	dst->must = must;
	dst->outbound = outbound;
	dst->pid = pid;
	dst->dscp = dscp;
	if (mac)
		__builtin_memcpy(dst->mac, mac, sizeof(dst->mac));
	if (pname)
		__builtin_memcpy(dst->pname, pname, TASK_COMM_LEN);
}

static __always_inline int
publish_routing_handoff(const struct tuples_key *tuples,
			const struct routing_result *result)
{
	struct routing_handoff_entry handoff = {};
	long ret;

	handoff.last_seen_ns = bpf_ktime_get_ns();
	handoff.result = *result;
	ret = bpf_map_update_elem(&routing_handoff_map, tuples, &handoff, BPF_ANY);
	if (ret)
		bpf_printk("routing_handoff update failed: %d", (int)ret);
	return (int)ret;
}

static __always_inline void
fill_redirect_tuple_from_forward_packet(const struct __sk_buff *skb,
					const struct tuples *tuples,
					struct redirect_tuple *redirect_tuple)
{
	__builtin_memset(redirect_tuple, 0, sizeof(*redirect_tuple));
	if (skb->protocol == bpf_htons(ETH_P_IP)) {
		redirect_tuple->sip.u6_addr32[2] = bpf_htonl(0x0000ffff);
		redirect_tuple->sip.u6_addr32[3] = tuples->five.sip.u6_addr32[3];
		redirect_tuple->dip.u6_addr32[2] = bpf_htonl(0x0000ffff);
		redirect_tuple->dip.u6_addr32[3] = tuples->five.dip.u6_addr32[3];
	} else {
		__builtin_memcpy(&redirect_tuple->sip, &tuples->five.sip,
				 IPV6_BYTE_LENGTH);
		__builtin_memcpy(&redirect_tuple->dip, &tuples->five.dip,
				 IPV6_BYTE_LENGTH);
	}
}

static __always_inline void
fill_redirect_entry_from_forward_packet(__u32 ifindex, __u32 link_h_len,
					const struct ethhdr *ethh, __u8 from_wan,
					struct redirect_entry *redirect_entry)
{
	__builtin_memset(redirect_entry, 0, sizeof(*redirect_entry));
	redirect_entry->ifindex = ifindex;
	redirect_entry->from_wan = from_wan;
	redirect_entry->last_seen_ns = bpf_ktime_get_ns();
	if (link_h_len == ETH_HLEN && ethh) {
		__builtin_memcpy(redirect_entry->smac, ethh->h_source, 6);
		__builtin_memcpy(redirect_entry->dmac, ethh->h_dest, 6);
	}
}

static __always_inline int
publish_redirect_track_for_packet(struct __sk_buff *skb, __u32 link_h_len,
				  const struct tuples *tuples,
				  const struct ethhdr *ethh, __u8 from_wan)
{
	struct redirect_tuple redirect_tuple = {};
	struct redirect_entry redirect_entry = {};
	long map_ret;

	fill_redirect_tuple_from_forward_packet(skb, tuples, &redirect_tuple);
	fill_redirect_entry_from_forward_packet(skb->ifindex, link_h_len, ethh,
						from_wan, &redirect_entry);

	map_ret = bpf_map_update_elem(&redirect_track, &redirect_tuple,
				      &redirect_entry, BPF_ANY);
	if (map_ret) {
		bpf_printk("redirect_track update failed: %d", (int)map_ret);
		return (int)map_ret;
	}
	return 0;
}

static __always_inline int
rewrite_packet_for_control_plane(struct __sk_buff *skb, __u32 link_h_len,
				 __u8 from_wan)
{
	bool use_redirect_peer = PARAM.use_redirect_peer && !from_wan;
	int ret;

	if (!use_redirect_peer) {
		if (!link_h_len) {
			__u16 l3proto = skb->protocol;
			__u8 zero_mac[6] = {0};

			ret = bpf_skb_change_head(skb, sizeof(struct ethhdr), 0);
			if (ret) {
				bpf_printk("prep_redirect: bpf_skb_change_head failed: %d", ret);
				return ret;
			}
			ret = bpf_skb_store_bytes(skb, offsetof(struct ethhdr, h_proto),
						  &l3proto, sizeof(l3proto), 0);
			if (ret)
				return ret;
			ret = bpf_skb_store_bytes(skb, offsetof(struct ethhdr, h_source),
						  zero_mac, sizeof(zero_mac), 0);
			if (ret)
				return ret;
		}

		ret = bpf_skb_store_bytes(skb, offsetof(struct ethhdr, h_dest),
					  (void *)&PARAM.dae0peer_mac, 6, 0);
		if (ret)
			return ret;
	}
	return 0;
}

static __noinline int prep_redirect_to_control_plane(
	struct __sk_buff *skb, __u32 link_h_len, struct tuples *tuples,
	struct ethhdr *ethh, __u8 from_wan)
{
	int ret = rewrite_packet_for_control_plane(skb, link_h_len, from_wan);

	if (ret)
		return ret;
	return publish_redirect_track_for_packet(skb, link_h_len, tuples, ethh,
						 from_wan);
}

static __always_inline void copy_reversed_tuples(struct tuples_key *key,
						 struct tuples_key *dst)
{
	__builtin_memset(dst, 0, sizeof(*dst));
	dst->dip = key->sip;
	dst->sip = key->dip;
	dst->sport = key->dport;
	dst->dport = key->sport;
	dst->l4proto = key->l4proto;
}

static __always_inline bool is_short_lived_udp_traffic(struct tuples_key *key)
{
	return key->l4proto == IPPROTO_UDP &&
	       (key->dport == bpf_htons(53) || key->sport == bpf_htons(53));
}

static __always_inline bool
udp_wan_egress_handoff_mandatory(const struct tuples *tuples,
				 const struct conn_state *udp_conn_state)
{
	return is_short_lived_udp_traffic((struct tuples_key *)&tuples->five) ||
	       !udp_conn_state;
}

// mark_udp_seen: update/create UDP conn state with optional routing metadata.
// Expired entries are pruned on lookup. Map overflow increments bpf_stats_map.
#define UDP_CONN_STATE_TIMEOUT_NS 120000000000ULL        // 120-second backstop; userspace endpoint teardown is the primary owner
#define UDP_CONN_STATE_UPDATE_INTERVAL_NS 1000000000ULL  // 1 second

static __always_inline bool
udp_conn_state_expired(const struct conn_state *state, __u64 now)
{
	return state && now - state->last_seen_ns > UDP_CONN_STATE_TIMEOUT_NS;
}

static __noinline struct conn_state *
__mark_udp_seen(struct tuples_key *key, bool is_wan_ingress_direction,
		const struct conntrack_args *args)
{
	if (!args)
		return NULL;

	__u64 now = bpf_ktime_get_ns();
	struct conn_state *state =
		bpf_map_lookup_elem(&conn_state_map, key);

	if (udp_conn_state_expired(state, now)) {
		bpf_map_delete_elem(&conn_state_map, key);
		state = NULL;
	}

	if (state) {
		// Fast path: lazy timestamp update (only if interval > 1 second)
		if (now - state->last_seen_ns > UDP_CONN_STATE_UPDATE_INTERVAL_NS)
			state->last_seen_ns = now;

		// Update routing if provided (e.g., routing decision changed)
		if (args->flags & CT_ARGS_HAS_ROUTING) {
			union routing_meta meta =
				build_routing_meta(args->outbound, args->mark,
						   args->must, args->dscp);

			if (args->flags & CT_ARGS_HAS_MAC)
				__builtin_memcpy(state->mac, args->mac, 6);
			if (args->flags & CT_ARGS_HAS_PNAME)
				__builtin_memcpy(state->pname, args->pname,
						 TASK_COMM_LEN);
			state->pid = args->pid;
			publish_routing_meta(&state->meta, meta);
		}
		return state;
	}

	// Slow path: create new entry (either no entry or expired one was deleted)
	bool has_rt = !!(args->flags & CT_ARGS_HAS_ROUTING);
	struct conn_state new_state = {};

	new_state.is_wan_ingress_direction = is_wan_ingress_direction;
	new_state.last_seen_ns = now;
	new_state.meta.data.dscp = args->dscp;
	new_state.pid = args->pid;

	if (has_rt) {
		new_state.meta = build_routing_meta(args->outbound, args->mark,
						    args->must, args->dscp);
		if (args->flags & CT_ARGS_HAS_MAC)
			__builtin_memcpy(new_state.mac, args->mac, 6);
		if (args->flags & CT_ARGS_HAS_PNAME)
			__builtin_memcpy(new_state.pname, args->pname,
					 TASK_COMM_LEN);
	}

	int ret = bpf_map_update_elem(&conn_state_map, key,
				      &new_state, BPF_ANY);

	if (unlikely(ret)) {
		// Map full or other error: increment overflow counter
		__u32 stats_key = BPF_STATS_UDP_CONN_OVERFLOW;
		__u64 *overflow_count =
			bpf_map_lookup_elem(&bpf_stats_map, &stats_key);

		if (overflow_count)
			__sync_fetch_and_add(overflow_count, 1);
		send_dae_event(DAE_EVENT_UDP_CONN_OVERFLOW, args->pid,
			       conntrack_args_pname_or_null(args), 0,
			       key->l4proto, key->sip.u6_addr32,
			       key->dip.u6_addr32, key->sport, key->dport);
		return NULL;
	}

	return bpf_map_lookup_elem(&conn_state_map, key);
}

// mark_udp_seen: thin inline wrapper that populates per-CPU scratch args once
// and then delegates to the single-copy __mark_udp_seen body.
static __always_inline struct conn_state *
mark_udp_seen(struct tuples_key *key, bool is_wan_ingress_direction,
	      __u8 *outbound, __u32 *mark, __u8 *must, __u8 *mac,
	      __u8 dscp, const char *pname, __u32 pid)
{
	__u32 zero = 0;
	struct conntrack_args *args =
		bpf_map_lookup_elem(&conntrack_args_map, &zero);

	if (unlikely(!args))
		return NULL;
	conntrack_args_set(args, outbound, mark, must, mac, dscp, pname, pid);
	return __mark_udp_seen(key, is_wan_ingress_direction, args);
}

// mark_tcp_seen: update/create TCP conn state with optional routing metadata.
// SYN starts new lifecycle; FIN/RST transitions to CLOSING.
#define TCP_CONN_STATE_ESTABLISHED_TIMEOUT_NS 120000000000ULL  // 120 seconds
#define TCP_CONN_STATE_CLOSING_TIMEOUT_NS 10000000000ULL       // 10 seconds
#define TCP_CONN_STATE_UPDATE_INTERVAL_NS 1000000000ULL  // 1 second

static __always_inline bool
tcp_conn_state_expired(const struct conn_state *state, __u64 now)
{
	__u64 timeout = TCP_CONN_STATE_ESTABLISHED_TIMEOUT_NS;

	if (!state)
		return false;
	if (state->state == TCP_STATE_CLOSING)
		timeout = TCP_CONN_STATE_CLOSING_TIMEOUT_NS;
	return now - state->last_seen_ns > timeout;
}

// __mark_tcp_seen: noinline core. tcp_flags: bit 0 = SYN && !ACK (new
// connection), bit 1 = FIN || RST.
static __noinline struct conn_state *
__mark_tcp_seen(struct tuples_key *key, bool is_wan_ingress_direction,
		__u8 tcp_flags, const struct conntrack_args *args)
{
	if (!args)
		return NULL;

	__u64 now = bpf_ktime_get_ns();
	struct conn_state *state =
		bpf_map_lookup_elem(&conn_state_map, key);
	bool new_conn_syn = tcp_flags & 1;
	bool is_fin_rst   = tcp_flags & 2;

	/*
	 * A pure SYN always starts a fresh TCP lifecycle. If an older entry still
	 * exists under the same 4-tuple (for example because only the reverse-side
	 * FIN/RST was observed previously), drop it now so the new connection does
	 * not inherit stale routing metadata.
	 */
	if (state && new_conn_syn) {
		bpf_map_delete_elem(&conn_state_map, key);
		state = NULL;
	} else if (tcp_conn_state_expired(state, now)) {
		bpf_map_delete_elem(&conn_state_map, key);
		state = NULL;
	}

	if (state) {
		// Fast path: lazy timestamp update (only if interval > 1 second)
		if (now - state->last_seen_ns > TCP_CONN_STATE_UPDATE_INTERVAL_NS)
			state->last_seen_ns = now;

		// Check for connection close signals (FIN or RST)
		if (is_fin_rst)
			state->state = TCP_STATE_CLOSING;

		// Update routing if provided (rare: routing decision changed)
		if (args->flags & CT_ARGS_HAS_ROUTING) {
			union routing_meta meta =
				build_routing_meta(args->outbound, args->mark,
						   args->must, args->dscp);

			if (args->flags & CT_ARGS_HAS_MAC)
				__builtin_memcpy(state->mac, args->mac, 6);
			if (args->flags & CT_ARGS_HAS_PNAME)
				__builtin_memcpy(state->pname, args->pname,
						 TASK_COMM_LEN);
			state->pid = args->pid;
			publish_routing_meta(&state->meta, meta);
		}

		return state;
	}

	// Only create new entry on SYN (new connection)
	if (new_conn_syn) {
		bool has_rt = !!(args->flags & CT_ARGS_HAS_ROUTING);
		struct conn_state new_state = {};

		new_state.is_wan_ingress_direction = is_wan_ingress_direction;
		new_state.state = TCP_STATE_ACTIVE;
		new_state.last_seen_ns = now;
		new_state.meta.data.dscp = args->dscp;
		new_state.pid = args->pid;

		if (has_rt) {
			new_state.meta = build_routing_meta(args->outbound,
							    args->mark,
							    args->must,
							    args->dscp);
			if (args->flags & CT_ARGS_HAS_MAC)
				__builtin_memcpy(new_state.mac, args->mac, 6);
			if (args->flags & CT_ARGS_HAS_PNAME)
				__builtin_memcpy(new_state.pname, args->pname,
						 TASK_COMM_LEN);
		}

		int ret = bpf_map_update_elem(&conn_state_map, key,
					      &new_state, BPF_ANY);

		if (unlikely(ret)) {
			__u32 stats_key = BPF_STATS_TCP_CONN_OVERFLOW;
			__u64 *overflow_count =
				bpf_map_lookup_elem(&bpf_stats_map, &stats_key);

			if (overflow_count)
				__sync_fetch_and_add(overflow_count, 1);
			send_dae_event(DAE_EVENT_TCP_CONN_OVERFLOW, args->pid,
				       conntrack_args_pname_or_null(args), 0,
				       key->l4proto, key->sip.u6_addr32,
				       key->dip.u6_addr32, key->sport,
				       key->dport);
			return NULL;
		}

		return bpf_map_lookup_elem(&conn_state_map, key);
	}

	// Non-SYN packets without existing state must never allocate new state.
	return NULL;
}

// mark_tcp_seen: thin inline wrapper that populates per-CPU scratch args once
// and then delegates to the single-copy __mark_tcp_seen body.
static __always_inline struct conn_state *
mark_tcp_seen(struct tuples_key *key, const struct tcphdr *tcph,
	      bool is_wan_ingress_direction,
	      __u8 *outbound, __u32 *mark, __u8 *must, __u8 *mac,
	      __u8 dscp, const char *pname, __u32 pid)
{
	__u32 zero = 0;
	struct conntrack_args *args =
		bpf_map_lookup_elem(&conntrack_args_map, &zero);

	if (unlikely(!args))
		return NULL;
	conntrack_args_set(args, outbound, mark, must, mac, dscp, pname, pid);

	__u8 tcp_flags = 0;

	if (tcph->syn && !tcph->ack)
		tcp_flags |= 1;
	if (tcph->fin || tcph->rst)
		tcp_flags |= 2;
	return __mark_tcp_seen(key, is_wan_ingress_direction, tcp_flags, args);
}

static __always_inline bool is_new_tcp_connection(const struct tcphdr *tcph)
{
	return tcph->syn && !tcph->ack;
}

// Reverse-direction conntrack refresh for LAN egress.
static __noinline int do_tproxy_lan_egress(struct __sk_buff *skb, __u32 link_h_len)
{
	__u32 scratch_key = 0;
	struct parse_transport_ctx *ctx =
		bpf_map_lookup_elem(&parse_ctx_scratch_map, &scratch_key);

	if (!ctx)
		return TC_ACT_SHOT;

	int ret = parse_transport(skb, link_h_len, ctx);

	if (ret) {
		// Negative: error - drop; Positive: unsupported protocol - pass through
		if (ret < 0) {
			bpf_printk("parse_transport error: %d, dropping", ret);
			return TC_ACT_SHOT;
		}
		return TC_ACT_OK;
	}

	if (skb->ingress_ifindex == NOWHERE_IFINDEX &&  // Only drop NDP_REDIRECT packets from localhost
		ctx->l4proto == IPPROTO_ICMPV6 && ctx->icmp6h.icmp6_type == NDP_REDIRECT) {
		// REDIRECT (NDP)
		return TC_ACT_SHOT;
	}

	// Update UDP Conntrack
	if (ctx->l4proto == IPPROTO_TCP) {
		struct tuples tuples;
		struct tuples_key reversed_tuples_key;

		get_tuples(skb, &tuples, &ctx->iph, &ctx->ipv6h,
			   &ctx->tcph, &ctx->udph, ctx->l4proto);
		copy_reversed_tuples(&tuples.five, &reversed_tuples_key);
		// Reverse-side TCP packets should refresh the forward conn-state and
		// surface FIN/RST so the lifecycle does not remain ACTIVE until the
		// janitor backstop expires.
		mark_tcp_seen(&reversed_tuples_key, &ctx->tcph, true,
			      NULL, NULL, NULL, NULL,
			      0, NULL, 0);
	} else if (ctx->l4proto == IPPROTO_UDP) {
		if (ctx->udph.source == bpf_htons(53) || ctx->udph.dest == bpf_htons(53))
			return TC_ACT_PIPE;

		struct tuples tuples;
		struct tuples_key reversed_tuples_key;

		get_tuples(skb, &tuples, &ctx->iph, &ctx->ipv6h,
			   &ctx->tcph, &ctx->udph, ctx->l4proto);
		copy_reversed_tuples(&tuples.five, &reversed_tuples_key);
		mark_udp_seen(&reversed_tuples_key, true,
			      NULL, NULL, NULL, NULL,
			      0, NULL, 0);
	}

	return TC_ACT_PIPE;
}

SEC("tc/lan_egress_l2")
int tproxy_lan_egress_l2(struct __sk_buff *skb)
{
	return do_tproxy_lan_egress(skb, 14);
}

SEC("tc/lan_egress_l3")
int tproxy_lan_egress_l3(struct __sk_buff *skb)
{
	return do_tproxy_lan_egress(skb, 0);
}

static __noinline bool
wan_outbound_is_alive(struct __sk_buff *skb, __u8 outbound, __u8 l4proto,
		      __be16 dport);

static __noinline int
redirect_lan_packet_to_control_plane(struct __sk_buff *skb, __u32 link_h_len,
				     struct parsed_packet *pkt,
				     __u64 routing_meta_raw)
{
	union routing_meta routing_meta = {
		.raw = routing_meta_raw,
	};
	struct routing_handoff_entry handoff = {};

	if (prep_redirect_to_control_plane(skb, link_h_len, &pkt->tuples,
					   &pkt->ethh, 0)) {
		return TC_ACT_SHOT;
	}

	skb->cb[0] = TPROXY_MARK;
	skb->cb[1] = pkt->listener_l4proto;

	handoff.last_seen_ns = bpf_ktime_get_ns();
	handoff.result.mark = routing_meta.data.mark;
	handoff.result.must = routing_meta.data.must;
	handoff.result.outbound = routing_meta.data.outbound;
	handoff.result.dscp = routing_meta.data.dscp;
	__builtin_memcpy(handoff.result.mac, pkt->ethh.h_source, 6);
	if (bpf_map_update_elem(&routing_handoff_map, &pkt->tuples.five,
				&handoff, BPF_ANY) &&
	    is_short_lived_udp_traffic(&pkt->tuples.five))
		/* Same rule as the WAN path: a stateless DNS datagram has no
		 * conn_state record, so without this entry the control plane
		 * would find nothing (or an earlier datagram's stale decision).
		 */
		return TC_ACT_SHOT;
	return redirect_to_control_plane_ingress();
}

static __noinline int do_tproxy_lan_ingress(struct __sk_buff *skb, __u32 link_h_len)
{
	// Per-CPU scratch to stay under 512-byte stack limit.
	__u32 scratch_key = 0;
	struct parsed_packet *pkt =
		bpf_map_lookup_elem(&pkt_scratch_map, &scratch_key);

	if (!pkt)
		return TC_ACT_SHOT;

	/* Ensure scratch bytes are initialized even if verifier can't precisely
	 * track writes done through callee pointer arguments. */
	__builtin_memset(pkt, 0, sizeof(*pkt));
	int ret = parse_packet(skb, link_h_len, pkt);

	if (ret) {
		if (ret < 0) {
			bpf_printk("parse_transport error: %d, dropping", ret);
			return TC_ACT_SHOT;
		}
		return TC_ACT_OK;
	}

	/*
   * ip rule add fwmark 0x8000000/0x8000000 table 2023
   * ip route add local default dev lo table 2023
   * ip -6 rule add fwmark 0x8000000/0x8000000 table 2023
   * ip -6 route add local default dev lo table 2023

   * ip rule del fwmark 0x8000000/0x8000000 table 2023
   * ip route del local default dev lo table 2023
   * ip -6 rule del fwmark 0x8000000/0x8000000 table 2023
   * ip -6 route del local default dev lo table 2023
   */
	if (pkt->l4proto == IPPROTO_TCP &&
	    !is_new_tcp_connection(&pkt->tcph)) {
		__u8 outbound;
		__u32 mark;
		struct conn_state *tcp_state;

		// Track TCP connection state; reuse returned pointer.
		tcp_state = mark_tcp_seen(&pkt->tuples.five, &pkt->tcph, false,
					  NULL, NULL, NULL, NULL,
					  0, NULL, 0);
		// No cached state for an established packet: keep the historical
		// passthrough behavior instead of recomputing routing.
		if (!tcp_state)
			return TC_ACT_OK;

		/* Compatibility restore for 030902f behavior and align with WAN
		 * non-SYN session handling: reuse cached routing result for
		 * established TCP packets.
		 */
		if (!tcp_state->meta.data.has_routing) {
			/* No cache: keep historical direct-pass semantics (e.g.
			 * single-arm / reply-path traffic).
			 */
			return TC_ACT_OK;
		}

		// Load routing from the conn_state we already looked up
		outbound = tcp_state->meta.data.outbound;
		mark = tcp_state->meta.data.mark;

		if (outbound == OUTBOUND_DIRECT) {
			skb->mark = mark;
			return TC_ACT_OK;
		}
		if (unlikely(outbound == OUTBOUND_BLOCK))
			return TC_ACT_SHOT;
		if (!wan_outbound_is_alive(skb, outbound, pkt->l4proto,
					   pkt->tuples.five.dport))
			return TC_ACT_SHOT;
		return redirect_lan_packet_to_control_plane(
			skb, link_h_len, pkt, tcp_state->meta.raw);
	}

	// Routing for new connection.
	__u32 route_flag[8] = {};
	struct conn_state *tcp_state = NULL;
	struct conn_state *udp_state = NULL;

	if (pkt->l4proto == IPPROTO_TCP) {
		// Track TCP connection state for new connections from LAN.
		// This ensures routing cache entries can be cleaned up via
		// cascade deletion when the connection expires.
		tcp_state = mark_tcp_seen(&pkt->tuples.five, &pkt->tcph, false,
					  NULL, NULL, NULL, NULL,
					  pkt->tuples.dscp, NULL, 0);
		route_flag[0] = L4ProtoType_TCP;
	} else {
		if (!is_short_lived_udp_traffic(&pkt->tuples.five)) {
			// Fast path: Check conn state for established UDP flows
			udp_state = mark_udp_seen(&pkt->tuples.five, false,
						  NULL, NULL, NULL, NULL,
						  pkt->tuples.dscp, NULL, 0);
			if (udp_state && udp_state->is_wan_ingress_direction) {
				// Replay (outbound) of an inbound flow => direct.
				return TC_ACT_OK;
			}

			// Fast path: Use cached routing if available
			if (udp_state && udp_state->meta.data.has_routing) {
				// Load routing from conn state - skip expensive route() call!
				__u8 outbound = udp_state->meta.data.outbound;
				__u32 mark = udp_state->meta.data.mark;

				if (outbound == OUTBOUND_DIRECT) {
					skb->mark = mark;
					goto direct;
				} else if (unlikely(outbound == OUTBOUND_BLOCK)) {
					goto block;
				}

				if (!wan_outbound_is_alive(skb, outbound, pkt->l4proto,
							   pkt->tuples.five.dport))
					goto block;

				// Update conn state timestamp for this fast path packet
				udp_state->last_seen_ns = bpf_ktime_get_ns();
				return redirect_lan_packet_to_control_plane(
					skb, link_h_len, pkt, udp_state->meta.raw);
			}
		}
		route_flag[0] = L4ProtoType_UDP;
	}
	route_flag[1] = (skb->protocol == bpf_htons(ETH_P_IP)) ? IpVersionType_4 :
							      IpVersionType_6;
	route_flag[6] = pkt->tuples.dscp;
	__be32 mac_be[4] = {
		0,
		0,
		bpf_htonl(((__u32)pkt->ethh.h_source[0] << 8) |
			  (__u32)pkt->ethh.h_source[1]),
		bpf_htonl(((__u32)pkt->ethh.h_source[2] << 24) |
			  ((__u32)pkt->ethh.h_source[3] << 16) |
			  ((__u32)pkt->ethh.h_source[4] << 8) |
			  (__u32)pkt->ethh.h_source[5]),
	};

	// Socket lookup before routing to detect local services (NAT loopback).
	// TCP: only LISTEN sockets; skip SYN for CF back-to-source compat.
	// UDP: any matching socket indicates local service.
	if (pkt->l4proto == IPPROTO_TCP || pkt->l4proto == IPPROTO_UDP) {
		struct bpf_sock_tuple tuple = { 0 };
		__u32 tuple_size;
		struct bpf_sock *sk;

		// Use ethh->h_proto instead of skb->protocol for consistency
		// with parse_transport and to handle L3-only packets correctly
		if (pkt->ethh.h_proto == bpf_htons(ETH_P_IP)) {
			tuple.ipv4.daddr = pkt->tuples.five.dip.u6_addr32[3];
			tuple.ipv4.saddr = pkt->tuples.five.sip.u6_addr32[3];
			tuple.ipv4.dport = pkt->tuples.five.dport;
			tuple.ipv4.sport = pkt->tuples.five.sport;
			tuple_size = sizeof(tuple.ipv4);
		} else {
			__builtin_memcpy(tuple.ipv6.daddr, &pkt->tuples.five.dip,
					 IPV6_BYTE_LENGTH);
			__builtin_memcpy(tuple.ipv6.saddr, &pkt->tuples.five.sip,
					 IPV6_BYTE_LENGTH);
			tuple.ipv6.dport = pkt->tuples.five.dport;
			tuple.ipv6.sport = pkt->tuples.five.sport;
			tuple_size = sizeof(tuple.ipv6);
		}

		if (pkt->l4proto == IPPROTO_TCP) {
			if (!(pkt->tcph.syn && !pkt->tcph.ack)) {
				sk = bpf_skc_lookup_tcp(skb, &tuple, tuple_size,
							PARAM.dae_netns_id, 0);
				if (sk) {
					if (!bpf_sock_is_dae_socket(sk) &&
					    sk->state == BPF_TCP_LISTEN) {
						bpf_sk_release(sk);
#if defined(__DEBUG_ROUTING) || defined(__PRINT_ROUTING_RESULT)
						bpf_printk("tcp(lan): local LISTEN socket found, pass through");
#endif
						return TC_ACT_OK;
					}
					bpf_sk_release(sk);
				}
			}
		} else {
			sk = bpf_sk_lookup_udp(skb, &tuple, tuple_size,
					       PARAM.dae_netns_id, 0);
			if (sk) {
				if (!bpf_sock_is_dae_socket(sk)) {
					bpf_sk_release(sk);
#if defined(__DEBUG_ROUTING) || defined(__PRINT_ROUTING_RESULT)
					bpf_printk("udp(lan): local socket found, pass through");
#endif
					return TC_ACT_OK;
				}
				bpf_sk_release(sk);
			}
		}
	}

	__s64 s64_ret;

	s64_ret = route(route_flag,
			pkt->l4proto == IPPROTO_TCP ? (const void *)&pkt->tcph :
						      (const void *)&pkt->udph,
			pkt->tuples.five.sip.u6_addr32,
			pkt->tuples.five.dip.u6_addr32,
			mac_be);
	if (s64_ret < 0) {
		bpf_printk("shot routing: %d", s64_ret);
		return TC_ACT_SHOT;
	}

	__u8 outbound = s64_ret & 0xff;
	__u32 mark = s64_ret >> 8;
	__u8 must = (s64_ret >> 40) & 1;

	// Cache routing in conn state (skip DNS to avoid map churn).
	if (pkt->l4proto == IPPROTO_UDP &&
	    is_short_lived_udp_traffic(&pkt->tuples.five)) {
		// Skip cache for short-lived DNS to avoid map churn.
	} else if (pkt->l4proto == IPPROTO_TCP && tcp_state) {
		// Directly update the TCP conn state we already looked up
		__builtin_memcpy(tcp_state->mac, pkt->ethh.h_source, 6);
		union routing_meta _m = build_routing_meta(outbound, mark, must,
							    pkt->tuples.dscp);
		publish_routing_meta(&tcp_state->meta, _m);
	} else if (pkt->l4proto == IPPROTO_UDP && udp_state) {
		// Directly update the UDP conn state we already looked up
		__builtin_memcpy(udp_state->mac, pkt->ethh.h_source, 6);
		union routing_meta _m = build_routing_meta(outbound, mark, must,
							    pkt->tuples.dscp);
		publish_routing_meta(&udp_state->meta, _m);
	}

	// Fail-closed: TCP without conn state must drop to prevent traffic leakage.
	if (pkt->l4proto == IPPROTO_TCP && !tcp_state) {
		if (outbound == OUTBOUND_DIRECT && mark == 0) {
			skb->mark = mark;
#if defined(__DEBUG_ROUTING) || defined(__PRINT_ROUTING_RESULT)
			bpf_printk("tcp(lan): GO OUTBOUND_DIRECT (MAP FULL)");
#endif
			goto direct;
		}
#if defined(__DEBUG_ROUTING) || defined(__PRINT_ROUTING_RESULT)
		if (outbound == OUTBOUND_DIRECT)
			bpf_printk("tcp(lan): SHOT - MAP FULL, DIRECT WITH NON-ZERO MARK DROPPED");
		else
			bpf_printk("tcp(lan): SHOT - MAP FULL, PROXY CONNECTION DROPPED");
#endif
		goto block;
	}

#if defined(__DEBUG_ROUTING) || defined(__PRINT_ROUTING_RESULT)
	if (pkt->l4proto == IPPROTO_TCP) {
		bpf_printk("tcp(lan): outbound: %u, target: %pI6:%u", outbound,
			   pkt->tuples.five.dip.u6_addr32,
			   bpf_ntohs(pkt->tuples.five.dport));
	} else {
		bpf_printk("udp(lan): outbound: %u, target: %pI6:%u", outbound,
			   pkt->tuples.five.dip.u6_addr32,
			   bpf_ntohs(pkt->tuples.five.dport));
	}
#endif

	if (outbound == OUTBOUND_DIRECT) {
		skb->mark = mark;
#if defined(__DEBUG_ROUTING) || defined(__PRINT_ROUTING_RESULT)
		bpf_printk("GO OUTBOUND DIRECT");
#endif
		goto direct;
	} else if (unlikely(outbound == OUTBOUND_BLOCK)) {
#if defined(__DEBUG_ROUTING) || defined(__PRINT_ROUTING_RESULT)
		bpf_printk("SHOT OUTBOUND_BLOCK");
#endif
		send_dae_event(DAE_EVENT_BLOCKED, 0, NULL, outbound,
			       pkt->l4proto, pkt->tuples.five.sip.u6_addr32,
			       pkt->tuples.five.dip.u6_addr32,
			       pkt->tuples.five.sport, pkt->tuples.five.dport);
		goto block;
	}

	if (!wan_outbound_is_alive(skb, outbound, pkt->l4proto,
				   pkt->tuples.five.dport))
		goto block;
	return redirect_lan_packet_to_control_plane(
		skb, link_h_len, pkt,
		build_routing_meta(outbound, mark, must, pkt->tuples.dscp).raw);

direct:
	return TC_ACT_OK;

block:
	return TC_ACT_SHOT;
}

SEC("tc/lan_ingress_l2")
int tproxy_lan_ingress_l2(struct __sk_buff *skb)
{
	return do_tproxy_lan_ingress(skb, 14);
}

SEC("tc/lan_ingress_l3")
int tproxy_lan_ingress_l3(struct __sk_buff *skb)
{
	return do_tproxy_lan_ingress(skb, 0);
}

// Cookie will change after the first packet, so we just use it for
// handshake.
static __always_inline bool pid_is_control_plane(struct __sk_buff *skb,
						 struct pid_pname **p)
{
	struct pid_pname *pid_pname;
	__u64 cookie = bpf_get_socket_cookie(skb);

	pid_pname = bpf_map_lookup_elem(&cookie_pid_map, &cookie);
	if (pid_pname) {
		pid_pname->last_seen_ns = bpf_ktime_get_ns();
		if (p) {
			// Assign.
			*p = pid_pname;
		}
		// Get tproxy pid and compare if they are equal.
		__u32 pid_tproxy;

		pid_tproxy = PARAM.control_plane_pid;
		if (!pid_tproxy) {
			bpf_printk("control_plane_pid is not set.");
			return false;
		}
		return pid_pname->pid == pid_tproxy;
	}
	if (p)
		*p = NULL;
	if (PARAM.dae_socket_mark && skb->mark == PARAM.dae_socket_mark)
		return true;
	if ((skb->mark & 0x100) == 0x100)
		return true;
	return false;
}

static __noinline int do_tproxy_wan_ingress(struct __sk_buff *skb, __u32 link_h_len)
{
	__u32 scratch_key = 0;
	struct parse_transport_ctx *ctx =
		bpf_map_lookup_elem(&parse_ctx_scratch_map, &scratch_key);

	if (!ctx)
		return TC_ACT_SHOT;

	int ret = parse_transport(skb, link_h_len, ctx);

	if (ret) {
		// Negative: error - drop; Positive: unsupported protocol - pass through
		if (ret < 0) {
			bpf_printk("parse_transport error: %d, dropping", ret);
			return TC_ACT_SHOT;
		}
		return TC_ACT_OK;
	}

	// Reverse-direction conntrack refresh.
	if (ctx->l4proto == IPPROTO_TCP) {
		struct tuples tuples;
		struct tuples_key reversed_tuples_key;

		get_tuples(skb, &tuples, &ctx->iph, &ctx->ipv6h,
			   &ctx->tcph, &ctx->udph, ctx->l4proto);
		copy_reversed_tuples(&tuples.five, &reversed_tuples_key);
		mark_tcp_seen(&reversed_tuples_key, &ctx->tcph, true,
			      NULL, NULL, NULL, NULL,
			      0, NULL, 0);
	} else if (ctx->l4proto == IPPROTO_UDP) {
		if (ctx->udph.source == bpf_htons(53) || ctx->udph.dest == bpf_htons(53))
			return TC_ACT_PIPE;

		struct tuples tuples;
		struct tuples_key reversed_tuples_key;

		get_tuples(skb, &tuples, &ctx->iph, &ctx->ipv6h,
			   &ctx->tcph, &ctx->udph, ctx->l4proto);
		copy_reversed_tuples(&tuples.five, &reversed_tuples_key);
		mark_udp_seen(&reversed_tuples_key, true,
			      NULL, NULL, NULL, NULL,
			      0, NULL, 0);
	}

	return TC_ACT_PIPE;
}

SEC("tc/wan_ingress_l2")
int tproxy_wan_ingress_l2(struct __sk_buff *skb)
{
	return do_tproxy_wan_ingress(skb, 14);
}

SEC("tc/wan_ingress_l3")
int tproxy_wan_ingress_l3(struct __sk_buff *skb)
{
	return do_tproxy_wan_ingress(skb, 0);
}

// Routing and redirect the packet back.
// We cannot modify the dest address here. So we cooperate with wan_ingress.
static __noinline bool
wan_outbound_is_alive(struct __sk_buff *skb, __u8 outbound, __u8 l4proto,
		      __be16 dport)
{
	/* DNS must always reach control plane; userspace handles fallback. */
	if (dport == bpf_htons(53))
		return true;

	// ARRAY map key: outbound_id * 6 + domain * 2 + ipversion
	// domain: 0=TCP, 1=DNS UDP, 2=data UDP; ipversion: 0=IPv4, 1=IPv6
	__u32 domain_idx = 0;
	__u32 ip_idx = skb->protocol == bpf_htons(ETH_P_IP) ? 0 : 1;
	__u32 key;
	__u32 *alive;

	if (l4proto == IPPROTO_UDP) {
		if (dport == bpf_htons(53))
			domain_idx = 1;
		else
			domain_idx = 2;
	}
	key = ((__u32)outbound * 6) + (domain_idx * 2) + ip_idx;
	alive = bpf_map_lookup_elem(&outbound_connectivity_map, &key);
	if (alive && *alive == 0)
		return false;
	return true;
}

static __noinline int
do_tproxy_wan_egress_tcp(struct __sk_buff *skb, __u32 link_h_len,
			 struct tuples *tuples, struct ethhdr *ethh,
			 struct tcphdr *tcph)
{
	bool tcp_state_syn = is_new_tcp_connection(tcph);
	__u8 outbound;
	bool must;
	__u32 mark;
	struct pid_pname *pid_pname = NULL;
	const char *handoff_pname = NULL;
	__u32 handoff_pid = 0;
	__u8 handoff_mac[6] = {};
	__u32 scratch_key = 0;
	struct wan_egress_route_scratch *scratch =
		bpf_map_lookup_elem(&wan_egress_route_scratch_map, &scratch_key);

	if (!scratch)
		return TC_ACT_SHOT;

	if (unlikely(tcp_state_syn)) {
		__builtin_memset(scratch, 0, sizeof(*scratch));
		scratch->flag[0] = L4ProtoType_TCP;
		if (skb->protocol == bpf_htons(ETH_P_IP))
			scratch->flag[1] = IpVersionType_4;
		else
			scratch->flag[1] = IpVersionType_6;
		scratch->flag[6] = tuples->dscp;
		if (pid_is_control_plane(skb, &pid_pname))
			return TC_ACT_OK;
		if (pid_pname)
			__builtin_memcpy(&scratch->flag[2], pid_pname->pname,
					 TASK_COMM_LEN);
		scratch->flag[7] = 1;
		if (link_h_len == ETH_HLEN) {
			scratch->mac_be[2] = bpf_htonl(((__u32)ethh->h_source[0] << 8) |
						  (__u32)ethh->h_source[1]);
			scratch->mac_be[3] = bpf_htonl(((__u32)ethh->h_source[2] << 24) |
						  ((__u32)ethh->h_source[3] << 16) |
						  ((__u32)ethh->h_source[4] << 8) |
						  (__u32)ethh->h_source[5]);
			__builtin_memcpy(scratch->mac, ethh->h_source, 6);
		}

		__s64 s64_ret = route(scratch->flag, tcph,
				      tuples->five.sip.u6_addr32,
				      tuples->five.dip.u6_addr32,
				      scratch->mac_be);

		if (s64_ret < 0) {
			bpf_printk("shot routing: %d", s64_ret);
			return TC_ACT_SHOT;
		}

		outbound = s64_ret & 0xff;
		mark = s64_ret >> 8;
		must = (s64_ret >> 40) & 1;
		scratch->must_val = must;

		__u8 dscp = tuples->dscp;
		const char *pname_str = NULL;
		__u32 pid_val = 0;

		if (pid_pname) {
			pname_str = pid_pname->pname;
			pid_val = pid_pname->pid;
			handoff_pname = pid_pname->pname;
			handoff_pid = pid_pname->pid;
		}
		__builtin_memcpy(handoff_mac, scratch->mac, 6);

		__u8 *outbound_ptr = &outbound;
		__u32 *mark_ptr = &mark;
		__u8 *must_ptr = &scratch->must_val;

		if (outbound == OUTBOUND_DIRECT && mark == 0 && !must) {
			outbound_ptr = NULL;
			mark_ptr = NULL;
			must_ptr = NULL;
		}

		struct conn_state *tcp_conn = mark_tcp_seen(
			&tuples->five, tcph, false, outbound_ptr, mark_ptr,
			must_ptr, scratch->mac, dscp, pname_str, pid_val);

		if (!tcp_conn) {
			if (outbound == OUTBOUND_DIRECT && mark == 0)
				return TC_ACT_OK;
			return TC_ACT_SHOT;
		}

#if defined(__DEBUG_ROUTING) || defined(__PRINT_ROUTING_RESULT)
		__u32 pid = pid_pname ? pid_pname->pid : 0;

		bpf_printk("tcp(wan): from %pI6:%u [PID %u]",
			   tuples->five.sip.u6_addr32,
			   bpf_ntohs(tuples->five.sport), pid);
		bpf_printk("tcp(wan): outbound: %u, %pI6:%u", outbound,
			   tuples->five.dip.u6_addr32,
			   bpf_ntohs(tuples->five.dport));
#endif
	} else {
		// Established TCP: only proxied connections have cached state.
		struct conn_state *tcp_conn = mark_tcp_seen(
			&tuples->five, tcph, false,
			NULL, NULL, NULL, NULL,
			0, NULL, 0);

		if (!tcp_conn || !tcp_conn->meta.data.has_routing)
			return TC_ACT_OK;

		outbound = tcp_conn->meta.data.outbound;
		mark = tcp_conn->meta.data.mark;
		must = tcp_conn->meta.data.must;
		__builtin_memcpy(handoff_mac, tcp_conn->mac, 6);
		__builtin_memcpy(scratch->mac, tcp_conn->mac, 6);
		handoff_pname = (const char *)tcp_conn->pname;
		handoff_pid = tcp_conn->pid;
	}

	if (!wan_egress_needs_control_plane(outbound, mark)) {
#if defined(__DEBUG_ROUTING) || defined(__PRINT_ROUTING_RESULT)
		bpf_printk("GO OUTBOUND_DIRECT");
#endif
		skb->mark = mark;
		return TC_ACT_OK;
	} else if (unlikely(outbound == OUTBOUND_BLOCK)) {
#if defined(__DEBUG_ROUTING) || defined(__PRINT_ROUTING_RESULT)
		bpf_printk("SHOT OUTBOUND_BLOCK");
#endif
		return TC_ACT_SHOT;
	}

	if (!wan_outbound_is_alive(skb, outbound, IPPROTO_TCP,
				   tuples->five.dport))
		return TC_ACT_SHOT;

	struct routing_result routing_result = {};

	fill_routing_result(&routing_result, mark, must, outbound, handoff_mac,
			    tuples->dscp, handoff_pname, handoff_pid);
	/* TCP has embedded conn-state routing metadata; handoff is best-effort. */
	publish_routing_handoff(&tuples->five, &routing_result);

	/* TCP needs redirect_track before the kernel-side handshake completes.
	 * Publishing it later from userspace is too late for the first SYN path.
	 */
	if (prep_redirect_to_control_plane(skb, link_h_len, tuples,
					   ethh, 1))
		return TC_ACT_SHOT;
	skb->cb[0] = TPROXY_MARK;
	skb->cb[1] = tcp_listener_l4proto(tcph);
	return redirect_to_control_plane_egress();
}

static __noinline int
do_tproxy_wan_egress_udp(struct __sk_buff *skb, __u32 link_h_len,
			 struct tuples *tuples, struct ethhdr *ethh,
			 struct udphdr *udph)
{
	struct pid_pname *pid_pname;
	__u8 outbound;
	__u32 mark;
	bool must;
	struct conn_state *udp_conn_state = NULL;
	__u8 mac[6] = {};
	const char *handoff_pname = NULL;
	__u32 handoff_pid = 0;

	__u32 scratch_key = 0;
	struct wan_egress_route_scratch *scratch =
		bpf_map_lookup_elem(&wan_egress_route_scratch_map, &scratch_key);
	if (!scratch)
		return TC_ACT_SHOT;

	__builtin_memset(scratch, 0, sizeof(*scratch));
	scratch->flag[0] = L4ProtoType_UDP;
	if (skb->protocol == bpf_htons(ETH_P_IP))
		scratch->flag[1] = IpVersionType_4;
	else
		scratch->flag[1] = IpVersionType_6;
	scratch->flag[6] = tuples->dscp;

	if (pid_is_control_plane(skb, &pid_pname))
		return TC_ACT_OK;

	if (!is_short_lived_udp_traffic(&tuples->five)) {
		udp_conn_state = mark_udp_seen(&tuples->five, false,
					       NULL, NULL, NULL, NULL,
					       0, NULL, 0);
		if (udp_conn_state && udp_conn_state->is_wan_ingress_direction)
			return TC_ACT_OK;

		if (udp_conn_state && udp_conn_state->meta.data.has_routing) {
			outbound = udp_conn_state->meta.data.outbound;
			mark = udp_conn_state->meta.data.mark;
			must = udp_conn_state->meta.data.must;
			__builtin_memcpy(mac, udp_conn_state->mac, 6);
			handoff_pname = (const char *)udp_conn_state->pname;
			handoff_pid = udp_conn_state->pid;
			goto fast_path_skip_routing;
		}
	}

	if (pid_pname) {
		__builtin_memcpy(&scratch->flag[2], pid_pname->pname,
				 TASK_COMM_LEN);
		handoff_pname = pid_pname->pname;
		handoff_pid = pid_pname->pid;
	}
	scratch->flag[7] = 1;
	if (ethh) {
		scratch->mac_be[2] = bpf_htonl(((__u32)ethh->h_source[0] << 8) |
					  (__u32)ethh->h_source[1]);
		scratch->mac_be[3] = bpf_htonl(((__u32)ethh->h_source[2] << 24) |
					  ((__u32)ethh->h_source[3] << 16) |
					  ((__u32)ethh->h_source[4] << 8) |
					  (__u32)ethh->h_source[5]);
		__builtin_memcpy(mac, ethh->h_source, 6);
		__builtin_memcpy(scratch->mac, ethh->h_source, 6);
	}

	__s64 s64_ret = route(scratch->flag, udph,
			      tuples->five.sip.u6_addr32,
			      tuples->five.dip.u6_addr32,
			      scratch->mac_be);

	if (s64_ret < 0) {
		bpf_printk("shot routing: %d", s64_ret);
		return TC_ACT_SHOT;
	}

	outbound = s64_ret & 0xff;
	mark = s64_ret >> 8;
	must = (s64_ret >> 40) & 1;

fast_path_skip_routing:
		if (udp_conn_state && tuples->five.dport != bpf_htons(53)) {
			if (outbound != OUTBOUND_DIRECT || mark != 0 || must) {
				__builtin_memcpy(udp_conn_state->mac, mac, 6);
				if (pid_pname) {
					__builtin_memcpy(udp_conn_state->pname,
							 pid_pname->pname,
							 TASK_COMM_LEN);
					udp_conn_state->pid = pid_pname->pid;
				}
				union routing_meta _m = build_routing_meta(outbound,
								   mark,
								   must,
								   tuples->dscp);
				publish_routing_meta(&udp_conn_state->meta, _m);
			}
		udp_conn_state->last_seen_ns = bpf_ktime_get_ns();
	}

#if defined(__DEBUG_ROUTING) || defined(__PRINT_ROUTING_RESULT)
	__u32 pid = pid_pname ? pid_pname->pid : 0;

	bpf_printk("udp(wan): from %pI6:%u [PID %u]", tuples->five.sip.u6_addr32,
		   bpf_ntohs(tuples->five.sport), pid);
	bpf_printk("udp(wan): outbound: %u, %pI6:%u", outbound,
		   tuples->five.dip.u6_addr32, bpf_ntohs(tuples->five.dport));
#endif

	if (!wan_egress_needs_control_plane(outbound, mark))
		return TC_ACT_OK;
	else if (unlikely(outbound == OUTBOUND_BLOCK))
		return TC_ACT_SHOT;

	if (!wan_outbound_is_alive(skb, outbound, IPPROTO_UDP,
				   tuples->five.dport))
		return TC_ACT_SHOT;

	struct routing_result routing_result = {};
	bool handoff_mandatory = udp_wan_egress_handoff_mandatory(tuples,
							      udp_conn_state);

	fill_routing_result(&routing_result, mark, must, outbound, mac,
			    tuples->dscp, handoff_pname, handoff_pid);
	if (publish_routing_handoff(&tuples->five, &routing_result) &&
	    handoff_mandatory)
		return TC_ACT_SHOT;

	if (prep_redirect_to_control_plane(skb, link_h_len, tuples,
					   ethh, 1))
		return TC_ACT_SHOT;
	skb->cb[0] = TPROXY_MARK;
	skb->cb[1] = IPPROTO_UDP;
	return redirect_to_control_plane_egress();
}

// Per-CPU scratch to stay under 512-byte stack limit across the call chain.
static __noinline int do_tproxy_wan_egress(struct __sk_buff *skb, __u32 link_h_len)
{
	if (skb->ingress_ifindex != NOWHERE_IFINDEX)
		return TC_ACT_OK;

	__u32 scratch_key = 0;
	struct parsed_packet *pkt =
		bpf_map_lookup_elem(&pkt_scratch_map, &scratch_key);

	if (!pkt)
		return TC_ACT_SHOT;

	/* Zero-init for verifier. */
	__builtin_memset(pkt, 0, sizeof(*pkt));
	int ret = parse_packet(skb, link_h_len, pkt);

	if (ret) {
		if (ret < 0) {
			bpf_printk("wan_egress parse error: %d, dropping", ret);
			return TC_ACT_SHOT;
		}
		return TC_ACT_OK;
	}

	if (pkt->l4proto == IPPROTO_TCP)
		return do_tproxy_wan_egress_tcp(skb, link_h_len, &pkt->tuples,
						&pkt->ethh, &pkt->tcph);
	if (pkt->l4proto == IPPROTO_UDP)
		return do_tproxy_wan_egress_udp(skb, link_h_len, &pkt->tuples,
						&pkt->ethh, &pkt->udph);
	return TC_ACT_OK;
}

SEC("tc/wan_egress_l2")
int tproxy_wan_egress_l2(struct __sk_buff *skb)
{
	return do_tproxy_wan_egress(skb, 14);
}

SEC("tc/wan_egress_l3")
int tproxy_wan_egress_l3(struct __sk_buff *skb)
{
	return do_tproxy_wan_egress(skb, 0);
}

SEC("tc/dae0peer_ingress")
int tproxy_dae0peer_ingress(struct __sk_buff *skb)
{
	/* Only packets redirected from wan_egress or lan_ingress have this cb mark.
   */
	if (skb->cb[0] != TPROXY_MARK)
		return TC_ACT_SHOT;

	/* ip rule add fwmark 0x8000000/0x8000000 table 2023
   * ip route add local default dev lo table 2023
   */
	skb->mark = TPROXY_MARK;
	bpf_skb_change_type(skb, PACKET_HOST);

	/* listener_l4proto is stored in skb->cb[1] only when the control-plane
	 * handoff needs an explicit listener assignment (UDP or TCP SYN, including
	 * first fragments that still expose those headers). Established TCP can
	 * return to the stack without bpf_sk_assign.
	 */
	__u8 l4proto = skb->cb[1];

	if (l4proto != 0)
		assign_listener(skb, l4proto);
	return TC_ACT_OK;
}

// load_redirect_tuple_fast returns this code when it cannot safely parse via
// direct packet access and should fall back to bpf_skb_load_bytes.
#define LOAD_REDIRECT_TUPLE_FALLBACK 2

static __always_inline int
load_redirect_tuple_fast(struct __sk_buff *skb,
			 struct redirect_tuple *redirect_tuple)
{
	void *data, *data_end;

	// Pull header data to linear region for direct access.
	// 128 bytes is enough for: ethhdr(14) + iphdr(40) + addresses.
#define REDIRECT_PULL_SIZE 128
	if (bpf_skb_pull_data(skb, REDIRECT_PULL_SIZE))
		return LOAD_REDIRECT_TUPLE_FALLBACK;

	data = (void *)(long)skb->data;
	data_end = (void *)(long)skb->data_end;
	struct ethhdr *eth = data;

	if ((void *)(eth + 1) > data_end)
		return LOAD_REDIRECT_TUPLE_FALLBACK;
	if (eth->h_proto == bpf_htons(ETH_P_IP)) {
		struct iphdr *iph = data + ETH_HLEN;

		if ((void *)(iph + 1) > data_end)
			return LOAD_REDIRECT_TUPLE_FALLBACK;
		// Use IPv4-mapped IPv6 format with ffff marker to match insert side
		redirect_tuple->sip.u6_addr32[2] = bpf_htonl(0x0000ffff);
		redirect_tuple->sip.u6_addr32[3] = iph->daddr;
		redirect_tuple->dip.u6_addr32[2] = bpf_htonl(0x0000ffff);
		redirect_tuple->dip.u6_addr32[3] = iph->saddr;
		return 0;
	}
	if (eth->h_proto == bpf_htons(ETH_P_IPV6)) {
		struct ipv6hdr *ipv6h = data + ETH_HLEN;

		if ((void *)(ipv6h + 1) > data_end)
			return LOAD_REDIRECT_TUPLE_FALLBACK;
		__builtin_memcpy(&redirect_tuple->sip, &ipv6h->daddr,
				 sizeof(redirect_tuple->sip));
		__builtin_memcpy(&redirect_tuple->dip, &ipv6h->saddr,
				 sizeof(redirect_tuple->dip));
		return 0;
	}
	return 1;
}

static __always_inline int
load_redirect_tuple_slow(struct __sk_buff *skb,
			 struct redirect_tuple *redirect_tuple)
{
	int ret;

	if (skb->protocol == bpf_htons(ETH_P_IP)) {
		// Set ffff marker first for IPv4-mapped IPv6 format
		__u32 ffff_marker = bpf_htonl(0x0000ffff);

		redirect_tuple->sip.u6_addr32[2] = ffff_marker;
		redirect_tuple->dip.u6_addr32[2] = ffff_marker;

		ret = bpf_skb_load_bytes(skb,
					 ETH_HLEN + offsetof(struct iphdr, daddr),
					 &redirect_tuple->sip.u6_addr32[3],
					 sizeof(redirect_tuple->sip.u6_addr32[3]));
		if (ret)
			return ret;
		ret = bpf_skb_load_bytes(skb,
					 ETH_HLEN + offsetof(struct iphdr, saddr),
					 &redirect_tuple->dip.u6_addr32[3],
					 sizeof(redirect_tuple->dip.u6_addr32[3]));
		if (ret)
			return ret;
		return 0;
	}
	if (skb->protocol == bpf_htons(ETH_P_IPV6)) {
		ret = bpf_skb_load_bytes(skb,
					 ETH_HLEN + offsetof(struct ipv6hdr, daddr),
					 &redirect_tuple->sip,
					 sizeof(redirect_tuple->sip));
		if (ret)
			return ret;
		ret = bpf_skb_load_bytes(skb,
					 ETH_HLEN + offsetof(struct ipv6hdr, saddr),
					 &redirect_tuple->dip,
					 sizeof(redirect_tuple->dip));
		if (ret)
			return ret;
		return 0;
	}
	return 1;
}

static __always_inline int
load_redirect_tuple(struct __sk_buff *skb,
		    struct redirect_tuple *redirect_tuple)
{
	int ret = load_redirect_tuple_fast(skb, redirect_tuple);

	if (ret == LOAD_REDIRECT_TUPLE_FALLBACK)
		return load_redirect_tuple_slow(skb, redirect_tuple);
	return ret;
}

SEC("tc/dae0_ingress")
int tproxy_dae0_ingress(struct __sk_buff *skb)
{
	struct redirect_tuple redirect_tuple = {};
	int ret;

	ret = load_redirect_tuple(skb, &redirect_tuple);
	if (ret)
		return TC_ACT_OK;
	struct redirect_entry *redirect_entry =
		bpf_map_lookup_elem(&redirect_track, &redirect_tuple);

	if (!redirect_entry)
		return TC_ACT_OK;

	redirect_entry->last_seen_ns = bpf_ktime_get_ns();

	bpf_skb_store_bytes(skb, offsetof(struct ethhdr, h_source),
			    redirect_entry->dmac, sizeof(redirect_entry->dmac),
			    0);
	bpf_skb_store_bytes(skb, offsetof(struct ethhdr, h_dest),
			    redirect_entry->smac, sizeof(redirect_entry->smac),
			    0);
	__u32 type = redirect_entry->from_wan ? PACKET_HOST : PACKET_OTHERHOST;

	bpf_skb_change_type(skb, type);
	__u64 flags = redirect_entry->from_wan ? BPF_F_INGRESS : 0;

	return bpf_redirect(redirect_entry->ifindex, flags);
}

struct get_real_comm_ctx {
	char *arg_buf;
	u8 l;
};

static int __noinline get_real_comm_loop_cb(__u32 index, void *data)
{
	/*
	* For string like: /usr/lib/sddm/sddm-helper --socket /tmp/sddm-auth1
	* We extract "sddm-helper" from it.
	*/
	struct get_real_comm_ctx *ctx = (struct get_real_comm_ctx *)data;

	if (index >= MAX_ARG_LEN) // always false, just to make verifier happy
		return 1;
	if (unlikely(ctx->arg_buf[index] == '/'))
		ctx->l = index + 1;
	if (unlikely(ctx->arg_buf[index] == ' ' ||
		     ctx->arg_buf[index] == '\0')) {
		// Write to dst.
		ctx->arg_buf[index] = '\0';
		return 1;
	}
	return 0;
}

/// Parse command line arguments to get the real command name and tgid.
static __always_inline int get_pid_pname(struct pid_pname *pid_pname)
{
	int ret;

	// Populate tgid and timestamp first
	pid_pname->last_seen_ns = bpf_ktime_get_ns();
	pid_pname->pid = bpf_get_current_pid_tgid() >> 32;

	if (!PARAM.has_bpf_get_current_task) {
		if (bpf_get_current_comm(&pid_pname->pname, sizeof(pid_pname->pname)))
			pid_pname->pname[0] = '\0';
		return 0;
	}

	// Get pointer to args string.
	struct task_struct *task = (void *)bpf_get_current_task();
	char *args = (void *)BPF_CORE_READ(task, mm, arg_start);

	// Read args to buffer.
	char arg_buf[MAX_ARG_LEN]; // Allocate it out of ctx to pass CO-RE
	struct get_real_comm_ctx ctx = {};

	ctx.arg_buf = arg_buf;
	ret = bpf_core_read_user_str(arg_buf, MAX_ARG_LEN, args);
	if (unlikely(ret < 0)) {
		bpf_printk(
			"failed to read process name: bpf_core_read_user_str: %d",
			ret);
		return ret;
	}

	// Find range of command name.
	ret = bpf_loop(MAX_ARG_LEN, get_real_comm_loop_cb, &ctx, 0);
	if (unlikely(ret < 0))
		return ret;

	u8 offset = ctx.l;

	for (u8 i = 0; i < TASK_COMM_LEN; i++) {
		if (offset + i < MAX_ARG_LEN && arg_buf[offset + i] != '\0') {
			pid_pname->pname[i] = arg_buf[offset + i];
		} else {
			pid_pname->pname[i] = '\0';
			break;
		}
	}

	return 0;
}

static __always_inline int _update_map_elem_by_cookie(const __u64 cookie)
{
	if (unlikely(!cookie)) {
		bpf_printk("zero cookie");
		return -EINVAL;
	}
	struct pid_pname *existing = bpf_map_lookup_elem(&cookie_pid_map, &cookie);

	if (existing) {
		// Cookie to pid mapping already exists.
		existing->last_seen_ns = bpf_ktime_get_ns();
		return 0;
	}

	int ret;
	// Build value.
	struct pid_pname val = { 0 };

	ret = get_pid_pname(&val);
	if (ret)
		return ret;

	// Update map.
	ret = bpf_map_update_elem(&cookie_pid_map, &cookie, &val, BPF_ANY);
	if (unlikely(ret))
		return ret;

#ifdef __PRINT_SETUP_PROCESS_CONNNECTION
	bpf_printk("setup_mapping: %llu -> %s (%d)", cookie, val.pname,
		   val.pid);
#endif
	return 0;
}

static __always_inline int update_map_elem_by_cookie(const __u64 cookie)
{
	int ret;

	ret = _update_map_elem_by_cookie(cookie);
	if (ret) {
		// Fallback to only write pid to avoid loop due to packets sent by dae.
		struct pid_pname val = { 0 };

		val.last_seen_ns = bpf_ktime_get_ns();
		val.pid = bpf_get_current_pid_tgid() >> 32;
		bpf_map_update_elem(&cookie_pid_map, &cookie, &val, BPF_ANY);
		return ret;
	}
	return 0;
}

// Create cookie to pid, pname mapping.
SEC("cgroup/sock_create")
int tproxy_wan_cg_sock_create(struct bpf_sock *sk)
{
	update_map_elem_by_cookie(bpf_get_socket_cookie(sk));
	return 1;
}

// Remove cookie to pid, pname mapping.
SEC("cgroup/sock_release")
int tproxy_wan_cg_sock_release(struct bpf_sock *sk)
{
	__u64 cookie = bpf_get_socket_cookie(sk);

	if (unlikely(!cookie)) {
		bpf_printk("zero cookie");
		return 1;
	}
	bpf_map_delete_elem(&cookie_pid_map, &cookie);
	return 1;
}

SEC("cgroup/connect4")
int tproxy_wan_cg_connect4(struct bpf_sock_addr *ctx)
{
	update_map_elem_by_cookie(bpf_get_socket_cookie(ctx));
	return 1;
}

SEC("cgroup/connect6")
int tproxy_wan_cg_connect6(struct bpf_sock_addr *ctx)
{
	update_map_elem_by_cookie(bpf_get_socket_cookie(ctx));
	return 1;
}

SEC("cgroup/sendmsg4")
int tproxy_wan_cg_sendmsg4(struct bpf_sock_addr *ctx)
{
	update_map_elem_by_cookie(bpf_get_socket_cookie(ctx));
	return 1;
}

SEC("cgroup/sendmsg6")
int tproxy_wan_cg_sendmsg6(struct bpf_sock_addr *ctx)
{
	update_map_elem_by_cookie(bpf_get_socket_cookie(ctx));
	return 1;
}

// tproxy_sockops is a placeholder for future sockops-based socket tracking.
// Preserved for Go ABI compatibility.
SEC("sockops")
int tproxy_sockops(struct bpf_sock_ops *skops)
{
	return BPF_OK;
}

// tproxy_sk_msg_redir is DISABLED due to kernel panic issues with
// bpf_msg_redirect_hash(). Preserved for Go ABI compatibility.
SEC("sk_msg")
int tproxy_sk_msg_redir(struct sk_msg_md *msg)
{
	return SK_PASS;
}

SEC("license") const char __license[] = "Dual BSD/GPL";
