/* kernsim driver: runs the working tree's control/kern/tproxy.c natively under a
 * simulated kernel. Single-threaded; driven over stdin/stdout by a binary
 * command protocol (see kernsim/NOTES.md). The simulator owns: maps, clock,
 * packet memory, helper results, fault injection. Built with ASan/UBSan: a
 * sanitizer report kills this process and the Go side reports it.
 *
 * This file #includes the copied tproxy.c so that static functions (route())
 * are directly callable; maps_gen.h is generated at check time by scraping the
 * SEC(".maps") variables and SEC("...") programs from that very source. */
#include <stdio.h>
#include <stdlib.h>
#include <string.h>
#include <stdint.h>
#include <unistd.h>
#include <errno.h>
#include <sys/mman.h>

#include "tproxy.c"

/* ------------------------------------------------------------------ maps */

#define KS_MAGIC 0x4b53494dU
#define KS_MAX_MAPS 64

struct ks_entry {
	uint8_t *key;
	uint8_t *val;
};

struct ks_map {
	uint32_t magic;
	const char *name;
	void *addr;
	uint32_t type, key_size, value_size, max_entries, decl_max_entries;
	uint32_t in_key, in_value, in_max; /* inner template (ARRAY_OF_MAPS) */
	uint8_t *arr; /* ARRAY / PERCPU_ARRAY storage */
	struct ks_entry *ents;
	uint32_t n, cap;
	struct ks_map **inner; /* ARRAY_OF_MAPS */
	int fail_countdown, fail_errno, fail_repeat;
	uint32_t ring_records;
	uint64_t ring_hash;
};

static struct ks_map ks_maps[KS_MAX_MAPS];
static int ks_nmaps;

struct ks_prog {
	const char *name, *sec;
	int kind; /* 0 skb, 1 cgroup sock, 2 cgroup sock_addr, 3 other */
	void *fn;
};

/* graveyard: deleted hash values stay readable until the end of the command,
 * as RCU keeps them for a running program */
static void **ks_grave;
static int ks_ngrave, ks_capgrave;
static void ks_bury(void *p)
{
	if (ks_ngrave == ks_capgrave) {
		ks_capgrave = ks_capgrave ? ks_capgrave * 2 : 64;
		ks_grave = realloc(ks_grave, sizeof(void *) * ks_capgrave);
	}
	ks_grave[ks_ngrave++] = p;
}
static void ks_flush_grave(void)
{
	for (int i = 0; i < ks_ngrave; i++)
		free(ks_grave[i]);
	ks_ngrave = 0;
}

static int ks_is_arraylike(uint32_t t)
{
	return t == BPF_MAP_TYPE_ARRAY || t == BPF_MAP_TYPE_PERCPU_ARRAY;
}
static int ks_is_hashlike(uint32_t t)
{
	return t == BPF_MAP_TYPE_HASH || t == BPF_MAP_TYPE_LRU_HASH || t == BPF_MAP_TYPE_LPM_TRIE ||
	       t == BPF_MAP_TYPE_PERCPU_HASH;
}

static void ks_reg_map(const char *name, void *addr, uint32_t type, uint32_t ks, uint32_t vs, uint32_t max,
		       uint32_t in_key, uint32_t in_value, uint32_t in_max)
{
	if (ks_nmaps >= KS_MAX_MAPS) {
		fprintf(stderr, "kernsim: too many maps\n");
		exit(3);
	}
	struct ks_map *m = &ks_maps[ks_nmaps++];
	memset(m, 0, sizeof(*m));
	m->magic = KS_MAGIC;
	m->name = name;
	m->addr = addr;
	m->type = type;
	m->key_size = ks;
	m->value_size = vs;
	m->max_entries = m->decl_max_entries = max;
	m->in_key = in_key;
	m->in_value = in_value;
	m->in_max = in_max;
	m->fail_countdown = -1;
	if (ks_is_arraylike(type))
		m->arr = calloc((size_t)max ? max : 1, vs ? vs : 1);
	if (type == BPF_MAP_TYPE_ARRAY_OF_MAPS)
		m->inner = calloc(max ? max : 1, sizeof(struct ks_map *));
}

static struct ks_map *ks_find(void *p)
{
	for (int i = 0; i < ks_nmaps; i++)
		if (ks_maps[i].addr == p)
			return &ks_maps[i];
	struct ks_map *m = p; /* inner map handed out by an ARRAY_OF_MAPS lookup */
	if (m && m->magic == KS_MAGIC)
		return m;
	fprintf(stderr, "kernsim: helper called with unknown map pointer %p\n", p);
	abort();
}

static void ks_free_entries(struct ks_map *m)
{
	for (uint32_t i = 0; i < m->n; i++) {
		free(m->ents[i].key);
		free(m->ents[i].val);
	}
	free(m->ents);
	m->ents = NULL;
	m->n = m->cap = 0;
}

static void ks_free_inner(struct ks_map *im)
{
	if (!im)
		return;
	ks_free_entries(im);
	im->magic = 0;
	free(im);
}

static int ks_lpm_match(const uint8_t *ek, const uint8_t *k, uint32_t data_size)
{
	uint32_t eplen, klen;
	memcpy(&eplen, ek, 4);
	memcpy(&klen, k, 4);
	if (eplen > klen || eplen > data_size * 8)
		return -1;
	uint32_t full = eplen / 8, rem = eplen % 8;
	if (memcmp(ek + 4, k + 4, full))
		return -1;
	if (rem) {
		uint8_t mask = (uint8_t)(0xff << (8 - rem));
		if ((ek[4 + full] & mask) != (k[4 + full] & mask))
			return -1;
	}
	return (int)eplen;
}

static struct ks_entry *ks_hash_find(struct ks_map *m, const void *key)
{
	for (uint32_t i = 0; i < m->n; i++)
		if (!memcmp(m->ents[i].key, key, m->key_size))
			return &m->ents[i];
	return NULL;
}

static struct bpf_sock ks_listener_sock;
static int ks_sk_acquired, ks_sk_released;
static int ks_listener_present;

static void *ks_lookup(struct ks_map *m, const void *key)
{
	switch (m->type) {
	case BPF_MAP_TYPE_ARRAY:
	case BPF_MAP_TYPE_PERCPU_ARRAY: {
		uint32_t idx;
		memcpy(&idx, key, 4);
		if (idx >= m->max_entries)
			return NULL;
		return m->arr + (size_t)idx * m->value_size;
	}
	case BPF_MAP_TYPE_ARRAY_OF_MAPS: {
		uint32_t idx;
		memcpy(&idx, key, 4);
		if (idx >= m->max_entries)
			return NULL;
		return m->inner[idx];
	}
	case BPF_MAP_TYPE_LPM_TRIE: {
		struct ks_entry *best = NULL;
		int bestlen = -1;
		for (uint32_t i = 0; i < m->n; i++) {
			int l = ks_lpm_match(m->ents[i].key, key, m->key_size - 4);
			if (l > bestlen) {
				bestlen = l;
				best = &m->ents[i];
			}
		}
		return best ? best->val : NULL;
	}
	case BPF_MAP_TYPE_SOCKMAP:
	case BPF_MAP_TYPE_SOCKHASH:
		if (m->addr == (void *)&listen_socket_map && ks_listener_present) {
			ks_sk_acquired++;
			return &ks_listener_sock;
		}
		return NULL;
	default: {
		struct ks_entry *e = ks_hash_find(m, key);
		return e ? e->val : NULL;
	}
	}
}

static int ks_upd_fail_fired;

static long ks_update(struct ks_map *m, const void *key, const void *value, uint64_t flags, int from_prog)
{
	if (from_prog && m->fail_countdown >= 0) {
		if (m->fail_countdown == 0) {
			if (!m->fail_repeat)
				m->fail_countdown = -1;
			ks_upd_fail_fired++;
			return -m->fail_errno;
		}
		m->fail_countdown--;
	}
	if (ks_is_arraylike(m->type)) {
		uint32_t idx;
		memcpy(&idx, key, 4);
		if (idx >= m->max_entries)
			return -E2BIG;
		if (flags == BPF_NOEXIST)
			return -EEXIST;
		memcpy(m->arr + (size_t)idx * m->value_size, value, m->value_size);
		return 0;
	}
	if (!ks_is_hashlike(m->type))
		return -EINVAL;
	struct ks_entry *e = NULL;
	if (m->type == BPF_MAP_TYPE_LPM_TRIE) {
		uint32_t plen;
		memcpy(&plen, key, 4);
		if (plen > (m->key_size - 4) * 8)
			return -EINVAL;
	}
	e = ks_hash_find(m, key);
	if (e) {
		if (flags == BPF_NOEXIST)
			return -EEXIST;
		memcpy(e->val, value, m->value_size);
		return 0;
	}
	if (flags == BPF_EXIST)
		return -ENOENT;
	if (m->n >= m->max_entries)
		return m->type == BPF_MAP_TYPE_LPM_TRIE ? -ENOSPC : -E2BIG;
	if (m->n == m->cap) {
		m->cap = m->cap ? m->cap * 2 : 16;
		m->ents = realloc(m->ents, sizeof(struct ks_entry) * m->cap);
	}
	e = &m->ents[m->n++];
	e->key = malloc(m->key_size ? m->key_size : 1);
	e->val = malloc(m->value_size ? m->value_size : 1);
	memcpy(e->key, key, m->key_size);
	memcpy(e->val, value, m->value_size);
	return 0;
}

static long ks_delete(struct ks_map *m, const void *key)
{
	if (ks_is_arraylike(m->type))
		return -EINVAL;
	if (!ks_is_hashlike(m->type))
		return -EINVAL;
	for (uint32_t i = 0; i < m->n; i++) {
		if (!memcmp(m->ents[i].key, key, m->key_size)) {
			ks_bury(m->ents[i].key);
			ks_bury(m->ents[i].val);
			m->ents[i] = m->ents[m->n - 1];
			m->n--;
			return 0;
		}
	}
	return -ENOENT;
}

void *ks_map_lookup_elem(void *map, const void *key)
{
	return ks_lookup(ks_find(map), key);
}
long ks_map_update_elem(void *map, const void *key, const void *value, __u64 flags)
{
	return ks_update(ks_find(map), key, value, flags, 1);
}
long ks_map_delete_elem(void *map, const void *key)
{
	return ks_delete(ks_find(map), key);
}

/* ------------------------------------------------------------------ clock, misc helpers */

static uint64_t ks_now_ns;
__u64 bpf_ktime_get_ns(void)
{
	return ks_now_ns;
}

long bpf_loop(__u32 nr_loops, void *callback_fn, void *callback_ctx, __u64 flags)
{
	long (*cb)(__u32, void *) = callback_fn;
	if (flags)
		return -EINVAL;
	if (nr_loops > (1u << 23))
		return -E2BIG;
	__u32 i;
	for (i = 0; i < nr_loops; i++) {
		long r = cb(i, callback_ctx);
		if (r)
			return i + 1;
	}
	return i;
}

static uint64_t fnv(uint64_t h, const void *p, size_t n)
{
	const uint8_t *b = p;
	for (size_t i = 0; i < n; i++) {
		h ^= b[i];
		h *= 1099511628211ULL;
	}
	return h;
}

long bpf_ringbuf_output(void *ringbuf, void *data, __u64 size, __u64 flags)
{
	struct ks_map *m = ks_find(ringbuf);
	m->ring_records++;
	m->ring_hash = fnv(m->ring_hash ? m->ring_hash : 1469598103934665603ULL, data, size);
	return 0;
}

/* ------------------------------------------------------------------ packets */

#define KS_PKT_MAX 65536
#define KS_HEADROOM 256
static uint8_t *ks_low; /* low (<4GiB) window region followed by a PROT_NONE guard page */
static size_t ks_low_size;
static uint8_t ks_full[KS_PKT_MAX + KS_HEADROOM]; /* complete frame ("frags" included) */
static uint32_t ks_len;			      /* skb->len */
static uint32_t ks_lin;			      /* linear bytes (headlen) */
static struct __sk_buff ks_skb;
static int ks_pull_mode;       /* 0 faithful, 1 fail with -ENOMEM */
static uint32_t ks_lin_after;  /* linear bytes after a successful pull (0 = everything) */
static int ks_n_pull, ks_pull_failed, ks_n_load, ks_n_store, ks_change_head, ks_change_type_calls;
static uint32_t ks_redirect_kind, ks_redirect_ifindex;
static uint64_t ks_redirect_flags;
static int ks_store_fail_at; /* -1 none; k: k-th store_bytes call fails */

static void ks_window_publish(void)
{
	/* linear bytes end exactly at the guard page: any read at or beyond
	 * data_end through a packet pointer faults */
	uint8_t *end = ks_low + ks_low_size;
	uint8_t *start = end - ks_lin;
	memcpy(start, ks_full, ks_lin);
	ks_skb.data = (uint32_t)(uintptr_t)start;
	ks_skb.data_end = (uint32_t)(uintptr_t)end;
	ks_skb.len = ks_len;
}
static void ks_window_commit(void)
{
	/* direct packet writes (if any) become part of the frame */
	uint8_t *start = (uint8_t *)(uintptr_t)ks_skb.data;
	if (start && ks_lin)
		memcpy(ks_full, start, ks_lin);
}

long bpf_skb_pull_data(struct __sk_buff *skb, __u32 len)
{
	ks_n_pull++;
	ks_window_commit();
	uint32_t want = len ? len : ks_lin;
	if (ks_pull_mode == 1 || want > ks_len) {
		/* pskb_may_pull(): len > skb->len, or allocation failure */
		ks_pull_failed++;
		ks_window_publish();
		return -ENOMEM;
	}
	uint32_t target = ks_lin_after ? ks_lin_after : ks_len;
	if (target > ks_len)
		target = ks_len;
	if (target < want)
		target = want;
	if (target > ks_lin)
		ks_lin = target;
	ks_window_publish();
	return 0;
}

long bpf_skb_load_bytes(const struct __sk_buff *skb, __u32 offset, void *to, __u32 len)
{
	ks_n_load++;
	ks_window_commit();
	if (offset > 0xffff || len == 0 || (uint64_t)offset + len > ks_len) {
		memset(to, 0, len);
		return -EFAULT;
	}
	memcpy(to, ks_full + offset, len);
	return 0;
}

long bpf_skb_store_bytes(struct __sk_buff *skb, __u32 offset, const void *from, __u32 len, __u64 flags)
{
	ks_n_store++;
	ks_window_commit();
	if (ks_store_fail_at >= 0 && ks_n_store - 1 == ks_store_fail_at)
		return -ENOMEM;
	if (offset > 0xffff || (uint64_t)offset + len > ks_len)
		return -EFAULT;
	memcpy(ks_full + offset, from, len);
	if (ks_lin < offset + len)
		ks_lin = offset + len;
	ks_window_publish();
	return 0;
}

long bpf_skb_change_head(struct __sk_buff *skb, __u32 len, __u64 flags)
{
	ks_window_commit();
	if (flags || len > KS_HEADROOM || ks_len + len > KS_PKT_MAX)
		return -EINVAL;
	memmove(ks_full + len, ks_full, ks_len);
	memset(ks_full, 0, len);
	ks_len += len;
	ks_lin += len;
	ks_change_head += len;
	ks_window_publish();
	return 0;
}

long bpf_skb_change_type(struct __sk_buff *skb, __u32 type)
{
	ks_change_type_calls++;
	skb->pkt_type = type;
	return 0;
}

long bpf_redirect(__u32 ifindex, __u64 flags)
{
	ks_redirect_kind = 1;
	ks_redirect_ifindex = ifindex;
	ks_redirect_flags = flags;
	return TC_ACT_REDIRECT;
}
long bpf_redirect_peer(__u32 ifindex, __u64 flags)
{
	ks_redirect_kind = 2;
	ks_redirect_ifindex = ifindex;
	ks_redirect_flags = flags;
	return TC_ACT_REDIRECT;
}

/* ------------------------------------------------------------------ sockets / process */

static int ks_tcp_lookup, ks_udp_lookup; /* script for this RUN */
static struct bpf_sock ks_sock;
static int ks_sock_full;
static uint64_t ks_cookie;
static int ks_sk_assign_rc, ks_sk_assign_calls;
static uint64_t ks_pid_tgid;
static char ks_comm[16];
static char ks_args[256];
static int ks_args_fail;
static struct mm_struct ks_mm;
static struct task_struct ks_task;

static struct bpf_sock *ks_sock_result(int kind, int is_tcp)
{
	/* kind: 0 none; 1 listening/plain socket of somebody else; 2 dae's own socket
	 * (carries PARAM.dae_socket_mark); 3 established (tcp); 4 not a full socket */
	if (!kind)
		return NULL;
	memset(&ks_sock, 0, sizeof(ks_sock));
	ks_sock_full = kind != 4;
	ks_sock.state = is_tcp ? (kind == 3 ? BPF_TCP_ESTABLISHED : (kind == 4 ? BPF_TCP_NEW_SYN_RECV : BPF_TCP_LISTEN)) :
				 BPF_TCP_CLOSE;
	ks_sock.mark = kind == 2 ? PARAM.dae_socket_mark : 0;
	ks_sk_acquired++;
	return &ks_sock;
}

struct bpf_sock *bpf_skc_lookup_tcp(void *ctx, struct bpf_sock_tuple *tuple, __u32 tuple_size, __u64 netns, __u64 flags)
{
	if (tuple_size != sizeof(tuple->ipv4) && tuple_size != sizeof(tuple->ipv6))
		return NULL;
	return ks_sock_result(ks_tcp_lookup, 1);
}
struct bpf_sock *bpf_sk_lookup_udp(void *ctx, struct bpf_sock_tuple *tuple, __u32 tuple_size, __u64 netns, __u64 flags)
{
	if (tuple_size != sizeof(tuple->ipv4) && tuple_size != sizeof(tuple->ipv6))
		return NULL;
	return ks_sock_result(ks_udp_lookup, 0);
}
struct bpf_sock *bpf_sk_fullsock(struct bpf_sock *sk)
{
	if (sk == &ks_sock)
		return ks_sock_full ? sk : NULL;
	return sk;
}
long bpf_sk_release(void *sock)
{
	if (!sock) {
		fprintf(stderr, "kernsim: bpf_sk_release(NULL)\n");
		abort();
	}
	ks_sk_released++;
	return 0;
}
long bpf_sk_assign(void *ctx, void *sk, __u64 flags)
{
	ks_sk_assign_calls++;
	return ks_sk_assign_rc;
}
__u64 ks_get_socket_cookie(void *ctx)
{
	return ks_cookie;
}
__u64 bpf_get_current_pid_tgid(void)
{
	return ks_pid_tgid;
}
long bpf_get_current_comm(void *buf, __u32 size_of_buf)
{
	memset(buf, 0, size_of_buf);
	memcpy(buf, ks_comm, size_of_buf < 16 ? size_of_buf : 16);
	return 0;
}
__u64 bpf_get_current_task(void)
{
	ks_mm.arg_start = (unsigned long)ks_args;
	ks_task.mm = &ks_mm;
	return (__u64)(uintptr_t)&ks_task;
}
long ks_core_read_user_str(void *dst, int sz, const void *unsafe_ptr)
{
	if (ks_args_fail || sz <= 0)
		return -EFAULT;
	const char *s = unsafe_ptr;
	int i = 0;
	for (; i < sz - 1 && s[i]; i++)
		((char *)dst)[i] = s[i];
	((char *)dst)[i] = 0;
	return i + 1;
}

/* ------------------------------------------------------------------ generated registration */

#define KS_UINT(f) ((uint32_t)(sizeof(*(f)) / sizeof(int)))
static struct ks_prog ks_progs[64];
static int ks_nprogs;
static void ks_reg_prog(const char *name, const char *sec, int kind, void *fn)
{
	ks_progs[ks_nprogs].name = name;
	ks_progs[ks_nprogs].sec = sec;
	ks_progs[ks_nprogs].kind = kind;
	ks_progs[ks_nprogs].fn = fn;
	ks_nprogs++;
}
#include "maps_gen.h"

/* ------------------------------------------------------------------ state: reset / snapshot / digest */

/* PARAM is a const object for the compiler: stores through a plain cast are
 * undefined and get deleted by the optimiser. The address is laundered so the
 * stores survive; the program's own reads are volatile loads. */
static void *ks_param_ptr(void)
{
	void *q = (void *)&PARAM;
	asm volatile("" : "+r"(q));
	return q;
}

static void ks_reset_map(struct ks_map *m)
{
	m->max_entries = m->decl_max_entries;
	m->fail_countdown = -1;
	m->fail_repeat = 0;
	m->ring_records = 0;
	m->ring_hash = 0;
	if (m->arr)
		memset(m->arr, 0, (size_t)m->decl_max_entries * m->value_size);
	ks_free_entries(m);
	if (m->inner)
		for (uint32_t i = 0; i < m->decl_max_entries; i++) {
			ks_free_inner(m->inner[i]);
			m->inner[i] = NULL;
		}
}

struct ks_snap_map {
	uint8_t *arr;
	struct ks_entry *ents;
	uint32_t n;
	uint32_t ring_records;
	uint64_t ring_hash;
	int fail_countdown;
};
static struct ks_snap_map ks_snap[KS_MAX_MAPS];
static int ks_snap_valid;
static uint64_t ks_snap_now;

static int ks_snapshotted(struct ks_map *m)
{
	if (m->type == BPF_MAP_TYPE_ARRAY_OF_MAPS)
		return 0;
	if (m->arr && (size_t)m->decl_max_entries * m->value_size > 8192)
		return 0; /* large control-plane-written arrays: never written by the datapath */
	return 1;
}

static void ks_snap_free(void)
{
	for (int i = 0; i < ks_nmaps; i++) {
		struct ks_snap_map *s = &ks_snap[i];
		free(s->arr);
		for (uint32_t j = 0; j < s->n; j++) {
			free(s->ents[j].key);
			free(s->ents[j].val);
		}
		free(s->ents);
		memset(s, 0, sizeof(*s));
	}
	ks_snap_valid = 0;
}

static void ks_snapshot(void)
{
	ks_snap_free();
	for (int i = 0; i < ks_nmaps; i++) {
		struct ks_map *m = &ks_maps[i];
		struct ks_snap_map *s = &ks_snap[i];
		if (!ks_snapshotted(m))
			continue;
		if (m->arr) {
			size_t sz = (size_t)m->decl_max_entries * m->value_size;
			s->arr = malloc(sz ? sz : 1);
			memcpy(s->arr, m->arr, sz);
		}
		s->n = m->n;
		s->ents = malloc(sizeof(struct ks_entry) * (m->n ? m->n : 1));
		for (uint32_t j = 0; j < m->n; j++) {
			s->ents[j].key = malloc(m->key_size ? m->key_size : 1);
			s->ents[j].val = malloc(m->value_size ? m->value_size : 1);
			memcpy(s->ents[j].key, m->ents[j].key, m->key_size);
			memcpy(s->ents[j].val, m->ents[j].val, m->value_size);
		}
		s->ring_records = m->ring_records;
		s->ring_hash = m->ring_hash;
		s->fail_countdown = m->fail_countdown;
	}
	ks_snap_now = ks_now_ns;
	ks_snap_valid = 1;
}

static int ks_restore(void)
{
	if (!ks_snap_valid)
		return -1;
	for (int i = 0; i < ks_nmaps; i++) {
		struct ks_map *m = &ks_maps[i];
		struct ks_snap_map *s = &ks_snap[i];
		if (!ks_snapshotted(m))
			continue;
		if (m->arr)
			memcpy(m->arr, s->arr, (size_t)m->decl_max_entries * m->value_size);
		ks_free_entries(m);
		m->cap = s->n ? s->n : 1;
		m->ents = malloc(sizeof(struct ks_entry) * m->cap);
		m->n = s->n;
		for (uint32_t j = 0; j < s->n; j++) {
			m->ents[j].key = malloc(m->key_size ? m->key_size : 1);
			m->ents[j].val = malloc(m->value_size ? m->value_size : 1);
			memcpy(m->ents[j].key, s->ents[j].key, m->key_size);
			memcpy(m->ents[j].val, s->ents[j].val, m->value_size);
		}
		m->ring_records = s->ring_records;
		m->ring_hash = s->ring_hash;
		m->fail_countdown = s->fail_countdown;
	}
	ks_now_ns = ks_snap_now;
	return 0;
}

/* order-independent digest of everything the datapath may have changed */
static uint64_t ks_digest(void)
{
	uint64_t tot = 0;
	for (int i = 0; i < ks_nmaps; i++) {
		struct ks_map *m = &ks_maps[i];
		if (!ks_snapshotted(m) || m->type == BPF_MAP_TYPE_PERCPU_ARRAY)
			continue;
		uint64_t h = fnv(1469598103934665603ULL, m->name, strlen(m->name));
		if (m->arr)
			h = fnv(h, m->arr, (size_t)m->max_entries * m->value_size);
		uint64_t sum = 0;
		for (uint32_t j = 0; j < m->n; j++) {
			uint64_t e = fnv(1469598103934665603ULL, m->ents[j].key, m->key_size);
			e = fnv(e, m->ents[j].val, m->value_size);
			sum += e * 0x9e3779b97f4a7c15ULL;
		}
		h = fnv(h, &sum, 8);
		h = fnv(h, &m->ring_records, 4);
		h = fnv(h, &m->ring_hash, 8);
		tot = tot * 31 + h;
	}
	return tot;
}

/* ------------------------------------------------------------------ wire protocol */

static uint8_t *rq; /* request buffer */
static size_t rq_len, rq_pos, rq_cap;
static uint8_t *rs; /* response buffer */
static size_t rs_len, rs_cap;

static void rs_put(const void *p, size_t n)
{
	if (rs_len + n > rs_cap) {
		rs_cap = (rs_len + n) * 2 + 256;
		rs = realloc(rs, rs_cap);
	}
	if (n)
		memcpy(rs + rs_len, p, n);
	rs_len += n;
}
static void rs_u8(uint8_t v) { rs_put(&v, 1); }
static void rs_u32(uint32_t v) { rs_put(&v, 4); }
static void rs_i32(int32_t v) { rs_put(&v, 4); }
static void rs_u64(uint64_t v) { rs_put(&v, 8); }
static void rs_str(const char *s)
{
	uint8_t l = (uint8_t)strlen(s);
	rs_u8(l);
	rs_put(s, l);
}
static void rq_need(size_t n)
{
	if (rq_pos + n > rq_len) {
		fprintf(stderr, "kernsim: short request (op %u)\n", rq_len ? rq[0] : 0);
		exit(3);
	}
}
static const uint8_t *rq_bytes(size_t n)
{
	rq_need(n);
	const uint8_t *p = rq + rq_pos;
	rq_pos += n;
	return p;
}
static uint8_t rq_u8(void) { return *rq_bytes(1); }
static uint32_t rq_u32(void)
{
	uint32_t v;
	memcpy(&v, rq_bytes(4), 4);
	return v;
}
static int32_t rq_i32(void) { return (int32_t)rq_u32(); }
static uint64_t rq_u64(void)
{
	uint64_t v;
	memcpy(&v, rq_bytes(8), 8);
	return v;
}

static int read_full(int fd, void *buf, size_t n)
{
	size_t got = 0;
	while (got < n) {
		ssize_t r = read(fd, (char *)buf + got, n - got);
		if (r == 0)
			return got == 0 ? 0 : -1;
		if (r < 0) {
			if (errno == EINTR)
				continue;
			return -1;
		}
		got += r;
	}
	return 1;
}
static void write_full(int fd, const void *buf, size_t n)
{
	size_t put = 0;
	while (put < n) {
		ssize_t r = write(fd, (const char *)buf + put, n - put);
		if (r < 0) {
			if (errno == EINTR)
				continue;
			exit(4);
		}
		put += r;
	}
}

static struct ks_map *rq_map(void)
{
	uint32_t idx = rq_u32();
	if (idx >= (uint32_t)ks_nmaps) {
		fprintf(stderr, "kernsim: bad map index %u\n", idx);
		exit(3);
	}
	return &ks_maps[idx];
}

enum {
	OP_HELLO = 1, OP_RESET, OP_SET_MAXENT, OP_MAP_PUT, OP_MAP_GET, OP_MAP_DEL, OP_MAP_DUMP, OP_MAP_CLEAR,
	OP_INNER_SET, OP_INNER_DEL, OP_SET_PARAM, OP_SET_TIME, OP_SET_FAULT, OP_RUN, OP_ROUTE, OP_SNAPSHOT,
	OP_RESTORE, OP_DIGEST, OP_RUN_CG, OP_INNER_DUMP,
};

static int cmp_entry_size;
static int cmp_entry(const void *a, const void *b)
{
	return memcmp(((const struct ks_entry *)a)->key, ((const struct ks_entry *)b)->key, cmp_entry_size);
}

static void dump_entries(struct ks_map *m)
{
	if (ks_is_arraylike(m->type)) {
		rs_u32(m->max_entries);
		for (uint32_t i = 0; i < m->max_entries; i++) {
			rs_put(&i, 4);
			rs_put(m->arr + (size_t)i * m->value_size, m->value_size);
		}
		return;
	}
	struct ks_entry *tmp = malloc(sizeof(struct ks_entry) * (m->n ? m->n : 1));
	if (m->n) {
		memcpy(tmp, m->ents, sizeof(struct ks_entry) * m->n);
		cmp_entry_size = m->key_size;
		qsort(tmp, m->n, sizeof(struct ks_entry), cmp_entry);
	}
	rs_u32(m->n);
	for (uint32_t i = 0; i < m->n; i++) {
		rs_put(tmp[i].key, m->key_size);
		rs_put(tmp[i].val, m->value_size);
	}
	free(tmp);
}

static void op_hello(void)
{
	rs_i32(0);
	rs_u32(ks_nmaps);
	for (int i = 0; i < ks_nmaps; i++) {
		struct ks_map *m = &ks_maps[i];
		rs_str(m->name);
		rs_u32(m->type);
		rs_u32(m->key_size);
		rs_u32(m->value_size);
		rs_u32(m->decl_max_entries);
		rs_u32(m->in_key);
		rs_u32(m->in_value);
		rs_u32(m->in_max);
	}
	rs_u32(ks_nprogs);
	for (int i = 0; i < ks_nprogs; i++) {
		rs_str(ks_progs[i].name);
		rs_str(ks_progs[i].sec);
		rs_u32(ks_progs[i].kind);
	}
	/* facts about the compiled program the harness may need */
	rs_u32(sizeof(struct dae_param));
	rs_u32(sizeof(struct routing_result));
	rs_i32(TC_ACT_OK);
	rs_i32(TC_ACT_SHOT);
	rs_i32(TC_ACT_REDIRECT);
	rs_i32(TC_ACT_PIPE);
}

static void op_run(void)
{
	uint32_t pi = rq_u32();
	if (pi >= (uint32_t)ks_nprogs || ks_progs[pi].kind != 0) {
		rs_i32(-EINVAL);
		return;
	}
	uint32_t plen = rq_u32();
	if (plen > KS_PKT_MAX) {
		rs_i32(-E2BIG);
		return;
	}
	memset(ks_full, 0, sizeof(ks_full));
	memcpy(ks_full, rq_bytes(plen), plen);
	ks_len = plen;
	memset(&ks_skb, 0, sizeof(ks_skb));
	ks_skb.protocol = rq_u32();
	ks_skb.ifindex = rq_u32();
	ks_skb.ingress_ifindex = rq_u32();
	ks_skb.mark = rq_u32();
	ks_skb.pkt_type = rq_u32();
	for (int i = 0; i < 5; i++)
		ks_skb.cb[i] = rq_u32();
	ks_lin = rq_u32();
	if (ks_lin > ks_len)
		ks_lin = ks_len;
	ks_pull_mode = rq_i32();
	ks_lin_after = rq_u32();
	ks_tcp_lookup = rq_u8();
	ks_udp_lookup = rq_u8();
	ks_cookie = rq_u64();
	ks_listener_present = rq_u8();
	ks_sk_assign_rc = rq_i32();
	ks_store_fail_at = rq_i32();

	ks_n_pull = ks_pull_failed = ks_n_load = ks_n_store = ks_change_head = ks_change_type_calls = 0;
	ks_redirect_kind = ks_redirect_ifindex = 0;
	ks_redirect_flags = 0;
	ks_sk_acquired = ks_sk_released = ks_sk_assign_calls = 0;
	ks_upd_fail_fired = 0;
	memset(&ks_listener_sock, 0, sizeof(ks_listener_sock));
	ks_window_publish();

	int (*fn)(struct __sk_buff *) = ks_progs[pi].fn;
	int rc = fn(&ks_skb);
	ks_window_commit();
	ks_flush_grave();

	rs_i32(0);
	rs_i32(rc);
	rs_u32(ks_skb.mark);
	for (int i = 0; i < 5; i++)
		rs_u32(ks_skb.cb[i]);
	rs_u32(ks_skb.pkt_type);
	rs_u32(ks_redirect_kind);
	rs_u32(ks_redirect_ifindex);
	rs_u64(ks_redirect_flags);
	rs_u32(ks_change_head);
	rs_u32(ks_n_store);
	rs_u32(ks_n_load);
	rs_u32(ks_n_pull);
	rs_u32(ks_pull_failed);
	rs_u32(ks_sk_acquired);
	rs_u32(ks_sk_released);
	rs_u32(ks_sk_assign_calls);
	rs_u32(ks_upd_fail_fired);
	rs_u64(ks_digest());
	rs_u32(ks_len);
	rs_put(ks_full, ks_len);
}

static void op_route(void)
{
	__u32 flag[8];
	for (int i = 0; i < 8; i++)
		flag[i] = rq_u32();
	uint16_t sport = (uint16_t)rq_u32(), dport = (uint16_t)rq_u32();
	__be32 saddr[4], daddr[4], mac[4];
	memcpy(saddr, rq_bytes(16), 16);
	memcpy(daddr, rq_bytes(16), 16);
	memcpy(mac, rq_bytes(16), 16);
	union {
		struct tcphdr t;
		struct udphdr u;
	} l4;
	memset(&l4, 0, sizeof(l4));
	if (flag[0] == L4ProtoType_TCP) {
		l4.t.source = bpf_htons(sport);
		l4.t.dest = bpf_htons(dport);
	} else {
		l4.u.source = bpf_htons(sport);
		l4.u.dest = bpf_htons(dport);
	}
	__s64 r = route(flag, &l4, saddr, daddr, mac);
	ks_flush_grave();
	rs_i32(0);
	rs_u64((uint64_t)r);
}

static void op_run_cg(void)
{
	uint32_t pi = rq_u32();
	ks_cookie = rq_u64();
	ks_pid_tgid = rq_u64();
	memcpy(ks_comm, rq_bytes(16), 16);
	uint32_t al = rq_u32();
	memset(ks_args, 0, sizeof(ks_args));
	const uint8_t *a = rq_bytes(al);
	memcpy(ks_args, a, al < sizeof(ks_args) - 1 ? al : sizeof(ks_args) - 1);
	ks_args_fail = rq_u8();
	ks_upd_fail_fired = 0;
	if (pi >= (uint32_t)ks_nprogs || (ks_progs[pi].kind != 1 && ks_progs[pi].kind != 2)) {
		rs_i32(-EINVAL);
		return;
	}
	int rc;
	if (ks_progs[pi].kind == 1) {
		struct bpf_sock sk;
		memset(&sk, 0, sizeof(sk));
		int (*fn)(struct bpf_sock *) = ks_progs[pi].fn;
		rc = fn(&sk);
	} else {
		struct bpf_sock_addr sa;
		memset(&sa, 0, sizeof(sa));
		int (*fn)(struct bpf_sock_addr *) = ks_progs[pi].fn;
		rc = fn(&sa);
	}
	ks_flush_grave();
	rs_i32(0);
	rs_i32(rc);
	rs_u32(ks_upd_fail_fired);
}

static void handle(void)
{
	uint8_t op = rq_u8();
	switch (op) {
	case OP_HELLO:
		op_hello();
		break;
	case OP_RESET:
		for (int i = 0; i < ks_nmaps; i++)
			ks_reset_map(&ks_maps[i]);
		ks_snap_free();
		ks_flush_grave();
		ks_now_ns = 0;
		memset(ks_param_ptr(), 0, sizeof(PARAM));
		rs_i32(0);
		break;
	case OP_SET_MAXENT: {
		struct ks_map *m = rq_map();
		uint32_t n = rq_u32();
		if (n > m->decl_max_entries)
			n = m->decl_max_entries;
		m->max_entries = n;
		rs_i32(0);
		break;
	}
	case OP_MAP_PUT: {
		struct ks_map *m = rq_map();
		const uint8_t *k = rq_bytes(m->key_size);
		const uint8_t *v = rq_bytes(m->value_size);
		uint64_t fl = rq_u64();
		rs_i32((int32_t)ks_update(m, k, v, fl, 0));
		break;
	}
	case OP_MAP_GET: {
		struct ks_map *m = rq_map();
		const uint8_t *k = rq_bytes(m->key_size);
		void *v = NULL;
		if (m->type != BPF_MAP_TYPE_ARRAY_OF_MAPS && m->type != BPF_MAP_TYPE_SOCKMAP &&
		    m->type != BPF_MAP_TYPE_SOCKHASH && m->type != BPF_MAP_TYPE_RINGBUF)
			v = m->type == BPF_MAP_TYPE_LPM_TRIE ? (ks_hash_find(m, k) ? ks_hash_find(m, k)->val : NULL) :
							       ks_lookup(m, k);
		rs_i32(v ? 0 : -ENOENT);
		if (v)
			rs_put(v, m->value_size);
		break;
	}
	case OP_MAP_DEL: {
		struct ks_map *m = rq_map();
		const uint8_t *k = rq_bytes(m->key_size);
		rs_i32((int32_t)ks_delete(m, k));
		ks_flush_grave();
		break;
	}
	case OP_MAP_DUMP: {
		struct ks_map *m = rq_map();
		rs_i32(0);
		if (m->type == BPF_MAP_TYPE_RINGBUF) {
			rs_u32(m->ring_records);
			break;
		}
		dump_entries(m);
		break;
	}
	case OP_MAP_CLEAR: {
		struct ks_map *m = rq_map();
		if (m->arr)
			memset(m->arr, 0, (size_t)m->decl_max_entries * m->value_size);
		ks_free_entries(m);
		rs_i32(0);
		break;
	}
	case OP_INNER_SET: {
		struct ks_map *m = rq_map();
		uint32_t slot = rq_u32(), n = rq_u32();
		if (m->type != BPF_MAP_TYPE_ARRAY_OF_MAPS || slot >= m->max_entries) {
			rs_i32(-E2BIG);
			break;
		}
		struct ks_map *im = calloc(1, sizeof(*im));
		im->magic = KS_MAGIC;
		im->name = "inner";
		im->type = BPF_MAP_TYPE_LPM_TRIE;
		im->key_size = m->in_key;
		im->value_size = m->in_value;
		im->max_entries = im->decl_max_entries = m->in_max;
		im->fail_countdown = -1;
		int rc = 0;
		for (uint32_t i = 0; i < n; i++) {
			const uint8_t *k = rq_bytes(im->key_size);
			const uint8_t *v = rq_bytes(im->value_size);
			long r = ks_update(im, k, v, BPF_ANY, 0);
			if (r && !rc)
				rc = (int)r;
		}
		ks_free_inner(m->inner[slot]);
		m->inner[slot] = im;
		rs_i32(rc);
		break;
	}
	case OP_INNER_DEL: {
		struct ks_map *m = rq_map();
		uint32_t slot = rq_u32();
		if (m->type != BPF_MAP_TYPE_ARRAY_OF_MAPS || slot >= m->max_entries) {
			rs_i32(-E2BIG);
			break;
		}
		int had = m->inner[slot] != NULL;
		ks_free_inner(m->inner[slot]);
		m->inner[slot] = NULL;
		rs_i32(had ? 0 : -ENOENT);
		break;
	}
	case OP_INNER_DUMP: {
		struct ks_map *m = rq_map();
		rs_i32(0);
		uint32_t cnt = 0;
		for (uint32_t i = 0; i < m->max_entries; i++)
			if (m->inner && m->inner[i])
				cnt++;
		rs_u32(cnt);
		for (uint32_t i = 0; i < m->max_entries; i++)
			if (m->inner && m->inner[i]) {
				rs_u32(i);
				dump_entries(m->inner[i]);
			}
		break;
	}
	case OP_SET_PARAM: {
		uint32_t n = rq_u32();
		const uint8_t *p = rq_bytes(n);
		memset(ks_param_ptr(), 0, sizeof(PARAM));
		memcpy(ks_param_ptr(), p, n < sizeof(PARAM) ? n : sizeof(PARAM));
		rs_i32(n == sizeof(PARAM) ? 0 : -EMSGSIZE);
		break;
	}
	case OP_SET_TIME:
		ks_now_ns = rq_u64();
		rs_i32(0);
		break;
	case OP_SET_FAULT: {
		struct ks_map *m = rq_map();
		m->fail_countdown = rq_i32();
		m->fail_errno = rq_i32();
		m->fail_repeat = rq_i32();
		rs_i32(0);
		break;
	}
	case OP_RUN:
		op_run();
		break;
	case OP_ROUTE:
		op_route();
		break;
	case OP_SNAPSHOT:
		ks_snapshot();
		rs_i32(0);
		break;
	case OP_RESTORE:
		rs_i32(ks_restore());
		break;
	case OP_DIGEST:
		rs_i32(0);
		rs_u64(ks_digest());
		break;
	case OP_RUN_CG:
		op_run_cg();
		break;
	default:
		fprintf(stderr, "kernsim: unknown op %u\n", op);
		exit(3);
	}
}

int main(void)
{
	/* PARAM is `const volatile` (.rodata): make its page(s) writable, the way
	 * the loader rewrites the constant before the program is loaded */
	long pg = sysconf(_SC_PAGESIZE);
	uintptr_t a = (uintptr_t)&PARAM & ~(uintptr_t)(pg - 1);
	uintptr_t e = ((uintptr_t)&PARAM + sizeof(PARAM) + pg - 1) & ~(uintptr_t)(pg - 1);
	if (mprotect((void *)a, e - a, PROT_READ | PROT_WRITE)) {
		perror("kernsim: mprotect PARAM");
		return 3;
	}
	/* packet window below 4 GiB (__sk_buff.data is 32 bit) + guard page */
	ks_low_size = ((KS_PKT_MAX + KS_HEADROOM + pg - 1) / pg) * pg;
	uint8_t *p = mmap(NULL, ks_low_size + pg, PROT_READ | PROT_WRITE, MAP_PRIVATE | MAP_ANONYMOUS | MAP_32BIT, -1, 0);
	if (p == MAP_FAILED || (uintptr_t)p + ks_low_size + pg > 0xffffffffULL) {
		perror("kernsim: mmap low window");
		return 3;
	}
	if (mprotect(p + ks_low_size, pg, PROT_NONE)) {
		perror("kernsim: mprotect guard");
		return 3;
	}
	ks_low = p;
	ks_register_all();

	for (;;) {
		uint32_t n;
		int r = read_full(0, &n, 4);
		if (r == 0)
			return 0;
		if (r < 0 || n == 0 || n > (64u << 20))
			return 4;
		if (n > rq_cap) {
			rq_cap = n * 2;
			rq = realloc(rq, rq_cap);
		}
		if (read_full(0, rq, n) != 1)
			return 4;
		rq_len = n;
		rq_pos = 0;
		rs_len = 0;
		handle();
		uint32_t out = (uint32_t)rs_len;
		write_full(1, &out, 4);
		write_full(1, rs, rs_len);
	}
}
