/*
 * SPDX-License-Identifier: AGPL-3.0-only
 * Copyright (c) 2022-2026, daeuniverse Organization <dae@v2raya.org>
 */

package control

import (
	"bytes"
	"encoding/binary"
	"encoding/hex"
	stderrors "errors"
	"fmt"
	"net/netip"
	"os"
	"syscall"
	"unsafe"

	"github.com/cilium/ebpf"
	"github.com/daeuniverse/dae/common"
	"github.com/daeuniverse/dae/common/consts"
	"golang.org/x/sys/unix"
)

func (c *ControlPlane) Route(src, dst netip.AddrPort, domain string, l4proto consts.L4ProtoType, routingResult *bpfRoutingResult) (outboundIndex consts.OutboundIndex, mark uint32, must bool, err error) {
	var ipVersion consts.IpVersionType
	if dst.Addr().Is4() || dst.Addr().Is4In6() {
		ipVersion = consts.IpVersion_4
	} else {
		ipVersion = consts.IpVersion_6
	}
	var mac16 [16]uint8
	copy(mac16[10:], routingResult.Mac[:])
	bSrc := src.Addr().As16()
	bDst := dst.Addr().As16()
	outboundIndex, mark, must, err = c.routingMatcher.Match(
		bSrc,
		bDst,
		src.Port(),
		dst.Port(),
		ipVersion,
		l4proto,
		domain,
		routingResult.Pname,
		routingResult.Dscp,
		mac16,
	)
	return
}

func bpfTuplesKeyFromAddrPorts(src, dst netip.AddrPort, l4proto uint8) bpfTuplesKey {
	src = common.ConvergeAddrPort(src)
	dst = common.ConvergeAddrPort(dst)

	var key bpfTuplesKey
	key.Sip.U6Addr8 = src.Addr().As16()
	key.Dip.U6Addr8 = dst.Addr().As16()
	key.Sport = common.Htons(src.Port())
	key.Dport = common.Htons(dst.Port())
	key.L4proto = l4proto
	return key
}

func (c *controlPlaneCore) RetrieveRoutingResult(src, dst netip.AddrPort, l4proto uint8) (result *bpfRoutingResult, err error) {
	tuples := bpfTuplesKeyFromAddrPorts(src, dst, l4proto)

	if c == nil || c.bpf.Load() == nil {
		return nil, ebpf.ErrKeyNotExist
	}

	routingResult, err := c.retrieveEmbeddedRoutingResult(&tuples, l4proto)
	if err == nil {
		return routingResult, nil
	}
	if !stderrors.Is(err, ebpf.ErrKeyNotExist) {
		return nil, err
	}
	return c.retrieveRoutingHandoffResult(&tuples)
}

func (c *controlPlaneCore) retrieveEmbeddedRoutingResult(tuples *bpfTuplesKey, l4proto uint8) (*bpfRoutingResult, error) {
	bpf := c.bpf.Load()
	var routingResult bpfRoutingResult

	switch l4proto {
	case unix.IPPROTO_TCP:
		if bpf.ConnStateMap == nil {
			return nil, ebpf.ErrKeyNotExist
		}
		var connState bpfConnState
		if err := bpf.ConnStateMap.Lookup(tuples, &connState); err != nil {
			if stderrors.Is(err, ebpf.ErrKeyNotExist) {
				return nil, ebpf.ErrKeyNotExist
			}
			return nil, fmt.Errorf("reading conn_state_map: %w", err)
		}
		if connState.Meta.Data.HasRouting == 0 {
			return nil, ebpf.ErrKeyNotExist
		}
		routingResult = routingResultFromConnState(
			connState.Meta.Data.Mark,
			connState.Meta.Data.Must,
			connState.Meta.Data.Outbound,
			connState.Mac,
			connState.Meta.Data.Dscp,
			connState.Pname,
			connState.Pid,
		)
	case unix.IPPROTO_UDP:
		if bpf.ConnStateMap == nil {
			return nil, ebpf.ErrKeyNotExist
		}
		var connState bpfConnState
		if err := bpf.ConnStateMap.Lookup(tuples, &connState); err != nil {
			if stderrors.Is(err, ebpf.ErrKeyNotExist) {
				return nil, ebpf.ErrKeyNotExist
			}
			return nil, fmt.Errorf("reading conn_state_map: %w", err)
		}
		if connState.Meta.Data.HasRouting == 0 {
			return nil, ebpf.ErrKeyNotExist
		}
		routingResult = routingResultFromConnState(
			connState.Meta.Data.Mark,
			connState.Meta.Data.Must,
			connState.Meta.Data.Outbound,
			connState.Mac,
			connState.Meta.Data.Dscp,
			connState.Pname,
			connState.Pid,
		)
	default:
		return nil, ebpf.ErrKeyNotExist
	}

	return &routingResult, nil
}

func routingResultFromConnState(mark uint32, must uint8, outbound uint8, mac [6]uint8, dscp uint8, pname [16]uint8, pid uint32) bpfRoutingResult {
	var routingResult bpfRoutingResult
	routingResult.Mark = mark
	routingResult.Must = must
	routingResult.Outbound = outbound
	routingResult.Mac = mac
	routingResult.Dscp = dscp
	routingResult.Pname = pname
	routingResult.Pid = pid
	return routingResult
}

func (c *controlPlaneCore) retrieveRoutingHandoffResult(tuples *bpfTuplesKey) (*bpfRoutingResult, error) {
	if c == nil {
		return nil, ebpf.ErrKeyNotExist
	}
	bpf := c.bpf.Load()
	if bpf == nil || bpf.RoutingHandoffMap == nil {
		return nil, ebpf.ErrKeyNotExist
	}

	var entry bpfRoutingHandoffEntry
	if err := bpf.RoutingHandoffMap.Lookup(tuples, &entry); err != nil {
		if stderrors.Is(err, ebpf.ErrKeyNotExist) {
			return nil, ebpf.ErrKeyNotExist
		}
		return nil, fmt.Errorf("reading routing_handoff_map: %w", err)
	}

	now, err := monotonicNowNano()
	if err != nil {
		return nil, fmt.Errorf("reading monotonic clock for routing handoff: %w", err)
	}
	if routingHandoffExpired(now, entry.LastSeenNs) {
		if deleteErr := bpf.RoutingHandoffMap.Delete(tuples); deleteErr != nil &&
			!stderrors.Is(deleteErr, ebpf.ErrKeyNotExist) {
			return nil, fmt.Errorf("deleting expired routing_handoff_map entry: %w", deleteErr)
		}
		return nil, ebpf.ErrKeyNotExist
	}

	routingResult := routingResultFromConnState(
		entry.Result.Mark,
		entry.Result.Must,
		entry.Result.Outbound,
		entry.Result.Mac,
		entry.Result.Dscp,
		entry.Result.Pname,
		entry.Result.Pid,
	)
	return &routingResult, nil
}

func routingHandoffExpired(nowNano, lastSeenNs uint64) bool {
	if lastSeenNs == 0 {
		return true
	}
	timeoutNano := uint64(routingHandoffTimeout.Nanoseconds())
	if nowNano <= lastSeenNs {
		return false
	}
	return nowNano-lastSeenNs > timeoutNano
}

func monotonicNowNanoReal() (uint64, error) {
	var ts unix.Timespec
	if err := unix.ClockGettime(unix.CLOCK_MONOTONIC, &ts); err != nil {
		return 0, err
	}
	return uint64(ts.Nano()), nil
}

func RetrieveOriginalDest(oob []byte) netip.AddrPort {
	ptrSize := int(unsafe.Sizeof(uintptr(0)))
	hdrLen := ptrSize + 8 // sizeof(size_t) + sizeof(int) + sizeof(int)
	if len(oob) < hdrLen {
		return netip.AddrPort{}
	}

	for len(oob) >= hdrLen {
		cmsgLen, ok := parseNativeUintptr(oob[:ptrSize])
		if !ok || cmsgLen < hdrLen || cmsgLen > len(oob) {
			return netip.AddrPort{}
		}

		level := int(int32(binary.NativeEndian.Uint32(oob[ptrSize : ptrSize+4])))
		typ := int(int32(binary.NativeEndian.Uint32(oob[ptrSize+4 : ptrSize+8])))
		data := oob[hdrLen:cmsgLen]

		switch {
		case level == syscall.SOL_IP && typ == syscall.IP_RECVORIGDSTADDR:
			if len(data) >= unix.SizeofSockaddrInet4 {
				port := binary.BigEndian.Uint16(data[2:4])
				var ip [4]byte
				copy(ip[:], data[4:8])
				return netip.AddrPortFrom(netip.AddrFrom4(ip), port)
			}
		case level == syscall.SOL_IPV6 && typ == unix.IPV6_RECVORIGDSTADDR:
			if len(data) >= unix.SizeofSockaddrInet6 {
				port := binary.BigEndian.Uint16(data[2:4])
				var ip [16]byte
				copy(ip[:], data[8:24])
				return netip.AddrPortFrom(netip.AddrFrom16(ip), port)
			}
		}

		next := cmsgAlign(cmsgLen, ptrSize)
		if next <= 0 || next > len(oob) {
			break
		}
		oob = oob[next:]
	}

	return netip.AddrPort{}
}

func parseNativeUintptr(b []byte) (int, bool) {
	switch len(b) {
	case 8:
		v := binary.NativeEndian.Uint64(b)
		if v > uint64(^uint(0)>>1) {
			return 0, false
		}
		return int(v), true
	case 4:
		v := binary.NativeEndian.Uint32(b)
		if uint64(v) > uint64(^uint(0)>>1) {
			return 0, false
		}
		return int(v), true
	default:
		return 0, false
	}
}

func cmsgAlign(length int, ptrSize int) int {
	if length <= 0 {
		return 0
	}
	return (length + ptrSize - 1) & ^(ptrSize - 1)
}

func checkIpforward(ifname string, ipversion consts.IpVersionStr) error {
	path := fmt.Sprintf("/proc/sys/net/ipv%v/conf/%v/forwarding", ipversion, ifname)
	b, err := os.ReadFile(path)
	if err != nil {
		return err
	}
	if bytes.Equal(bytes.TrimSpace(b), []byte("1")) {
		return nil
	}
	return fmt.Errorf("ipforward on %v is off: %v; see docs of dae for help", ifname, path)
}

func CheckIpforward(ifname string) error {
	if err := checkIpforward(ifname, consts.IpVersionStr_4); err != nil {
		return err
	}
	if err := checkIpforward(ifname, consts.IpVersionStr_6); err != nil {
		return err
	}
	return nil
}

func setForwarding(ifname string, ipversion consts.IpVersionStr, val string) error {
	path := fmt.Sprintf("/proc/sys/net/ipv%v/conf/%v/forwarding", ipversion, ifname)
	return os.WriteFile(path, []byte(val), 0644)
}

func SetIpv4forward(val string) error {
	return os.WriteFile("/proc/sys/net/ipv4/ip_forward", []byte(val), 0644)
}

func SetForwarding(ifname string, val string) {
	_ = setForwarding(ifname, consts.IpVersionStr_4, val)
	_ = setForwarding(ifname, consts.IpVersionStr_6, val)
}

func checkSendRedirects(ifname string, ipversion consts.IpVersionStr) error {
	path := fmt.Sprintf("/proc/sys/net/ipv%v/conf/%v/send_redirects", ipversion, ifname)
	b, err := os.ReadFile(path)
	if err != nil {
		return err
	}
	if bytes.Equal(bytes.TrimSpace(b), []byte("0")) {
		return nil
	}
	return fmt.Errorf("send_directs on %v is on: %v; see docs of dae for help", ifname, path)
}

func CheckSendRedirects(ifname string) error {
	if err := checkSendRedirects(ifname, consts.IpVersionStr_4); err != nil {
		return err
	}
	return nil
}

func setSendRedirects(ifname string, ipversion consts.IpVersionStr, val string) error {
	path := fmt.Sprintf("/proc/sys/net/ipv%v/conf/%v/send_redirects", ipversion, ifname)
	return os.WriteFile(path, []byte(val), 0644)
}

func SetSendRedirects(ifname string, val string) {
	_ = setSendRedirects(ifname, consts.IpVersionStr_4, val)
}

func ProcessName2String(pname []uint8) string {
	return string(bytes.TrimRight(pname, string([]byte{0})))
}

func Mac2String(mac []uint8) string {
	ori := []byte(hex.EncodeToString(mac))
	// Insert ":".
	b := make([]byte, len(ori)/2*3-1)
	for i, j := 0, 0; i < len(ori); i, j = i+2, j+3 {
		copy(b[j:j+2], ori[i:i+2])
		if j+2 < len(b) {
			b[j+2] = ':'
		}
	}
	return string(b)
}


// --- added by /verif/engines_kernsim.py in this overlay copy only ---
var verifMonotonicNow func() (uint64, error)

func monotonicNowNano() (uint64, error) {
	if verifMonotonicNow != nil {
		return verifMonotonicNow()
	}
	return monotonicNowNanoReal()
}
