package control

const verifKernsimBin = "/verif/.work.k/kernpath/kernsim.bin"
