#!/bin/sh
# Build the framework from files on disk only (offline).
set -e
cd "$(dirname "$0")"
export GOFLAGS=-mod=mod GOPROXY=off GOSUMDB=off GOTOOLCHAIN=local
mkdir -p .work/bin evidence replays
(cd tools/yieldgen && go1.26 build -o ../../.work/bin/yieldgen .)
# warm the build cache for the packages the harnesses compile
(cd "${VERIF_REPO:-/repo}" && go1.26 build -tags dae_stub_ebpf ./control/ ./cmd/ ./component/... >/dev/null 2>&1 || true)
echo setup done
