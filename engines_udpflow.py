"""Engine "udpflow" (properties C06, C13, C18 - UDP side): the real ControlPlane.handlePkt of
control/udp.go - the per-datagram entry of the transparent UDP proxy - under the deterministic
scheduler: flow classification (udp_flow.go), per-flow ordered dispatch (udp_task_pool.go), QUIC
sniffing session (packet_sniffer_pool.go + component/sniffing), routing / re-routing by the sniffed
name (dial.go chooseProxyDialer, ChooseDialTarget, real userspace RoutingMatcher), DialerGroup /
dialer.Dialer selection, UdpEndpointPool.GetOrCreate, UdpEndpoint.WriteTo, reply loop and
forwardUdpEndpointReplyToClient. Node dialers, their packet conns, the clock, the kernel's hand-over
record and the client-side reply socket are simulated (harness/control/udpflow_test.go, seam in
harness/control/udpflow_hooks.go.txt).

One test binary serves the three properties; ./check exports VERIF_PROP, the harness then evaluates
only that property's oracles (the mode is stored in the first tape entry so replays do not need the
environment). Rule names: c06-udp-*, c13-udp-*, c18-udp-* and task-panic."""

ENGINES = {
    "udpflow": {
        "pkg": "control",
        "tags": "dae_stub_ebpf",
        "test": "TestSimUdpFlow",
        "extra_files": {
            "control/zz_verif_hooks.go": "harness/control/hooks.go.txt",
            "control/zz_verif_udpflow_hooks.go": "harness/control/udpflow_hooks.go.txt",
        },
        "instrument": [
            {"pkg": "component/outbound/dialer", "files": ["dialer.go"],
             "replace": ["CachedTimeNano=return time.Now().UnixNano()"]},
            {"pkg": "control",
             "files": ["udp.go", "udp_endpoint_pool.go", "udp_task_pool.go", "packet_sniffer_pool.go",
                       "udp_conn_state_tracker.go", "control_plane_drain.go", "bpf_stub.go"],
             # the three periodic sweeps (64 shards each, every 250 ms / 2 s of simulated time) run as one atomic
             # segment per tick: with a scheduling point per shard lock a 130 s gap between datagrams costs
             # ~100 000 steps. What they close (UdpEndpoint.Close, PacketSniffer.Close) is scheduled normally.
             "noyield": ["UdpEndpointPool.startJanitor", "PacketSnifferPool.startJanitor", "failedQuicDcidCache.CleanupExpired"],
             "replace": ["BpfMapBatchDelete=return verifBpfBatchDelete(m, keys)",
                         "BpfMapBatchUpdate=return verifBpfBatchUpdate(m, keys, values, opts)",
                         # seam: the client-side reply socket (Anyfrom: transparent bind inside dae's netns)
                         "sendPktWithResponseConnSlot^=if handled, herr := verifUdpSendPkt(data, from, realTo); handled { return herr }"]},
        ],
        "harness": ["harness/control/udpflow_test.go"],
        "keepgoing": False,
        "quick_secs": 40, "thorough_secs": 500,
        "probes": ["udpflow.name-sniffed", "udpflow.multi-datagram-hello", "udpflow.rerouted-to-direct",
                   "udpflow.nat-expiry-between-datagrams", "udpflow.invalidation-between-datagrams",
                   "udpflow.reply-delivered"],
    },
}

# The loader in engines.py merges "engines" into an existing PROPS entry and keeps that entry's
# rule_prefixes: C06 ("c06-") and C18 ("c18-") already cover this engine's rule names; C13 has no
# prefix filter (all rules of its engines count) and the harness evaluates only the c13-udp-* oracles
# when VERIF_PROP=C13.
PROPS = {
    "C06": {"engines": ["udpflow"], "rule_prefixes": ["c06-", "task-panic"]},
    "C13": {"engines": ["udpflow"]},
    "C18": {"engines": ["udpflow"], "rule_prefixes": ["c18-", "task-panic"]},
}
