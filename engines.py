"""Engine and property registry for ./check."""

ENGINES = {
    "taskpool": {
        "pkg": "control",
        "tags": "dae_stub_ebpf",
        "test": "TestSimC13a",
        "instrument": [{"pkg": "control", "files": ["udp_task_pool.go"]}],
        "harness": ["harness/control/taskpool_test.go"],
        "quick_secs": 30, "thorough_secs": 400,
        "probes": ["taskpool.overflow-burst"],
    },
}

PROPS = {
    "C13": {"engines": ["taskpool"]},
}
