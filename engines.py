"""Engine and property registry for ./check."""

ENGINES = {
    "taskpool": {
        "pkg": "control",
        "tags": "dae_stub_ebpf",
        "test": "TestSimC13a",
        "instrument": [{"pkg": "control", "files": ["udp_task_pool.go"]}],
        "harness": ["harness/control/taskpool_test.go"],
        "quick_secs": 30, "thorough_secs": 400,
        "probes": ["taskpool.overflow-burst"],
    },
}

PROPS = {
    "C13": {"engines": ["taskpool"]},
}

# engines contributed by separately developed simulators
import importlib, os, sys
for _m in ("engines_kernsim", "engines_reload"):
    if os.path.exists(os.path.join(os.path.dirname(os.path.abspath(__file__)), _m + ".py")):
        _mod = importlib.import_module(_m)
        ENGINES.update(getattr(_mod, "ENGINES", {}))
        for _k, _v in getattr(_mod, "PROPS", {}).items():
            PROPS.setdefault(_k, {"engines": []})["engines"] += _v["engines"]
