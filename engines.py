"""Engine and property registry for ./check."""

ENGINES = {
    "taskpool": {
        "pkg": "control",
        "tags": "dae_stub_ebpf",
        "test": "TestSimC13a",
        "instrument": [{"pkg": "control", "files": ["udp_task_pool.go"]}],
        "harness": ["harness/control/taskpool_test.go"],
        "quick_secs": 30, "thorough_secs": 400,
        "probes": ["taskpool.overflow-burst", "taskpool.backlog-beyond-channel", "taskpool.emit-during-overflow-drain"],
    },
}

ENGINES["endpoint"] = {
    "pkg": "control",
    "tags": "dae_stub_ebpf",
    "test": "TestSimC13b",
    "extra_files": {"control/zz_verif_hooks.go": "harness/control/hooks.go.txt"},
    "instrument": [{"pkg": "control",
                    "files": ["udp_endpoint_pool.go", "udp_conn_state_tracker.go", "control_plane_drain.go", "bpf_stub.go"],
                    "replace": ["BpfMapBatchDelete=return verifBpfBatchDelete(m, keys)",
                                "BpfMapBatchUpdate=return verifBpfBatchUpdate(m, keys, values, opts)"]}],
    "harness": ["harness/control/endpoint_test.go"],
    "quick_secs": 40, "thorough_secs": 500,
    "probes": ["endpoint.generation-handover", "endpoint.reused", "endpoint.recreated-after-retire", "endpoint.negative-cache-hit",
               "endpoint.closed-by-nat-expiry", "endpoint.retired-by-invalidation", "tuple.deleted", "tuple.deleted-after-shared-ownership"],
}

ENGINES["health"] = {
    "pkg": "control",
    "tags": "dae_stub_ebpf",
    "test": "TestSimC16",
    "extra_files": {"component/outbound/dialer/zz_verif_access.go": "harness/dialer/access.go.txt"},
    "instrument": [
        {"pkg": "component/outbound/dialer",
         "files": ["connectivity_check.go", "dialer.go", "alive_dialer_set.go", "recovery_state.go", "sticky_cache.go"],
         "replace": ["CachedTimeNano=return time.Now().UnixNano()"]},
        {"pkg": "component/outbound", "files": ["dialer_group.go"]},
        {"pkg": "control", "files": ["connectivity.go"]},
    ],
    "harness": ["harness/control/health_test.go", "harness/control/health_shared_test.go"],
    "quick_secs": 40, "thorough_secs": 500,
    "probes": ["health.real-connectivity-map", "health.suppression-window", "health.policy-switch", "health.reload-handover"],
}

ENGINES["relay"] = {
    "pkg": "control",
    "tags": "dae_stub_ebpf",
    "test": "TestSimC05",
    "instrument": [
        {"pkg": "component/sniffing", "files": ["sniffer.go", "conn_sniffer.go"]},
        {"pkg": "control", "files": ["tcp.go", "tcp_relay_core.go", "tcp_copy_engine.go", "tcp_copy_gather_linux.go", "tcp_sniff_policy.go"],
         # seam: simulated streams answer the TIOCINQ question of the gather write (harness/control/relay_hooks.go.txt)
         "replace": ["relayGatherWriteTCPConn^=if tc, ok := verifSimTCPConn(conn); ok { return tc, true }",
                     "tcpConnHasPendingReadData^=if p, ok := verifSimPending(conn); ok { return p, nil }",
                     "relayGatherWriteTo^=defer verifNoTCPScope()()"]},
        # seam: the kernel's per-flow hand-over record (conn_state / routing_handoff lookup) is scripted by the harness
        {"pkg": "control", "files": ["utils.go"],
         "replace": ["controlPlaneCore.RetrieveRoutingResult^=if verifRelayRouting != nil { return verifRelayRouting(src, dst, l4proto) }"]},
    ],
    "extra_files": {"control/zz_verif_relay_hooks.go": "harness/control/relay_hooks.go.txt"},
    "harness": ["harness/control/relay_test.go", "harness/control/health_shared_test.go"],
    "quick_secs": 40, "thorough_secs": 500,
    "probes": ["relay.name-sniffed", "relay.idle-gap-survived", "relay.port53", "relay.server-first", "relay.data-after-client-halfclose", "relay.tioc-inq-asked", "relay.early-read-with-prefix", "relay.payloadless-client-fin", "relay.rerouted-to-direct"],
}

ENGINES["quicsniff"] = {
    "pkg": "component/sniffing",
    "tags": "",
    "test": "TestSimC06Quic",
    "harness": ["harness/sniffing/quic_test.go"],
    "keepgoing": False,
    "quick_secs": 20, "thorough_secs": 300,
    "probes": ["quic.name-found", "quic.name-found-v2", "quic.no-sni-hello", "quic.coalesced-initials"],
}

ENGINES["streamsniff"] = {
    "pkg": "component/sniffing",
    "tags": "",
    "test": "TestSimC06Stream",
    "instrument": [{"pkg": "component/sniffing", "files": ["sniffer.go", "conn_sniffer.go"]}],
    "harness": ["harness/sniffing/stream_test.go"],
    "quick_secs": 20, "thorough_secs": 300,
    "probes": ["stream.name-found", "stream.first-read-is-the-record-header"],
}

PROPS = {
    "C05": {"engines": ["relay"], "rule_prefixes": ["c05-", "task-panic"]},
    "C06": {"engines": ["relay", "quicsniff", "streamsniff"], "rule_prefixes": ["c06-", "c05-corrupt", "c05-healthy-cut", "c05-lost", "c05-detection-delay", "task-panic"]},
    "C13": {"engines": ["taskpool", "endpoint"]},
    "C16": {"engines": ["health"], "rule_exclude_prefixes": ["select-"]},
    "C15": {"engines": ["health"], "rule_prefixes": ["select-", "alive-set-index", "task-panic"]},
}

# engines contributed by separately developed simulators
import importlib, os, sys
for _m in ("engines_kernsim", "engines_reload", "engines_dns", "engines_udpflow") + tuple(x for x in os.environ.get("VERIF_EXTRA_ENGINES", "").split(",") if x):
    if os.path.exists(os.path.join(os.path.dirname(os.path.abspath(__file__)), _m + ".py")):
        _mod = importlib.import_module(_m)
        ENGINES.update(getattr(_mod, "ENGINES", {}))
        for _k, _v in getattr(_mod, "PROPS", {}).items():
            _e = PROPS.setdefault(_k, dict(_v, engines=[]))
            _e["engines"] = _e["engines"] + [x for x in _v["engines"] if x not in _e["engines"]]
