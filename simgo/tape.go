// Package verifsim is the deterministic simulation runtime. It is compiled into
// the dae module through a `go test -overlay` mapping
// (/repo/internal/verifsim -> /verif/simgo); nothing of it lives in /repo.
package verifsim

// Tape is the single source of nondeterminism of one simulated run. In search
// mode values come from a splitmix64 stream seeded by (VERIF_SEED, run index) and
// are recorded; in replay mode recorded values are fed back (value mod n), and
// once the recording is exhausted every choice is 0 ("first / simplest option").
type Tape struct {
	Seed   uint64
	Run    uint64
	state  uint64
	replay []uint32
	isRep  bool
	pos    int
	Rec    []uint32
	// Bounds: search mode stops drawing random values after Limit choices and
	// returns 0 from then on (keeps runs bounded without a second stop rule).
	Limit int
}

func splitmix(x *uint64) uint64 {
	*x += 0x9e3779b97f4a7c15
	z := *x
	z = (z ^ (z >> 30)) * 0xbf58476d1ce4e5b9
	z = (z ^ (z >> 27)) * 0x94d049bb133111eb
	return z ^ (z >> 31)
}

func NewTape(seed, run uint64) *Tape {
	st := seed*0x9e3779b97f4a7c15 ^ (run+1)*0xd1342543de82ef95
	t := &Tape{Seed: seed, Run: run, state: st, Limit: 1 << 20}
	splitmix(&t.state)
	return t
}

func ReplayTape(seed, run uint64, vals []uint32) *Tape {
	return &Tape{Seed: seed, Run: run, replay: vals, isRep: true, Limit: 1 << 20}
}

func (t *Tape) Replaying() bool { return t.isRep }

// Choose returns a value in [0,n). n<=1 draws nothing.
func (t *Tape) Choose(n int) int {
	if n <= 1 {
		return 0
	}
	var v uint32
	if t.isRep {
		if t.pos < len(t.replay) {
			v = t.replay[t.pos] % uint32(n)
		}
		t.pos++
	} else {
		if len(t.Rec) < t.Limit {
			v = uint32(splitmix(&t.state)>>33) % uint32(n)
		}
	}
	t.Rec = append(t.Rec, v)
	return int(v)
}

// Chance is true with probability num/den; value 0 on the tape means false, so a
// zeroed tape takes no "unusual" branches.
func (t *Tape) Chance(num, den int) bool {
	if num <= 0 {
		return false
	}
	return t.Choose(den) >= den-num
}

// Range returns a value in [lo,hi].
func (t *Tape) Range(lo, hi int) int {
	if hi <= lo {
		return lo
	}
	return lo + t.Choose(hi-lo+1)
}

// Pick returns an index weighted by w (integers); index 0 for a zero tape when w[0]>0.
func (t *Tape) Pick(w ...int) int {
	tot := 0
	for _, x := range w {
		tot += x
	}
	if tot <= 0 {
		return 0
	}
	v := t.Choose(tot)
	for i, x := range w {
		if v < x {
			return i
		}
		v -= x
	}
	return len(w) - 1
}

func (t *Tape) Bytes(n int) []byte {
	b := make([]byte, n)
	for i := range b {
		b[i] = byte(t.Choose(256))
	}
	return b
}

func (t *Tape) Len() int { return len(t.Rec) }
