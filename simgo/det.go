package verifsim

import (
	"fmt"
	"reflect"
	"sort"
	"sync"
)

// Map is a drop-in replacement for sync.Map with deterministic Range order
// (insertion order). The instrumenter substitutes it for sync.Map in the overlay
// copies, because sync.Map's iteration order depends on a per-process hash seed.
type Map struct {
	mu    sync.Mutex
	m     map[any]*mapEnt
	order []*mapEnt
	dead  int
}

type mapEnt struct {
	k, v    any
	deleted bool
}

func (m *Map) init() {
	if m.m == nil {
		m.m = map[any]*mapEnt{}
	}
}

func (m *Map) Load(key any) (value any, ok bool) {
	m.mu.Lock()
	defer m.mu.Unlock()
	if e := m.m[key]; e != nil {
		return e.v, true
	}
	return nil, false
}

func (m *Map) Store(key, value any) {
	m.mu.Lock()
	defer m.mu.Unlock()
	m.store(key, value)
}

func (m *Map) store(key, value any) {
	m.init()
	if e := m.m[key]; e != nil {
		e.v = value
		return
	}
	e := &mapEnt{k: key, v: value}
	m.m[key] = e
	m.order = append(m.order, e)
}

func (m *Map) del(key any) {
	if e := m.m[key]; e != nil {
		e.deleted = true
		delete(m.m, key)
		m.dead++
		if m.dead > 32 && m.dead > len(m.order)/2 {
			k := m.order[:0]
			for _, x := range m.order {
				if !x.deleted {
					k = append(k, x)
				}
			}
			for i := len(k); i < len(m.order); i++ {
				m.order[i] = nil
			}
			m.order = k
			m.dead = 0
		}
	}
}

func (m *Map) LoadOrStore(key, value any) (actual any, loaded bool) {
	m.mu.Lock()
	defer m.mu.Unlock()
	if e := m.m[key]; e != nil {
		return e.v, true
	}
	m.store(key, value)
	return value, false
}

func (m *Map) LoadAndDelete(key any) (value any, loaded bool) {
	m.mu.Lock()
	defer m.mu.Unlock()
	if e := m.m[key]; e != nil {
		v := e.v
		m.del(key)
		return v, true
	}
	return nil, false
}

func (m *Map) Delete(key any) { m.LoadAndDelete(key) }

func (m *Map) Swap(key, value any) (previous any, loaded bool) {
	m.mu.Lock()
	defer m.mu.Unlock()
	if e := m.m[key]; e != nil {
		p := e.v
		e.v = value
		return p, true
	}
	m.store(key, value)
	return nil, false
}

func (m *Map) CompareAndSwap(key, old, new any) bool {
	m.mu.Lock()
	defer m.mu.Unlock()
	if e := m.m[key]; e != nil && e.v == old {
		e.v = new
		return true
	}
	return false
}

func (m *Map) CompareAndDelete(key, old any) bool {
	m.mu.Lock()
	defer m.mu.Unlock()
	if e := m.m[key]; e != nil && e.v == old {
		m.del(key)
		return true
	}
	return false
}

func (m *Map) Range(f func(key, value any) bool) {
	m.mu.Lock()
	snap := make([]*mapEnt, 0, len(m.order))
	for _, e := range m.order {
		if !e.deleted {
			snap = append(snap, e)
		}
	}
	m.mu.Unlock()
	for _, e := range snap {
		m.mu.Lock()
		del := e.deleted
		v := e.v
		m.mu.Unlock()
		if del {
			continue
		}
		if !f(e.k, v) {
			return
		}
	}
}

func (m *Map) Clear() {
	m.mu.Lock()
	defer m.mu.Unlock()
	for _, e := range m.order {
		e.deleted = true
	}
	m.m = nil
	m.order = nil
	m.dead = 0
}

// Pool replaces sync.Pool with a deterministic LIFO. (sync.Pool's per-P caches
// and GC clearing make object reuse depend on the OS scheduler.)
type Pool struct {
	mu    sync.Mutex
	items []any
	New   func() any
}

func (p *Pool) Get() any {
	p.mu.Lock()
	if n := len(p.items); n > 0 {
		x := p.items[n-1]
		p.items[n-1] = nil
		p.items = p.items[:n-1]
		p.mu.Unlock()
		return x
	}
	p.mu.Unlock()
	if p.New != nil {
		return p.New()
	}
	return nil
}

func (p *Pool) Put(x any) {
	if x == nil {
		return
	}
	p.mu.Lock()
	if len(p.items) < 1024 {
		p.items = append(p.items, x)
	}
	p.mu.Unlock()
}

// ---------------------------------------------------------------------------
// select support: the instrumenter rewrites every select so that the choice
// among several ready cases comes from the tape, not from the Go runtime.

// ChanZero returns the zero value of a channel's element type (lets generated
// code declare receive temporaries without naming types).
func ChanZero[T any](c <-chan T) (z T) { return }
func ChanZeroB[T any](c chan T) (z T)  { return }

// SelectOrder returns the order in which the n cases are polled.
func SelectOrder(site string, n int) []int {
	o := make([]int, n)
	for i := range o {
		o[i] = i
	}
	s := curSim.Load()
	if s == nil || n < 2 || s.draining.Load() {
		// (wind-down: source order, no tape draw)
		return o
	}
	g := goid()
	if g == s.root {
		return o
	}
	if s.taskOf(g) == nil {
		// not a task of this simulation (e.g. a package-init goroutine outside the
		// bubble): must never touch the tape
		return o
	}
	// one draw: rotation + optional reversal keeps the tape short
	c := s.T.Choose(2 * n)
	rot := c % n
	rev := c >= n
	for i := range o {
		j := (i + rot) % n
		if rev {
			j = (n - 1 - i + rot) % n
		}
		o[i] = j
	}
	return o
}

// ---------------------------------------------------------------------------
// deterministic map iteration

var serialMu sync.Mutex
var serials = map[any]uint64{}
var serialNext uint64

// Reg gives a pointer-like value a creation serial number, used to order
// pointer-keyed maps deterministically. Returns its argument.
func Reg[T comparable](p T) T {
	if curSim.Load() == nil {
		return p
	}
	serialMu.Lock()
	if _, ok := serials[p]; !ok {
		serialNext++
		serials[p] = serialNext
	}
	serialMu.Unlock()
	return p
}

func ResetSerials() {
	serialMu.Lock()
	serials = map[any]uint64{}
	serialNext = 0
	serialMu.Unlock()
}

func serialOf(x any) (uint64, bool) {
	serialMu.Lock()
	v, ok := serials[x]
	serialMu.Unlock()
	return v, ok
}

func keyString(v reflect.Value) string { return keyStringD(v, 0) }

func keyStringD(v reflect.Value, depth int) string {
	switch v.Kind() {
	case reflect.Pointer, reflect.Chan, reflect.UnsafePointer:
		if v.IsNil() {
			return "p:nil"
		}
		if v.CanInterface() {
			if n, ok := serialOf(v.Interface()); ok {
				return fmt.Sprintf("p:%016x", n)
			}
		}
		if s := curSim.Load(); s != nil && depth == 0 {
			s.anomaly("unregistered-pointer-map-key")
		}
		if v.Kind() == reflect.Pointer && depth < 4 {
			// unregistered: order by pointee content (best effort)
			return "c:" + keyStringD(v.Elem(), depth+1)
		}
		return "u"
	case reflect.Interface:
		if v.IsNil() {
			return "i:nil"
		}
		return "i:" + v.Elem().Type().String() + ":" + keyStringD(v.Elem(), depth+1)
	case reflect.Struct:
		s := "{"
		for i := 0; i < v.NumField(); i++ {
			s += keyStringD(v.Field(i), depth) + ","
		}
		return s + "}"
	case reflect.Array:
		s := "["
		for i := 0; i < v.Len(); i++ {
			s += keyStringD(v.Index(i), depth) + ","
		}
		return s + "]"
	case reflect.Int, reflect.Int8, reflect.Int16, reflect.Int32, reflect.Int64:
		return fmt.Sprintf("n:%020d", uint64(v.Int())+1<<63)
	case reflect.Uint, reflect.Uint8, reflect.Uint16, reflect.Uint32, reflect.Uint64, reflect.Uintptr:
		return fmt.Sprintf("n:%020d", v.Uint())
	case reflect.String:
		return "s:" + v.String()
	case reflect.Bool:
		if v.Bool() {
			return "b1"
		}
		return "b0"
	default:
		return fmt.Sprintf("%v", v)
	}
}

// SortedKeys returns the keys of m in a process-independent order.
func SortedKeys[K comparable, V any](m map[K]V) []K {
	keys := make([]K, 0, len(m))
	for k := range m {
		keys = append(keys, k)
	}
	if len(keys) < 2 {
		return keys
	}
	strs := make(map[K]string, len(keys))
	for _, k := range keys {
		strs[k] = keyString(reflect.ValueOf(&k).Elem())
	}
	sort.Slice(keys, func(i, j int) bool { return strs[keys[i]] < strs[keys[j]] })
	return keys
}

// RandIntn / RandInt63n replace calls to unseeded global RNGs in instrumented
// files: inside a simulation task the value comes from the tape.
func RandIntn(n int) int {
	if n <= 1 {
		return 0
	}
	s := curSim.Load()
	if s != nil && !s.draining.Load() {
		g := goid()
		if g != s.root && s.taskOf(g) != nil {
			return s.T.Choose(n)
		}
	}
	return int(fallbackRand() % uint64(n))
}

func RandInt63n(n int64) int64 {
	if n <= 1 {
		return 0
	}
	s := curSim.Load()
	if s != nil && !s.draining.Load() {
		g := goid()
		if g != s.root && s.taskOf(g) != nil {
			// coarse: 16 buckets over the range keeps the tape small
			b := int64(s.T.Choose(16))
			return b * (n / 16)
		}
	}
	return int64(fallbackRand() % uint64(n))
}

var fbMu sync.Mutex
var fbState uint64 = 0x243f6a8885a308d3

func fallbackRand() uint64 {
	fbMu.Lock()
	defer fbMu.Unlock()
	return splitmix(&fbState)
}
