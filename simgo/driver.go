package verifsim

import (
	"encoding/json"
	"flag"
	"fmt"
	"os"
	"path/filepath"
	"runtime"
	"sort"
	"strings"
	"sync/atomic"
	"testing"
	"testing/synctest"
	"time"
)

var (
	flagSeed    = flag.Uint64("verif.seed", 1, "VERIF_SEED")
	flagRuns    = flag.Int("verif.runs", 100, "max runs for this worker")
	flagFirst   = flag.Int("verif.first", 0, "first run index")
	flagStride  = flag.Int("verif.stride", 1, "run index stride (number of workers)")
	flagSecs    = flag.Float64("verif.secs", 30, "wall budget in seconds")
	flagReplay  = flag.String("verif.replay", "", "replay file")
	flagOut     = flag.String("verif.out", "", "stats output (json)")
	flagRepDir  = flag.String("verif.replaydir", "", "where to write replay files")
	flagDumpSig = flag.String("verif.dumpsig", "", "write one line per run: index, schedule signature, tape hash (determinism self-test)")
	flagNoShrk  = flag.Bool("verif.noshrink", false, "do not minimise")
	flagKeepOn  = flag.Bool("verif.keepgoing", false, "continue after a violation (count them)")
	flagRuleInc = flag.String("verif.ruleprefix", "", "comma separated rule prefixes that belong to the property being checked (empty: all)")
	flagRuleExc = flag.String("verif.ruleexclude", "", "comma separated rule prefixes that belong to another property")
	flagKnown   = flag.String("verif.known", "", "comma separated rule names of listed known findings: reported once per worker without minimisation, exploration continues")
)

// Engine describes one simulated check.
type Engine struct {
	Prop     string
	Name     string
	MaxSteps int
	// Scenario draws its workload from s.T, drives the system, evaluates the
	// oracle and reports through s.Failf. Runs on the bubble's root goroutine.
	Scenario func(s *Sim)
	// Reset is called before every run, outside the bubble (package-level state).
	Reset func()
	// Components lists what ran real code and what ran a stub (goes to evidence).
	Real  []string
	Stubs []string
	Rule  string // how runs are generated / what non-trivial means
	// NoBubble: sequential engine (no goroutine scheduling, no fake clock).
	NoBubble bool
}

type ReplayFile struct {
	Prop   string     `json:"property"`
	Engine string     `json:"engine"`
	Rule   string     `json:"rule"`
	Msg    string     `json:"message"`
	Seed   uint64     `json:"seed"`
	Run    uint64     `json:"run"`
	Tape   []uint32   `json:"tape"`
	Steps  int        `json:"steps"`
	Log    []string   `json:"log"`
	Shrunk ShrinkInfo `json:"minimisation"`
}

type ShrinkInfo struct {
	OrigTapeLen int `json:"orig_tape_len"`
	OrigSteps   int `json:"orig_steps"`
	Execs       int `json:"executions"`
}

type Violation struct {
	Rule   string `json:"rule"`
	Msg    string `json:"message"`
	Replay string `json:"replay"`
	Run    uint64 `json:"run"`
}

type Stats struct {
	Prop        string         `json:"property"`
	Engine      string         `json:"engine"`
	Seed        uint64         `json:"seed"`
	Runs        int            `json:"runs"`
	Nontrivial  int            `json:"nontrivial_runs"`
	Sigs        []string       `json:"sigs"`
	Steps       int64          `json:"steps"`
	SimSeconds  float64        `json:"sim_seconds"`
	WallSeconds float64        `json:"wall_seconds"`
	Faults      map[string]int `json:"faults_fired"`
	Probes      map[string]int `json:"probes"`
	Anomalies   map[string]int `json:"anomalies"`
	Leaked      int            `json:"bubbles_with_leftover_goroutines"`
	Violations  []Violation    `json:"violations"`
	Samples     []any          `json:"samples"`
	Real        []string       `json:"real_components"`
	Stubs       []string       `json:"stub_components"`
	Rule        string         `json:"rule"`
	Replayed    *ReplayOutcome `json:"replayed,omitempty"`
}

type ReplayOutcome struct {
	File       string `json:"file"`
	Rule       string `json:"rule"`
	Reproduced bool   `json:"reproduced"`
	GotRule    string `json:"got_rule"`
	GotMsg     string `json:"got_message"`
}

func fmtLog(l []LogEntry, max int) []string {
	var out []string
	if len(l) > max {
		out = append(out, fmt.Sprintf("... %d earlier entries omitted ...", len(l)-max))
		l = l[len(l)-max:]
	}
	for _, e := range l {
		switch e.Kind {
		case 't':
			out = append(out, fmt.Sprintf("%d t=%v run %s @%s", e.Step, e.Now, e.Who, e.Site))
		case 'e':
			out = append(out, fmt.Sprintf("%d t=%v event %s %s", e.Step, e.Now, e.Who, e.Site))
		case 'z':
			out = append(out, fmt.Sprintf("%d t=%v time+%s", e.Step, e.Now, e.Site))
		default:
			out = append(out, fmt.Sprintf("%d t=%v -- %s", e.Step, e.Now, e.Site))
		}
	}
	return out
}

func startWatchdog(progress *atomic.Int64, what *atomic.Value) {
	go func() {
		last := progress.Load()
		stale := 0
		for {
			time.Sleep(time.Second)
			cur := progress.Load()
			if cur == last {
				stale++
			} else {
				stale = 0
				last = cur
			}
			if stale >= 40 {
				buf := make([]byte, 1<<20)
				buf = buf[:runtime.Stack(buf, true)]
				fmt.Fprintf(os.Stderr, "WATCHDOG: no scheduler progress for 40s (%v)\n%s\n", what.Load(), buf)
				os.Exit(2)
			}
		}
	}()
}

// Main is called from a Test function of the in-package harness.
func Main(t *testing.T, e Engine) {
	if e.MaxSteps == 0 {
		e.MaxSteps = 20000
	}
	var progress atomic.Int64
	var what atomic.Value
	what.Store("init")
	startWatchdog(&progress, &what)
	bubble := func(f func()) { synctest.Test(t, func(*testing.T) { f() }) }
	exec := func(tape *Tape, logOn bool) RunResult {
		if e.Reset != nil {
			e.Reset()
		}
		ResetSerials()
		what.Store(fmt.Sprintf("%s seed=%d run=%d", e.Name, tape.Seed, tape.Run))
		b := bubble
		if e.NoBubble {
			b = nil
		}
		r := RunOne(t, b, tape, e.MaxSteps, logOn, &progress, e.Scenario)
		progress.Add(1)
		return r
	}
	st := &Stats{Prop: e.Prop, Engine: e.Name, Seed: *flagSeed, Faults: map[string]int{}, Probes: map[string]int{},
		Anomalies: map[string]int{}, Real: e.Real, Stubs: e.Stubs, Rule: e.Rule}
	t0 := time.Now()
	defer func() {
		st.WallSeconds = time.Since(t0).Seconds()
		if *flagOut != "" {
			b, _ := json.Marshal(st)
			os.WriteFile(*flagOut, b, 0o644)
		}
	}()

	if *flagReplay != "" {
		b, err := os.ReadFile(*flagReplay)
		if err != nil {
			fmt.Fprintf(os.Stderr, "replay: %v\n", err)
			os.Exit(2)
		}
		var rf ReplayFile
		if err := json.Unmarshal(b, &rf); err != nil {
			fmt.Fprintf(os.Stderr, "replay: %v\n", err)
			os.Exit(2)
		}
		r := exec(ReplayTape(rf.Seed, rf.Run, rf.Tape), true)
		out := &ReplayOutcome{File: *flagReplay, Rule: rf.Rule}
		if r.Fail != nil {
			out.GotRule, out.GotMsg = r.Fail.Rule, r.Fail.Msg
			out.Reproduced = r.Fail.Rule == rf.Rule
		}
		st.Replayed = out
		st.Runs = 1
		fmt.Printf("REPLAY file=%s rule=%s reproduced=%v got=%s\n", *flagReplay, rf.Rule, out.Reproduced, out.GotRule)
		if r.Fail != nil {
			fmt.Printf("  %s\n", r.Fail.Msg)
		}
		if n := os.Getenv("VERIF_LOGHEAD"); n != "" {
			var k int
			fmt.Sscan(n, &k)
			all := fmtLog(r.Log, 1<<30)
			if k < len(all) {
				all = all[:k]
			}
			for _, l := range all {
				fmt.Println("  ", l)
			}
			return
		}
		for _, l := range fmtLog(r.Log, 200) {
			fmt.Println("  ", l)
		}
		return
	}

	known := map[string]bool{}
	for _, k := range strings.Split(*flagKnown, ",") {
		if k != "" {
			known[k] = true
		}
	}
	knownSeen := map[string]bool{}
	sigs := map[uint64]struct{}{}
	var dump *os.File
	if *flagDumpSig != "" {
		dump, _ = os.Create(*flagDumpSig)
		defer dump.Close()
	}
	deadline := t0.Add(time.Duration(*flagSecs * float64(time.Second)))
	for i := 0; i < *flagRuns; i++ {
		if time.Now().After(deadline) {
			break
		}
		idx := uint64(*flagFirst + i**flagStride)
		logOn := len(st.Samples) < 2 || dump != nil
		r := exec(NewTape(*flagSeed, idx), logOn)
		st.Runs++
		st.Steps += int64(r.Steps)
		st.SimSeconds += r.SimTime.Seconds()
		nf := 0
		for k, v := range r.Faults {
			st.Faults[k] += v
			nf += v
		}
		for k, v := range r.Probes {
			st.Probes[k] += v
		}
		for k, v := range r.Anomalies {
			st.Anomalies[k] += v
		}
		if r.Leaked {
			st.Leaked++
		}
		if r.Multi || nf > 0 {
			st.Nontrivial++
			sigs[r.Sig] = struct{}{}
		}
		if dump != nil {
			h := uint64(1469598103934665603)
			for _, v := range r.Tape {
				h ^= uint64(v)
				h *= 1099511628211
			}
			lh := HashString(fmt.Sprint(fmtLog(r.Log, 1<<30)))
			fr := ""
			if r.Fail != nil {
				fr = r.Fail.Rule
			}
			fmt.Fprintf(dump, "%d sig=%016x tape=%016x n=%d log=%016x steps=%d fail=%s\n", idx, r.Sig, h, len(r.Tape), lh, r.Steps, fr)
			if os.Getenv("VERIF_DUMPLOG") != "" {
				for _, l := range fmtLog(r.Log, 1<<30) {
					fmt.Fprintf(dump, "    %s\n", l)
				}
			}
		}
		if len(st.Samples) < 2 && r.Fail == nil && (r.Multi || nf > 0) {
			st.Samples = append(st.Samples, map[string]any{"run": idx, "steps": r.Steps, "sim_time": r.SimTime.String(),
				"faults": r.Faults, "trace_tail": fmtLog(r.Log, 40)})
		}
		if r.Fail != nil {
			if r.Fail.Rule == "harness-panic" {
				fmt.Fprintf(os.Stderr, "HARNESS PANIC run=%d: %s\n", idx, r.Fail.Msg)
				os.Exit(2)
			}
			if !ruleBelongs(r.Fail.Rule) {
				// a rule of another property served by the same engine: not this check's business
				st.Probes["other-property-rule."+r.Fail.Rule]++
				continue
			}
			if known[r.Fail.Rule] {
				st.Probes["known-finding."+r.Fail.Rule]++
				if knownSeen[r.Fail.Rule] {
					continue
				}
				knownSeen[r.Fail.Rule] = true
				save := *flagNoShrk
				*flagNoShrk = true
				v := handleViolation(e, exec, idx, r)
				*flagNoShrk = save
				st.Violations = append(st.Violations, v)
				continue
			}
			v := handleViolation(e, exec, idx, r)
			st.Violations = append(st.Violations, v)
			fmt.Printf("FOUND property=%s rule=%s run=%d replay=%s\n  %s\n", e.Prop, v.Rule, idx, v.Replay, v.Msg)
			if !*flagKeepOn {
				break
			}
		}
	}
	for k := range sigs {
		st.Sigs = append(st.Sigs, fmt.Sprintf("%016x", k))
	}
	sort.Strings(st.Sigs)
	if len(st.Samples) == 0 {
		st.Samples = append(st.Samples, "no non-trivial run in this worker")
	}
}

func handleViolation(e Engine, exec func(*Tape, bool) RunResult, idx uint64, r RunResult) Violation {
	rule := r.Fail.Rule
	best := r
	info := ShrinkInfo{OrigTapeLen: len(r.Tape), OrigSteps: r.Steps}
	if !*flagNoShrk {
		best, info.Execs = shrink(exec, *flagSeed, idx, r, rule)
	}
	// final logged execution of the minimised tape
	fin := exec(ReplayTape(*flagSeed, idx, best.Tape), true)
	if fin.Fail == nil || fin.Fail.Rule != rule {
		// should not happen: keep the original
		fin = exec(ReplayTape(*flagSeed, idx, r.Tape), true)
		best = r
		if fin.Fail == nil || fin.Fail.Rule != rule {
			fmt.Fprintf(os.Stderr, "NONDETERMINISTIC: run %d does not reproduce rule %s in-process\n", idx, rule)
			os.Exit(2)
		}
	}
	rf := ReplayFile{Prop: e.Prop, Engine: e.Name, Rule: rule, Msg: fin.Fail.Msg, Seed: *flagSeed, Run: idx,
		Tape: fin.Tape, Steps: fin.Steps, Log: fmtLog(fin.Log, 400), Shrunk: info}
	dir := *flagRepDir
	if dir == "" {
		dir = "."
	}
	os.MkdirAll(dir, 0o755)
	path := filepath.Join(dir, fmt.Sprintf("%s-%s-%d-%d.json", e.Prop, e.Name, *flagSeed, idx))
	b, _ := json.MarshalIndent(rf, "", " ")
	os.WriteFile(path, b, 0o644)
	return Violation{Rule: rule, Msg: fin.Fail.Msg, Replay: path, Run: idx}
}

func shrink(exec func(*Tape, bool) RunResult, seed, idx uint64, orig RunResult, rule string) (RunResult, int) {
	best := orig
	execs := 0
	t0 := time.Now()
	try := func(tp []uint32) bool {
		if execs >= 400 || time.Since(t0) > 120*time.Second {
			return false
		}
		execs++
		r := exec(ReplayTape(seed, idx, tp), false)
		if r.Fail != nil && r.Fail.Rule == rule && (len(r.Tape) < len(best.Tape) || (len(r.Tape) == len(best.Tape) && sum(r.Tape) < sum(best.Tape))) {
			best = r
			return true
		}
		return false
	}
	// 1. truncate tail (binary search)
	lo, hi := 0, len(best.Tape)
	for lo < hi && execs < 400 {
		mid := (lo + hi) / 2
		if try(append([]uint32(nil), best.Tape[:mid]...)) {
			hi = len(best.Tape)
			if hi > mid {
				hi = mid
			}
		} else {
			lo = mid + 1
		}
	}
	// 2./3. delete and zero blocks
	for pass := 0; pass < 3; pass++ {
		improved := false
		for bs := len(best.Tape) / 2; bs >= 1; bs /= 2 {
			for off := 0; off+bs <= len(best.Tape); {
				cand := append(append([]uint32(nil), best.Tape[:off]...), best.Tape[off+bs:]...)
				if try(cand) {
					improved = true
					continue
				}
				z := append([]uint32(nil), best.Tape...)
				nz := false
				for i := off; i < off+bs; i++ {
					if z[i] != 0 {
						nz = true
					}
					z[i] = 0
				}
				if nz && try(z) {
					improved = true
				}
				off += bs
			}
			if execs >= 400 {
				break
			}
		}
		if !improved || execs >= 400 {
			break
		}
	}
	// 4. lower single values
	for i := 0; i < len(best.Tape) && execs < 400; i++ {
		if best.Tape[i] > 1 {
			z := append([]uint32(nil), best.Tape...)
			z[i] = z[i] / 2
			try(z)
		}
	}
	return best, execs
}

func sum(a []uint32) (s uint64) {
	for _, v := range a {
		s += uint64(v)
	}
	return
}

func ruleBelongs(rule string) bool {
	if rule == "harness-panic" {
		return true
	}
	for _, p := range strings.Split(*flagRuleExc, ",") {
		if p != "" && strings.HasPrefix(rule, p) {
			return false
		}
	}
	if *flagRuleInc == "" {
		return true
	}
	for _, p := range strings.Split(*flagRuleInc, ",") {
		if p != "" && strings.HasPrefix(rule, p) {
			return true
		}
	}
	return false
}
