package verifsim

import (
	"fmt"
	"hash/fnv"
	"runtime"
	"sort"
	"strconv"
	"strings"
	"sync"
	"sync/atomic"
	"testing/synctest"
	"time"
)

// ---------------------------------------------------------------------------
// tasks

type taskState int32

const (
	tsRunning taskState = iota
	tsParked
	tsDone
)

type task struct {
	name      string
	resume    chan struct{}
	state     taskState
	site      string
	lockDepth int
	spawnN    map[string]int
	adopted   bool
	blockedAt string // site of last pre-block yield (diagnostics)
	starved   time.Duration // simulated time that passed while this task was parked (runnable, not chosen)
	pcs       [16]uintptr // call stack of the park site (only with Sim.TrackFrames)
	npc       int
}

// Event is an environment event the scheduler may fire at any step while
// Enabled reports true (deliver a chunk, inject a fault, send a signal, ...).
type Event struct {
	Name    string
	Enabled func() bool
	Fire    func()
	// Weight relative to a runnable task (default 1).
	Weight int
}

type LogEntry struct {
	Step int
	Kind byte // 't' task, 'e' event, 'z' time passes, 'n' note
	Who  string
	Site string
	Now  time.Duration
}

type Failure struct {
	Rule string
	Msg  string
	Step int
}

type Sim struct {
	T    *Tape
	mu   sync.Mutex
	byG  map[int64]*task
	all  []*task
	cur  *task
	root int64

	wakeup   chan struct{}
	draining atomic.Bool

	events []*Event

	Step     int
	MaxSteps int
	start    time.Time

	Log     []LogEntry
	LogOn   bool
	sigHash uint64
	multi   bool // >=2 options at some step
	Fail    *Failure

	// per-run knobs drawn from the tape
	stick    int // 0..100: probability (percent) of continuing the current task
	timeBias int // weight of "let time pass" while tasks are runnable (0..)

	Faults map[string]int // fault kind -> times fired
	Probes map[string]int // reach probes
	Notes  []string

	Anomalies map[string]int
	rootSpawn map[string]int

	Invariant func() // checked after every step
	// TrackFrames records the call stack at every park (for ParkedInFunc)
	TrackFrames bool

	// BusyMaxQ (>0) caps the time quantum (index into the ladder) that may be
	// chosen while tasks are runnable, so that scheduler-induced starvation adds
	// only little simulated delay (engines with latency oracles set it).
	BusyMaxQ int

	progress *atomic.Int64

	seqMode bool
	// SeqSimTime: simulated time covered, maintained by sequential engines themselves.
	SeqSimTime time.Duration
}

// SeqStep records one step of a sequential (non-bubble) engine: it feeds the
// schedule signature, the step counter and the event log.
func (s *Sim) SeqStep(kind, detail string, nontrivial bool) {
	s.Step++
	if nontrivial {
		s.multi = true
	}
	s.logStep('e', kind, detail)
	if s.progress != nil {
		s.progress.Add(1)
	}
}

var curSim atomic.Pointer[Sim]

// goroutines started through Go/AfterFunc while no simulation was active
// (package init, e.g. the default pools' janitors): they live outside every
// bubble and must never be scheduled by a simulation.
var foreign sync.Map

func goid() int64 {
	var buf [40]byte
	n := runtime.Stack(buf[:], false)
	// "goroutine 123 ["
	s := buf[10:n]
	var id int64
	for _, c := range s {
		if c < '0' || c > '9' {
			break
		}
		id = id*10 + int64(c-'0')
	}
	return id
}

// Active returns the running simulation or nil.
func Active() *Sim { return curSim.Load() }

func (s *Sim) taskOf(g int64) *task {
	s.mu.Lock()
	t := s.byG[g]
	s.mu.Unlock()
	return t
}

func (s *Sim) notify() {
	select {
	case s.wakeup <- struct{}{}:
	default:
	}
}

func (s *Sim) anomaly(k string) {
	s.mu.Lock()
	s.Anomalies[k]++
	s.mu.Unlock()
}

// Now is simulated time since the start of the run.
func (s *Sim) Now() time.Duration { return s.stamp() }

func (s *Sim) stamp() time.Duration {
	if s.seqMode {
		return s.SeqSimTime
	}
	return time.Since(s.start)
}

// Fault counts an injected fault that actually fired.
func (s *Sim) Fault(kind string) {
	s.mu.Lock()
	s.Faults[kind]++
	s.mu.Unlock()
}

// Probe counts a reached rare condition.
func (s *Sim) Probe(name string) {
	s.mu.Lock()
	s.Probes[name]++
	s.mu.Unlock()
}

func Probe(name string) {
	if s := curSim.Load(); s != nil {
		s.Probe(name)
	}
}

// Failf records the first violation of the run.
func (s *Sim) Failf(rule, format string, a ...any) {
	s.mu.Lock()
	if s.Fail == nil {
		s.Fail = &Failure{Rule: rule, Msg: fmt.Sprintf(format, a...), Step: s.Step}
	}
	s.mu.Unlock()
}

func (s *Sim) Failed() bool {
	s.mu.Lock()
	defer s.mu.Unlock()
	return s.Fail != nil
}

func (s *Sim) Notef(format string, a ...any) {
	if !s.LogOn {
		return
	}
	s.mu.Lock()
	s.Log = append(s.Log, LogEntry{Step: s.Step, Kind: 'n', Site: fmt.Sprintf(format, a...), Now: s.stamp()})
	s.mu.Unlock()
}

func (s *Sim) AddEvent(e *Event) { s.events = append(s.events, e) }

// ---------------------------------------------------------------------------
// entry points used by instrumented code

// Yield is a scheduling point: the calling task parks until the scheduler picks
// it again. No-op outside a simulation, while the task holds a lock, or while
// the simulation is draining.
func Yield(site string) {
	s := curSim.Load()
	if s == nil {
		return
	}
	g := goid()
	if g == s.root {
		return
	}
	t := s.taskOf(g)
	if t == nil {
		if _, f := foreign.Load(g); f {
			return
		}
		t = s.adopt(g, site)
	}
	if t.lockDepth > 0 {
		return
	}
	if s.TrackFrames {
		t.npc = runtime.Callers(2, t.pcs[:])
	}
	s.mu.Lock()
	t.state = tsParked
	t.site = site
	s.mu.Unlock()
	s.notify()
	<-t.resume
}

// ParkedInFunc reports whether the named task is parked at a scheduling point
// whose call stack contains a function whose name contains substr. It lets an
// oracle ask "has this task entered registerEndpoint yet" without depending on
// line numbers of the instrumented source. Needs Sim.TrackFrames.
func (s *Sim) ParkedInFunc(taskName, substr string) bool {
	s.mu.Lock()
	var t *task
	for _, x := range s.all {
		if x.name == taskName && x.state == tsParked {
			t = x
			break
		}
	}
	s.mu.Unlock()
	if t == nil || t.npc == 0 {
		return false
	}
	fr := runtime.CallersFrames(t.pcs[:t.npc])
	for {
		f, more := fr.Next()
		if strings.Contains(f.Function, substr) {
			return true
		}
		if !more {
			return false
		}
	}
}

// InFunc reports whether the named task, wherever it is now (parked at a yield or
// blocked in an operation it entered after its last yield), had a function whose name
// contains substr on its stack at its last yield. Called from another task's segment
// the answer is current: the named task has not run since.
func (s *Sim) InFunc(taskName, substr string) bool {
	s.mu.Lock()
	var t *task
	for _, x := range s.all {
		if x.name == taskName && x.state != tsDone {
			t = x
			break
		}
	}
	s.mu.Unlock()
	if t == nil || t.npc == 0 {
		return false
	}
	fr := runtime.CallersFrames(t.pcs[:t.npc])
	for {
		f, more := fr.Next()
		if strings.Contains(f.Function, substr) {
			return true
		}
		if !more {
			return false
		}
	}
}

// adopt registers a goroutine that was not started through Go (a callback run by
// uninstrumented code). Its name depends on the site only.
func (s *Sim) adopt(g int64, site string) *task {
	s.mu.Lock()
	n := s.rootSpawn["adopt:"+site]
	s.rootSpawn["adopt:"+site] = n + 1
	t := &task{name: "adopted@" + site + "#" + strconv.Itoa(n), resume: make(chan struct{}, 1), adopted: true}
	s.byG[g] = t
	s.all = append(s.all, t)
	s.Anomalies["adopted-goroutine"]++
	s.mu.Unlock()
	return t
}

// YieldB is the yield placed after a blocking operation. Same as Yield; kept
// separate so that sites are recognisable in traces.
func YieldB(site string) { Yield(site) }

// Locked / Unlocked bracket critical sections of real (unsubstituted) mutexes; a task never parks inside one.
func Locked() {
	s := curSim.Load()
	if s == nil {
		return
	}
	g := goid()
	if g == s.root {
		return
	}
	t := s.taskOf(g)
	if t == nil {
		if _, f := foreign.Load(g); f {
			return
		}
		t = s.adopt(g, "lock")
	}
	t.lockDepth++
}

func Unlocked() {
	s := curSim.Load()
	if s == nil {
		return
	}
	g := goid()
	if g == s.root {
		return
	}
	t := s.taskOf(g)
	if t == nil {
		return
	}
	if t.lockDepth > 0 {
		t.lockDepth--
	} else {
		s.anomaly("unlock-underflow")
	}
}

// DeferUnlock is the rewrite target of `defer mu.Unlock()`.
func DeferUnlock(f func()) {
	f()
	Unlocked()
}

// TryLocked wraps the result of TryLock.
func TryLocked(ok bool) bool {
	if ok {
		Locked()
	}
	return ok
}

// OnceDo is the rewrite target of once.Do(f): the once's internal mutex is held
// while f runs, so f is a critical section.
func OnceDo(o *sync.Once, f func()) {
	Locked()
	defer Unlocked()
	o.Do(f)
}

// Go starts a task. The name derives from the parent's name, the spawn site and
// a per-(parent,site) counter, so it is the same in every replay.
func Go(site string, fn func()) {
	s := curSim.Load()
	if s == nil {
		go func() {
			g := goid()
			foreign.Store(g, true)
			defer foreign.Delete(g)
			fn()
		}()
		return
	}
	g := goid()
	if _, f := foreign.Load(g); f {
		go func() {
			g := goid()
			foreign.Store(g, true)
			defer foreign.Delete(g)
			fn()
		}()
		return
	}
	var name string
	s.mu.Lock()
	if p := s.byG[g]; p != nil {
		if p.spawnN == nil {
			p.spawnN = map[string]int{}
		}
		n := p.spawnN[site]
		p.spawnN[site] = n + 1
		name = p.name + "/" + site + "#" + strconv.Itoa(n)
	} else {
		n := s.rootSpawn[site]
		s.rootSpawn[site] = n + 1
		name = site + "#" + strconv.Itoa(n)
	}
	t := &task{name: name, resume: make(chan struct{}, 1), state: tsParked, site: "start"}
	s.all = append(s.all, t)
	s.mu.Unlock()
	go func() {
		cg := goid()
		s.mu.Lock()
		s.byG[cg] = t
		s.mu.Unlock()
		defer func() {
			if r := recover(); r != nil {
				buf := make([]byte, 4096)
				buf = buf[:runtime.Stack(buf, false)]
				s.Failf("task-panic", "task %s panicked: %v\n%s", t.name, r, buf)
			}
			s.mu.Lock()
			t.state = tsDone
			if t.lockDepth != 0 {
				s.Anomalies["task-ended-with-lock-depth"]++
			}
			delete(s.byG, cg)
			s.mu.Unlock()
			s.notify()
		}()
		s.notify()
		<-t.resume
		fn()
	}()
}

// AfterFunc is the rewrite target of time.AfterFunc: the callback runs as a task.
func AfterFunc(site string, d time.Duration, f func()) *time.Timer {
	s := curSim.Load()
	if s == nil {
		return time.AfterFunc(d, func() {
			g := goid()
			foreign.Store(g, true)
			defer foreign.Delete(g)
			f()
		})
	}
	// name fixed at creation time (deterministic), not at firing time
	g := goid()
	var name string
	s.mu.Lock()
	if p := s.byG[g]; p != nil {
		if p.spawnN == nil {
			p.spawnN = map[string]int{}
		}
		n := p.spawnN[site]
		p.spawnN[site] = n + 1
		name = p.name + "/" + site + "#" + strconv.Itoa(n)
	} else {
		n := s.rootSpawn[site]
		s.rootSpawn[site] = n + 1
		name = site + "#" + strconv.Itoa(n)
	}
	s.mu.Unlock()
	return time.AfterFunc(d, func() {
		s2 := curSim.Load()
		if s2 != s {
			f()
			return
		}
		cg := goid()
		t := &task{name: name, resume: make(chan struct{}, 1), state: tsParked, site: "timer-fired"}
		s.mu.Lock()
		s.byG[cg] = t
		s.all = append(s.all, t)
		s.mu.Unlock()
		defer func() {
			if r := recover(); r != nil {
				s.Failf("task-panic", "timer task %s panicked: %v", t.name, r)
			}
			s.mu.Lock()
			t.state = tsDone
			delete(s.byG, cg)
			s.mu.Unlock()
			s.notify()
		}()
		s.notify()
		<-t.resume
		f()
	})
}

// TaskName of the caller ("" if not a task).
func TaskName() string {
	s := curSim.Load()
	if s == nil {
		return ""
	}
	if t := s.taskOf(goid()); t != nil {
		return t.name
	}
	return ""
}

// ---------------------------------------------------------------------------
// scheduler (runs on the bubble's root goroutine)

var ladder = []time.Duration{
	time.Microsecond, 10 * time.Microsecond, 100 * time.Microsecond, time.Millisecond,
	10 * time.Millisecond, 100 * time.Millisecond, time.Second, 5 * time.Second,
	30 * time.Second, 120 * time.Second,
}

// Quantum ladder override for engines that need longer jumps.
func (s *Sim) runnable() []*task {
	s.mu.Lock()
	var r []*task
	for _, t := range s.all {
		if t.state == tsParked {
			r = append(r, t)
		}
	}
	s.mu.Unlock()
	sort.Slice(r, func(i, j int) bool { return r[i].name < r[j].name })
	return r
}

func (s *Sim) gc() {
	s.mu.Lock()
	if len(s.all) > 64 {
		k := s.all[:0]
		for _, t := range s.all {
			if t.state != tsDone {
				k = append(k, t)
			}
		}
		for i := len(k); i < len(s.all); i++ {
			s.all[i] = nil
		}
		s.all = k
	}
	s.mu.Unlock()
}

func (s *Sim) logStep(kind byte, who, site string) {
	h := s.sigHash
	if h == 0 {
		h = 1469598103934665603
	}
	for _, str := range [...]string{who, site} {
		for i := 0; i < len(str); i++ {
			h ^= uint64(str[i])
			h *= 1099511628211
		}
		h ^= uint64(kind)
		h *= 1099511628211
	}
	s.sigHash = h
	if s.LogOn {
		s.Log = append(s.Log, LogEntry{Step: s.Step, Kind: kind, Who: who, Site: site, Now: s.stamp()})
	}
}

func (s *Sim) resume(t *task) {
	s.mu.Lock()
	t.state = tsRunning
	s.cur = t
	s.mu.Unlock()
	t.resume <- struct{}{}
}

// settle waits until every goroutine of the bubble is parked or durably blocked.
func (s *Sim) settle() {
	synctest.Wait()
	if s.progress != nil {
		s.progress.Add(1)
	}
}

// Sleep lets simulated time pass for at most d; returns early when a task parks
// (a timer fired inside instrumented code).
func (s *Sim) Sleep(d time.Duration) {
	for {
		select {
		case <-s.wakeup:
			continue
		default:
		}
		break
	}
	tm := time.NewTimer(d)
	select {
	case <-tm.C:
	case <-s.wakeup:
	}
	tm.Stop()
	s.settle()
}

// StepOnce performs one scheduling decision. allowTime permits "let time pass";
// maxQ caps the quantum (index into ladder). Returns false when nothing could be
// done (no runnable task, no enabled event, time not allowed).
func (s *Sim) StepOnce(allowTime bool, maxQ int) bool {
	s.settle()
	if s.Invariant != nil {
		s.Invariant()
	}
	R := s.runnable()
	var E []*Event
	for _, e := range s.events {
		if e.Enabled == nil || e.Enabled() {
			E = append(E, e)
		}
	}
	s.Step++
	if s.Step%256 == 0 {
		s.gc()
	}
	// sticky: keep running the current task
	if s.cur != nil && s.stick > 0 {
		s.mu.Lock()
		st := s.cur.state
		s.mu.Unlock()
		if st == tsParked && len(R)+len(E) > 1 {
			s.multi = true
			if s.T.Choose(100) < s.stick {
				t := s.cur
				s.logStep('t', t.name, t.site)
				s.resume(t)
				return true
			}
		}
	}
	nT := len(R)
	wE := 0
	for _, e := range E {
		w := e.Weight
		if w <= 0 {
			w = 1
		}
		wE += w
	}
	wTime := 0
	if allowTime {
		if nT+wE == 0 {
			wTime = 1
		} else {
			wTime = s.timeBias
		}
	}
	tot := nT + wE + wTime
	if tot == 0 {
		return false
	}
	if nT+len(E)+btoi(wTime > 0) > 1 {
		s.multi = true
	}
	c := s.T.Choose(tot)
	if c < nT {
		t := R[c]
		s.logStep('t', t.name, t.site)
		s.resume(t)
		return true
	}
	c -= nT
	for _, e := range E {
		w := e.Weight
		if w <= 0 {
			w = 1
		}
		if c < w {
			s.logStep('e', e.Name, "")
			e.Fire()
			return true
		}
		c -= w
	}
	// time passes
	if maxQ <= 0 || maxQ > len(ladder) {
		maxQ = len(ladder)
	}
	if s.BusyMaxQ > 0 && nT > 0 && maxQ > s.BusyMaxQ {
		maxQ = s.BusyMaxQ
	}
	q := ladder[s.T.Choose(maxQ)]
	s.logStep('z', "", q.String())
	before := s.stamp()
	s.Sleep(q)
	if el := s.stamp() - before; el > 0 {
		// scheduler-induced delay: the tasks that were runnable all along did not get to run
		for _, t := range R {
			t.starved += el
		}
	}
	return true
}

// Starved reports how much simulated time passed while the named task was runnable but
// not chosen by the scheduler; latency oracles subtract it from what they measure.
func (s *Sim) Starved(taskName string) time.Duration {
	s.mu.Lock()
	defer s.mu.Unlock()
	var d time.Duration
	for _, t := range s.all {
		if t.name == taskName {
			d += t.starved
		}
	}
	return d
}

func btoi(b bool) int {
	if b {
		return 1
	}
	return 0
}

// RunUntil schedules until done() is true, the step budget is exhausted, a
// failure is recorded, or nothing can happen any more. Returns true if done()
// became true.
func (s *Sim) RunUntil(done func() bool, maxQ int) bool {
	for s.Step < s.MaxSteps {
		s.settle()
		if s.Failed() {
			return false
		}
		if done != nil && done() {
			return true
		}
		if !s.StepOnce(true, maxQ) {
			return done != nil && done()
		}
	}
	s.settle()
	return done != nil && done()
}

// Quiesce runs without firing environment events: tasks are scheduled (tape
// chosen) and time advances in steps of q until quiet() is true or the simulated
// budget is used up. Used for bounded-liveness checks after the last fault.
func (s *Sim) Quiesce(quiet func() bool, q, budget time.Duration) bool {
	deadline := s.Now() + budget
	guard := 0
	for {
		s.settle()
		if s.Failed() {
			return false
		}
		R := s.runnable()
		if len(R) == 0 {
			if quiet() {
				return true
			}
			if s.Now() >= deadline {
				return false
			}
			s.Step++
			d := deadline - s.Now()
			if q > 0 && q < d && false {
				d = q
			}
			s.logStep('z', "", "quiesce")
			s.Sleep(d)
			continue
		}
		guard++
		if guard > 4*s.MaxSteps {
			return false
		}
		s.Step++
		var t *task
		if len(R) > 1 {
			s.multi = true
			t = R[s.T.Choose(len(R))]
		} else {
			t = R[0]
		}
		s.logStep('t', t.name, t.site)
		s.resume(t)
	}
}

// LiveTasks lists tasks that have not finished (names, sorted) whose name
// contains substr.
func (s *Sim) LiveTasks(substr string) []string {
	s.mu.Lock()
	var r []string
	for _, t := range s.all {
		if t.state != tsDone && strings.Contains(t.name, substr) {
			r = append(r, t.name+"@"+t.site)
		}
	}
	s.mu.Unlock()
	sort.Strings(r)
	return r
}

// Drain winds the run down cooperatively: no events, no tape draws, always the
// first runnable task, time jumps when nothing is runnable. Tasks that are still
// alive after the budget stay parked forever (the bubble then ends with
// synctest's deadlock panic, which RunOne recovers and counts).
func (s *Sim) Drain() {
	s.draining.Store(true)
	idle := 0
	for i := 0; i < 20000; i++ {
		s.settle()
		R := s.runnable()
		if len(R) > 0 {
			idle = 0
			s.resume(R[0])
			continue
		}
		if len(s.LiveTasks("")) == 0 {
			return
		}
		idle++
		if idle > 8 {
			return
		}
		s.Sleep(10 * time.Minute)
	}
}

type RunResult struct {
	Fail      *Failure
	Sig       uint64
	Multi     bool
	Steps     int
	SimTime   time.Duration
	Faults    map[string]int
	Probes    map[string]int
	Anomalies map[string]int
	Log       []LogEntry
	Tape      []uint32
	Leaked    bool
	Knobs     map[string]any
}

// RunOne executes one simulated run of scenario inside a fresh bubble.
func RunOne(t interface {
	Helper()
}, runInBubble func(f func()), tape *Tape, maxSteps int, logOn bool, progress *atomic.Int64, scenario func(s *Sim)) (res RunResult) {
	s := &Sim{
		T: tape, byG: map[int64]*task{}, MaxSteps: maxSteps, LogOn: logOn,
		Faults: map[string]int{}, Probes: map[string]int{}, Anomalies: map[string]int{},
		rootSpawn: map[string]int{}, progress: progress,
	}
	if runInBubble == nil {
		// sequential engine: no goroutines to schedule, the scenario is a plain
		// function of the tape (kernsim). Same failure / probe / fault interface.
		s.start = time.Now()
		s.seqMode = true
		func() {
			defer func() {
				if r := recover(); r != nil {
					buf := make([]byte, 8192)
					buf = buf[:runtime.Stack(buf, false)]
					s.Failf("harness-panic", "%v\n%s", r, buf)
				}
			}()
			scenario(s)
		}()
		res.Fail, res.Sig, res.Multi, res.Steps = s.Fail, s.sigHash, s.multi, s.Step
		res.Faults, res.Probes, res.Anomalies, res.Log, res.Tape = s.Faults, s.Probes, s.Anomalies, s.Log, tape.Rec
		res.SimTime = s.SeqSimTime
		return
	}
	s.stick = []int{0, 50, 80, 95}[tape.Choose(4)]
	s.timeBias = []int{1, 0, 2, 4}[tape.Choose(4)]
	func() {
		defer func() {
			if r := recover(); r != nil {
				msg := fmt.Sprint(r)
				if strings.Contains(msg, "deadlock") || strings.Contains(msg, "blocked goroutines remain") {
					res.Leaked = true
					return
				}
				buf := make([]byte, 8192)
				buf = buf[:runtime.Stack(buf, false)]
				s.Failf("harness-panic", "%v\n%s", r, buf)
			}
		}()
		runInBubble(func() {
			s.root = goid()
			s.wakeup = make(chan struct{}, 1)
			s.start = time.Now()
			curSim.Store(s)
			defer func() {
				if r := recover(); r != nil {
					buf := make([]byte, 8192)
					buf = buf[:runtime.Stack(buf, false)]
					s.Failf("harness-panic", "%v\n%s", r, buf)
				}
				res.SimTime = time.Since(s.start)
				s.Drain()
				curSim.Store(nil)
			}()
			scenario(s)
		})
	}()
	curSim.Store(nil)
	res.Fail = s.Fail
	res.Sig = s.sigHash
	res.Multi = s.multi
	res.Steps = s.Step
	res.Faults = s.Faults
	res.Probes = s.Probes
	res.Anomalies = s.Anomalies
	res.Log = s.Log
	res.Tape = tape.Rec
	return
}

func HashString(s string) uint64 {
	h := fnv.New64a()
	h.Write([]byte(s))
	return h.Sum64()
}
