package verifsim

import (
	"context"
	"errors"
	"io"
	"net"
	"net/netip"
	"os"
	"sync"
	"syscall"
	"time"

	"github.com/daeuniverse/outbound/netproxy"
)

// ---------------------------------------------------------------------------
// Simulated datagram endpoint (implements netproxy.PacketConn, netproxy.Conn
// and, optionally, netproxy.TransportLifecycle). Every blocking call blocks
// durably (bubble channel / bubble timer) and yields after waking.

type Datagram struct {
	Data []byte
	From netip.AddrPort
}

type SentDatagram struct {
	Data []byte
	To   string
	Seq  int
}

type timeoutErr struct{}

func (timeoutErr) Error() string   { return "i/o timeout" }
func (timeoutErr) Timeout() bool   { return true }
func (timeoutErr) Temporary() bool { return true }
func (timeoutErr) Unwrap() error   { return os.ErrDeadlineExceeded }

var ErrSimTimeout error = &net.OpError{Op: "read", Net: "sim", Err: timeoutErr{}}

type SimPacketConn struct {
	Name string
	mu   sync.Mutex

	inbox    []Datagram
	readErrs []error
	closed   bool
	waiters  []chan struct{}

	readDeadline time.Time

	CloseCount int
	Sent       []SentDatagram
	Reads      int
	// WriteHook decides the outcome of a write (nil: success). Called with the lock released.
	WriteHook func(b []byte, addr string) (n int, err error)
	// OnClose is called on the first Close.
	OnClose func()

	done     chan struct{} // TransportDone (nil: not a TransportLifecycle)
	doneOnce sync.Once
	seq      *int
}

// SimTransportPacketConn additionally implements netproxy.TransportLifecycle.
type SimTransportPacketConn struct{ *SimPacketConn }

func (c SimTransportPacketConn) TransportDone() <-chan struct{} { return c.done }

func NewSimPacketConn(name string, seq *int) *SimPacketConn {
	return &SimPacketConn{Name: name, seq: seq}
}

func (c *SimPacketConn) WithTransportDone() SimTransportPacketConn {
	c.done = make(chan struct{})
	return SimTransportPacketConn{c}
}

func (c *SimPacketConn) FireTransportDone() {
	if c.done != nil {
		c.doneOnce.Do(func() { close(c.done) })
	}
}

func (c *SimPacketConn) wakeAll() {
	for _, w := range c.waiters {
		close(w)
	}
	c.waiters = nil
}

func (c *SimPacketConn) Deliver(d Datagram) {
	c.mu.Lock()
	c.inbox = append(c.inbox, d)
	c.wakeAll()
	c.mu.Unlock()
}

func (c *SimPacketConn) InjectReadErr(err error) {
	c.mu.Lock()
	c.readErrs = append(c.readErrs, err)
	c.wakeAll()
	c.mu.Unlock()
}

func (c *SimPacketConn) IsClosed() bool {
	c.mu.Lock()
	defer c.mu.Unlock()
	return c.closed
}

func (c *SimPacketConn) Blocked() bool {
	c.mu.Lock()
	defer c.mu.Unlock()
	return len(c.waiters) > 0
}

func (c *SimPacketConn) Pending() int {
	c.mu.Lock()
	defer c.mu.Unlock()
	return len(c.inbox)
}

func (c *SimPacketConn) ReadFrom(p []byte) (int, netip.AddrPort, error) {
	for {
		c.mu.Lock()
		if c.closed {
			c.mu.Unlock()
			return 0, netip.AddrPort{}, net.ErrClosed
		}
		if len(c.readErrs) > 0 {
			err := c.readErrs[0]
			c.readErrs = c.readErrs[1:]
			c.mu.Unlock()
			return 0, netip.AddrPort{}, err
		}
		if len(c.inbox) > 0 {
			d := c.inbox[0]
			c.inbox = c.inbox[1:]
			c.Reads++
			c.mu.Unlock()
			n := copy(p, d.Data)
			return n, d.From, nil
		}
		dl := c.readDeadline
		if !dl.IsZero() && !time.Now().Before(dl) {
			c.mu.Unlock()
			return 0, netip.AddrPort{}, ErrSimTimeout
		}
		w := make(chan struct{})
		c.waiters = append(c.waiters, w)
		c.mu.Unlock()
		if dl.IsZero() {
			<-w
		} else {
			tm := time.NewTimer(time.Until(dl))
			select {
			case <-w:
			case <-tm.C:
			}
			tm.Stop()
		}
		YieldB("simnet.pc-read-woke:" + c.Name)
	}
}

func (c *SimPacketConn) Read(b []byte) (int, error) {
	n, _, err := c.ReadFrom(b)
	return n, err
}

func (c *SimPacketConn) WriteTo(b []byte, addr string) (int, error) {
	c.mu.Lock()
	if c.closed {
		c.mu.Unlock()
		return 0, net.ErrClosed
	}
	hook := c.WriteHook
	c.mu.Unlock()
	n, err := len(b), error(nil)
	if hook != nil {
		n, err = hook(b, addr)
	}
	if err == nil || n > 0 {
		c.mu.Lock()
		s := 0
		if c.seq != nil {
			*c.seq++
			s = *c.seq
		}
		c.Sent = append(c.Sent, SentDatagram{Data: append([]byte(nil), b[:n]...), To: addr, Seq: s})
		c.mu.Unlock()
	}
	return n, err
}

func (c *SimPacketConn) Write(b []byte) (int, error) { return c.WriteTo(b, "") }

func (c *SimPacketConn) Close() error {
	c.mu.Lock()
	c.CloseCount++
	first := !c.closed
	c.closed = true
	c.wakeAll()
	cb := c.OnClose
	c.mu.Unlock()
	if first && cb != nil {
		cb()
	}
	return nil
}

func (c *SimPacketConn) SetDeadline(t time.Time) error { return c.SetReadDeadline(t) }
func (c *SimPacketConn) SetReadDeadline(t time.Time) error {
	c.mu.Lock()
	c.readDeadline = t
	c.wakeAll() // re-evaluate
	c.mu.Unlock()
	return nil
}
func (c *SimPacketConn) SetWriteDeadline(t time.Time) error { return nil }

// ---------------------------------------------------------------------------
// Simulated dialer (implements netproxy.Dialer)

type DialPlan struct {
	Delay time.Duration
	Err   error         // returned after Delay (nil: success)
	Hang  bool          // block until the context ends, return ctx.Err()
	Conn  netproxy.Conn // returned on success
}

type SimDialer struct {
	Name string
	// Plan is asked once per dial attempt (on the dialling task).
	Plan     func(ctx context.Context, network, addr string) DialPlan
	Calls    int
	InFlight int
}

func (d *SimDialer) DialContext(ctx context.Context, network, addr string) (netproxy.Conn, error) {
	d.Calls++
	d.InFlight++
	defer func() { d.InFlight-- }()
	p := d.Plan(ctx, network, addr)
	if p.Hang {
		<-ctx.Done()
		YieldB("simnet.dial-hang-woke:" + d.Name)
		return nil, ctx.Err()
	}
	if p.Delay > 0 {
		tm := time.NewTimer(p.Delay)
		select {
		case <-tm.C:
			YieldB("simnet.dial-delay-woke:" + d.Name)
		case <-ctx.Done():
			tm.Stop()
			YieldB("simnet.dial-cancel-woke:" + d.Name)
			if p.Conn != nil {
				p.Conn.Close()
			}
			return nil, ctx.Err()
		}
	}
	if p.Err != nil {
		if p.Conn != nil {
			p.Conn.Close()
		}
		return nil, p.Err
	}
	return p.Conn, nil
}

// Canonical error values for fault injection.
var (
	ErrSimRefused     error = &net.OpError{Op: "dial", Net: "udp", Err: os.NewSyscallError("connect", syscall.ECONNREFUSED)}
	ErrSimUnreachable error = &net.OpError{Op: "dial", Net: "udp", Err: os.NewSyscallError("connect", syscall.ENETUNREACH)}
	ErrSimAddrInUse   error = &net.OpError{Op: "dial", Net: "udp", Err: os.NewSyscallError("bind", syscall.EADDRINUSE)}
	ErrSimReadRefused error = &net.OpError{Op: "read", Net: "udp", Err: os.NewSyscallError("read", syscall.ECONNREFUSED)}
	ErrSimGeneric           = errors.New("simulated i/o failure")
	ErrSimEOF               = io.EOF
)

// ---------------------------------------------------------------------------
// Simulated byte stream (TCP-like). Two StreamEnds form a connection. Bytes
// written on one end sit "in flight" until the scheduler fires the delivery
// event of the other end, which moves a tape-chosen number of bytes (1..all)
// to the reader: arbitrary re-segmentation and arbitrary timing relative to
// the reader's deadlines. EOF (CloseWrite/Close) and resets travel the same way.

type StreamEnd struct {
	Name string
	s    *Sim
	peer *StreamEnd
	mu   sync.Mutex

	readable []byte // delivered, not yet read
	inflight []byte // written by the peer, not yet delivered
	eofSent  bool   // peer closed its write side (EOF follows the in-flight bytes)
	eofSeen  bool   // EOF delivered
	resetErr error  // connection reset (delivered immediately)
	readErrs []error

	closed      bool
	writeClosed bool
	waiters     []chan struct{}
	rdl, wdl    time.Time

	// observations
	Written         []byte // everything this end wrote successfully
	ReadTotal       int
	CloseCount      int
	CloseWriteCount int
	DeadlineSets    int
	EOFReadAt       time.Duration // simulated time at which Read first returned io.EOF (-1: never)
	EOFDeliveredAt  time.Duration // simulated time at which the peer's EOF became visible to this end (-1: never)
	ErrReadAt       time.Duration
	LastReadErr     error

	// WriteHook may shorten or fail a write (nil: full success).
	WriteHook func(b []byte) (n int, err error)
	// AutoDeliver: bytes become readable at once (no re-segmentation event needed).
	AutoDeliver bool
	// MaxChunk limits a single delivery (0: no limit).
	MaxChunk int
}

// NewStreamPair creates a connection a<->b and registers both delivery events.
func NewStreamPair(s *Sim, nameA, nameB string) (*StreamEnd, *StreamEnd) {
	a := &StreamEnd{Name: nameA, s: s, EOFReadAt: -1, ErrReadAt: -1, EOFDeliveredAt: -1}
	b := &StreamEnd{Name: nameB, s: s, EOFReadAt: -1, ErrReadAt: -1, EOFDeliveredAt: -1}
	a.peer, b.peer = b, a
	for _, e := range []*StreamEnd{a, b} {
		e := e
		s.AddEvent(&Event{Name: "deliver:" + e.Name, Enabled: e.deliverable, Fire: e.deliverSome})
	}
	return a, b
}

func (e *StreamEnd) wake() {
	for _, w := range e.waiters {
		close(w)
	}
	e.waiters = nil
}

func (e *StreamEnd) deliverable() bool {
	e.mu.Lock()
	defer e.mu.Unlock()
	return !e.AutoDeliver && (len(e.inflight) > 0 || (e.eofSent && !e.eofSeen))
}

// InFlight reports bytes written by the peer and not yet delivered.
func (e *StreamEnd) InFlight() int {
	e.mu.Lock()
	defer e.mu.Unlock()
	return len(e.inflight)
}

func (e *StreamEnd) Unread() int {
	e.mu.Lock()
	defer e.mu.Unlock()
	return len(e.readable)
}

func (e *StreamEnd) deliverSome() {
	e.mu.Lock()
	defer e.mu.Unlock()
	if len(e.inflight) > 0 {
		n := len(e.inflight)
		max := n
		if e.MaxChunk > 0 && max > e.MaxChunk {
			max = e.MaxChunk
		}
		// favour: everything (0), else a cut point
		k := max
		if max > 1 {
			switch e.s.T.Choose(4) {
			case 1:
				k = 1
			case 2:
				k = 1 + e.s.T.Choose(max)
			case 3:
				k = (max + 1) / 2
			}
		}
		e.readable = append(e.readable, e.inflight[:k]...)
		e.inflight = e.inflight[k:]
	} else if e.eofSent && !e.eofSeen {
		e.eofSeen = true
		e.EOFDeliveredAt = e.s.Now()
	}
	e.wake()
}

// DeliverAll moves everything in flight (and a pending EOF) to the reader.
func (e *StreamEnd) DeliverAll() {
	e.mu.Lock()
	e.readable = append(e.readable, e.inflight...)
	e.inflight = nil
	if e.eofSent && !e.eofSeen {
		e.eofSeen = true
		e.EOFDeliveredAt = e.s.Now()
	}
	e.wake()
	e.mu.Unlock()
}

func (e *StreamEnd) InjectReadErr(err error) {
	e.mu.Lock()
	e.readErrs = append(e.readErrs, err)
	e.wake()
	e.mu.Unlock()
}

// Reset aborts the connection: both ends fail from now on.
func (e *StreamEnd) Reset(err error) {
	for _, x := range []*StreamEnd{e, e.peer} {
		x.mu.Lock()
		if x.resetErr == nil {
			x.resetErr = err
		}
		x.wake()
		x.mu.Unlock()
	}
}

func (e *StreamEnd) Read(p []byte) (int, error) {
	if len(p) == 0 {
		return 0, nil
	}
	for {
		e.mu.Lock()
		if e.closed {
			e.mu.Unlock()
			return 0, net.ErrClosed
		}
		if len(e.readable) > 0 {
			n := copy(p, e.readable)
			e.readable = e.readable[n:]
			e.ReadTotal += n
			e.mu.Unlock()
			return n, nil
		}
		if len(e.readErrs) > 0 {
			err := e.readErrs[0]
			e.readErrs = e.readErrs[1:]
			e.LastReadErr = err
			if e.ErrReadAt < 0 {
				e.ErrReadAt = e.s.Now()
			}
			e.mu.Unlock()
			return 0, err
		}
		if e.resetErr != nil {
			err := e.resetErr
			e.LastReadErr = err
			if e.ErrReadAt < 0 {
				e.ErrReadAt = e.s.Now()
			}
			e.mu.Unlock()
			return 0, err
		}
		if e.eofSeen {
			if e.EOFReadAt < 0 {
				e.EOFReadAt = e.s.Now()
			}
			e.mu.Unlock()
			return 0, io.EOF
		}
		dl := e.rdl
		if !dl.IsZero() && !time.Now().Before(dl) {
			e.LastReadErr = ErrSimTimeout
			if e.ErrReadAt < 0 {
				e.ErrReadAt = e.s.Now()
			}
			e.mu.Unlock()
			return 0, ErrSimTimeout
		}
		w := make(chan struct{})
		e.waiters = append(e.waiters, w)
		e.mu.Unlock()
		if dl.IsZero() {
			<-w
		} else {
			tm := time.NewTimer(time.Until(dl))
			select {
			case <-w:
			case <-tm.C:
			}
			tm.Stop()
		}
		YieldB("simnet.stream-read-woke:" + e.Name)
	}
}

func (e *StreamEnd) Write(b []byte) (int, error) {
	e.mu.Lock()
	if e.closed || e.writeClosed {
		e.mu.Unlock()
		return 0, net.ErrClosed
	}
	if e.resetErr != nil {
		err := e.resetErr
		e.mu.Unlock()
		return 0, err
	}
	hook := e.WriteHook
	e.mu.Unlock()
	n, err := len(b), error(nil)
	if hook != nil {
		n, err = hook(b)
	}
	if n > 0 {
		e.mu.Lock()
		e.Written = append(e.Written, b[:n]...)
		e.mu.Unlock()
		p := e.peer
		p.mu.Lock()
		if p.AutoDeliver {
			p.readable = append(p.readable, b[:n]...)
			p.wake()
		} else {
			p.inflight = append(p.inflight, b[:n]...)
		}
		p.mu.Unlock()
	}
	return n, err
}

// CloseWrite sends EOF to the peer after the bytes already written.
func (e *StreamEnd) CloseWrite() error {
	e.mu.Lock()
	e.CloseWriteCount++
	already := e.writeClosed
	e.writeClosed = true
	e.mu.Unlock()
	if !already {
		p := e.peer
		p.mu.Lock()
		p.eofSent = true
		if p.AutoDeliver {
			p.eofSeen = true
			p.EOFDeliveredAt = p.s.Now()
			p.wake()
		}
		p.mu.Unlock()
	}
	return nil
}

func (e *StreamEnd) CloseRead() error { return nil }

func (e *StreamEnd) Close() error {
	e.mu.Lock()
	e.CloseCount++
	first := !e.closed
	e.closed = true
	wc := e.writeClosed
	e.writeClosed = true
	e.wake()
	e.mu.Unlock()
	if first && !wc {
		p := e.peer
		p.mu.Lock()
		p.eofSent = true
		if p.AutoDeliver {
			p.eofSeen = true
		}
		p.wake()
		p.mu.Unlock()
	}
	return nil
}

func (e *StreamEnd) IsClosed() bool {
	e.mu.Lock()
	defer e.mu.Unlock()
	return e.closed
}

func (e *StreamEnd) WriteClosed() bool {
	e.mu.Lock()
	defer e.mu.Unlock()
	return e.writeClosed
}

func (e *StreamEnd) SetDeadline(t time.Time) error {
	e.SetReadDeadline(t)
	return e.SetWriteDeadline(t)
}

func (e *StreamEnd) SetReadDeadline(t time.Time) error {
	e.mu.Lock()
	e.rdl = t
	e.DeadlineSets++
	e.wake()
	e.mu.Unlock()
	return nil
}

func (e *StreamEnd) SetWriteDeadline(t time.Time) error {
	e.mu.Lock()
	e.wdl = t
	e.mu.Unlock()
	return nil
}

// ReadDeadline returns the currently armed read deadline (zero: none).
func (e *StreamEnd) ReadDeadline() time.Time {
	e.mu.Lock()
	defer e.mu.Unlock()
	return e.rdl
}

type simAddr string

func (a simAddr) Network() string { return "tcp" }
func (a simAddr) String() string  { return string(a) }

// NetConn wraps a StreamEnd as a net.Conn (it is deliberately not a *net.TCPConn).
type StreamNetConn struct {
	*StreamEnd
	Local, Remote net.Addr
}

func (c *StreamNetConn) LocalAddr() net.Addr  { return c.Local }
func (c *StreamNetConn) RemoteAddr() net.Addr { return c.Remote }
