package verifsim

import (
	"context"
	"errors"
	"io"
	"net"
	"net/netip"
	"os"
	"sync"
	"syscall"
	"time"

	"github.com/daeuniverse/outbound/netproxy"
)

// ---------------------------------------------------------------------------
// Simulated datagram endpoint (implements netproxy.PacketConn, netproxy.Conn
// and, optionally, netproxy.TransportLifecycle). Every blocking call blocks
// durably (bubble channel / bubble timer) and yields after waking.

type Datagram struct {
	Data []byte
	From netip.AddrPort
}

type SentDatagram struct {
	Data []byte
	To   string
	Seq  int
}

type timeoutErr struct{}

func (timeoutErr) Error() string   { return "i/o timeout" }
func (timeoutErr) Timeout() bool   { return true }
func (timeoutErr) Temporary() bool { return true }
func (timeoutErr) Unwrap() error   { return os.ErrDeadlineExceeded }

var ErrSimTimeout error = &net.OpError{Op: "read", Net: "sim", Err: timeoutErr{}}

type SimPacketConn struct {
	Name string
	mu   sync.Mutex

	inbox    []Datagram
	readErrs []error
	closed   bool
	waiters  []chan struct{}

	readDeadline time.Time

	CloseCount int
	Sent       []SentDatagram
	Reads      int
	// WriteHook decides the outcome of a write (nil: success). Called with the lock released.
	WriteHook func(b []byte, addr string) (n int, err error)
	// OnClose is called on the first Close.
	OnClose func()

	done     chan struct{} // TransportDone (nil: not a TransportLifecycle)
	doneOnce sync.Once
	seq      *int
}

// SimTransportPacketConn additionally implements netproxy.TransportLifecycle.
type SimTransportPacketConn struct{ *SimPacketConn }

func (c SimTransportPacketConn) TransportDone() <-chan struct{} { return c.done }

func NewSimPacketConn(name string, seq *int) *SimPacketConn {
	return &SimPacketConn{Name: name, seq: seq}
}

func (c *SimPacketConn) WithTransportDone() SimTransportPacketConn {
	c.done = make(chan struct{})
	return SimTransportPacketConn{c}
}

func (c *SimPacketConn) FireTransportDone() {
	if c.done != nil {
		c.doneOnce.Do(func() { close(c.done) })
	}
}

func (c *SimPacketConn) wakeAll() {
	for _, w := range c.waiters {
		close(w)
	}
	c.waiters = nil
}

func (c *SimPacketConn) Deliver(d Datagram) {
	c.mu.Lock()
	c.inbox = append(c.inbox, d)
	c.wakeAll()
	c.mu.Unlock()
}

func (c *SimPacketConn) InjectReadErr(err error) {
	c.mu.Lock()
	c.readErrs = append(c.readErrs, err)
	c.wakeAll()
	c.mu.Unlock()
}

func (c *SimPacketConn) IsClosed() bool {
	c.mu.Lock()
	defer c.mu.Unlock()
	return c.closed
}

func (c *SimPacketConn) Blocked() bool {
	c.mu.Lock()
	defer c.mu.Unlock()
	return len(c.waiters) > 0
}

func (c *SimPacketConn) Pending() int {
	c.mu.Lock()
	defer c.mu.Unlock()
	return len(c.inbox)
}

func (c *SimPacketConn) ReadFrom(p []byte) (int, netip.AddrPort, error) {
	for {
		c.mu.Lock()
		if c.closed {
			c.mu.Unlock()
			return 0, netip.AddrPort{}, net.ErrClosed
		}
		if len(c.readErrs) > 0 {
			err := c.readErrs[0]
			c.readErrs = c.readErrs[1:]
			c.mu.Unlock()
			return 0, netip.AddrPort{}, err
		}
		if len(c.inbox) > 0 {
			d := c.inbox[0]
			c.inbox = c.inbox[1:]
			c.Reads++
			c.mu.Unlock()
			n := copy(p, d.Data)
			return n, d.From, nil
		}
		dl := c.readDeadline
		if !dl.IsZero() && !time.Now().Before(dl) {
			c.mu.Unlock()
			return 0, netip.AddrPort{}, ErrSimTimeout
		}
		w := make(chan struct{})
		c.waiters = append(c.waiters, w)
		c.mu.Unlock()
		if dl.IsZero() {
			<-w
		} else {
			tm := time.NewTimer(time.Until(dl))
			select {
			case <-w:
			case <-tm.C:
			}
			tm.Stop()
		}
		YieldB("simnet.pc-read-woke:" + c.Name)
	}
}

func (c *SimPacketConn) Read(b []byte) (int, error) {
	n, _, err := c.ReadFrom(b)
	return n, err
}

func (c *SimPacketConn) WriteTo(b []byte, addr string) (int, error) {
	c.mu.Lock()
	if c.closed {
		c.mu.Unlock()
		return 0, net.ErrClosed
	}
	hook := c.WriteHook
	c.mu.Unlock()
	n, err := len(b), error(nil)
	if hook != nil {
		n, err = hook(b, addr)
	}
	if err == nil || n > 0 {
		c.mu.Lock()
		s := 0
		if c.seq != nil {
			*c.seq++
			s = *c.seq
		}
		c.Sent = append(c.Sent, SentDatagram{Data: append([]byte(nil), b[:n]...), To: addr, Seq: s})
		c.mu.Unlock()
	}
	return n, err
}

func (c *SimPacketConn) Write(b []byte) (int, error) { return c.WriteTo(b, "") }

func (c *SimPacketConn) Close() error {
	c.mu.Lock()
	c.CloseCount++
	first := !c.closed
	c.closed = true
	c.wakeAll()
	cb := c.OnClose
	c.mu.Unlock()
	if first && cb != nil {
		cb()
	}
	return nil
}

func (c *SimPacketConn) SetDeadline(t time.Time) error { return c.SetReadDeadline(t) }
func (c *SimPacketConn) SetReadDeadline(t time.Time) error {
	c.mu.Lock()
	c.readDeadline = t
	c.wakeAll() // re-evaluate
	c.mu.Unlock()
	return nil
}
func (c *SimPacketConn) SetWriteDeadline(t time.Time) error { return nil }

// ---------------------------------------------------------------------------
// Simulated dialer (implements netproxy.Dialer)

type DialPlan struct {
	Delay time.Duration
	Err   error         // returned after Delay (nil: success)
	Hang  bool          // block until the context ends, return ctx.Err()
	Conn  netproxy.Conn // returned on success
}

type SimDialer struct {
	Name string
	// Plan is asked once per dial attempt (on the dialling task).
	Plan     func(ctx context.Context, network, addr string) DialPlan
	Calls    int
	InFlight int
}

func (d *SimDialer) DialContext(ctx context.Context, network, addr string) (netproxy.Conn, error) {
	d.Calls++
	d.InFlight++
	defer func() { d.InFlight-- }()
	p := d.Plan(ctx, network, addr)
	if p.Hang {
		<-ctx.Done()
		YieldB("simnet.dial-hang-woke:" + d.Name)
		return nil, ctx.Err()
	}
	if p.Delay > 0 {
		tm := time.NewTimer(p.Delay)
		select {
		case <-tm.C:
			YieldB("simnet.dial-delay-woke:" + d.Name)
		case <-ctx.Done():
			tm.Stop()
			YieldB("simnet.dial-cancel-woke:" + d.Name)
			if p.Conn != nil {
				p.Conn.Close()
			}
			return nil, ctx.Err()
		}
	}
	if p.Err != nil {
		if p.Conn != nil {
			p.Conn.Close()
		}
		return nil, p.Err
	}
	return p.Conn, nil
}

// Canonical error values for fault injection.
var (
	ErrSimRefused     error = &net.OpError{Op: "dial", Net: "udp", Err: os.NewSyscallError("connect", syscall.ECONNREFUSED)}
	ErrSimUnreachable error = &net.OpError{Op: "dial", Net: "udp", Err: os.NewSyscallError("connect", syscall.ENETUNREACH)}
	ErrSimAddrInUse   error = &net.OpError{Op: "dial", Net: "udp", Err: os.NewSyscallError("bind", syscall.EADDRINUSE)}
	ErrSimReadRefused error = &net.OpError{Op: "read", Net: "udp", Err: os.NewSyscallError("read", syscall.ECONNREFUSED)}
	ErrSimGeneric           = errors.New("simulated i/o failure")
	ErrSimEOF               = io.EOF
)
