package verifsim

import (
	"sync"
	"sync/atomic"
)

// Mutex / RWMutex / Once are drop-in replacements for the sync types inside
// instrumented files. A waiter blocks on a channel (a durable block for
// synctest), so a task may park or block while holding one: other tasks that
// want the lock simply wait, and the scheduler keeps choosing among the rest.
// Ownership is handed over FIFO; the new owner parks once (yield) before it
// enters its critical section so that it never runs concurrently with the
// releaser. Outside a simulation they behave like ordinary locks.

type Mutex struct {
	g       sync.Mutex
	held    bool
	waiters []chan struct{}
}

func (m *Mutex) Lock() {
	m.g.Lock()
	if !m.held {
		m.held = true
		m.g.Unlock()
		return
	}
	ch := make(chan struct{})
	m.waiters = append(m.waiters, ch)
	m.g.Unlock()
	<-ch
	YieldB("mutex-acquired")
}

func (m *Mutex) TryLock() bool {
	m.g.Lock()
	defer m.g.Unlock()
	if m.held {
		return false
	}
	m.held = true
	return true
}

func (m *Mutex) Unlock() {
	m.g.Lock()
	if !m.held {
		m.g.Unlock()
		panic("verifsim: unlock of unlocked Mutex")
	}
	if len(m.waiters) > 0 {
		ch := m.waiters[0]
		m.waiters = m.waiters[1:]
		m.g.Unlock()
		close(ch)
		return
	}
	m.held = false
	m.g.Unlock()
}

type rwWaiter struct {
	ch     chan struct{}
	writer bool
}

type RWMutex struct {
	g       sync.Mutex
	writer  bool
	readers int
	queue   []rwWaiter
}

func (m *RWMutex) Lock() {
	m.g.Lock()
	if !m.writer && m.readers == 0 && len(m.queue) == 0 {
		m.writer = true
		m.g.Unlock()
		return
	}
	ch := make(chan struct{})
	m.queue = append(m.queue, rwWaiter{ch, true})
	m.g.Unlock()
	<-ch
	YieldB("rwmutex-acquired")
}

func (m *RWMutex) RLock() {
	m.g.Lock()
	if !m.writer && len(m.queue) == 0 {
		m.readers++
		m.g.Unlock()
		return
	}
	ch := make(chan struct{})
	m.queue = append(m.queue, rwWaiter{ch, false})
	m.g.Unlock()
	<-ch
	YieldB("rwmutex-racquired")
}

func (m *RWMutex) TryLock() bool {
	m.g.Lock()
	defer m.g.Unlock()
	if !m.writer && m.readers == 0 && len(m.queue) == 0 {
		m.writer = true
		return true
	}
	return false
}

func (m *RWMutex) TryRLock() bool {
	m.g.Lock()
	defer m.g.Unlock()
	if !m.writer && len(m.queue) == 0 {
		m.readers++
		return true
	}
	return false
}

// grant wakes the head of the queue as far as compatible. Called with m.g held.
func (m *RWMutex) grant() (wake []chan struct{}) {
	for len(m.queue) > 0 {
		h := m.queue[0]
		if h.writer {
			if m.writer || m.readers > 0 {
				break
			}
			m.writer = true
			m.queue = m.queue[1:]
			wake = append(wake, h.ch)
			break
		}
		if m.writer {
			break
		}
		m.readers++
		m.queue = m.queue[1:]
		wake = append(wake, h.ch)
	}
	return
}

func (m *RWMutex) Unlock() {
	m.g.Lock()
	if !m.writer {
		m.g.Unlock()
		panic("verifsim: unlock of unlocked RWMutex")
	}
	m.writer = false
	wake := m.grant()
	m.g.Unlock()
	for _, ch := range wake {
		close(ch)
	}
}

func (m *RWMutex) RUnlock() {
	m.g.Lock()
	if m.readers <= 0 {
		m.g.Unlock()
		panic("verifsim: RUnlock of unlocked RWMutex")
	}
	m.readers--
	wake := m.grant()
	m.g.Unlock()
	for _, ch := range wake {
		close(ch)
	}
}

func (m *RWMutex) RLocker() sync.Locker { return (*rlocker)(m) }

type rlocker RWMutex

func (r *rlocker) Lock()   { (*RWMutex)(r).RLock() }
func (r *rlocker) Unlock() { (*RWMutex)(r).RUnlock() }

// Once: callers that arrive while f runs wait (durably) until it has finished,
// like sync.Once.
type Once struct {
	done atomic.Bool
	m    Mutex
}

func (o *Once) Do(f func()) {
	if o.done.Load() {
		return
	}
	o.m.Lock()
	defer o.m.Unlock()
	if !o.done.Load() {
		defer o.done.Store(true)
		f()
	}
}

// Cond replaces sync.Cond inside instrumented files: woken waiters park (yield)
// before they re-acquire the lock, so the order in which several woken waiters
// proceed is the scheduler's decision, not the OS's.
type Cond struct {
	L       sync.Locker
	g       sync.Mutex
	waiters []chan struct{}
}

func NewCond(l sync.Locker) *Cond { return &Cond{L: l} }

func (c *Cond) Wait() {
	ch := make(chan struct{})
	c.g.Lock()
	c.waiters = append(c.waiters, ch)
	c.g.Unlock()
	c.L.Unlock()
	<-ch
	YieldB("cond-woke")
	c.L.Lock()
}

func (c *Cond) Signal() {
	c.g.Lock()
	if len(c.waiters) > 0 {
		ch := c.waiters[0]
		c.waiters = c.waiters[1:]
		c.g.Unlock()
		close(ch)
		return
	}
	c.g.Unlock()
}

func (c *Cond) Broadcast() {
	c.g.Lock()
	w := c.waiters
	c.waiters = nil
	c.g.Unlock()
	for _, ch := range w {
		close(ch)
	}
}
