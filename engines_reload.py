"""Engine "reload" (property C20): the real cmd/run.go + cmd/reload_manager.go under the
deterministic scheduler, compiled against a simulated package `control` (/verif/fakecontrol)."""
import glob, os, re, sys

_VERIF = os.path.dirname(os.path.abspath(__file__))


def _gen_reload(REPO, wd):
    ov = {}
    # 1. replace package control by the fake: every file of the real package disappears
    for f in glob.glob(os.path.join(REPO, "control", "*.go")):
        ov[f] = ""
    for f in glob.glob(os.path.join(_VERIF, "fakecontrol", "*.go")):
        ov[os.path.join(REPO, "control", "zz_fake_" + os.path.basename(f))] = f
    # 2. seams added to cmd and dialer (new files only)
    ov[os.path.join(REPO, "cmd", "zz_verif_seams.go")] = os.path.join(_VERIF, "fakecontrol", "cmdseam", "zz_verif_seams.go")
    ov[os.path.join(REPO, "component", "outbound", "dialer", "zz_verif_access.go")] = os.path.join(
        _VERIF, "fakecontrol", "dialerseam", "zz_verif_access.go")
    # 3. signal.Notify -> simulator (yieldgen has no such rewrite): textual pre-pass over the
    #    CURRENT cmd/run.go; the result is what yieldgen instruments.
    src = open(os.path.join(REPO, "cmd", "run.go")).read()
    n = len(re.findall(r"\bsignal\.Notify\(", src))
    if n != 1:
        print("INFRA-ERROR: engines_reload: expected exactly one signal.Notify( in cmd/run.go, found %d" % n, file=sys.stderr)
        sys.exit(2)  # infrastructure, never a violation
    src = re.sub(r"\bsignal\.Notify\(", "verifSignalNotify(", src)
    # optional clean-up seam: lets the harness end the reload worker after Run returned
    src = src.replace("reloadReqs := make(chan reloadRequest, 1)", "reloadReqs := verifReloadReqsCreated(make(chan reloadRequest, 1))", 1)
    src += "\nvar _ = signal.Stop // keeps the os/signal import used after the verif rewrite\n"
    pre = os.path.join(wd, "pre")
    os.makedirs(pre, exist_ok=True)
    open(os.path.join(pre, "run.go"), "w").write(src)
    ov[os.path.join(REPO, "cmd", "run.go")] = os.path.join(pre, "run.go")
    return ov


ENGINES = {
    "reload": {
        "pkg": "cmd",
        "tags": "",
        "test": "TestSimC20",
        "generators": [_gen_reload],
        "instrument": [
            {"pkg": "cmd", "files": ["run.go", "reload_manager.go"],
             "replace": ["monotonicNowNano=return uint64(time.Now().UnixNano())"]},
            {"pkg": "component/outbound/dialer", "files": ["sticky_cache.go"]},
        ],
        "harness": ["harness/cmd/reload_sim_test.go"],
        "keepgoing": True,
        "quick_secs": 45, "thorough_secs": 600,
        "probes": ["reload.stage.cfg", "reload.stage.build", "reload.stage.listener", "reload.stage.serve",
                   "reload.stage.handoff", "reload.stage.retire",
                   "reload.sig.queued", "reload.sig.load", "reload.sig.prepare", "reload.sig.listener",
                   "reload.sig.handoff", "reload.sig.retire",
                   "reload.path.staged", "reload.path.full", "reload.busy-reported",
                   "reload.raw-signal-accepted-after-release", "reload.sighup"],
    },
}

PROPS = {"C20": {"engines": ["reload"]}}
