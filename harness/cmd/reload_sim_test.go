package cmd

// C20 — reload requests are serialised, answered, and never leave dae wedged.
//
// Real code under the deterministic scheduler: the whole of Runner.Run (signal
// loop, reload worker with every failure branch, staged and full hand-off,
// retirement) and cmd/reload_manager.go, instrumented by yieldgen, plus the real
// suppression counter of component/outbound/dialer/sticky_cache.go. Package
// `control` is the simulated one from /verif/fakecontrol: every control-plane
// operation asks this harness (control.VerifEnv) what it should do.
//
// The harness plays three parts:
//   - the environment script (delays, one injected failure per run, the config file),
//   - the requesters (a `dae reload` CLI that honours the progress file, raw
//     SIGUSR1/SIGUSR2 senders, SIGHUP noise, SIGTERM),
//   - the oracle, written from the property statement only (see rsHarness.onProgress,
//     checkIdle and the rule list in /verif/fakecontrol/NOTES.md).

import (
	"encoding/json"
	"errors"
	"flag"
	"fmt"
	"io"
	"os"
	"path/filepath"
	"strings"
	"syscall"
	"testing"
	"testing/synctest"
	"time"

	"github.com/daeuniverse/dae/common/consts"
	"github.com/daeuniverse/dae/component/outbound/dialer"
	"github.com/daeuniverse/dae/control"
	verifsim "github.com/daeuniverse/dae/internal/verifsim"
	"github.com/sirupsen/logrus"
)

// ---------------------------------------------------------------------------
// script

type rsMean struct {
	stage   string
	suspend bool
	done    bool
}

type rsReq struct {
	suspend bool
	cfg     int // 0 valid same port, 1 valid new port, 2 invalid text, 3 file missing
	mean    []*rsMean
	hup     string // stage at which a SIGHUP is delivered ("" none)
	hupDone bool
}

type rsPlan struct {
	reqs      []*rsReq
	fault     string // "", cfg, build, listener, serve, handoff, retire
	faultReq  int
	variant   int
	termReq   int // -1: no early SIGTERM
	termStage string
	nudge     int
}

var rsBusyStages = []string{"queued", "load", "prepare", "listener", "handoff", "retire"}
var rsFaultStages = []string{"", "cfg", "build", "listener", "serve", "handoff", "retire"}

func rsDrawPlan(T *verifsim.Tape) *rsPlan {
	p := &rsPlan{termReq: -1}
	f := T.Choose(len(rsFaultStages))
	p.fault = rsFaultStages[f]
	n := T.Range(0, 3)
	if f != 0 && n == 0 {
		n = 1
	}
	if n > 0 {
		p.faultReq = T.Choose(n)
	}
	p.variant = T.Choose(3)
	for i := 0; i <= n; i++ {
		r := &rsReq{}
		last := i == n
		if !last {
			r.suspend = T.Chance(1, 4)
		}
		if T.Chance(1, 3) {
			r.cfg = 1
		}
		if !last && p.fault == "cfg" && p.faultReq == i {
			r.suspend = false
			r.cfg = 2 + p.variant%2
		}
		for k := T.Pick(3, 3, 2, 1); k > 0; k-- {
			r.mean = append(r.mean, &rsMean{stage: rsBusyStages[T.Choose(len(rsBusyStages))], suspend: T.Chance(1, 3)})
		}
		if T.Chance(1, 8) {
			r.hup = rsBusyStages[T.Choose(len(rsBusyStages))]
		}
		p.reqs = append(p.reqs, r)
	}
	if T.Chance(1, 12) {
		p.termReq = T.Choose(len(p.reqs))
		st := append([]string{"idle"}, rsBusyStages...)
		p.termStage = st[T.Choose(len(st))]
	}
	p.nudge = []int{0, 0, 7, 3}[T.Choose(4)]
	return p
}

// ---------------------------------------------------------------------------
// history / model

type rsProg struct {
	step int
	code byte
	msg  string
}

type rsSig struct {
	id       int
	sig      syscall.Signal
	fresh    bool
	reqIdx   int
	step     int
	stage    string
	answered bool
	answer   string // "accepted" | "busy" | "swallowed"
	rec      *rsRec
	consumed string // stage during which dae took it off the signal channel
}

func (g *rsSig) String() string {
	k := "raw"
	if g.fresh {
		k = "fresh"
	}
	return fmt.Sprintf("#%d(%s %v delivered at step %d during stage %q)", g.id, k, g.sig, g.step, g.stage)
}

type rsRec struct {
	idx          int
	sig          *rsSig
	suspend      bool
	cfgBad       bool
	designated   bool // the run's injected failure belongs to this reload
	faultUsed    bool
	faultFired   string
	startStep    int
	liveBefore   *control.ControlPlane
	planes       []*control.ControlPlane
	tried        bool   // a construction was attempted
	essFail      string // an operation the reload cannot do without failed (as observed at the fake)
	servedNew    bool
	hasOutcome   bool
	code         byte
	msg          string
	wantPort     uint16
	wantMarker   time.Duration
	pathProbed   bool
	path         string // "staged" | "full" | "none" (no construction attempted)
	outcomeStep  int
	retiredProbe bool
}

type rsHarness struct {
	s    *verifsim.Sim
	plan *rsPlan
	dir  string

	code        byte
	msg         string
	hist        []rsProg
	gets        []int // steps at which dae read the progress cell
	lastBusyFor *rsSig

	sigs     []*rsSig
	recs     []*rsRec
	cur      *rsRec
	nSig     int
	nProc    int
	nBusy    int
	nLost    int // requests that were never answered (each reported as busy-report-missing)
	reqIdx   int
	inflight *rsSig

	cfgBad    bool
	cfgPort   uint16
	cfgMarker time.Duration

	started    bool
	running    bool // workload phase: environment events may fire
	termSent   bool
	runDone    bool
	runErr     error
	cliBlocked bool
	tainted    bool // more than one generation was live when a reload began: identity checks are off
	abort      bool // a duplicate (already reported) rule fired: stop this run quietly
	probed     map[string]bool
}

// Reporting discipline. A rule is reported (s.Failf, the run ends, the tape is
// minimised and replayed) the first time this process meets it; later runs only
// count it ("dup.<rule>") and, where the model can go on, keep going, so that one
// frequent violation does not hide the rest of the workload. To keep replays
// exact, the same decision is taken during minimisation (the set is frozen until
// the next search run starts) and in a fresh replay process (where every
// continuable rule other than the replay file's own rule counts as already seen).
var rsReported = map[string]bool{}
var rsPendingMark string
var rsReplayRule = func() func() string {
	var done bool
	var rule string
	return func() string {
		if !done {
			done = true
			rule = os.Getenv("VERIF_C20_ONLY") // debugging aid: hunt for one rule only
			if f := flag.Lookup("verif.replay"); f != nil && f.Value.String() != "" {
				if b, err := os.ReadFile(f.Value.String()); err == nil {
					var rf struct {
						Rule string `json:"rule"`
					}
					if json.Unmarshal(b, &rf) == nil {
						rule = rf.Rule
					}
				}
			}
		}
		return rule
	}
}()

// rules after which the model can carry on
func rsContinuable(rule string) bool {
	return strings.HasPrefix(rule, "busy-report-missing@") || strings.HasPrefix(rule, "accept-before-retired@") || strings.HasPrefix(rule, "progress-wedged@Busy")
}

// failf reports a violation. It returns true when the run may simply go on
// (the rule was already reported once and the model can continue).
func (h *rsHarness) failf(rule, format string, a ...any) bool {
	if h.abort || h.s.Failed() {
		return false
	}
	if h.termSent && rule != "term-hang" && rule != "goroutine-leak" {
		return true // dae is shutting down: nothing of the property applies any more
	}
	seen := rsReported[rule]
	if t := rsReplayRule(); t != "" {
		seen = rule != t && rsContinuable(rule)
	}
	if seen {
		h.s.Probe("dup." + rule)
		if rsContinuable(rule) {
			return true
		}
		h.abort = true
		return false
	}
	h.s.Failf(rule, format, a...)
	return false
}

func (h *rsHarness) stopped() bool { return h.abort || h.s.Failed() }

func (h *rsHarness) probeOnce(name string) {
	if !h.probed[name] {
		h.probed[name] = true
		h.s.Probe(name)
	}
}

func (h *rsHarness) live() (l []*control.ControlPlane) {
	for _, c := range control.VerifState.Planes {
		if c.Built && !c.Closed {
			l = append(l, c)
		}
	}
	return
}

func rsPlanes(l []*control.ControlPlane) string {
	var b []string
	for _, c := range l {
		b = append(b, fmt.Sprintf("plane%d(port %d ready=%v retired=%v closing=%v)", c.ID, c.Port, c.Ready, c.Retired, c.Closing))
	}
	return "[" + strings.Join(b, " ") + "]"
}

func (h *rsHarness) unanswered(fresh bool) *rsSig {
	for _, g := range h.sigs {
		if !g.answered && g.fresh == fresh {
			return g
		}
	}
	return nil
}

// stage of the reload state machine as visible from outside (progress file and
// the fake's call log) — used only to place signals, never by the oracle.
func (h *rsHarness) stage() string {
	if r := h.cur; r != nil {
		switch {
		case control.VerifState.Building > 0:
			return "prepare"
		case !r.tried:
			return "load"
		case r.servedNew:
			return "handoff"
		default:
			return "listener"
		}
	}
	if h.unanswered(true) != nil {
		return "queued"
	}
	if len(h.live()) > 1 {
		return "retire"
	}
	return "idle"
}

func rsCodeName(c byte) string {
	switch c {
	case consts.ReloadSend:
		return "Send"
	case consts.ReloadProcessing:
		return "Processing"
	case consts.ReloadDone:
		return "Done"
	case consts.ReloadError:
		return "Error"
	case consts.ReloadBusy:
		return "Busy"
	}
	return fmt.Sprintf("code(%d)", c)
}

// onProgress observes every write of the progress cell (the repo's own seam
// setRunSignalProgress). It is where requests are matched with their answers.
func (h *rsHarness) onProgress(code byte, msg string) {
	msg = strings.ReplaceAll(msg, h.dir, "$CFGDIR") // the scratch path contains the pid
	h.hist = append(h.hist, rsProg{h.s.Step, code, msg})
	h.code, h.msg = code, msg
	h.s.Notef("progress := %s %q", rsCodeName(code), msg)
	switch {
	case code == consts.ReloadProcessing:
		h.nProc++
		g := h.unanswered(true)
		if g == nil {
			g = h.unanswered(false)
		}
		if g == nil {
			h.failf("phantom-reload", "a reload started processing although every delivered request had already been answered (%d requests, %d accepted, %d busy)", h.nSig, h.nProc-1, h.nBusy)
			return
		}
		g.answered, g.answer = true, "accepted"
		if h.cur != nil {
			h.failf("overlap", "request %v was accepted and began processing while reload %d (request %v) is still in progress (no outcome reported yet)", g, h.cur.idx, h.cur.sig)
			return
		}
		if l := h.live(); len(l) != 1 {
			class, prev := "at-start", "none"
			if n := len(h.recs); n > 0 {
				// class: outcome of the previous reload and the path it took (staged
				// same-port hand-off, or full rebuild)
				class = "after-" + rsCodeName(h.recs[n-1].code) + "-" + h.recs[n-1].path
				prev = fmt.Sprintf("reload %d, outcome %s %q, failed operation %q", n-1, rsCodeName(h.recs[n-1].code), h.recs[n-1].msg, h.recs[n-1].essFail)
			}
			if !h.failf("accept-before-retired@"+class, "request %v was accepted and began processing while the previous generation has not retired: live control planes %s (previous: %s)", g, rsPlanes(l), prev) {
				return
			}
			h.tainted = true
		}
		if !g.fresh {
			h.s.Probe("reload.raw-signal-accepted-after-release")
		}
		r := &rsRec{idx: len(h.recs), sig: g, path: "none", suspend: g.sig == syscall.SIGUSR2, startStep: h.s.Step,
			wantPort: h.cfgPort, wantMarker: h.cfgMarker}
		r.cfgBad = h.cfgBad && !r.suspend
		if l := h.live(); len(l) > 0 {
			r.liveBefore = l[len(l)-1]
		}
		r.designated = g.fresh && h.plan.fault != "" && h.plan.faultReq == g.reqIdx && g.reqIdx < len(h.plan.reqs)-1
		if r.cfgBad {
			r.faultFired = "cfg"
			h.s.Fault("cfg-" + []string{"invalid", "missing"}[h.plan.variant%2])
			h.probeOnce("reload.stage.cfg")
		}
		g.rec = r
		h.cur = r
		h.recs = append(h.recs, r)
	case code == consts.ReloadBusy:
		h.nBusy++
		g := h.unanswered(false)
		if g == nil {
			g = h.unanswered(true)
		}
		if g == nil {
			h.failf("phantom-busy", "a busy report %q was written although every delivered request had already been answered", msg)
			return
		}
		g.answered, g.answer = true, "busy"
		h.lastBusyFor = g
		h.s.Probe("reload.busy-reported")
	case code == consts.ReloadError || (code == consts.ReloadDone && msg == "OK"):
		r := h.cur
		if r == nil {
			h.failf("phantom-outcome", "outcome %s %q reported while no reload is in progress", rsCodeName(code), msg)
			return
		}
		r.hasOutcome, r.code, r.msg, r.outcomeStep = true, code, msg, h.s.Step
		h.cur = nil
		// The script dictates the outcome: an error iff the config is bad or an
		// operation the reload cannot do without (build, listener, serve of the new
		// generation) failed; such failures happen only where the script injects them.
		wantErr := r.cfgBad || r.essFail != ""
		if wantErr != (code == consts.ReloadError) {
			h.failf("wrong-outcome", "reload %d (request %v, injected failure %q, failed operation %q) reported %s %q, the script dictates %s", r.idx, r.sig, r.faultFired, r.essFail,
				rsCodeName(code), msg, map[bool]string{true: "an error", false: "Done OK"}[wantErr])
		} else if r.essFail != "" && r.faultFired == "" {
			h.failf("unscripted-failure", "reload %d (request %v): %s failed although the script injected no failure into this reload (outcome %s %q)", r.idx, r.sig, r.essFail, rsCodeName(code), msg)
		}
	}
}

// Plan: control.VerifEnv — what should this operation of the fake do.
func (h *rsHarness) Plan(op string, c *control.ControlPlane, l *control.Listener) control.VerifPlan {
	T := h.s.T
	var p control.VerifPlan
	delay := func(w ...int) time.Duration {
		// deliberately "odd" durations: two timers of one select must never expire at the
		// same simulated instant (the Go runtime would then pick a case at random); the
		// repo's own timers are 5 s ticks, 10 s and 45 s measured from the request
		return []time.Duration{0, 1003 * time.Microsecond, 50070 * time.Microsecond, 2011 * time.Millisecond, 20130 * time.Millisecond}[T.Pick(w...)]
	}
	r := h.cur
	fire := func(stage, kind string) {
		r.faultUsed, r.faultFired = true, stage
		h.s.Fault(kind)
		h.probeOnce("reload.stage." + stage)
	}
	des := func(stage string) bool { return r != nil && r.designated && h.plan.fault == stage }
	isNew := func() bool {
		if r == nil || c == nil {
			return false
		}
		for _, x := range r.planes {
			if x == c {
				return true
			}
		}
		return false
	}
	switch op {
	case "construct", "construct-prepared":
		p.Delay = delay(4, 3, 3, 2, 1)
		if p.Delay == 0 {
			p.Delay = 7 * time.Microsecond // a build is never instantaneous (keeps request-relative timers off the 5 s grid)
		}
		if des("build") && !r.faultUsed {
			if h.plan.variant == 1 {
				p.Hang = true
				fire("build", "build-hang-until-prepare-timeout")
			} else {
				p.Err = errors.New("injected: control plane build failed")
				fire("build", "build-error")
			}
		}
	case "clone", "listen":
		p.Delay = delay(5, 3, 2, 1)
		if h.started && des("listener") && !r.faultUsed {
			p.Err = errors.New("injected: " + op + " failed")
			fire("listener", op+"-error")
		}
	case "serve":
		p.Delay = delay(4, 3, 3, 2, 1)
		if des("serve") && !r.faultUsed && isNew() {
			if h.plan.variant == 1 {
				p.Hang = true
				fire("serve", "serve-never-ready")
			} else {
				p.Err = errors.New("injected: serve failed before ready")
				fire("serve", "serve-error")
			}
		}
	case "close":
		p.Delay = delay(5, 3, 2, 1)
		if d := h.retireFault(c); d != nil {
			p.Delay = []time.Duration{5017 * time.Millisecond, 40190 * time.Millisecond, 0}[h.plan.variant]
			p.Err = errors.New("injected: old control plane close did not finish cleanly")
			d.faultFired = "retire"
			h.s.Fault("retire-close-slow-error")
			h.probeOnce("reload.stage.retire")
		}
	case "sessions":
		if T.Chance(1, 3) {
			p.N, p.After = 1+T.Choose(3), delay(0, 1, 2, 3, 1)
		}
		if d := h.retireFault(c); d != nil {
			p.N = 3
			switch h.plan.variant {
			case 0:
				p.After = 8023 * time.Millisecond
			case 1:
				p.Hang = true
			default:
				p.After = 2011 * time.Millisecond
			}
			d.faultFired = "retire"
			h.s.Fault("retire-sessions-slow-drain")
			h.probeOnce("reload.stage.retire")
		}
	case "abort", "retire-cleanup":
		if d := h.retireFault(c); d != nil {
			p.Err = errors.New("injected: " + op + " failed")
		}
	case "inherit-health":
		p.Flag = T.Chance(1, 4)
		if des("handoff") {
			p.Flag = true
		}
	case "listener-close", "stop-dns", "restart-dns", "publish", "rebuild", "detach":
		if des("handoff") {
			p.Err = errors.New("injected: " + op + " failed")
			r.faultFired = "handoff"
			h.s.Fault("handoff-" + op + "-error")
			h.probeOnce("reload.stage.handoff")
		}
	case "reuse-dns-listener", "reuse-dns-controller":
		p.Flag = T.Chance(1, 3)
	}
	return p
}

// retireFault: the old generation of the designated reload is being retired.
func (h *rsHarness) retireFault(c *control.ControlPlane) *rsRec {
	if h.plan.fault != "retire" || c == nil {
		return nil
	}
	for _, r := range h.recs {
		if r.designated && r.liveBefore == c {
			return r
		}
	}
	return nil
}

// Event: control.VerifEnv — state changes of the fake.
func (h *rsHarness) Event(ev string, c *control.ControlPlane, l *control.Listener) {
	id := -1
	if c != nil {
		id = c.ID
	}
	h.s.Notef("fake: %s plane=%d", ev, id)
	r := h.cur
	switch ev {
	case "construct-begin":
		if n := control.VerifState.Building; n > 1 {
			h.failf("overlap-construct", "%d control-plane constructions in progress at once", n)
		}
		if h.started && r == nil {
			h.failf("phantom-construct", "a control plane is being built while no reload is in progress")
		}
		if r != nil {
			r.tried = true
			if !r.pathProbed {
				r.pathProbed = true
				r.path = "full"
				if c.Prepared {
					r.path = "staged"
				}
				h.s.Probe("reload.path." + r.path)
			}
		}
	case "construct-ok":
		if r != nil {
			r.planes = append(r.planes, c)
		}
	case "construct-fail":
		if r != nil && len(r.planes) == 0 && r.essFail == "" {
			r.essFail = "build"
		}
	case "clone-fail", "listen-fail":
		if r != nil && r.essFail == "" {
			r.essFail = ev
		}
	case "serve-fail", "serve-never-ready":
		if r != nil && r.essFail == "" {
			for _, x := range r.planes {
				if x == c {
					r.essFail = ev
				}
			}
		}
	case "serve-begin":
		if r != nil {
			for _, x := range r.planes {
				if x == c {
					r.servedNew = true
				}
			}
		}
	}
}

// ---------------------------------------------------------------------------
// requesters

func (h *rsHarness) deliver(sig syscall.Signal, fresh bool) *rsSig {
	st := h.stage()
	select {
	case verifSigCh <- sig:
	default:
		h.s.Failf("harness-panic", "signal channel full at delivery")
		return nil
	}
	if sig != syscall.SIGUSR1 && sig != syscall.SIGUSR2 {
		h.s.Notef("signal %v delivered during stage %q", sig, st)
		return nil
	}
	g := &rsSig{id: len(h.sigs), sig: sig, fresh: fresh, reqIdx: h.reqIdx, step: h.s.Step, stage: st}
	h.sigs = append(h.sigs, g)
	h.inflight = g
	h.nSig++
	h.s.Notef("request %v", g)
	if !fresh {
		h.s.Probe("reload.sig." + st)
	}
	return g
}

func (h *rsHarness) sigChanFree() bool { return verifSigCh != nil && len(verifSigCh) == 0 }

func (h *rsHarness) addEvents() {
	s := h.s
	curReq := func() *rsReq {
		if !h.running || h.termSent || h.reqIdx >= len(h.plan.reqs) {
			return nil
		}
		return h.plan.reqs[h.reqIdx]
	}
	nextMean := func() *rsMean {
		r := curReq()
		if r == nil || !h.sigChanFree() || h.unanswered(false) != nil {
			return nil
		}
		st := h.stage()
		for _, m := range r.mean {
			if !m.done && m.stage == st {
				return m
			}
		}
		return nil
	}
	s.AddEvent(&verifsim.Event{Name: "raw-signal", Weight: 2,
		Enabled: func() bool { return nextMean() != nil },
		Fire: func() {
			m := nextMean()
			m.done = true
			sig := syscall.SIGUSR1
			if m.suspend {
				sig = syscall.SIGUSR2
			}
			h.deliver(sig, false)
		}})
	s.AddEvent(&verifsim.Event{Name: "sighup",
		Enabled: func() bool {
			r := curReq()
			return r != nil && r.hup != "" && !r.hupDone && h.sigChanFree() && h.stage() == r.hup
		},
		Fire: func() {
			curReq().hupDone = true
			h.deliver(syscall.SIGHUP, false)
			s.Probe("reload.sighup")
		}})
	s.AddEvent(&verifsim.Event{Name: "sigterm",
		Enabled: func() bool {
			return curReq() != nil && h.plan.termReq == h.reqIdx && h.sigChanFree() && h.stage() == h.plan.termStage
		},
		Fire: func() {
			h.termSent = true
			h.deliver(syscall.SIGTERM, false)
			s.Probe("reload.term." + h.plan.termStage)
		}})
}

// ---------------------------------------------------------------------------
// driving

// runUntil schedules tasks and environment events; simulated time passes freely
// only when nothing else can happen (so that scripted delays, not scheduler
// starvation, decide which timeout fires), plus small nudges while tasks are
// runnable.
func (h *rsHarness) runUntil(done func() bool, simBudget time.Duration) bool {
	s := h.s
	limit := s.Now() + simBudget
	for s.Step < s.MaxSteps && s.Now() < limit {
		// StepOnce resumes a task and returns at once: wait until that task is parked or
		// blocked again before looking at any state it may be writing
		synctest.Wait()
		if h.stopped() {
			return false
		}
		if done() {
			return true
		}
		if h.plan.nudge > 0 && s.Step%h.plan.nudge == 0 {
			s.StepOnce(true, 4)
			continue
		}
		if !s.StepOnce(false, 0) {
			// nothing can run and no event is enabled: jump to the next timer that
			// wakes a task (no tape draw: a zeroed tape must not crawl in microseconds)
			s.Step++
			s.Sleep(time.Minute)
		}
	}
	synctest.Wait()
	return !h.stopped() && done()
}

// settleTasks runs every runnable task (no environment events, no time) until
// all of them are blocked.
func (h *rsHarness) settleTasks() bool {
	was := h.running
	h.running = false
	for h.s.Step < h.s.MaxSteps {
		synctest.Wait()
		if h.stopped() || !h.s.StepOnce(false, 0) {
			break
		}
	}
	synctest.Wait()
	h.running = was
	return !h.stopped()
}

func (h *rsHarness) writeConfig(r *rsReq, idx int) {
	path := filepath.Join(h.dir, "config.dae")
	h.cfgBad = false
	switch r.cfg {
	case 2:
		h.cfgBad = true
		os.WriteFile(path, []byte("global {\n  tproxy_port: }}}\n"), 0o600)
		return
	case 3:
		h.cfgBad = true
		os.Remove(path)
		return
	}
	port := uint16(12345)
	if l := h.live(); len(l) > 0 {
		port = l[len(l)-1].Port
	}
	if r.cfg == 1 {
		port++
		if port > 12400 {
			port = 12345
		}
	}
	h.cfgPort, h.cfgMarker = port, time.Duration(idx+1)*time.Millisecond
	txt := fmt.Sprintf("global {\n  tproxy_port: %d\n  log_level: error\n  disable_waiting_network: true\n  check_tolerance: %dms\n}\nrouting {\n  fallback: direct\n}\n",
		port, idx+1)
	os.Remove(path)
	if err := os.WriteFile(path, []byte(txt), 0o600); err != nil {
		h.s.Failf("harness-panic", "write config: %v", err)
	}
}

// checkIdle: the state every quiescent point between requests must have.
func (h *rsHarness) checkIdle(where string) bool {
	if h.stopped() {
		return false
	}
	for g := h.unanswered(false); g != nil; g = h.unanswered(false) {
		if g.consumed == "" {
			g.consumed = "unknown"
			if len(verifSigCh) != 0 {
				g.consumed = "never"
			}
		}
		if !h.failf("busy-report-missing@"+g.consumed, "%s: request %v arrived while a reload was in progress, was taken by dae during stage %q and was never answered: neither accepted nor reported busy (progress history since: %s)", where, g, g.consumed, h.histSince(g.step)) {
			return false
		}
		g.answered, g.answer = true, "swallowed"
		h.nLost++
	}
	l := h.live()
	if len(l) != 1 {
		h.failf("live-planes", "%s: %d control planes are live at quiescence, want exactly one: %s", where, len(l), rsPlanes(l))
		return false
	}
	if d := dialer.VerifReloadSuppressionDepth(); d != 0 {
		h.failf("suppression-stuck", "%s: node-failure reports are still muted at quiescence: suppression depth %d after %d accepted and %d refused requests", where, d, h.nProc, h.nBusy)
		return false
	}
	if h.code != consts.ReloadDone && h.code != consts.ReloadError {
		class := rsCodeName(h.code)
		if g := h.lastBusyFor; h.code == consts.ReloadBusy && g != nil {
			// did dae look at the progress cell (to clear a stale busy report) between the
			// arrival of the refused request and the busy write? then the clearing raced
			// with the report; otherwise nothing ever tried to clear it
			class += "-never-cleared"
			last := h.hist[len(h.hist)-1].step
			for _, st := range h.gets {
				if st >= g.step && st <= last {
					class = "Busy-raced-clear"
				}
			}
		}
		if !h.failf("progress-wedged@"+class, "%s: dae is idle but the progress file still says %s %q, so `dae reload` refuses to send a new request until something else rewrites the file (history: %s)", where, rsCodeName(h.code), h.msg, h.histSince(0)) {
			return false
		}
		h.cliBlocked = true // the operator falls back to a raw signal
	}
	if h.nProc+h.nBusy+h.nLost != h.nSig {
		h.failf("answer-count", "%s: %d requests delivered, %d accepted + %d busy reports", where, h.nSig, h.nProc, h.nBusy)
		return false
	}
	tasks := h.s.LiveTasks("run#0")
	if sv := control.VerifState.Serving; sv > 1 || len(tasks) != 2+sv {
		h.failf("goroutine-leak", "%s: goroutines of Run alive at quiescence: %v; expected the signal loop, the reload worker and %d serving goroutine(s)", where, tasks, sv)
		return false
	}
	if n := len(h.recs); n > 0 && !h.tainted {
		r := h.recs[n-1]
		switch {
		case r.code == consts.ReloadDone:
			c := l[0]
			mine := false
			for _, x := range r.planes {
				mine = mine || x == c
			}
			if !mine || !c.Ready || c.ServeN != 1 {
				h.failf("wrong-generation", "%s: reload %d reported Done OK but the live control plane is %s, not a serving generation built by that reload", where, r.idx, rsPlanes(l))
				return false
			}
			if !r.suspend && (c.Port != r.wantPort || c.Marker != r.wantMarker) {
				h.failf("wrong-generation", "%s: reload %d reported Done OK but the live generation was built from another config (port %d marker %v, requested %d %v)", where, r.idx, c.Port, c.Marker, r.wantPort, r.wantMarker)
				return false
			}
		case r.faultFired == "cfg":
			if len(r.planes) != 0 || l[0] != r.liveBefore {
				h.failf("wrong-generation", "%s: reload %d failed at config load but the live control plane changed: %s", where, r.idx, rsPlanes(l))
				return false
			}
		}
	}
	return true
}

func (h *rsHarness) histSince(step int) string {
	var b []string
	for _, p := range h.hist {
		if p.step >= step {
			b = append(b, fmt.Sprintf("%d:%s%q", p.step, rsCodeName(p.code), p.msg))
		}
	}
	if len(b) > 12 {
		b = append([]string{"..."}, b[len(b)-12:]...)
	}
	return strings.Join(b, " ")
}

// awaitRetired waits (environment events enabled) until no reload is in progress
// and the previous generation has retired, then lets every runnable task finish.
func (h *rsHarness) awaitRetired(where string) bool {
	retired := func() bool {
		return h.cur == nil && len(h.live()) == 1 && control.VerifState.Building == 0 && h.unanswered(true) == nil
	}
	for round := 0; ; round++ {
		// a raw signal still on its way is answered without any time passing; one that
		// is never answered is reported by checkIdle
		h.runUntil(func() bool { return h.unanswered(false) == nil }, time.Minute)
		ok := h.runUntil(retired, 20*time.Minute)
		if h.stopped() || h.termSent {
			return false
		}
		if !ok {
			if h.s.Step >= h.s.MaxSteps {
				h.s.Probe("step-budget-exhausted")
				h.abort = true
				return false
			}
			h.failf("retire-stuck", "%s: 20 simulated minutes after the last outcome the previous generation has still not retired or a reload is still in progress: reload in progress=%v live=%s", where, h.cur != nil, rsPlanes(h.live()))
			return false
		}
		if !h.settleTasks() {
			return false
		}
		if retired() && (len(verifSigCh) == 0 || round > 20) {
			return true
		}
	}
}

// fresh request i: sent by the requester only when dae is quiescent and the
// previous generation has retired; it must be accepted within 60 simulated
// seconds of that point (retries at +25 s and +55 s when told busy).
func (h *rsHarness) issueFresh(i int) bool {
	s := h.s
	rq := h.plan.reqs[i]
	retiredAt := s.Now()
	for attempt := 0; ; attempt++ {
		where := fmt.Sprintf("before request %d (attempt %d)", i, attempt)
		if !h.checkIdle(where) {
			return false
		}
		h.writeConfig(rq, i)
		sig := syscall.SIGUSR1
		if rq.suspend {
			sig = syscall.SIGUSR2
		} else if !h.cliBlocked {
			// `dae reload`: refuse unless Done/Error (checked in checkIdle), then announce.
			h.onProgress(consts.ReloadSend, "")
		}
		h.cliBlocked = false
		g := h.deliver(sig, true)
		if g == nil {
			return false
		}
		ok := h.runUntil(func() bool {
			return g.answered && (g.answer == "busy" || (g.rec != nil && g.rec.hasOutcome))
		}, 30*time.Minute)
		if h.stopped() || h.termSent {
			return false
		}
		if !ok {
			if s.Step >= s.MaxSteps {
				s.Probe("step-budget-exhausted")
				h.abort = true
				return false
			}
			if !g.answered {
				h.failf("wedged", "request %v was sent while dae was quiescent with the previous generation retired, and was never answered (progress %s %q; history %s)", g, rsCodeName(h.code), h.msg, h.histSince(g.step))
			} else {
				h.failf("wedged", "request %v was accepted but no outcome was reported within 30 simulated minutes (progress %s %q; stage %s)", g, rsCodeName(h.code), h.msg, h.stage())
			}
			return false
		}
		if g.answer == "accepted" {
			if attempt > 0 {
				s.Probe("reload.fresh-accepted-on-retry")
			}
			return true
		}
		// told busy although nothing was in progress when it was sent
		s.Probe("reload.fresh-refused")
		if attempt == 2 {
			h.failf("wedged", "request %v was refused as busy (%q) although no reload was in progress and the previous generation had retired %v earlier; retries at +25 s and +55 s were refused too", g, h.msg, s.Now()-retiredAt)
			return false
		}
		if !h.awaitRetired("after refused fresh request") {
			return false
		}
		target := retiredAt + []time.Duration{25 * time.Second, 55 * time.Second}[attempt]
		if d := target - s.Now(); d > 0 {
			h.running = false
			s.Quiesce(func() bool { return s.Now() >= target }, 0, d)
			h.running = true
		}
	}
}

func rsScenario(s *verifsim.Sim) {
	h := &rsHarness{s: s, plan: rsDrawPlan(s.T), dir: rsDir, probed: map[string]bool{}}
	rsCur = h
	control.VerifReset(h)
	dialer.VerifResetReloadSuppression()
	verifSigCh, verifReloadReqs = nil, nil
	cfgFile = filepath.Join(h.dir, "config.dae")
	disablePidFile = true
	setRunSignalProgress = func(code byte, content string) error {
		verifsim.Yield("progress.set")
		h.onProgress(code, content)
		return nil
	}
	getRunSignalProgress = func() (byte, string, error) {
		verifsim.Yield("progress.get")
		h.gets = append(h.gets, h.s.Step)
		return h.code, h.msg, nil
	}
	s.Invariant = func() {
		if g := h.inflight; g != nil && len(verifSigCh) == 0 {
			g.consumed, h.inflight = h.stage(), nil
		}
		if n := control.VerifState.Building; n > 1 {
			h.failf("overlap-construct", "%d control-plane constructions in progress at once", n)
		}
		if h.nProc+h.nBusy > h.nSig {
			h.failf("answer-count", "%d answers (%d accepted, %d busy) for %d requests", h.nProc+h.nBusy, h.nProc, h.nBusy, h.nSig)
		}
	}
	if !s.T.Replaying() && rsPendingMark != "" {
		rsReported[rsPendingMark] = true
		rsPendingMark = ""
	}
	defer func() {
		if f := s.Fail; f != nil && !s.T.Replaying() {
			rsPendingMark = f.Rule
		}
	}()

	// --- start dae
	h.writeConfig(&rsReq{}, -1)
	h.cfgMarker = 0
	conf, _, err := readConfig(cfgFile)
	if err != nil {
		s.Failf("harness-panic", "initial config: %v", err)
		return
	}
	log := logrus.New()
	log.SetOutput(io.Discard)
	log.SetLevel(logrus.ErrorLevel)
	logrus.SetOutput(io.Discard)
	h.code = consts.ReloadDone
	verifsim.Go("run", func() {
		h.runErr = newRunner(log, conf, []string{h.dir}).Run()
		h.runDone = true
	})
	h.addEvents()
	if !h.runUntil(func() bool {
		p := control.VerifState.Planes
		return len(p) == 1 && p[0].Ready && len(h.hist) > 0
	}, 10*time.Minute) {
		if !h.stopped() {
			s.Failf("harness-panic", "dae did not start: %v", s.LiveTasks(""))
		}
		return
	}
	h.started, h.running = true, true
	if !h.settleTasks() {
		return
	}

	// --- workload
	for i := range h.plan.reqs {
		h.reqIdx = i
		if i > 0 && !h.awaitRetired(fmt.Sprintf("after request %d", i-1)) {
			break
		}
		if !h.issueFresh(i) {
			break
		}
	}
	if h.stopped() {
		return
	}
	if h.termSent {
		// early SIGTERM: dae must stop whatever it was doing
		if !h.runUntil(func() bool { return h.runDone }, 10*time.Minute) && !h.stopped() {
			h.failf("term-hang", "Run did not return after SIGTERM delivered during stage %q: %v", h.plan.termStage, s.LiveTasks("run#0"))
		}
		h.finish(false)
		return
	}
	// --- after the last fault: the final fault-free reload completed; final state
	h.reqIdx = len(h.plan.reqs)
	if !h.awaitRetired("after the final reload") || !h.checkIdle("after the final reload") {
		return
	}
	if r := h.recs[len(h.recs)-1]; r.code != consts.ReloadDone {
		h.failf("final-reload-failed", "the final fault-free reload did not complete OK: %s %q", rsCodeName(r.code), r.msg)
		return
	}
	tail := time.Duration(dialer.VerifReloadFailureQuiesce()) + time.Second
	h.running = false
	if !s.Quiesce(func() bool { return !dialer.VerifProxyFailureSuppressed() }, 0, tail) && !h.stopped() {
		h.failf("suppression-stuck", "node-failure reports are still muted %v after the last reload settled", tail)
		return
	}
	h.deliver(syscall.SIGTERM, false)
	if !h.runUntil(func() bool { return h.runDone }, 10*time.Minute) && !h.stopped() {
		h.failf("term-hang", "Run did not return after SIGTERM at idle: %v", s.LiveTasks("run#0"))
		return
	}
	h.finish(true)
	if os.Getenv("VERIF_C20_DEBUGFAIL") != "" {
		s.Failf("debug", "forced failure to obtain a logged replay file")
	}
}

// finish lets the reload worker end (it lives until process exit by design) and,
// after a clean run, checks that nothing else of Run is left.
func (h *rsHarness) finish(check bool) {
	if h.stopped() {
		return
	}
	if check && verifReloadReqs != nil && len(verifReloadReqs) == 0 {
		// only when the worker is known to be idle in its receive: after an early
		// SIGTERM it may be inside coalesceReloadRequest, which would spin on a closed
		// channel (the worker then simply stays parked; counted as a leftover bubble)
		close(verifReloadReqs)
	}
	h.running = false
	ok := h.s.Quiesce(func() bool { return len(h.s.LiveTasks("")) == 0 }, 0, 5*time.Minute)
	if check && !ok && !h.stopped() {
		h.failf("goroutine-leak", "goroutines of Run still alive after Run returned and 5 simulated minutes passed: %v", h.s.LiveTasks(""))
	}
}

var rsCur *rsHarness
var rsDir string

func rsReset() {
	if rsDir == "" {
		exe, err := os.Executable()
		if err != nil {
			panic(err)
		}
		rsDir = filepath.Join(filepath.Dir(exe), fmt.Sprintf("run.%d", os.Getpid()))
		if err := os.MkdirAll(rsDir, 0o700); err != nil {
			panic(err)
		}
	}
}

func TestSimC20(t *testing.T) {
	origSet, origGet := setRunSignalProgress, getRunSignalProgress
	defer func() {
		setRunSignalProgress, getRunSignalProgress = origSet, origGet
		if rsDir != "" {
			os.RemoveAll(rsDir)
		}
	}()
	verifsim.Main(t, verifsim.Engine{
		Prop: "C20", Name: "reload", MaxSteps: 8000, Scenario: rsScenario, Reset: rsReset,
		Real: []string{
			"cmd.Runner.Run: signal loop, reload worker with all failure branches, staged and full hand-off, serve-ready wait, shutdown (cmd/run.go, instrumented at every sync operation)",
			"cmd/reload_manager.go: admission flags, pending hand-off, retirement, pending release (instrumented)",
			"component/outbound/dialer/sticky_cache.go: Begin/EndReloadProxyFailureSuppression counter and quiesce tail (instrumented)",
			"config loading: config.Merger/config.New on a real file rewritten between valid, invalid and missing",
		},
		Stubs: []string{
			"package control: simulated (/verif/fakecontrol) — construction, listeners, Serve, Close, drain are scripted events",
			"OS signals: delivered by the simulator through the signal.Notify seam",
			"progress file: in-memory cell behind setRunSignalProgress/getRunSignalProgress; `dae reload` CLI modelled by the harness",
		},
		Rule: "tape draws 1-4 requests (reload/suspend, same port/new port) sent at quiescence, up to 3 raw SIGUSR1/2 per request aimed at a stage (queued, load, prepare, listener, handoff, retire), optional SIGHUP/SIGTERM, per-operation delays, and one injected failure per run (none, config, build, listener, serve, hand-off, retirement); the last request is always a fault-free reload; non-trivial = at least two schedulable options at some step or a fault fired; distinct = distinct (task,site|event) schedule hash",
	})
}
