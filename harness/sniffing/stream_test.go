package sniffing

// C06 (stream side, component level): ConnSniffer.SniffTcp driven directly over a
// simulated byte stream - no prefetch in front of it as in control.handleConn, so
// the sniffer's very first read may be any prefix of the hello (also exactly the
// 5-byte record header). The client cuts a real ClientHello / HTTP request head
// into writes with gaps from the tape (or trickles it), the simulated transport
// re-segments it; afterwards everything the sniffer hands on must be byte for
// byte what was sent.

import (
	"bytes"
	"crypto/tls"
	"errors"
	"fmt"
	"io"
	"net"
	"strings"
	"testing"
	"time"

	verifsim "github.com/daeuniverse/dae/internal/verifsim"
)

type stHello struct {
	kind string // tls-sni, tls-nosni, http, random
	name string // expected name ("" = none)
	data []byte
	hdr  int // bytes that must have arrived before recognition may be demanded (0 = never demanded)
}

var stCorpus []stHello

type stDetRand struct{ x uint64 }

func (r *stDetRand) Read(p []byte) (int, error) {
	for i := range p {
		r.x = r.x*6364136223846793005 + 1442695040888963407
		p[i] = byte(r.x >> 33)
	}
	return len(p), nil
}

func stClientHello(sni string, maxV uint16, alpn []string, seed uint64) []byte {
	c1, c2 := net.Pipe()
	defer c1.Close()
	defer c2.Close()
	cfg := &tls.Config{ServerName: sni, InsecureSkipVerify: true, MinVersion: tls.VersionTLS12, MaxVersion: maxV, NextProtos: alpn,
		Rand: &stDetRand{x: seed}, Time: func() time.Time { return time.Unix(1700000000, 0) }}
	go func() { _ = tls.Client(c1, cfg).Handshake() }()
	buf := make([]byte, 16384)
	_ = c2.SetReadDeadline(time.Now().Add(2 * time.Second))
	n, _ := c2.Read(buf)
	return append([]byte(nil), buf[:n]...)
}

func stSetup(t *testing.T) {
	if stCorpus != nil {
		return
	}
	add := func(kind, name string, data []byte, hdr int) {
		if len(data) == 0 {
			t.Fatalf("corpus entry %s empty", kind)
		}
		stCorpus = append(stCorpus, stHello{kind, name, data, hdr})
	}
	add("tls-sni", "www.example.com", stClientHello("www.example.com", tls.VersionTLS13, nil, 11), 5)
	add("tls-sni", "a.b.c.test-site.org", stClientHello("A.b.C.test-site.org", tls.VersionTLS13, []string{"h2", "http/1.1"}, 12), 5)
	add("tls-sni", "tls12.example.net", stClientHello("tls12.example.net", tls.VersionTLS12, nil, 13), 5)
	add("tls-nosni", "", stClientHello("", tls.VersionTLS13, nil, 14), 0)
	h := []byte("GET /index.html HTTP/1.1\r\nHost: Web.Example.ORG\r\nUser-Agent: sim\r\nAccept: */*\r\n\r\n")
	add("http", "web.example.org", h, len(h))
	add("random", "", []byte("SSH-2.0-OpenSSH_9.6\r\n\x00\x00\x01\x02binary-ish-start"), 0)
}

func streamScenario(s *verifsim.Sim) {
	T := s.T
	s.BusyMaxQ = 4
	timeout := []time.Duration{100 * time.Millisecond, 20 * time.Millisecond, 500 * time.Millisecond}[T.Choose(3)]
	h := stCorpus[T.Pick(3, 3, 3, 1, 2, 1)]
	tail := make([]byte, []int{0, 9, 700, 20000}[T.Choose(4)])
	for i := range tail {
		tail[i] = byte('A' + i%23)
	}
	sent := append(append([]byte(nil), h.data...), tail...)

	type op struct {
		data  []byte
		sleep time.Duration
	}
	var ops []op
	allAtOnce := true
	firstChunk := 0
	gaps := []time.Duration{0, 0, timeout / 4, 2 * timeout, 3 * time.Second}
	rest := h.data
	switch T.Pick(6, 2, 2) {
	case 1: // trickle: many small pieces, each within one timeout of the previous one
		n := T.Range(6, 12)
		step := len(rest) / (n + 1)
		if step < 1 {
			step = 1
		}
		first := []int{5, 5, 6, 11, 1, 3}[T.Choose(6)]
		if first > len(rest) {
			first = len(rest)
		}
		firstChunk = first
		ops = append(ops, op{data: rest[:first]})
		rest = rest[first:]
		for i := 0; i < n && len(rest) > step; i++ {
			ops = append(ops, op{sleep: timeout * 4 / 5}, op{data: rest[:step]})
			rest = rest[step:]
		}
		ops = append(ops, op{sleep: timeout * 4 / 5}, op{data: rest})
		allAtOnce = false
	case 2: // the record header alone (or a byte more / less), then the rest
		first := []int{5, 5, 6, 4, 1}[T.Choose(5)]
		if first > len(rest) {
			first = len(rest)
		}
		firstChunk = first
		ops = append(ops, op{data: rest[:first]}, op{sleep: gaps[T.Choose(len(gaps))]}, op{data: rest[first:]})
		allAtOnce = false
	default:
		cuts := T.Range(0, 3)
		for i := 0; i < cuts && len(rest) > 1; i++ {
			k := 1 + T.Choose(len(rest)-1)
			if firstChunk == 0 {
				firstChunk = k
			}
			ops = append(ops, op{data: rest[:k]})
			if g := gaps[T.Choose(len(gaps))]; g > 0 {
				ops = append(ops, op{sleep: g})
			}
			allAtOnce = false
			rest = rest[k:]
		}
		if firstChunk == 0 {
			firstChunk = len(rest)
		}
		ops = append(ops, op{data: rest})
	}
	if len(tail) > 0 {
		if T.Chance(1, 2) {
			ops = append(ops, op{sleep: gaps[T.Choose(len(gaps))]})
		}
		ops = append(ops, op{data: tail})
	}
	reset := T.Chance(1, 10) // the client goes away with an error somewhere in the middle
	// a client that ends its stream inside the hello: only a prefix is ever sent, then FIN
	// (right away, within the timeout, or after it). Nothing can be recognised; what was
	// consumed must still be handed on, followed by the end of stream.
	closeAfter := 2 * timeout
	truncated := false
	if !reset && T.Chance(1, 6) {
		truncated = true
		k := 1 + T.Choose(len(h.data)-1)
		if T.Chance(1, 2) && len(h.data) > 8 {
			k = 6 + T.Choose(len(h.data)-7) // inside the record body, header complete
		}
		sent = append([]byte(nil), h.data[:k]...)
		ops = ops[:0]
		if k > 2 && T.Chance(1, 2) {
			c := 1 + T.Choose(k-1)
			ops = append(ops, op{data: sent[:c]}, op{sleep: gaps[T.Choose(len(gaps))]}, op{data: sent[c:]})
			firstChunk = c
		} else {
			ops = append(ops, op{data: sent})
			firstChunk = k
		}
		allAtOnce = false
		closeAfter = []time.Duration{0, timeout / 4, 2 * timeout}[T.Choose(3)]
		s.Fault("client-fin-inside-hello")
	}

	cli, srv := verifsim.NewStreamPair(s, "client", "sniffed")
	conn := &verifsim.StreamNetConn{StreamEnd: srv, Local: &net.TCPAddr{IP: net.IPv4(93, 184, 216, 34), Port: 443}, Remote: &net.TCPAddr{IP: net.IPv4(10, 1, 2, 3), Port: 40000}}

	var tCreate, tRet time.Duration = -1, -1
	var starvedAtRet time.Duration
	var name string
	var sniffErr error
	var got []byte
	var readErr error
	sniffDone, allDone, cliDone := false, false, false
	firstDelivered, allDelivered := time.Duration(-1), time.Duration(-1)
	firstSize := 0
	s.Invariant = func() {
		n := srv.ReadTotal + srv.Unread()
		if n > 0 && firstDelivered < 0 {
			firstDelivered, firstSize = s.Now(), n
		}
		if n >= len(h.data) && allDelivered < 0 {
			allDelivered = s.Now()
		}
	}
	verifsim.Go("client", func() {
		defer func() { cliDone = true }()
		for i, o := range ops {
			if o.sleep > 0 {
				time.Sleep(o.sleep)
				verifsim.YieldB("client-woke")
			}
			if len(o.data) > 0 {
				if _, err := cli.Write(o.data); err != nil {
					return
				}
			}
			if reset && i == len(ops)/2 {
				s.Fault("client-reset")
				cli.Reset(errors.New("read: connection reset by peer"))
				return
			}
		}
		// keep the connection open a little, then end the stream
		if closeAfter > 0 {
			time.Sleep(closeAfter)
			verifsim.YieldB("client-woke")
		}
		cli.CloseWrite()
	})
	verifsim.Go("sniff", func() {
		defer func() { allDone = true }()
		tCreate = s.Now()
		sn := NewConnSniffer(conn, timeout)
		defer sn.Close()
		name, sniffErr = sn.SniffTcp()
		tRet = s.Now()
		starvedAtRet = s.Starved(verifsim.TaskName())
		sniffDone = true
		got, readErr = io.ReadAll(sn)
	})
	if !s.RunUntil(func() bool { return allDone && cliDone }, 8) {
		if s.Failed() {
			return
		}
		if !sniffDone && s.Now()-tCreate > 5*timeout+10*time.Second {
			s.Failf("c06-stream-sniff-never-returns", "timeout=%v hello=%s: SniffTcp has not returned %v after the sniffer was created", timeout, h.kind, s.Now()-tCreate)
			return
		}
		// bounded liveness: SniffTcp has returned, the client has written everything and ended
		// its stream, every byte has been delivered to dae's side - reading what the sniffer
		// hands on must come to the end of stream; a minute of simulated time is far beyond
		// any window the sniffer has
		if sniffDone && cliDone && !reset && cli.InFlight() == 0 && srv.Unread() == 0 && s.Now()-tRet > time.Minute {
			s.Failf("c06-stream-read-blocked-after-sniff", "timeout=%v hello=%s truncated=%v: SniffTcp returned (%q, %v) at %v and the client ended its stream, but reading the connection through the sniffer has still not finished at %v (%d bytes sent); live tasks: %v", timeout, h.kind, truncated, name, sniffErr, tRet, s.Now(), len(sent), s.LiveTasks(""))
			return
		}
		s.Probe("step-budget-exhausted")
		cli.Close()
		srv.Close()
		s.Quiesce(func() bool { return allDone && cliDone }, 0, time.Minute)
		return
	}
	desc := fmt.Sprintf("timeout=%v hello=%s (%d bytes, first write %d, first delivery %d bytes at %v, complete at %v) reset=%v truncated=%v (%d bytes sent in all, end of stream %v after the last write)", timeout, h.kind, len(h.data), firstChunk, firstSize, firstDelivered, allDelivered, reset, truncated, len(sent), closeAfter)
	// never waits past its timeout
	slack := timeout / 4
	if slack < 5*time.Millisecond {
		slack = 5 * time.Millisecond
	}
	if held := tRet - tCreate - starvedAtRet; held > timeout+slack {
		s.Failf("c06-stream-sniff-overrun", "%s: SniffTcp held the connection for %v (not counting %v during which the simulator did not schedule it), its timeout is %v", desc, held, starvedAtRet, timeout)
		return
	}
	// never another name than the one carried
	if sniffErr == nil && h.kind == "http" && name != "" && len(name) < len(h.name) && strings.EqualFold(name, h.name[:len(name)]) {
		s.Failf("c06-wrong-name@truncated-http-host", "%s: sniffed %q: the HTTP request head was cut inside its Host line and the sniffer took the partial value for the name (the head carries %q)", desc, name, h.name)
		return
	}
	if truncated && sniffErr == nil && name != "" && !(h.kind == "http" && strings.EqualFold(name, h.name)) {
		s.Failf("c06-stream-wrong-name", "%s: sniffed %q from a hello of which only the first %d bytes were ever sent", desc, name, len(sent))
		return
	}
	if !truncated && sniffErr == nil && !strings.EqualFold(name, h.name) {
		s.Failf("c06-stream-wrong-name", "%s: sniffed %q, the bytes carry %q", desc, name, h.name)
		return
	}
	if sniffErr == nil && name != "" {
		s.Probe("stream.name-found")
	}
	// recognised however it is cut, once the record header has arrived and the rest follows within the timeout
	if !reset && !truncated && h.name != "" && h.hdr > 0 && sniffErr != nil &&
		firstChunk >= h.hdr && firstSize >= h.hdr && firstDelivered >= 0 && allDelivered >= 0 &&
		allDelivered-tCreate < timeout/2 && (h.kind != "http" || (allAtOnce && firstSize >= len(h.data))) {
		s.Failf("c06-stream-name-missed", "%s: the whole %s reached the sniffer %v after it was created (timeout %v), yet SniffTcp returned %v", desc, h.kind, allDelivered-tCreate, timeout, sniffErr)
		return
	}
	// whatever the outcome: what is handed on is byte for byte what the client sent
	if !reset {
		if readErr != nil {
			s.Failf("c06-stream-unusable-after-sniff", "%s: reading the connection after sniffing (result %q, %v) failed: %v after %d of %d bytes", desc, name, sniffErr, readErr, len(got), len(sent))
			return
		}
		if !bytes.Equal(got, sent) {
			d := 0
			for d < len(got) && d < len(sent) && got[d] == sent[d] {
				d++
			}
			s.Failf("c06-stream-data-altered", "%s: after sniffing (result %q, %v) the connection delivered %d bytes, the client sent %d; first difference at %d", desc, name, sniffErr, len(got), len(sent), d)
			return
		}
		if firstSize == 5 && h.kind == "tls-sni" {
			s.Probe("stream.first-read-is-the-record-header")
		}
	} else if len(got) > len(sent) || !bytes.Equal(got, sent[:len(got)]) {
		s.Failf("c06-stream-data-altered", "%s: after a client reset the connection delivered %d bytes that are not a prefix of what was sent", desc, len(got))
	}
}

func TestSimC06Stream(t *testing.T) {
	stSetup(t)
	verifsim.Main(t, verifsim.Engine{
		Prop: "C06", Name: "streamsniff", MaxSteps: 6000, Scenario: streamScenario,
		Real:  []string{"component/sniffing ConnSniffer / Sniffer stream path used directly (NewConnSniffer, SniffTcp, Read, Close; SniffTls, SniffHttp, extractSniFromTls), instrumented at every synchronisation operation"},
		Stubs: []string{"the byte stream: a simulated connection (re-segmentation, gaps, reset by the tape); control.handleConn's prefetch and relay are not in front of / behind the sniffer here (they are in the relay engine)"},
		Rule:  "tape draws sniffing timeout, one of 6 first-byte corpora (3 TLS hellos with SNI, one without, HTTP/1 head, non-TLS bytes), how it is cut (1-4 writes with gaps around the timeout; record header alone then the rest; trickle of 6-12 pieces), a tail of 0-20000 bytes, client reset; non-trivial = at least two schedulable options at some step",
	})
}
