package sniffing

// C06 (datagram side): QUIC Initial sniffing over simulated datagram delivery.
// A real TLS-over-QUIC ClientHello (crypto/tls QUIC API) is packed into Initial
// packets by an encoder written here from RFC 9000/9001/9369 (independent of the
// repo's decoder), its CRYPTO stream cut / reordered / padded / spread over
// datagrams from the tape; the simulated network reorders, duplicates and drops
// datagrams. The packet sniffer is driven exactly as control/udp.go drives it.

import (
	"bytes"
	"context"
	"crypto/aes"
	"crypto/cipher"
	"crypto/hkdf"
	"crypto/sha256"
	"crypto/tls"
	"fmt"
	"strings"
	"testing"
	"time"

	verifsim "github.com/daeuniverse/dae/internal/verifsim"
)

type qDetRand struct{ x uint64 }

func (r *qDetRand) Read(p []byte) (int, error) {
	for i := range p {
		r.x = r.x*6364136223846793005 + 1442695040888963407
		p[i] = byte(r.x >> 33)
	}
	return len(p), nil
}

type qHello struct {
	name string
	data []byte
}

var qCorpus []qHello

func qSetup(t *testing.T) {
	if qCorpus != nil {
		return
	}
	for i, name := range []string{"quic.example.com", "a-very-long-subdomain-label-for-testing.cdn.example-service.net", ""} {
		cfg := &tls.Config{ServerName: name, InsecureSkipVerify: true, MinVersion: tls.VersionTLS13, NextProtos: []string{"h3"},
			Rand: &qDetRand{x: uint64(i + 7)}, Time: func() time.Time { return time.Unix(1700000000, 0) }}
		c := tls.QUICClient(&tls.QUICConfig{TLSConfig: cfg})
		c.SetTransportParameters(bytes.Repeat([]byte{0x01, 0x02, 0x43, 0xe8}, 6+10*i))
		if err := c.Start(context.Background()); err != nil {
			t.Fatalf("quic client start: %v", err)
		}
		var hello []byte
		for {
			ev := c.NextEvent()
			if ev.Kind == tls.QUICNoEvent {
				break
			}
			if ev.Kind == tls.QUICWriteData && ev.Level == tls.QUICEncryptionLevelInitial {
				hello = append(hello, ev.Data...)
			}
		}
		c.Close()
		if len(hello) < 100 {
			t.Fatalf("no ClientHello produced for %q", name)
		}
		qCorpus = append(qCorpus, qHello{strings.ToLower(name), hello})
	}
}

// ---- RFC 9000/9001/9369 Initial packet encoder --------------------------------

func qVarint(b []byte, v uint64) []byte {
	switch {
	case v < 1<<6:
		return append(b, byte(v))
	case v < 1<<14:
		return append(b, byte(v>>8)|0x40, byte(v))
	case v < 1<<30:
		return append(b, byte(v>>24)|0x80, byte(v>>16), byte(v>>8), byte(v))
	default:
		return append(b, byte(v>>56)|0xc0, byte(v>>48), byte(v>>40), byte(v>>32), byte(v>>24), byte(v>>16), byte(v>>8), byte(v))
	}
}

func qExpandLabel(secret []byte, label string, n int) []byte {
	full := "tls13 " + label
	info := []byte{byte(n >> 8), byte(n), byte(len(full))}
	info = append(info, full...)
	info = append(info, 0)
	out, err := hkdf.Expand(sha256.New, secret, string(info), n)
	if err != nil {
		panic(err)
	}
	return out
}

type qKeys struct{ key, iv, hp []byte }

func qInitialKeys(version uint32, dcid []byte) qKeys {
	salt := []byte{0x38, 0x76, 0x2c, 0xf7, 0xf5, 0x59, 0x34, 0xb3, 0x4d, 0x17, 0x9a, 0xe6, 0xa4, 0xc8, 0x0c, 0xad, 0xcc, 0xbb, 0x7f, 0x0a}
	kl, il, hl := "quic key", "quic iv", "quic hp"
	if version == 0x6b3343cf {
		salt = []byte{0x0d, 0xed, 0xe3, 0xde, 0xf7, 0x00, 0xa6, 0xdb, 0x81, 0x93, 0x81, 0xbe, 0x6e, 0x26, 0x9d, 0xcb, 0xf9, 0xbd, 0x2e, 0xd9}
		kl, il, hl = "quicv2 key", "quicv2 iv", "quicv2 hp"
	}
	initial, err := hkdf.Extract(sha256.New, dcid, salt)
	if err != nil {
		panic(err)
	}
	client := qExpandLabel(initial, "client in", 32)
	return qKeys{qExpandLabel(client, kl, 16), qExpandLabel(client, il, 12), qExpandLabel(client, hl, 16)}
}

// qInitial builds one protected Initial packet carrying the given frames.
func qInitial(version uint32, dcid, scid []byte, pn uint32, pnLen int, frames []byte, minSize int) []byte {
	k := qInitialKeys(version, dcid)
	typ := byte(0) // Initial in v1
	if version == 0x6b3343cf {
		typ = 1 // RFC 9369: Initial is 0b01 in v2
	}
	first := byte(0x80|0x40) | typ<<4 | byte(pnLen-1)
	hdr := []byte{first, byte(version >> 24), byte(version >> 16), byte(version >> 8), byte(version)}
	hdr = append(hdr, byte(len(dcid)))
	hdr = append(hdr, dcid...)
	hdr = append(hdr, byte(len(scid)))
	hdr = append(hdr, scid...)
	hdr = qVarint(hdr, 0) // token length
	payload := append([]byte(nil), frames...)
	// pad (PADDING frames = 0x00) so that the packet is at least minSize and the sample exists
	for len(hdr)+2+pnLen+len(payload)+16 < minSize || len(payload)+pnLen < 4+16 {
		payload = append(payload, 0)
	}
	length := pnLen + len(payload) + 16
	lb := []byte{byte(length>>8) | 0x40, byte(length)} // always 2-byte varint
	hdr = append(hdr, lb...)
	pnOff := len(hdr)
	for i := pnLen - 1; i >= 0; i-- {
		hdr = append(hdr, byte(pn>>(8*i)))
	}
	block, _ := aes.NewCipher(k.key)
	aead, _ := cipher.NewGCM(block)
	nonce := append([]byte(nil), k.iv...)
	for i := 0; i < 4; i++ {
		nonce[len(nonce)-1-i] ^= byte(pn >> (8 * i))
	}
	ct := aead.Seal(nil, nonce, payload, hdr)
	pkt := append(append([]byte(nil), hdr...), ct...)
	// header protection
	sample := pkt[pnOff+4 : pnOff+4+16]
	hpb, _ := aes.NewCipher(k.hp)
	mask := make([]byte, 16)
	hpb.Encrypt(mask, sample)
	pkt[0] ^= mask[0] & 0x0f
	for i := 0; i < pnLen; i++ {
		pkt[pnOff+i] ^= mask[1+i]
	}
	return pkt
}

func qCryptoFrame(off int, data []byte) []byte {
	f := []byte{0x06}
	f = qVarint(f, uint64(off))
	f = qVarint(f, uint64(len(data)))
	return append(f, data...)
}

// ---- scenario -----------------------------------------------------------------

func quicScenario(s *verifsim.Sim) {
	T := s.T
	h := qCorpus[T.Choose(len(qCorpus))]
	version := uint32(1)
	if T.Chance(1, 6) {
		version = 0x6b3343cf
	}
	dcid := make([]byte, []int{8, 8, 12, 20}[T.Choose(4)])
	for i := range dcid {
		dcid[i] = byte(0x30 + i*7 + T.Choose(3))
	}
	scid := []byte{1, 2, 3, 4}
	// cut the CRYPTO stream into 1..6 pieces
	nCuts := T.Choose(6)
	cuts := []int{0, len(h.data)}
	for i := 0; i < nCuts; i++ {
		c := 1 + T.Choose(len(h.data)-1)
		dup := false
		for _, x := range cuts {
			if x == c {
				dup = true
			}
		}
		if !dup {
			cuts = append(cuts, c)
		}
	}
	for i := range cuts { // insertion sort
		for j := i; j > 0 && cuts[j] < cuts[j-1]; j-- {
			cuts[j], cuts[j-1] = cuts[j-1], cuts[j]
		}
	}
	type piece struct{ off, end int }
	var pieces []piece
	for i := 0; i+1 < len(cuts); i++ {
		pieces = append(pieces, piece{cuts[i], cuts[i+1]})
	}
	// permute the pieces (frame order inside / across packets)
	if T.Chance(1, 2) {
		for i := len(pieces) - 1; i > 0; i-- {
			j := T.Choose(i + 1)
			pieces[i], pieces[j] = pieces[j], pieces[i]
		}
	}
	// distribute over 1..4 packets
	nPk := 1 + T.Choose(4)
	if nPk > len(pieces) {
		nPk = len(pieces)
	}
	perPk := make([][]byte, nPk)
	for i, p := range pieces {
		k := i * nPk / len(pieces)
		if T.Chance(1, 4) {
			perPk[k] = append(perPk[k], 0x01) // PING
		}
		if T.Chance(1, 4) {
			perPk[k] = append(perPk[k], make([]byte, 1+T.Choose(20))...) // PADDING between frames
		}
		perPk[k] = append(perPk[k], qCryptoFrame(p.off, h.data[p.off:p.end])...)
	}
	var dgrams [][]byte
	pn := uint32(T.Choose(3))
	for k := 0; k < nPk; k++ {
		minSize := 1200
		if T.Chance(1, 3) {
			minSize = 0
		}
		dgrams = append(dgrams, qInitial(version, dcid, scid, pn, 1+T.Choose(4), perPk[k], minSize))
		pn += 1 + uint32(T.Choose(2))
	}
	// coalesce two Initial packets into one datagram sometimes
	if len(dgrams) >= 2 && T.Chance(1, 5) {
		dgrams[0] = append(dgrams[0], dgrams[1]...)
		dgrams = append(dgrams[:1], dgrams[2:]...)
		s.Probe("quic.coalesced-initials")
	}
	// the network: reorder, duplicate, drop
	order := make([]int, len(dgrams))
	for i := range order {
		order[i] = i
	}
	if T.Chance(1, 3) {
		for i := len(order) - 1; i > 0; i-- {
			j := T.Choose(i + 1)
			order[i], order[j] = order[j], order[i]
		}
		s.Fault("datagram-reorder")
	}
	lost := -1
	if len(order) > 1 && T.Chance(1, 8) {
		lost = T.Choose(len(order))
		s.Fault("datagram-loss")
	}
	var seq [][]byte
	for i, k := range order {
		if i == lost {
			continue
		}
		seq = append(seq, dgrams[k])
		if T.Chance(1, 8) {
			seq = append(seq, dgrams[k])
			s.Fault("datagram-duplicate")
		}
	}
	bitflip := T.Chance(1, 10)
	if bitflip && len(seq) > 0 {
		d := append([]byte(nil), seq[T.Choose(len(seq))]...)
		d[20+T.Choose(len(d)-20)] ^= 1 << uint(T.Choose(8))
		seq[T.Choose(len(seq))] = d
		s.Fault("datagram-bitflip")
	}

	// ---- drive the sniffer the way control/udp.go does
	sn := NewPacketSniffer(nil, 300*time.Millisecond)
	defer sn.Close()
	var ingress [][]byte
	found := ""
	for i, d := range seq {
		if !IsLikelyQuicInitialPacket(d) {
			// udp.go forwards such datagrams without sniffing
			s.Failf("c06-quic-initial-not-recognised", "datagram %d of a QUIC (version %#x) Initial flight is not taken for a QUIC Initial packet", i, version)
			return
		}
		s.SeqStep("datagram", fmt.Sprintf("%d/%d len=%d", i+1, len(seq), len(d)), true)
		pristine := append([]byte(nil), d...)
		ingress = append(ingress, pristine)
		var name string
		var err error
		func() {
			defer func() {
				if r := recover(); r != nil {
					s.Failf("c06-quic-panic", "sniffer panicked on datagram %d: %v", i, r)
				}
			}()
			sn.AppendData(d)
			name, err = sn.SniffUdp()
		}()
		if s.Failed() {
			return
		}
		if name != "" && name != h.name {
			s.Failf("c06-quic-wrong-name", "sniffer reported %q but the Initial flight carries %q", name, h.name)
			return
		}
		// the buffered datagrams must be handed on unaltered and in ingress order
		data := sn.Data()
		if len(data) != len(ingress)+1 {
			s.Failf("c06-quic-data-count", "after %d datagrams Sniffer.Data() holds %d entries (expected the initial empty one plus %d)", len(ingress), len(data), len(ingress))
			return
		}
		for k := range ingress {
			if !bytes.Equal(data[k+1], ingress[k]) {
				s.Failf("c06-quic-data-altered", "buffered datagram %d differs from what was received (first difference at byte %d of %d)", k, qFirstDiff(data[k+1], ingress[k]), len(ingress[k]))
				return
			}
		}
		if name != "" {
			found = name
			_ = err
			break
		}
		if !sn.NeedMore() {
			break // sniffing gave up (not found / not applicable): udp.go forwards everything now
		}
	}
	complete := lost < 0 && !bitflip
	if complete && h.name != "" && found == "" {
		s.Failf("c06-quic-name-missed", "all %d datagrams of a well-formed QUIC Initial flight (%d CRYPTO pieces over %d packets, reordered=%v) were delivered, yet no name was found (carried: %q)", len(seq), len(pieces), nPk, fmt.Sprint(order), h.name)
		return
	}
	if found != "" {
		s.Probe("quic.name-found")
		if version != 1 {
			s.Probe("quic.name-found-v2")
		}
	}
	if h.name == "" {
		s.Probe("quic.no-sni-hello")
	}
}

func qFirstDiff(a, b []byte) int {
	n := len(a)
	if len(b) < n {
		n = len(b)
	}
	for i := 0; i < n; i++ {
		if a[i] != b[i] {
			return i
		}
	}
	return n
}

func TestSimC06Quic(t *testing.T) {
	qSetup(t)
	verifsim.Main(t, verifsim.Engine{
		Prop: "C06", Name: "quicsniff", NoBubble: true, Scenario: quicScenario,
		Real:  []string{"component/sniffing packet sniffer: NewPacketSniffer, AppendData, SniffUdp, SniffQuic, NeedMore, Data; internal/quicutils (key derivation, header unprotect, AEAD, CRYPTO reassembly); extractSniFromTls"},
		Stubs: []string{"control/udp.go handlePkt and the packet sniffer session pool are not run: the harness repeats its AppendData/SniffUdp/NeedMore/Data protocol; QUIC Initial packets come from an encoder written in the harness from RFC 9000/9001/9369, ClientHellos from crypto/tls's QUIC API"},
		Rule:  "tape draws hello (2 names + no SNI), QUIC version (v1, rarely v2), DCID length, 1-7 CRYPTO pieces, their order, PING/PADDING insertion, 1-4 packets, packet number lengths, padding to 1200, coalescing; network faults: datagram reorder, loss, duplicate, bit flip; sequential engine (no goroutines to schedule): non-trivial = at least one datagram processed, distinct = distinct sequence of (datagram index, length)",
	})
}
