package control

// kernsim client: drives the natively compiled control/kern/tproxy.c
// (kernsim.bin, built at check time from the working tree) over a pipe.
// One child process per test process, reset between runs; a sanitizer report
// or crash of the child is surfaced to the scenario as ksDead.

import (
	"bytes"
	"encoding/binary"
	"fmt"
	"io"
	"os"
	"os/exec"
	"regexp"
	"strings"
	"sync"
)

const (
	ksOpHello = iota + 1
	ksOpReset
	ksOpSetMaxEnt
	ksOpMapPut
	ksOpMapGet
	ksOpMapDel
	ksOpMapDump
	ksOpMapClear
	ksOpInnerSet
	ksOpInnerDel
	ksOpSetParam
	ksOpSetTime
	ksOpSetFault
	ksOpRun
	ksOpRoute
	ksOpSnapshot
	ksOpRestore
	ksOpDigest
	ksOpRunCg
	ksOpInnerDump
)

type ksMapInfo struct {
	Idx                  int
	Name                 string
	Type                 uint32
	KeySize, ValueSize   uint32
	MaxEntries           uint32
	InKey, InValue, InMax uint32
}

type ksProgInfo struct {
	Idx  int
	Name string
	Sec  string
	Kind uint32
}

type ksClient struct {
	cmd     *exec.Cmd
	in      io.WriteCloser
	out     io.ReadCloser
	stderr  *ksTail
	dead    bool
	deadMsg string

	Maps     map[string]*ksMapInfo
	MapList  []*ksMapInfo
	Progs    map[string]*ksProgInfo
	ParamSize, RoutingResultSize uint32
	ActOK, ActShot, ActRedirect, ActPipe int32
}

// ksTail keeps the last bytes the child wrote to stderr (sanitizer reports).
type ksTail struct {
	mu  sync.Mutex
	buf []byte
}

func (t *ksTail) Write(p []byte) (int, error) {
	t.mu.Lock()
	t.buf = append(t.buf, p...)
	if len(t.buf) > 16384 {
		t.buf = t.buf[len(t.buf)-16384:]
	}
	t.mu.Unlock()
	return len(p), nil
}

func (t *ksTail) String() string {
	t.mu.Lock()
	defer t.mu.Unlock()
	return string(t.buf)
}

var ksHexAddr = regexp.MustCompile(`0x[0-9a-f]{6,}|BuildId: [0-9a-f]+|==[0-9]+==`)

var ksShared *ksClient

// ksGet returns the (possibly restarted) shared simulator process.
func ksGet() (*ksClient, error) {
	if ksShared != nil && !ksShared.dead {
		return ksShared, nil
	}
	if ksShared != nil {
		ksShared.kill()
	}
	c, err := ksStart()
	if err != nil {
		return nil, err
	}
	ksShared = c
	return c, nil
}

func ksStart() (*ksClient, error) {
	if _, err := os.Stat(verifKernsimBin); err != nil {
		return nil, fmt.Errorf("kernsim binary missing: %w", err)
	}
	cmd := exec.Command(verifKernsimBin)
	cmd.Env = append(os.Environ(), "ASAN_OPTIONS=detect_leaks=0:abort_on_error=0:exitcode=86:allocator_may_return_null=1",
		"UBSAN_OPTIONS=print_stacktrace=1:halt_on_error=1:exitcode=87")
	in, err := cmd.StdinPipe()
	if err != nil {
		return nil, err
	}
	out, err := cmd.StdoutPipe()
	if err != nil {
		return nil, err
	}
	tail := &ksTail{}
	cmd.Stderr = tail
	if err := cmd.Start(); err != nil {
		return nil, err
	}
	c := &ksClient{cmd: cmd, in: in, out: out, stderr: tail, Maps: map[string]*ksMapInfo{}, Progs: map[string]*ksProgInfo{}}
	r, err := c.call([]byte{ksOpHello})
	if err != nil {
		return nil, fmt.Errorf("kernsim hello: %w", err)
	}
	rd := &ksReader{b: r}
	rd.i32()
	nm := int(rd.u32())
	for i := 0; i < nm; i++ {
		m := &ksMapInfo{Idx: i, Name: rd.str()}
		m.Type, m.KeySize, m.ValueSize, m.MaxEntries = rd.u32(), rd.u32(), rd.u32(), rd.u32()
		m.InKey, m.InValue, m.InMax = rd.u32(), rd.u32(), rd.u32()
		c.Maps[m.Name] = m
		c.MapList = append(c.MapList, m)
	}
	np := int(rd.u32())
	for i := 0; i < np; i++ {
		p := &ksProgInfo{Idx: i, Name: rd.str()}
		p.Sec = rd.str()
		p.Kind = rd.u32()
		c.Progs[p.Name] = p
	}
	c.ParamSize, c.RoutingResultSize = rd.u32(), rd.u32()
	c.ActOK, c.ActShot, c.ActRedirect, c.ActPipe = rd.i32(), rd.i32(), rd.i32(), rd.i32()
	if rd.err != nil {
		return nil, fmt.Errorf("kernsim hello: short reply")
	}
	return c, nil
}

func (c *ksClient) kill() {
	if c.cmd != nil && c.cmd.Process != nil {
		c.in.Close()
		c.cmd.Process.Kill()
		c.cmd.Wait()
	}
	c.dead = true
}

func (c *ksClient) markDead(err error) {
	c.dead = true
	c.in.Close()
	werr := c.cmd.Wait()
	rep := c.stderr.String()
	c.deadMsg = fmt.Sprintf("kernsim process died (%v, exit: %v)\n%s", err, werr, ksSanitizerSummary(rep))
}

// ksSanitizerSummary strips addresses and pids so that the message is stable across processes.
func ksSanitizerSummary(rep string) string {
	var keep []string
	for _, l := range strings.Split(rep, "\n") {
		if strings.Contains(l, "ERROR: AddressSanitizer") || strings.Contains(l, "runtime error:") ||
			strings.Contains(l, "SUMMARY:") || strings.HasPrefix(strings.TrimSpace(l), "#") || strings.HasPrefix(l, "kernsim:") {
			if i := strings.Index(l, "==ERROR"); i >= 0 {
				l = l[i+2:]
			}
			keep = append(keep, ksHexAddr.ReplaceAllString(l, "0x?"))
		}
		if len(keep) > 14 {
			break
		}
	}
	if len(keep) == 0 && len(rep) > 600 {
		return rep[len(rep)-600:]
	}
	if len(keep) == 0 {
		return rep
	}
	return strings.Join(keep, "\n")
}

func (c *ksClient) call(payload []byte) ([]byte, error) {
	if c.dead {
		return nil, fmt.Errorf("kernsim dead: %s", c.deadMsg)
	}
	var hdr [4]byte
	binary.LittleEndian.PutUint32(hdr[:], uint32(len(payload)))
	if _, err := c.in.Write(append(hdr[:], payload...)); err != nil {
		c.markDead(err)
		return nil, fmt.Errorf("%s", c.deadMsg)
	}
	if _, err := io.ReadFull(c.out, hdr[:]); err != nil {
		c.markDead(err)
		return nil, fmt.Errorf("%s", c.deadMsg)
	}
	n := binary.LittleEndian.Uint32(hdr[:])
	buf := make([]byte, n)
	if _, err := io.ReadFull(c.out, buf); err != nil {
		c.markDead(err)
		return nil, fmt.Errorf("%s", c.deadMsg)
	}
	return buf, nil
}

type ksReader struct {
	b   []byte
	pos int
	err error
}

func (r *ksReader) take(n int) []byte {
	if r.pos+n > len(r.b) {
		r.err = io.ErrUnexpectedEOF
		return make([]byte, n)
	}
	p := r.b[r.pos : r.pos+n]
	r.pos += n
	return p
}
func (r *ksReader) u8() uint8   { return r.take(1)[0] }
func (r *ksReader) u32() uint32 { return binary.LittleEndian.Uint32(r.take(4)) }
func (r *ksReader) i32() int32  { return int32(r.u32()) }
func (r *ksReader) u64() uint64 { return binary.LittleEndian.Uint64(r.take(8)) }
func (r *ksReader) str() string { n := int(r.u8()); return string(r.take(n)) }

type ksWriter struct{ bytes.Buffer }

func (w *ksWriter) u8(v uint8)   { w.WriteByte(v) }
func (w *ksWriter) u32(v uint32) { var b [4]byte; binary.LittleEndian.PutUint32(b[:], v); w.Write(b[:]) }
func (w *ksWriter) i32(v int32)  { w.u32(uint32(v)) }
func (w *ksWriter) u64(v uint64) { var b [8]byte; binary.LittleEndian.PutUint64(b[:], v); w.Write(b[:]) }

func (c *ksClient) simple(w *ksWriter) (int32, *ksReader, error) {
	r, err := c.call(w.Bytes())
	if err != nil {
		return 0, nil, err
	}
	rd := &ksReader{b: r}
	st := rd.i32()
	return st, rd, nil
}

func (c *ksClient) Reset() error {
	w := &ksWriter{}
	w.u8(ksOpReset)
	_, _, err := c.simple(w)
	return err
}

func (c *ksClient) SetMaxEntries(m *ksMapInfo, n uint32) error {
	w := &ksWriter{}
	w.u8(ksOpSetMaxEnt)
	w.u32(uint32(m.Idx))
	w.u32(n)
	_, _, err := c.simple(w)
	return err
}

func (c *ksClient) MapPut(m *ksMapInfo, key, val []byte) (int32, error) {
	if len(key) != int(m.KeySize) || len(val) != int(m.ValueSize) {
		return 0, fmt.Errorf("MapPut %s: key/value size %d/%d, map wants %d/%d", m.Name, len(key), len(val), m.KeySize, m.ValueSize)
	}
	w := &ksWriter{}
	w.u8(ksOpMapPut)
	w.u32(uint32(m.Idx))
	w.Write(key)
	w.Write(val)
	w.u64(0)
	st, _, err := c.simple(w)
	return st, err
}

func (c *ksClient) MapGet(m *ksMapInfo, key []byte) ([]byte, bool, error) {
	w := &ksWriter{}
	w.u8(ksOpMapGet)
	w.u32(uint32(m.Idx))
	w.Write(key)
	st, rd, err := c.simple(w)
	if err != nil || st != 0 {
		return nil, false, err
	}
	return append([]byte(nil), rd.take(int(m.ValueSize))...), true, rd.err
}

func (c *ksClient) MapDel(m *ksMapInfo, key []byte) (int32, error) {
	w := &ksWriter{}
	w.u8(ksOpMapDel)
	w.u32(uint32(m.Idx))
	w.Write(key)
	st, _, err := c.simple(w)
	return st, err
}

func (c *ksClient) MapClear(m *ksMapInfo) error {
	w := &ksWriter{}
	w.u8(ksOpMapClear)
	w.u32(uint32(m.Idx))
	_, _, err := c.simple(w)
	return err
}

type ksKV struct{ K, V []byte }

func (c *ksClient) MapDump(m *ksMapInfo) ([]ksKV, error) {
	w := &ksWriter{}
	w.u8(ksOpMapDump)
	w.u32(uint32(m.Idx))
	_, rd, err := c.simple(w)
	if err != nil {
		return nil, err
	}
	n := int(rd.u32())
	out := make([]ksKV, 0, n)
	for i := 0; i < n; i++ {
		k := append([]byte(nil), rd.take(int(m.KeySize))...)
		v := append([]byte(nil), rd.take(int(m.ValueSize))...)
		out = append(out, ksKV{k, v})
	}
	return out, rd.err
}

func (c *ksClient) RingRecords(m *ksMapInfo) (uint32, error) {
	w := &ksWriter{}
	w.u8(ksOpMapDump)
	w.u32(uint32(m.Idx))
	_, rd, err := c.simple(w)
	if err != nil {
		return 0, err
	}
	return rd.u32(), rd.err
}

func (c *ksClient) InnerSet(outer *ksMapInfo, slot uint32, ents []ksKV) (int32, error) {
	w := &ksWriter{}
	w.u8(ksOpInnerSet)
	w.u32(uint32(outer.Idx))
	w.u32(slot)
	w.u32(uint32(len(ents)))
	for _, e := range ents {
		if len(e.K) != int(outer.InKey) || len(e.V) != int(outer.InValue) {
			return 0, fmt.Errorf("InnerSet: entry size %d/%d, template wants %d/%d", len(e.K), len(e.V), outer.InKey, outer.InValue)
		}
		w.Write(e.K)
		w.Write(e.V)
	}
	st, _, err := c.simple(w)
	return st, err
}

func (c *ksClient) InnerDel(outer *ksMapInfo, slot uint32) (int32, error) {
	w := &ksWriter{}
	w.u8(ksOpInnerDel)
	w.u32(uint32(outer.Idx))
	w.u32(slot)
	st, _, err := c.simple(w)
	return st, err
}

func (c *ksClient) InnerSlots(outer *ksMapInfo) (map[uint32][]ksKV, error) {
	w := &ksWriter{}
	w.u8(ksOpInnerDump)
	w.u32(uint32(outer.Idx))
	_, rd, err := c.simple(w)
	if err != nil {
		return nil, err
	}
	out := map[uint32][]ksKV{}
	n := int(rd.u32())
	for i := 0; i < n; i++ {
		slot := rd.u32()
		cnt := int(rd.u32())
		ents := make([]ksKV, 0, cnt)
		for j := 0; j < cnt; j++ {
			k := append([]byte(nil), rd.take(int(outer.InKey))...)
			v := append([]byte(nil), rd.take(int(outer.InValue))...)
			ents = append(ents, ksKV{k, v})
		}
		out[slot] = ents
	}
	return out, rd.err
}

func (c *ksClient) SetParam(b []byte) (int32, error) {
	w := &ksWriter{}
	w.u8(ksOpSetParam)
	w.u32(uint32(len(b)))
	w.Write(b)
	st, _, err := c.simple(w)
	return st, err
}

func (c *ksClient) SetTime(ns uint64) error {
	w := &ksWriter{}
	w.u8(ksOpSetTime)
	w.u64(ns)
	_, _, err := c.simple(w)
	return err
}

// SetFault: the (countdown+1)-th update of map m by a PROGRAM from now on fails with errno; repeat keeps failing.
func (c *ksClient) SetFault(m *ksMapInfo, countdown int32, errno int32, repeat bool) error {
	w := &ksWriter{}
	w.u8(ksOpSetFault)
	w.u32(uint32(m.Idx))
	w.i32(countdown)
	w.i32(errno)
	if repeat {
		w.i32(1)
	} else {
		w.i32(0)
	}
	_, _, err := c.simple(w)
	return err
}

func (c *ksClient) Snapshot() error {
	w := &ksWriter{}
	w.u8(ksOpSnapshot)
	_, _, err := c.simple(w)
	return err
}

func (c *ksClient) Restore() error {
	w := &ksWriter{}
	w.u8(ksOpRestore)
	st, _, err := c.simple(w)
	if err == nil && st != 0 {
		return fmt.Errorf("kernsim restore without snapshot")
	}
	return err
}

func (c *ksClient) Digest() (uint64, error) {
	w := &ksWriter{}
	w.u8(ksOpDigest)
	_, rd, err := c.simple(w)
	if err != nil {
		return 0, err
	}
	return rd.u64(), rd.err
}

// Route calls the C route() directly. Ports in host order.
func (c *ksClient) Route(flag [8]uint32, sport, dport uint16, saddr, daddr, mac [16]byte) (int64, error) {
	w := &ksWriter{}
	w.u8(ksOpRoute)
	for _, f := range flag {
		w.u32(f)
	}
	w.u32(uint32(sport))
	w.u32(uint32(dport))
	w.Write(saddr[:])
	w.Write(daddr[:])
	w.Write(mac[:])
	_, rd, err := c.simple(w)
	if err != nil {
		return 0, err
	}
	return int64(rd.u64()), rd.err
}

type ksSkb struct {
	Pkt            []byte
	Protocol       uint32 // skb->protocol, network byte order value as the kernel stores it
	Ifindex        uint32
	IngressIfindex uint32
	Mark           uint32
	PktType        uint32
	Cb             [5]uint32
	Headlen        uint32 // linear bytes at entry
	PullFail       bool   // bpf_skb_pull_data fails (-ENOMEM)
	LinAfterPull   uint32 // 0 = everything
	TcpLookup      uint8
	UdpLookup      uint8
	Cookie         uint64
	Listener       bool
	SkAssignRc     int32
	StoreFailAt    int32
}

type ksRunResult struct {
	Rc                               int32
	Mark                             uint32
	Cb                               [5]uint32
	PktType                          uint32
	RedirectKind                     uint32
	RedirectIfindex                  uint32
	RedirectFlags                    uint64
	ChangeHead, NStore, NLoad, NPull uint32
	PullFailed                       uint32
	SkAcquired, SkReleased           uint32
	SkAssignCalls                    uint32
	UpdFailFired                     uint32
	Digest                           uint64
	Pkt                              []byte
}

func (c *ksClient) Run(p *ksProgInfo, s *ksSkb) (*ksRunResult, error) {
	w := &ksWriter{}
	w.u8(ksOpRun)
	w.u32(uint32(p.Idx))
	w.u32(uint32(len(s.Pkt)))
	w.Write(s.Pkt)
	w.u32(s.Protocol)
	w.u32(s.Ifindex)
	w.u32(s.IngressIfindex)
	w.u32(s.Mark)
	w.u32(s.PktType)
	for _, v := range s.Cb {
		w.u32(v)
	}
	w.u32(s.Headlen)
	if s.PullFail {
		w.i32(1)
	} else {
		w.i32(0)
	}
	w.u32(s.LinAfterPull)
	w.u8(s.TcpLookup)
	w.u8(s.UdpLookup)
	w.u64(s.Cookie)
	if s.Listener {
		w.u8(1)
	} else {
		w.u8(0)
	}
	w.i32(s.SkAssignRc)
	w.i32(s.StoreFailAt)
	st, rd, err := c.simple(w)
	if err != nil {
		return nil, err
	}
	if st != 0 {
		return nil, fmt.Errorf("kernsim RUN refused: %d", st)
	}
	r := &ksRunResult{}
	r.Rc = rd.i32()
	r.Mark = rd.u32()
	for i := range r.Cb {
		r.Cb[i] = rd.u32()
	}
	r.PktType = rd.u32()
	r.RedirectKind = rd.u32()
	r.RedirectIfindex = rd.u32()
	r.RedirectFlags = rd.u64()
	r.ChangeHead, r.NStore, r.NLoad, r.NPull = rd.u32(), rd.u32(), rd.u32(), rd.u32()
	r.PullFailed = rd.u32()
	r.SkAcquired, r.SkReleased = rd.u32(), rd.u32()
	r.SkAssignCalls = rd.u32()
	r.UpdFailFired = rd.u32()
	r.Digest = rd.u64()
	n := int(rd.u32())
	r.Pkt = append([]byte(nil), rd.take(n)...)
	return r, rd.err
}

// RunCgroup runs one of the cgroup programs that fill cookie_pid_map.
func (c *ksClient) RunCgroup(p *ksProgInfo, cookie uint64, pidTgid uint64, comm [16]byte, args string, argsFail bool) (int32, uint32, error) {
	w := &ksWriter{}
	w.u8(ksOpRunCg)
	w.u32(uint32(p.Idx))
	w.u64(cookie)
	w.u64(pidTgid)
	w.Write(comm[:])
	w.u32(uint32(len(args)))
	w.WriteString(args)
	if argsFail {
		w.u8(1)
	} else {
		w.u8(0)
	}
	st, rd, err := c.simple(w)
	if err != nil {
		return 0, 0, err
	}
	if st != 0 {
		return 0, 0, fmt.Errorf("kernsim RUN_CG refused: %d", st)
	}
	return rd.i32(), rd.u32(), rd.err
}
