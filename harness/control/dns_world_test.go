package control

// dnssim — shared world of the "dns" engine (properties C07, C08, C09, C10, C18).
//
// Real code under the scheduler: DnsController (dns_control.go, dns_cache.go,
// dns_control_optimistic.go), the forwarders and pools of dns.go, the real
// component/dns request/response matchers built from a generated `dns {}` section,
// domain_routing_tracker.go behind controlPlaneCore.BatchUpdate/RemoveDomainRouting,
// ChooseDialTarget and the real-domain probe of control_plane.go.
//
// Simulated: upstream DNS servers (scripted per query from the tape), their UDP
// sockets / TCP connections (verifsim.SimPacketConn / StreamEnd), dial outcomes,
// the clock, the client sockets (response writer / send hook), domain_routing_map
// (a Go map behind the bpf batch hooks), the real-domain probe resolver seam.

import (
	"context"
	"encoding/binary"
	"errors"
	"fmt"
	"io"
	"net"
	"net/netip"
	"sort"
	"strings"
	"time"

	"github.com/daeuniverse/dae/common/consts"
	"github.com/daeuniverse/dae/common/netutils"
	"github.com/daeuniverse/dae/component/dns"
	componentdialer "github.com/daeuniverse/dae/component/outbound/dialer"
	"github.com/daeuniverse/dae/config"
	verifsim "github.com/daeuniverse/dae/internal/verifsim"
	"github.com/daeuniverse/dae/pkg/config_parser"
	D "github.com/daeuniverse/outbound/dialer"
	"github.com/daeuniverse/outbound/netproxy"
	dnsmessage "github.com/miekg/dns"
	"github.com/sirupsen/logrus"
)

const (
	dnsModeC09 = iota
	dnsModeC08
	dnsModeC07
	dnsModeC10
	dnsModeC18
)

var dnsModeProps = []string{"C09", "C08", "C07", "C10", "C18"}

var dnsAllNames = []string{"a.test", "b.test", "c.sub.test", "d.example", "e.sub.example", "f.other"}
var dnsQtypes = []uint16{dnsmessage.TypeA, dnsmessage.TypeAAAA, dnsmessage.TypeTXT}
var dnsTTLs = []uint32{3, 10, 30, 120, 600}

func dnsTypeIdx(t uint16) int {
	for i, x := range dnsQtypes {
		if x == t {
			return i
		}
	}
	for i, x := range dnsOtherTypes {
		if x == t {
			return 3 + i
		}
	}
	return -1
}

// dnsOtherTypes are the question types the "other type" (TXT) draws are spread
// over — derived from op numbers, no extra tape draw. They come in pairs that a
// type-to-key table could confuse: SVCB(64)/HTTPS(65), and types below 34 that are
// not among the common ones (HINFO 13 / RP 17, NULL 10 / AFSDB 18).
var dnsOtherTypes = []uint16{dnsmessage.TypeSVCB, dnsmessage.TypeHTTPS, dnsmessage.TypeHINFO, dnsmessage.TypeRP, dnsmessage.TypeNULL, dnsmessage.TypeAFSDB}

func dnsPartnerType(t uint16) uint16 {
	for i, x := range dnsOtherTypes {
		if x == t {
			return dnsOtherTypes[i^1]
		}
	}
	return t
}

// spreadOtherType maps an "other type" draw (TXT) of op number idx onto TXT and
// the pool above; a name that is cached under one type of a pair is asked for
// under its partner.
func (w *dnsWorld) spreadOtherType(name int, idx int) uint16 {
	for _, t := range dnsOtherTypes {
		if w.track != nil && w.track.entry(dnsKey{name: name, qtype: t, scope: w.keyOf(name, t).scope}) != nil {
			if p := dnsPartnerType(t); w.track.entry(dnsKey{name: name, qtype: p, scope: w.keyOf(name, p).scope}) == nil {
				return p
			}
		}
	}
	if r := idx % (len(dnsOtherTypes) + 2); r < len(dnsOtherTypes) {
		return dnsOtherTypes[r]
	}
	return dnsmessage.TypeTXT
}

type dnsUp struct {
	idx    int
	tag    string
	scheme string
	addr   netip.AddrPort
	host   string // non-empty: the upstream is configured by host name and resolved lazily (bootstrap seam)
}

// hostPort is how the upstream is written in the configuration (and in cache scopes).
func (u *dnsUp) hostPort() string {
	if u.host != "" {
		return net.JoinHostPort(u.host, fmt.Sprint(u.addr.Port()))
	}
	return u.addr.String()
}

// dnsKey is the scoped cache key of the reference model: (name, type, scope)
// where scope is the index of the upstream the request rules select
// (len(ups) = asis, -1 = reject).
type dnsKey struct {
	name  int
	qtype uint16
	scope int
}

func (k dnsKey) String() string {
	return fmt.Sprintf("(%s %s scope=%d)", dnsAllNames[k.name], dnsmessage.TypeToString[k.qtype], k.scope)
}

// dnsAns is one scripted upstream answer instance. Its content carries a unique
// serial (in the first address / the TXT string) so that every reply and every
// cache entry can be attributed to the upstream answer it came from.
type dnsAns struct {
	id       int
	up       int
	name     int
	qtype    uint16
	ver      int
	rrs      []dnsmessage.RR // owner name is filled in per reply
	ips      []netip.Addr    // all addresses listed (incl. shared / unspecified)
	ttl      uint32          // lifetime of the answer as a whole: the MINIMUM TTL over its records
	ttlMax   uint32          // largest TTL of a record (== ttl unless the answer mixes TTLs)
	ttlFirst uint32          // TTL of the first record
	repeats  int             // times the upstream sent this very answer again
	mix      int             // 0 uniform TTLs, 1 CNAME (long TTL) first then short-lived addresses, 2 first address long-lived, the others short
	rcode    int
	empty    bool
	sentAt   time.Duration
	sentStep int
	forQuery *dnsUpQuery
	wrongFor *dnsUpQuery // generated as "answer to a different question" for this query
	chain    *dnsChain
}

type dnsUpQuery struct {
	seq       int
	up        int
	tcp       bool
	sock      *dnsSock
	tc        *dnsTConn
	wireId    uint16
	qname     string
	name      int
	qtype     uint16
	task      string
	op        *dnsOp
	chain     *dnsChain
	at        time.Duration
	step      int
	raw       []byte
	answered  *dnsAns
	reacted   bool
	gaveUp    bool
	notBefore time.Duration
	defers    int
	note      string
}

func (q *dnsUpQuery) open() bool {
	if q.tcp {
		return q.tc != nil && !q.tc.srv.IsClosed() && !q.tc.cli.IsClosed() && !q.tc.srvDead
	}
	return q.sock != nil && !q.sock.pc.IsClosed()
}

// dnsChain: the upstream queries one resolving task issues for one question
// (first hop, retries, tcp fallback, re-asks).
type dnsChain struct {
	task    string
	op      *dnsOp
	key     dnsKey
	refresh bool
	queries []*dnsUpQuery
	gen     int
}

type dnsSent struct {
	q      *dnsUpQuery
	ans    *dnsAns
	wireId uint16
	kind   string
	at     time.Duration
	step   int
}

type dnsGhost struct {
	q         *dnsUpQuery
	payload   []byte
	notBefore time.Duration
	kind      string
	ans       *dnsAns
	wireId    uint16
}

type dnsSock struct {
	fwd     *dnsFwd
	id      int
	up      int
	pc      *verifsim.SimPacketConn
	dialer  int
	queries []*dnsUpQuery
}

type dnsTConn struct {
	fwd     *dnsFwd
	id      int
	up      int
	cli     *verifsim.StreamEnd
	srv     *verifsim.StreamEnd
	srvDead bool
	dialer  int
	wbuf    []byte
	queries []*dnsUpQuery
}

// forwarder shim: counts Close calls and in-flight ForwardDNS calls of every
// real forwarder the controller creates.
type dnsFwd struct {
	w                    *dnsWorld
	id                   int
	real                 DnsForwarder
	up                   string
	l4                   consts.L4ProtoStr
	inFlight             int
	closes               int
	closedAt             time.Duration
	begun                int
	inFlightAtClose      int
	beganAfterClose      int
	closedDuringShutdown bool
	closer               string
}

// closedBy names the path that closed the forwarder (class of the lifetime rules).
func (f *dnsFwd) closedBy() string {
	switch {
	case strings.HasPrefix(f.closer, "client"):
		return "query-path"
	case strings.HasPrefix(f.closer, "env-reset"), strings.HasPrefix(f.closer, "env-reload"):
		return "reset"
	case strings.HasPrefix(f.closer, "env-close"):
		return "shutdown"
	}
	return "idle-eviction"
}

func (f *dnsFwd) ForwardDNS(ctx context.Context, data []byte) (*dnsmessage.Msg, error) {
	if f.closes > 0 && !f.w.closing {
		f.beganAfterClose++
		f.w.s.Notef("forwarder f%d (%s %s): ForwardDNS begins after Close", f.id, f.up, f.l4)
	}
	f.inFlight++
	f.begun++
	task := verifsim.TaskName()
	prev := f.w.curFwd[task]
	f.w.curFwd[task] = f
	m, err := f.real.ForwardDNS(ctx, data)
	f.w.curFwd[task] = prev
	f.inFlight--
	return m, err
}

func (f *dnsFwd) Close() error {
	f.closes++
	if f.closes == 1 {
		f.closer = verifsim.TaskName()
		f.closedAt = f.w.s.Now()
		f.inFlightAtClose = f.inFlight
		f.closedDuringShutdown = f.w.closing
	}
	f.w.s.Notef("forwarder f%d (%s %s): Close #%d, %d queries in flight", f.id, f.up, f.l4, f.closes, f.inFlight)
	return f.real.Close()
}

type dnsOp struct {
	cli            int
	resolver       int // 0/1: which resolver the client addressed (matters for questions routed as-is)
	idx            int
	name           int
	qname          string
	qtype          uint16
	id             uint16
	viaUDP         bool
	key            dnsKey
	gen            int
	genEnd         int
	task           string
	start          time.Duration
	end            time.Duration
	startStep      int
	endStep        int
	done           bool
	err            error
	replies        []*dnsmessage.Msg
	chain          *dnsChain // upstream queries issued by this op's own task
	refreshSpawned bool
	expectReject   bool
	useUncertain   bool         // the op's lookup overlapped a replacement of its key's entry
	pre            *dnsEntryObs // entry cached under the op's key when the op began
	reloadOverlap  int
	rs             *dnsRuleSet // rules in force when the op began
}

type dnsCfg struct {
	optimistic bool
	staleTtl   int
	maxSize    int
	fixed      map[string]int
	janitor    time.Duration
	idleTTL    time.Duration
}

type dnsAnsSpec struct {
	ttlIdx  int
	shared  int // bit mask over the 3 shared addresses
	special int // 0 normal, 1 empty answer, 2 adds the unspecified address
	drift   bool
}

type dnsWorld struct {
	s    *verifsim.Sim
	T    *verifsim.Tape
	mode int
	log  *logrus.Logger

	names  []int // indices into dnsAllNames used in this run
	ups    []*dnsUp
	asis   netip.AddrPort
	queueDrops, queueCap int // C10: updates dropped at the full asynchronous queue / its capacity in this run
	asis2  netip.AddrPort // a second resolver clients address their questions to: as-is answers are scoped by resolver
	cfg    dnsCfg
	rules  *dnsRuleSet
	gen    int // routing generation (reload swaps)
	spec   map[[3]int]dnsAnsSpec
	faulty int // 0 benign upstreams, 1 delays/drops, 2 integrity faults too

	plane   *ControlPlane
	ctl     *DnsController
	dialers []*componentdialer.Dialer
	closing bool

	seq           int
	socks         []*dnsSock
	tconns        []*dnsTConn
	pend          []*dnsUpQuery
	ghosts        []*dnsGhost
	qlog          []*dnsUpQuery
	sent          []*dnsSent
	answers       []*dnsAns
	vers          map[[3]int]int
	fwds          []*dnsFwd
	curFwd        map[string]*dnsFwd // forwarder whose ForwardDNS runs on a task
	evictCause    map[*DnsCache]string
	entryBitmap   map[*DnsCache][]uint32 // domain-rule bitmap in force when the entry was created / restored
	focus         *dnsEntryObs           // entry the last pause was placed relative to
	bitmapGen     int                    // generation of the name -> bitmap table (changes at reloads in C10 mode)
	overlapZeroed map[string]bool
	lastAns       map[[3]int]*dnsAns   // last right answer per (upstream, name, type)
	chains        map[string]*dnsChain // current chain per task
	allChains     []*dnsChain

	ops          []*dnsOp
	curOp        map[string]*dnsOp // task name -> op in progress
	cliAddr      []netip.AddrPort
	opsDone      int
	opsTotal     int
	envBudget    int
	envTasks     int
	reloads      int
	fwdsAtReset  int
	hostResolves int
	lruBatch     []*dnsEntryObs
	lruBefore    int
	lruAt        time.Duration
	lruStep      int
	lruBusy      bool
	maxCount     int

	// cache observation (ground truth of what the controller holds)
	track       *dnsCacheTrack
	kern        *dnsKernMap
	liveWrapped map[*DnsCache]bool
	nCliConns   int // client TCP connections to the DNS fast path opened so far
	liveLooks   int
	newCtl      *DnsController // the controller of the generation being built by a reload (afterwards == ctl)
	c18         *dnsC18
}

func dnsNewWorld(s *verifsim.Sim, mode int) *dnsWorld {
	logger := logrus.New()
	logger.SetOutput(io.Discard)
	w := &dnsWorld{s: s, T: s.T, mode: mode, log: logger, spec: map[[3]int]dnsAnsSpec{}, vers: map[[3]int]int{},
		chains: map[string]*dnsChain{}, curOp: map[string]*dnsOp{}, curFwd: map[string]*dnsFwd{}, evictCause: map[*DnsCache]string{}, entryBitmap: map[*DnsCache][]uint32{}, liveWrapped: map[*DnsCache]bool{}, lastAns: map[[3]int]*dnsAns{}, overlapZeroed: map[string]bool{}}
	w.asis = netip.MustParseAddrPort("10.9.9.9:53")
	w.asis2 = netip.MustParseAddrPort("10.9.9.10:53")
	return w
}

// ---------------------------------------------------------------------------
// scripted upstream content

func (w *dnsWorld) specOf(up, name int, qtype uint16) dnsAnsSpec {
	k := [3]int{up, name, dnsTypeIdx(qtype)}
	sp, ok := w.spec[k]
	if !ok && up > len(w.ups) {
		// the second as-is resolver answers by the script drawn for the first one (its answers are its own)
		return w.specOf(len(w.ups), name, qtype)
	}
	if !ok {
		if k[2] >= 3 {
			// SVCB / HTTPS questions (derived from TXT draws) use the script of the name's TXT answers
			return w.specOf(up, name, dnsmessage.TypeTXT)
		}
		sp = dnsAnsSpec{}
		w.spec[k] = sp
	}
	return sp
}

var dnsSharedA = []netip.Addr{netip.MustParseAddr("198.18.0.1"), netip.MustParseAddr("198.18.0.2"), netip.MustParseAddr("198.18.0.3")}
var dnsSharedAAAA = []netip.Addr{netip.MustParseAddr("fd00:ffff::1"), netip.MustParseAddr("fd00:ffff::2"), netip.MustParseAddr("fd00:ffff::3")}

func dnsUniqueA(id int) netip.Addr {
	return netip.AddrFrom4([4]byte{100, byte(64 + (id>>8)&63), byte(id & 255), 1})
}

func dnsUniqueAAAA(id int) netip.Addr {
	var b [16]byte
	b[0], b[1] = 0xfd, 0x00
	b[12], b[13] = byte(id>>8), byte(id)
	b[15] = 1
	return netip.AddrFrom16(b)
}

// dnsDecodeUnique returns the answer serial encoded in an address (-1: none).
func dnsDecodeUnique(a netip.Addr) int {
	if a.Is4() {
		b := a.As4()
		if b[0] == 100 && b[1] >= 64 && b[1] < 128 && b[3] == 1 {
			return int(b[1]-64)<<8 | int(b[2])
		}
		return -1
	}
	b := a.As16()
	if b[0] == 0xfd && b[1] == 0 && b[2] == 0 && b[15] == 1 && b[14] == 0 {
		return int(b[12])<<8 | int(b[13])
	}
	return -1
}

// newAnswer scripts the next answer of upstream `up` for (name, qtype).
func (w *dnsWorld) newAnswer(up, name int, qtype uint16) *dnsAns {
	k := [3]int{up, name, dnsTypeIdx(qtype)}
	ver := w.vers[k]
	w.vers[k] = ver + 1
	sp := w.specOf(up, name, qtype)
	a := &dnsAns{id: len(w.answers) + 1, up: up, name: name, qtype: qtype, ver: ver, ttl: dnsTTLs[sp.ttlIdx]}
	a.ttlMax, a.ttlFirst = a.ttl, a.ttl
	w.answers = append(w.answers, a)
	// Mixed-TTL variants, derived from existing draws (no extra tape entry): the FIRST
	// record keeps the scripted TTL, the later records get the next shorter one.
	long, short := dnsTTLs[sp.ttlIdx], dnsTTLs[sp.ttlIdx]
	if (qtype == dnsmessage.TypeA || qtype == dnsmessage.TypeAAAA) && sp.special != 1 && sp.ttlIdx > 0 {
		switch (up + name + dnsTypeIdx(qtype) + ver) % 4 {
		case 1:
			a.mix, short = 1, dnsTTLs[sp.ttlIdx-1]
		case 3:
			a.mix, short = 2, dnsTTLs[sp.ttlIdx-1]
		}
	}
	nrec := 0
	hdr := func(t uint16) dnsmessage.RR_Header {
		ttl := short
		if nrec == 0 {
			ttl = long
		}
		nrec++
		return dnsmessage.RR_Header{Rrtype: t, Class: dnsmessage.ClassINET, Ttl: ttl}
	}
	if a.mix == 1 {
		a.rrs = append(a.rrs, &dnsmessage.CNAME{Hdr: hdr(dnsmessage.TypeCNAME), Target: dnsAliasPrefix + dnsAllNames[name] + "."})
	}
	defer func() {
		if a.mix != 0 {
			a.ttl = short
		}
	}()
	shared := sp.shared
	if sp.drift {
		shared = ((shared << (ver % 3)) | (shared >> (3 - ver%3))) & 7
	}
	if w.mode == dnsModeC09 && qtype == dnsmessage.TypeAAAA && name%2 == 1 {
		sp.special = 1 // a v4-only host: AAAA is answered NODATA (empty answer section, NOERROR)
	}
	if w.mode == dnsModeC07 && (up+name+dnsTypeIdx(qtype)+ver)%5 == 4 {
		// a negative answer (no records): response routing applies to it like to any other answer
		a.rcode = []int{dnsmessage.RcodeNameError, dnsmessage.RcodeRefused, dnsmessage.RcodeServerFailure}[ver%3]
		a.empty = true
		a.mix = 0
		w.s.Probe("dns.c07-negative-answer")
		return a
	}
	// a large record set (C09 mode, TXT and HINFO of every other (upstream, name)):
	// the packed reply exceeds 1024 bytes and still fits one datagram
	large := 0
	if w.mode == dnsModeC09 && (up+name)%2 == 0 && (qtype == dnsmessage.TypeTXT || qtype == dnsmessage.TypeHINFO) {
		large = 5
		w.s.Probe("dns.large-answer")
	}
	sharedOnly := w.mode == dnsModeC10 && (up*7+name*3+ver)%4 == 3
	if sharedOnly {
		w.s.Probe("dns.c10-answer-of-shared-addresses-only")
	}
	pad := func(i int) string { return strings.Repeat(string(rune('a'+(a.id+i)%26)), 220) }
	switch qtype {
	case dnsmessage.TypeA:
		if sp.special == 1 {
			a.empty = true
			break
		}
		// C10: one answer in four consists of shared addresses only, so that the address set
		// of one scope of a name can be a subset of (or equal to) a sibling scope's
		if sharedOnly {
			if shared == 0 {
				shared = 1 << uint((name+ver)%3)
			}
		} else {
			a.ips = append(a.ips, dnsUniqueA(a.id))
		}
		for i, x := range dnsSharedA {
			if shared&(1<<i) != 0 {
				a.ips = append(a.ips, x)
			}
		}
		if sp.special == 2 {
			a.ips = append(a.ips, netip.IPv4Unspecified())
		}
		if a.mix == 2 && len(a.ips) < 2 {
			a.ips = append(a.ips, dnsSharedA[(name+ver)%3])
		}
		for _, ip := range a.ips {
			a.rrs = append(a.rrs, &dnsmessage.A{Hdr: hdr(dnsmessage.TypeA), A: net.IP(ip.AsSlice())})
		}
	case dnsmessage.TypeAAAA:
		if sp.special == 1 {
			a.empty = true
			break
		}
		if sharedOnly {
			if shared == 0 {
				shared = 1 << uint((name+ver)%3)
			}
		} else {
			a.ips = append(a.ips, dnsUniqueAAAA(a.id))
		}
		for i, x := range dnsSharedAAAA {
			if shared&(1<<i) != 0 {
				a.ips = append(a.ips, x)
			}
		}
		if sp.special == 2 {
			if w.mode == dnsModeC10 && (up+name+ver)%2 == 1 {
				// the unspecified IPv4 address in its 4-in-6 spelling: the same kernel key as 0.0.0.0
				a.ips = append(a.ips, netip.MustParseAddr("::ffff:0.0.0.0"))
				w.s.Probe("dns.c10-mapped-unspecified-address")
			} else {
				a.ips = append(a.ips, netip.IPv6Unspecified())
			}
		}
		if a.mix == 2 && len(a.ips) < 2 {
			a.ips = append(a.ips, dnsSharedAAAA[(name+ver)%3])
		}
		for _, ip := range a.ips {
			a.rrs = append(a.rrs, &dnsmessage.AAAA{Hdr: hdr(dnsmessage.TypeAAAA), AAAA: net.IP(ip.AsSlice())})
		}
	case dnsmessage.TypeSVCB:
		// the serial travels in the priority field
		a.rrs = append(a.rrs, &dnsmessage.SVCB{Hdr: hdr(dnsmessage.TypeSVCB), Priority: uint16(a.id), Target: "svc." + dnsAllNames[name] + "."})
	case dnsmessage.TypeHTTPS:
		a.rrs = append(a.rrs, &dnsmessage.HTTPS{SVCB: dnsmessage.SVCB{Hdr: hdr(dnsmessage.TypeHTTPS), Priority: uint16(a.id), Target: "svc." + dnsAllNames[name] + "."}})
	case dnsmessage.TypeHINFO:
		for i := 0; i < 1+large; i++ {
			a.rrs = append(a.rrs, &dnsmessage.HINFO{Hdr: hdr(dnsmessage.TypeHINFO), Cpu: fmt.Sprintf("ans=%d", a.id), Os: "sim" + pad(i)})
		}
	case dnsmessage.TypeRP:
		a.rrs = append(a.rrs, &dnsmessage.RP{Hdr: hdr(dnsmessage.TypeRP), Mbox: fmt.Sprintf("ans-%d.rp.", a.id), Txt: "."})
	case dnsmessage.TypeNULL:
		a.rrs = append(a.rrs, &dnsmessage.NULL{Hdr: hdr(dnsmessage.TypeNULL), Data: fmt.Sprintf("ans=%d", a.id)})
	case dnsmessage.TypeAFSDB:
		a.rrs = append(a.rrs, &dnsmessage.AFSDB{Hdr: hdr(dnsmessage.TypeAFSDB), Subtype: uint16(a.id), Hostname: "afs." + dnsAllNames[name] + "."})
	default:
		txt := []string{fmt.Sprintf("ans=%d", a.id)}
		for i := 0; i < large; i++ {
			txt = append(txt, pad(i))
		}
		a.rrs = append(a.rrs, &dnsmessage.TXT{Hdr: hdr(dnsmessage.TypeTXT), Txt: txt})
	}
	// C07: "all answers (any mix of A/AAAA/other records)" - the answer to a question of
	// another type sometimes carries address records too (what an ANY-style or
	// additional-data-in-answer upstream sends); response rules on the answer's addresses
	// apply to them whatever the question type was.
	if w.mode == dnsModeC07 && qtype != dnsmessage.TypeA && qtype != dnsmessage.TypeAAAA && !a.empty && (up+name+ver)%3 != 1 {
		v4 := dnsSharedA[(up+name+ver)%3]
		a.ips = append(a.ips, v4)
		a.rrs = append(a.rrs, &dnsmessage.A{Hdr: hdr(dnsmessage.TypeA), A: net.IP(v4.AsSlice())})
		if (up+name+ver)%2 == 0 {
			v6 := dnsSharedAAAA[(name+ver)%3]
			a.ips = append(a.ips, v6)
			a.rrs = append(a.rrs, &dnsmessage.AAAA{Hdr: hdr(dnsmessage.TypeAAAA), AAAA: net.IP(v6.AsSlice())})
		}
		w.s.Probe("dns.c07-address-records-in-answer-of-another-type")
	}
	return a
}

// nextAnswer is the upstream's regular answer to a question. In the modes where it
// is sound (C10, C18, C08) an upstream sometimes repeats its previous answer for
// that (upstream, name, type) verbatim — same records, same addresses, same TTLs —
// which is what a refresh of an unchanged name looks like. Derived from existing
// draws: the residue 2 of the same formula that selects the mixed-TTL variants.
func (w *dnsWorld) nextAnswer(up, name int, qtype uint16) *dnsAns {
	k := [3]int{up, name, dnsTypeIdx(qtype)}
	if w.mode == dnsModeC10 || w.mode == dnsModeC18 || w.mode == dnsModeC08 {
		if last := w.lastAns[k]; last != nil && !last.empty && (up+name+dnsTypeIdx(qtype)+w.vers[k])%4 == 2 {
			w.vers[k]++
			last.repeats++
			w.s.Probe("dns.answer-repeated-verbatim")
			return last
		}
	}
	a := w.newAnswer(up, name, qtype)
	w.lastAns[k] = a
	return a
}

func (w *dnsWorld) buildReply(a *dnsAns, id uint16, qname string, qtype uint16, tc bool) []byte {
	m := new(dnsmessage.Msg)
	m.Id = id
	m.Response = true
	m.RecursionDesired = true
	m.RecursionAvailable = true
	m.Rcode = dnsmessage.RcodeSuccess
	m.Question = []dnsmessage.Question{{Name: qname, Qtype: qtype, Qclass: dnsmessage.ClassINET}}
	if tc {
		m.Truncated = true
	} else if a != nil {
		m.Rcode = a.rcode
		owner := qname
		for _, rr := range a.rrs {
			c := dnsmessage.Copy(rr)
			c.Header().Name = owner
			if cn, ok := c.(*dnsmessage.CNAME); ok {
				owner = cn.Target // the records after a CNAME belong to its target
			}
			m.Answer = append(m.Answer, c)
		}
	}
	b, err := m.Pack()
	if err != nil {
		w.s.Failf("harness-dns", "cannot pack scripted reply: %v", err)
		return nil
	}
	return b
}

// decodeAnswers attributes the records of a message (or cache entry) to scripted
// answers. ids: serials found; foreignName/foreignType: a record whose owner name
// or type is not the expected one.
func (w *dnsWorld) decodeAnswers(rrs []dnsmessage.RR) (ids []int, ips []netip.Addr) {
	seen := map[int]bool{}
	for _, rr := range rrs {
		id := -1
		switch x := rr.(type) {
		case *dnsmessage.A:
			if ip, ok := netip.AddrFromSlice(x.A); ok {
				ip = ip.Unmap()
				ips = append(ips, ip)
				id = dnsDecodeUnique(ip)
			}
		case *dnsmessage.AAAA:
			if ip, ok := netip.AddrFromSlice(x.AAAA); ok {
				ips = append(ips, ip)
				id = dnsDecodeUnique(ip)
			}
		case *dnsmessage.SVCB:
			id = int(x.Priority)
		case *dnsmessage.HTTPS:
			id = int(x.Priority)
		case *dnsmessage.AFSDB:
			id = int(x.Subtype)
		case *dnsmessage.HINFO:
			if n := 0; true {
				if _, err := fmt.Sscanf(x.Cpu, "ans=%d", &n); err == nil {
					id = n
				}
			}
		case *dnsmessage.NULL:
			if n := 0; true {
				if _, err := fmt.Sscanf(x.Data, "ans=%d", &n); err == nil {
					id = n
				}
			}
		case *dnsmessage.RP:
			if n := 0; true {
				if _, err := fmt.Sscanf(x.Mbox, "ans-%d.rp.", &n); err == nil {
					id = n
				}
			}
		case *dnsmessage.TXT:
			for _, t := range x.Txt {
				var n int
				if _, err := fmt.Sscanf(t, "ans=%d", &n); err == nil {
					id = n
				}
			}
		}
		if id > 0 && !seen[id] {
			seen[id] = true
			ids = append(ids, id)
		}
	}
	return
}

func (w *dnsWorld) ansByID(id int) *dnsAns {
	if id >= 1 && id <= len(w.answers) {
		return w.answers[id-1]
	}
	return nil
}

const dnsAliasPrefix = "alias."

// dnsRecordsBelong checks owner names and types of an answer section for question
// (qname, qtype): every record is owned by the question name or by the target of a
// preceding CNAME, and is of the asked type or a CNAME. Returns the first offender.
func dnsRecordsBelong(rrs []dnsmessage.RR, qname string, qtype uint16) (bad dnsmessage.RR) {
	owners := []string{qname}
	for _, rr := range rrs {
		h := rr.Header()
		ok := false
		for _, o := range owners {
			if strings.EqualFold(strings.TrimSuffix(h.Name, "."), strings.TrimSuffix(o, ".")) {
				ok = true
			}
		}
		if !ok || (h.Rrtype != qtype && h.Rrtype != dnsmessage.TypeCNAME) {
			return rr
		}
		if cn, isCN := rr.(*dnsmessage.CNAME); isCN {
			owners = append(owners, cn.Target)
		}
	}
	return nil
}

func (w *dnsWorld) nameIndex(qname string) int {
	l := strings.ToLower(strings.TrimSuffix(qname, "."))
	for i, n := range dnsAllNames {
		if n == l {
			return i
		}
	}
	return -1
}

// ---------------------------------------------------------------------------
// configuration text and the real matchers

func (w *dnsWorld) dnsSectionText(rs *dnsRuleSet) string {
	var b strings.Builder
	b.WriteString("global {}\nrouting { fallback: direct }\ndns {\n  upstream {\n")
	for _, u := range w.ups {
		fmt.Fprintf(&b, "    %s: '%s://%s'\n", u.tag, u.scheme, u.hostPort())
	}
	b.WriteString("  }\n  routing {\n    request {\n")
	for _, r := range rs.req {
		fmt.Fprintf(&b, "      %s\n", r.text())
	}
	fmt.Fprintf(&b, "      fallback: %s\n    }\n    response {\n", rs.reqFallback)
	for _, r := range rs.resp {
		fmt.Fprintf(&b, "      %s\n", r.text())
	}
	fmt.Fprintf(&b, "      fallback: %s\n    }\n  }\n}\n", rs.respFallback)
	return b.String()
}

func (w *dnsWorld) buildRouting(rs *dnsRuleSet) (*dns.Dns, error) {
	text := w.dnsSectionText(rs)
	rs.textCache = text
	sections, err := config_parser.Parse(text)
	if err != nil {
		return nil, fmt.Errorf("parse: %w\n%s", err, text)
	}
	conf, err := config.New(sections)
	if err != nil {
		return nil, fmt.Errorf("config.New: %w\n%s", err, text)
	}
	d, err := dns.New(&conf.Dns, &dns.NewOption{Logger: w.log, UpstreamReadyCallback: func(*dns.Upstream) error { return nil },
		UpstreamResolverNetwork: "udp", UpstreamHostResolver: w.resolveUpstreamHost})
	if err != nil {
		return nil, fmt.Errorf("dns.New: %w\n%s", err, text)
	}
	if err := d.CheckUpstreamsFormat(); err != nil {
		return nil, err
	}
	return d, nil
}

// resolveUpstreamHost is the bootstrap resolution of a named-host upstream (the
// production seam dns.NewOption.UpstreamHostResolver). It takes simulated time; the
// delays are derived from the call count (30 ms, 5 ms, 1 ms, ...), so that of two
// concurrent first users of an upstream the later one finishes first.
func (w *dnsWorld) resolveUpstreamHost(ctx context.Context, host string, network string) (*netutils.Ip46, error, error) {
	d := []time.Duration{30 * time.Millisecond, 5 * time.Millisecond, time.Millisecond}[w.hostResolves%3]
	w.hostResolves++
	w.s.Probe("dns.upstream-host-resolved")
	w.s.Notef("bootstrap resolution of upstream host %s starts (takes %v)", host, d)
	tm := time.NewTimer(d)
	select {
	case <-tm.C:
	case <-ctx.Done():
	}
	tm.Stop()
	verifsim.YieldB("upstream-host-resolver-woke")
	for _, u := range w.ups {
		if u.host == host {
			return &netutils.Ip46{Ip4: u.addr.Addr()}, nil, nil
		}
	}
	return &netutils.Ip46{}, fmt.Errorf("no such host %s", host), fmt.Errorf("no such host %s", host)
}

// ---------------------------------------------------------------------------
// dialers and simulated transports

type dnsDialWrap struct {
	w  *dnsWorld
	di int
	sd *verifsim.SimDialer
}

func (d *dnsDialWrap) DialContext(ctx context.Context, network, addr string) (netproxy.Conn, error) {
	return d.sd.DialContext(ctx, network, addr)
}

func (w *dnsWorld) upByAddr(addr string) int {
	for _, u := range w.ups {
		if u.addr.String() == addr {
			return u.idx
		}
	}
	if addr == w.asis.String() {
		return len(w.ups)
	}
	if addr == w.asis2.String() {
		return len(w.ups) + 1
	}
	return -1
}

func (w *dnsWorld) makeDialers(n int) {
	for di := 0; di < n; di++ {
		di := di
		sd := &verifsim.SimDialer{Name: fmt.Sprintf("d%d", di)}
		sd.Plan = func(ctx context.Context, network, addr string) verifsim.DialPlan {
			return w.planDial(di, network, addr)
		}
		prop := &componentdialer.Property{Property: D.Property{Name: sd.Name}}
		if di == 1 {
			// proxy-backed node: pooled UDP sockets are discarded on timeout
			prop = &componentdialer.Property{Property: D.Property{Name: sd.Name, Address: "198.51.100.7:1080", Protocol: "socks5"}}
		}
		d := componentdialer.NewDialer(&dnsDialWrap{w: w, di: di, sd: sd}, &componentdialer.GlobalOption{Log: w.log, CheckInterval: time.Hour},
			componentdialer.InstanceOption{DisableCheck: true}, prop)
		w.dialers = append(w.dialers, d)
	}
}

// reaskHop: a query (or dial) to upstream up by the task of chain ch comes after
// an answered query of that chain to another upstream, i.e. it is a re-ask.
func (w *dnsWorld) reaskHop(ch *dnsChain, up int, self *dnsUpQuery) bool {
	if ch == nil {
		return false
	}
	for _, p := range ch.queries {
		if p != self && p.answered != nil && p.up != up {
			return true
		}
	}
	return false
}

func (w *dnsWorld) planDial(di int, network, addr string) verifsim.DialPlan {
	s, T := w.s, w.T
	up := w.upByAddr(addr)
	if up < 0 {
		s.Failf("harness-dns", "dial to unknown address %s (%s)", addr, network)
		return verifsim.DialPlan{Err: verifsim.ErrSimRefused}
	}
	if w.mode == dnsModeC07 && (len(w.qlog)+di)%3 == 0 && w.reaskHop(w.chains[verifsim.TaskName()], up, nil) {
		// the upstream an answer was sent on to cannot be reached (derived, no draw)
		s.Probe("dns.c07-reask-upstream-fails")
		s.Notef("dial %s %s via d%d: refused (upstream of a re-ask)", network, addr, di)
		return verifsim.DialPlan{Err: verifsim.ErrSimRefused}
	}
	plan := verifsim.DialPlan{}
	if w.faulty >= 1 && w.envBudget > 0 {
		switch T.Pick(20, 2, 1, 1) {
		case 1:
			plan.Delay = []time.Duration{time.Millisecond, 200 * time.Millisecond, 3 * time.Second}[T.Choose(3)]
		case 2:
			w.envBudget--
			s.Fault("dial-refused")
			s.Notef("dial %s %s via d%d: refused", network, addr, di)
			return verifsim.DialPlan{Err: verifsim.ErrSimRefused}
		case 3:
			w.envBudget--
			s.Fault("dial-hang")
			s.Notef("dial %s %s via d%d: hangs", network, addr, di)
			return verifsim.DialPlan{Hang: true}
		}
	}
	if strings.HasPrefix(network, "udp") {
		sk := &dnsSock{id: len(w.socks), up: up, dialer: di, fwd: w.curFwd[verifsim.TaskName()]}
		sk.pc = verifsim.Reg(verifsim.NewSimPacketConn(fmt.Sprintf("us%d", sk.id), &w.seq))
		sk.pc.WriteHook = func(b []byte, to string) (int, error) {
			w.onUpstreamQuery(up, sk, nil, b)
			return len(b), nil
		}
		sk.pc.OnClose = func() { s.Notef("udp socket us%d (upstream %d) closed", sk.id, up) }
		w.socks = append(w.socks, sk)
		s.Notef("dial udp %s via d%d -> socket us%d", addr, di, sk.id)
		plan.Conn = sk.pc
		return plan
	}
	tc := &dnsTConn{id: len(w.tconns), up: up, dialer: di, fwd: w.curFwd[verifsim.TaskName()]}
	tc.cli, tc.srv = verifsim.NewStreamPair(s, fmt.Sprintf("tc%dc", tc.id), fmt.Sprintf("tc%ds", tc.id))
	verifsim.Reg(tc.cli)
	// The server side is driven by events, not by a task: requests are parsed as dae
	// writes them (on the writing task, so they can be attributed to it); replies
	// written by the server end travel back re-segmented by the stream's delivery event.
	tc.srv.AutoDeliver = true
	tc.cli.WriteHook = func(b []byte) (int, error) {
		tc.wbuf = append(tc.wbuf, b...)
		for len(tc.wbuf) >= 2 {
			n := int(binary.BigEndian.Uint16(tc.wbuf))
			if len(tc.wbuf) < 2+n {
				break
			}
			w.onUpstreamQuery(tc.up, nil, tc, tc.wbuf[2:2+n])
			tc.wbuf = tc.wbuf[2+n:]
		}
		return len(b), nil
	}
	w.tconns = append(w.tconns, tc)
	s.Notef("dial tcp %s via d%d -> conn tc%d", addr, di, tc.id)
	plan.Conn = tc.cli
	return plan
}

func (w *dnsWorld) onUpstreamQuery(up int, sk *dnsSock, tc *dnsTConn, b []byte) {
	s := w.s
	var m dnsmessage.Msg
	if err := m.Unpack(b); err != nil || len(m.Question) != 1 {
		s.Failf("harness-dns", "upstream %d received an unparsable query: %v", up, err)
		return
	}
	q := &dnsUpQuery{seq: len(w.qlog), up: up, tcp: tc != nil, sock: sk, tc: tc, wireId: m.Id, qname: m.Question[0].Name,
		qtype: m.Question[0].Qtype, at: s.Now(), step: s.Step, raw: append([]byte(nil), b...)}
	q.name = w.nameIndex(q.qname)
	q.task = verifsim.TaskName()
	if sk != nil {
		sk.queries = append(sk.queries, q)
	} else {
		tc.queries = append(tc.queries, q)
	}
	w.qlog = append(w.qlog, q)
	w.pend = append(w.pend, q)
	w.attachChain(q)
	w.c09OnQuery(q)
	w.c08OnQuery(q)
	tr := "udp"
	if q.tcp {
		tr = fmt.Sprintf("tcp tc%d", tc.id)
	} else {
		tr = fmt.Sprintf("udp us%d", sk.id)
	}
	s.Notef("upstream %d <- query #%d id=%d %s %s over %s (task %s)", up, q.seq, q.wireId, q.qname, dnsmessage.TypeToString[q.qtype], tr, q.task)
}

func (w *dnsWorld) attachChain(q *dnsUpQuery) {
	task := q.task
	ch := w.chains[task]
	if ch == nil {
		ch = &dnsChain{task: task, gen: w.gen}
		if op := w.curOp[task]; op != nil {
			ch.op = op
			ch.key = op.key
			op.chain = ch
		} else {
			ch.refresh = true
			ch.key = dnsKey{name: q.name, qtype: q.qtype, scope: q.up}
		}
		w.chains[task] = ch
		w.allChains = append(w.allChains, ch)
	}
	q.chain = ch
	q.op = ch.op
	ch.queries = append(ch.queries, q)
}

// ---------------------------------------------------------------------------
// upstream behaviour: environment events

func (w *dnsWorld) eligible() []*dnsUpQuery {
	now := w.s.Now()
	var r []*dnsUpQuery
	k := w.pend[:0]
	for _, q := range w.pend {
		if q.reacted {
			continue
		}
		if !q.open() {
			q.reacted = true
			q.note = "transport closed before any reaction"
			continue
		}
		k = append(k, q)
		if q.notBefore <= now {
			r = append(r, q)
		}
	}
	w.pend = k
	return r
}

func (w *dnsWorld) deliver(q *dnsUpQuery, payload []byte) bool {
	if payload == nil || !q.open() {
		return false
	}
	if q.tcp {
		frame := make([]byte, 2+len(payload))
		binary.BigEndian.PutUint16(frame, uint16(len(payload)))
		copy(frame[2:], payload)
		_, err := q.tc.srv.Write(frame)
		return err == nil
	}
	q.sock.pc.Deliver(verifsim.Datagram{Data: payload, From: w.upAddr(q.up)})
	return true
}

func (w *dnsWorld) upAddr(up int) netip.AddrPort {
	if up < len(w.ups) {
		return w.ups[up].addr
	}
	if up == len(w.ups)+1 {
		return w.asis2
	}
	return w.asis
}

func (w *dnsWorld) recordSent(q *dnsUpQuery, a *dnsAns, id uint16, kind string) {
	w.sent = append(w.sent, &dnsSent{q: q, ans: a, wireId: id, kind: kind, at: w.s.Now(), step: w.s.Step})
}

// otherQuestion picks a (name,type) different from q's for the "answers a
// different question" behaviour.
func (w *dnsWorld) otherQuestion(q *dnsUpQuery) (int, uint16) {
	T := w.T
	if len(w.names) > 1 && T.Choose(3) != 0 {
		for i := 0; i < 8; i++ {
			n := w.names[T.Choose(len(w.names))]
			if n != q.name {
				return n, q.qtype
			}
		}
	}
	for _, t := range dnsQtypes {
		if t != q.qtype {
			return q.name, t
		}
	}
	return q.name, q.qtype
}

func (w *dnsWorld) react(q *dnsUpQuery) {
	s, T := w.s, w.T
	kind := 0
	switch {
	case w.faulty >= 2 && w.envBudget > 0:
		kind = T.Pick(12, 3, 1, 3, 3, 2, 2, 1, 1, 2)
	case w.faulty == 1 && w.envBudget > 0:
		kind = T.Pick(12, 3, 1, 0, 0, 0, 2, 1, 1, 1)
	}
	if q.name < 0 {
		kind = 0
	}
	if kind != 0 {
		w.envBudget--
	}
	if w.mode == dnsModeC07 && kind == 0 && q.name >= 0 && q.seq%3 == 0 && w.reaskHop(q.chain, q.up, q) {
		// the upstream an answer was sent on to fails quickly (derived, no draw)
		kind = 8
		s.Probe("dns.c07-reask-upstream-fails")
	}
	right := func() *dnsAns {
		a := w.nextAnswer(q.up, q.name, q.qtype)
		a.forQuery, a.chain = q, q.chain
		a.sentAt, a.sentStep = s.Now(), s.Step
		q.answered = a
		return a
	}
	switch kind {
	case 0: // right answer now
		q.reacted = true
		a := right()
		w.deliver(q, w.buildReply(a, q.wireId, q.qname, q.qtype, false))
		w.recordSent(q, a, q.wireId, "right")
		s.Notef("upstream %d -> query #%d: answer a%d (ttl %d, first record %d, mix %d, %v)", q.up, q.seq, a.id, a.ttl, a.ttlFirst, a.mix, a.ips)
	case 1: // later
		q.defers++
		d := []time.Duration{time.Millisecond, 300 * time.Millisecond, 2 * time.Second, 6 * time.Second, 9 * time.Second}[T.Choose(5)]
		q.notBefore = s.Now() + d
		s.Fault("upstream-delay")
		s.Notef("upstream %d: query #%d answered not before +%v", q.up, q.seq, d)
	case 2: // never
		q.reacted = true
		q.note = "never answered"
		s.Fault("upstream-never")
		s.Notef("upstream %d: query #%d is never answered", q.up, q.seq)
	case 3: // twice: now and a copy later
		q.reacted = true
		a := right()
		p := w.buildReply(a, q.wireId, q.qname, q.qtype, false)
		w.deliver(q, p)
		w.recordSent(q, a, q.wireId, "right")
		d := []time.Duration{0, time.Millisecond, 2 * time.Second, 9 * time.Second}[T.Choose(4)]
		w.ghosts = append(w.ghosts, &dnsGhost{q: q, payload: p, notBefore: s.Now() + d, kind: "duplicate", ans: a, wireId: q.wireId})
		s.Fault("upstream-duplicate")
		s.Notef("upstream %d -> query #%d: answer a%d, a duplicate follows after %v", q.up, q.seq, a.id, d)
	case 4: // answers a different question under the right id
		q.reacted = true
		n, t := w.otherQuestion(q)
		a := w.newAnswer(q.up, n, t)
		a.wrongFor, a.chain = q, q.chain
		a.sentAt, a.sentStep = s.Now(), s.Step
		qn := dnsmessage.Fqdn(dnsAllNames[n])
		w.deliver(q, w.buildReply(a, q.wireId, qn, t, false))
		w.recordSent(q, a, q.wireId, "other-question")
		s.Fault("upstream-other-question")
		s.Notef("upstream %d -> query #%d (%s %s): answers %s %s instead (a%d) under id %d", q.up, q.seq, q.qname, dnsmessage.TypeToString[q.qtype], qn, dnsmessage.TypeToString[t], a.id, q.wireId)
	case 5: // right content under a wrong id; the real answer may still follow
		a := w.newAnswer(q.up, q.name, q.qtype)
		a.forQuery, a.chain = q, q.chain
		a.sentAt, a.sentStep = s.Now(), s.Step
		wid := q.wireId ^ 0x0101
		w.deliver(q, w.buildReply(a, wid, q.qname, q.qtype, false))
		w.recordSent(q, a, wid, "wrong-id")
		q.defers++
		if q.defers > 2 {
			q.reacted = true
		}
		s.Fault("upstream-wrong-id")
		s.Notef("upstream %d -> query #%d: answer a%d under wrong id %d (asked %d)", q.up, q.seq, a.id, wid, q.wireId)
	case 6: // truncated (UDP) / close mid-frame (TCP)
		q.reacted = true
		if q.tcp {
			a := right()
			p := w.buildReply(a, q.wireId, q.qname, q.qtype, false)
			frame := make([]byte, 2+len(p))
			binary.BigEndian.PutUint16(frame, uint16(len(p)))
			copy(frame[2:], p)
			cut := 1 + T.Choose(len(frame)-1)
			q.tc.srv.Write(frame[:cut])
			q.tc.srv.Close()
			q.answered = nil
			s.Fault("tcp-close-mid-frame")
			s.Notef("upstream %d -> query #%d: %d of %d reply bytes, then the connection is closed", q.up, q.seq, cut, len(frame))
		} else {
			w.deliver(q, w.buildReply(nil, q.wireId, q.qname, q.qtype, true))
			w.recordSent(q, nil, q.wireId, "truncated")
			s.Fault("upstream-truncated")
			s.Notef("upstream %d -> query #%d: truncated (TC=1)", q.up, q.seq)
		}
	case 7: // SERVFAIL
		q.reacted = true
		m := new(dnsmessage.Msg)
		m.Id, m.Response, m.Rcode = q.wireId, true, dnsmessage.RcodeServerFailure
		m.Question = []dnsmessage.Question{{Name: q.qname, Qtype: q.qtype, Qclass: dnsmessage.ClassINET}}
		p, _ := m.Pack()
		w.deliver(q, p)
		w.recordSent(q, nil, q.wireId, "servfail")
		s.Fault("upstream-servfail")
		s.Notef("upstream %d -> query #%d: SERVFAIL", q.up, q.seq)
	case 9: // NXDOMAIN (not cacheable), and a copy of it later
		q.reacted = true
		m := new(dnsmessage.Msg)
		m.Id, m.Response, m.RecursionAvailable, m.Rcode = q.wireId, true, true, dnsmessage.RcodeNameError
		m.Question = []dnsmessage.Question{{Name: q.qname, Qtype: q.qtype, Qclass: dnsmessage.ClassINET}}
		p, _ := m.Pack()
		w.deliver(q, p)
		w.recordSent(q, nil, q.wireId, "nxdomain")
		d := []time.Duration{0, time.Millisecond, 2 * time.Second, 9 * time.Second}[T.Choose(4)]
		w.ghosts = append(w.ghosts, &dnsGhost{q: q, payload: p, notBefore: s.Now() + d, kind: "nxdomain-duplicate", wireId: q.wireId})
		s.Fault("upstream-nxdomain")
		s.Notef("upstream %d -> query #%d: NXDOMAIN, a duplicate follows after %v", q.up, q.seq, d)
	case 8: // transport error on the reader
		q.reacted = true
		if q.tcp {
			q.tc.srv.Reset(verifsim.ErrSimGeneric)
			s.Fault("tcp-reset")
			s.Notef("upstream %d: connection tc%d reset while query #%d is in flight", q.up, q.tc.id, q.seq)
		} else {
			q.sock.pc.InjectReadErr(verifsim.ErrSimReadRefused)
			s.Fault("udp-read-error")
			s.Notef("upstream %d: read error on us%d while query #%d is in flight", q.up, q.sock.id, q.seq)
		}
	}
}

func (w *dnsWorld) installUpstreamEvents() {
	s, T := w.s, w.T
	s.AddEvent(&verifsim.Event{Name: "upstream-react", Weight: 2, Enabled: func() bool { return len(w.eligible()) > 0 }, Fire: func() {
		el := w.eligible()
		if len(el) == 0 {
			return
		}
		w.react(el[T.Choose(len(el))])
	}})
	ghostReady := func() []*dnsGhost {
		now := s.Now()
		var r []*dnsGhost
		k := w.ghosts[:0]
		for _, g := range w.ghosts {
			if !g.q.open() {
				continue
			}
			k = append(k, g)
			if g.notBefore <= now {
				r = append(r, g)
			}
		}
		w.ghosts = k
		return r
	}
	s.AddEvent(&verifsim.Event{Name: "upstream-late-copy", Enabled: func() bool { return len(ghostReady()) > 0 }, Fire: func() {
		gs := ghostReady()
		if len(gs) == 0 {
			return
		}
		g := gs[T.Choose(len(gs))]
		for i, x := range w.ghosts {
			if x == g {
				w.ghosts = append(w.ghosts[:i], w.ghosts[i+1:]...)
				break
			}
		}
		w.deliver(g.q, g.payload)
		w.recordSent(g.q, g.ans, g.wireId, g.kind)
		aid := 0
		if g.ans != nil {
			aid = g.ans.id
		}
		s.Notef("upstream %d: %s of answer a%d (id %d) for query #%d delivered", g.q.up, g.kind, aid, g.wireId, g.q.seq)
	}})
}

// pendingWork: an upstream reaction or copy is still outstanding on an open transport.
func (w *dnsWorld) pendingWork() bool {
	if w.kern != nil && (w.kern.inCallback > 0 || w.kern.inSync > 0) {
		return true // a cache side-effect callback (domain routing sync) is running
	}
	for _, q := range w.pend {
		if !q.reacted && q.open() {
			return true
		}
	}
	return false
}

func (w *dnsWorld) fwdInFlight() int {
	n := 0
	for _, f := range w.fwds {
		n += f.inFlight
	}
	return n
}

// ---------------------------------------------------------------------------
// controller construction (production path: partially built ControlPlane,
// dnsControllerOption(), NewDnsController)

type dnsBitmapMatcher struct{ w *dnsWorld }

func (m dnsBitmapMatcher) AddSet(int, []string, consts.RoutingDomainKey) {}
func (m dnsBitmapMatcher) Build() error                                  { return nil }
func (m dnsBitmapMatcher) MatchDomainBitmap(domain string) []uint32 {
	return m.w.bitmapOf(m.w.nameIndex(domain))
}

// bitmapOf: the name's bitmap under the domain rules currently in force.
func (w *dnsWorld) bitmapOf(name int) []uint32 { return w.bitmapOfGen(name, w.bitmapGen) }

// bitmapOf: the domain-rule bitmap of a name (a pure function of the name; the
// routing rule matcher itself is not under test here). Name 0 has the all-zero
// bitmap, the others differ and overlap.
//
// The table has generations (a reload may change the domain rules): in generations
// 1 mod 3 the even names match no domain rule at all, in generations 2 mod 3 the odd
// names, in generations 0 mod 3 every name has its base bitmap. So an owner's bitmap
// goes non-zero -> zero -> non-zero over reloads while its addresses stay.
func (w *dnsWorld) bitmapOfGen(name int, gen int) []uint32 {
	b := make([]uint32, len(bpfDomainRouting{}.Bitmap))
	if (gen%3 == 1 && name%2 == 0) || (gen%3 == 2 && name%2 == 1) {
		return b
	}
	switch {
	case name <= 0:
	case name%2 == 1:
		b[0] = 1<<uint(name) | 1<<8
		b[31] = 1 << 31
	default:
		b[0] = 1 << uint(name)
		b[1] = uint32(name)
	}
	return b
}

func (w *dnsWorld) chooseDialer(ctx context.Context, req *udpRequest, upstream *dns.Upstream) (*dialArgument, error) {
	if upstream == nil {
		return nil, errors.New("nil upstream")
	}
	_, l4 := upstream.SupportedNetworks()
	if len(l4) == 0 {
		return nil, fmt.Errorf("no network for %v", upstream.String())
	}
	addr := upstream.Ip4
	di := 0
	if len(w.dialers) > 1 {
		// upstreams with an odd last address byte are reached through the proxy-backed node
		if up := w.upByAddr(netip.AddrPortFrom(addr, upstream.Port).String()); up >= 0 && up%2 == 1 {
			di = 1
		}
	}
	return &dialArgument{l4proto: l4[0], ipversion: consts.IpVersionStr_4, bestDialer: w.dialers[di],
		bestTarget: netip.AddrPortFrom(addr, upstream.Port)}, nil
}

// cachedUnder: the entry the (newest) controller holds under a raw cache key.
func (w *dnsWorld) cachedUnder(raw string) *DnsCache {
	ctl := w.ctl
	if w.newCtl != nil {
		ctl = w.newCtl
	}
	if ctl == nil {
		return nil
	}
	v, _ := ctl.dnsCache.Load(raw)
	c, _ := v.(*DnsCache)
	return c
}

func (w *dnsWorld) controllerOption() *DnsControllerOption { return w.controllerOptionFor(false) }

// controllerOptionFor builds the option the way both production callers do: the dns section's
// behaviour settings (optimistic cache, its TTL, the size limit) are stored on the plane when it is
// built (NewControlPlane), and ControlPlane.dnsControllerOption() carries them - for a new controller
// and for the reload that keeps the previous controller's store (ReuseDNSControllerFrom, reuse=true)
// alike. Nothing is added to the option here: before repair 479d7df of /repo the reuse path silently
// reset them (finding 41), which this engine saw as stale answers no longer served after a reload.
func (w *dnsWorld) controllerOptionFor(reuse bool) *DnsControllerOption {
	w.plane.dnsOptimisticCache = w.cfg.optimistic
	w.plane.dnsOptimisticCacheTtl = w.cfg.staleTtl
	w.plane.dnsMaxCacheSize = w.cfg.maxSize
	opt := w.plane.dnsControllerOption()
	_ = reuse
	// remember which domain-rule bitmap each cache entry was created with (the oracle's
	// "domain-rule bitmap of the cache entry"; the entry's own field is not read)
	prodNew := opt.NewCache
	opt.NewCache = func(fqdn string, answers, ns, extra []dnsmessage.RR, deadline time.Time, originalDeadline time.Time) (*DnsCache, error) {
		c, err := prodNew(fqdn, answers, ns, extra, deadline, originalDeadline)
		if c != nil {
			w.entryBitmap[c] = w.bitmapOf(w.nameIndex(fqdn))
		}
		return c, err
	}
	opt.BestDialerChooser = w.chooseDialer
	opt.TimeoutExceedCallback = func(*dialArgument, error) {}
	// observe which path evicts an entry (the production callback still runs)
	prod := opt.CacheDeleteCallback
	opt.CacheDeleteCallback = func(k string, c *DnsCache) error {
		w.evictCause[c] = dnsEvictionPath()
		if w.kern != nil {
			delete(w.kern.batchKeys, verifsim.TaskName())
		}
		if w.kern != nil {
			w.kern.inCallback++
		}
		err := prod(k, c)
		if w.kern != nil {
			w.kern.inCallback--
		}
		if w.kern != nil && c != nil {
			w.kern.syncDone(k, c, true, err)
		}
		return err
	}
	prodAccess := opt.CacheAccessCallback
	opt.CacheAccessCallback = func(c *DnsCache) error {
		async := dnsCallerHas("processBpfUpdateTask")
		before := w.cachedUnder(c.RouteOwnerKey)
		if w.kern != nil {
			delete(w.kern.batchKeys, verifsim.TaskName())
		}
		if w.mode == dnsModeC10 && c.routeLive != nil && !w.liveWrapped[c] {
			// A goroutine may be preempted right after it has looked whether its entry is
			// still the cached one: every third such look is followed by a short pause
			// (1 ms of simulated time; derived from a counter, no draw), the others by a
			// plain scheduling point.
			w.liveWrapped[c] = true
			orig := c.routeLive
			c.routeLive = func() bool {
				r := orig()
				w.liveLooks++
				if w.liveLooks%3 == 0 {
					w.kern.inSync++
					time.Sleep(time.Millisecond)
					verifsim.YieldB("preempted-after-liveness-look")
					w.kern.inSync--
				} else {
					verifsim.Yield("after-liveness-look")
				}
				return r
			}
		}
		if w.kern != nil {
			w.kern.inCallback++
		}
		err := prodAccess(c)
		if w.kern != nil {
			w.kern.inCallback--
		}
		if after := w.cachedUnder(c.RouteOwnerKey); async && before == c && after != c {
			w.s.Probe("dns.c10-async-update-overtaken-by-replacement-or-eviction")
		}
		if w.kern != nil && c != nil {
			w.kern.syncDone(c.RouteOwnerKey, c, false, err)
		}
		return err
	}
	return opt
}

func (w *dnsWorld) buildPlane(mode consts.DialMode) error {
	ctx, cancel := context.WithCancel(context.Background())
	core := &controlPlaneCore{log: w.log, domainRouting: newDomainRoutingTracker()}
	fake := &bpfObjects{}
	w.kern = dnsNewKernMap(w)
	fake.DomainRoutingMap = w.kern.handle
	core.bpf.Store(fake)
	p := &ControlPlane{log: w.log, core: core, ctx: ctx, cancel: cancel}
	p.dialMode = mode
	p.routingMatcher = &RoutingMatcher{domainMatcher: dnsBitmapMatcher{w}}
	p.realDomainSet = dnsNewBloom()
	p.bootstrapResolvers = []netip.AddrPort{netip.MustParseAddrPort("10.8.8.8:53")}
	p.dnsFixedDomainTtl = w.cfg.fixed
	w.plane = p
	routing, err := w.buildRouting(w.rules)
	if err != nil {
		return err
	}
	p.dnsRouting = routing
	dnsCacheJanitorInterval = w.cfg.janitor
	dnsForwarderIdleTTL = w.cfg.idleTTL
	w.installForwarderFactory()
	ctl, err := NewDnsController(routing, w.controllerOption())
	if err != nil {
		return err
	}
	p.dnsController = ctl
	w.ctl = ctl
	return nil
}

func (w *dnsWorld) installForwarderFactory() {
	dnsForwarderFactory = func(upstream *dns.Upstream, dialArg dialArgument, log *logrus.Logger) (DnsForwarder, error) {
		real, err := newDnsForwarder(upstream, dialArg, log)
		if err != nil {
			return nil, err
		}
		f := &dnsFwd{w: w, id: len(w.fwds), real: real, up: upstream.String(), l4: dialArg.l4proto}
		w.fwds = append(w.fwds, f)
		w.s.Notef("forwarder f%d created for %s over %s", f.id, f.up, f.l4)
		return f, nil
	}
}

// ---------------------------------------------------------------------------
// clients

type dnsRW struct {
	w  *dnsWorld
	op *dnsOp
}

func (r *dnsRW) LocalAddr() net.Addr  { return &net.TCPAddr{IP: net.IPv4(10, 0, 0, 1), Port: 53} }
func (r *dnsRW) RemoteAddr() net.Addr { return &net.TCPAddr{IP: net.IPv4(192, 168, 1, 9), Port: 4000} }
func (r *dnsRW) WriteMsg(m *dnsmessage.Msg) error {
	// A writer serialises the message it was handed a little later (slow client
	// connection, preempted goroutine): nobody may touch that message in between.
	verifsim.Yield("client-writer-serialises")
	b, err := m.Pack()
	if err != nil {
		r.w.s.Failf("c09-unpackable-reply", "reply written to client c%d op %d cannot be packed: %v", r.op.cli, r.op.idx, err)
		return err
	}
	r.w.onClientReply(r.op, b)
	return nil
}
func (r *dnsRW) Write(b []byte) (int, error) { r.w.onClientReply(r.op, b); return len(b), nil }
func (r *dnsRW) Close() error                { return nil }
func (r *dnsRW) TsigStatus() error           { return nil }
func (r *dnsRW) TsigTimersOnly(bool)         {}
func (r *dnsRW) Hijack()                     {}

func (w *dnsWorld) onClientReply(op *dnsOp, raw []byte) {
	m := new(dnsmessage.Msg)
	if err := m.Unpack(raw); err != nil {
		w.s.Failf("c09-unparsable-reply", "client c%d op %d received %d bytes that are not a DNS message: %v", op.cli, op.idx, len(raw), err)
		return
	}
	op.replies = append(op.replies, m)
	ids, _ := w.decodeAnswers(m.Answer)
	w.s.Notef("client c%d op %d <- reply id=%d rcode=%d tc=%v q=%v answers=%v", op.cli, op.idx, m.Id, m.Rcode, m.Truncated, dnsQuestionString(m), dnsAnsIDs(ids))
	w.checkReply(op, m)
}

func dnsQuestionString(m *dnsmessage.Msg) string {
	if len(m.Question) == 0 {
		return "<none>"
	}
	return fmt.Sprintf("%s/%s", m.Question[0].Name, dnsmessage.TypeToString[m.Question[0].Qtype])
}

func dnsAnsIDs(ids []int) string {
	var p []string
	for _, i := range ids {
		p = append(p, fmt.Sprintf("a%d", i))
	}
	return "[" + strings.Join(p, " ") + "]"
}

func (w *dnsWorld) installSendHook() {
	verifDnsSendPktHook = func(data []byte, from, to netip.AddrPort) error {
		// the datagram leaves when sendmsg runs, not when the caller prepared the
		// bytes: a scheduling point before the bytes are looked at
		verifsim.Yield("client-udp-sendmsg")
		for ci, a := range w.cliAddr {
			if a == to {
				for _, op := range w.ops {
					if op.cli == ci && !op.done && op.task != "" {
						if from != w.resolverAddr(op) {
							w.s.Failf("c09-reply-from-wrong-source", "reply to client c%d sent from %v, the question was addressed to %v", ci, from, w.resolverAddr(op))
						}
						w.onClientReply(op, append([]byte(nil), data...))
						return nil
					}
				}
				w.s.Failf("c09-unsolicited-reply", "datagram sent to client c%d which has no question outstanding", ci)
				return nil
			}
		}
		w.s.Failf("harness-dns", "packet sent to unknown client address %v", to)
		return nil
	}
}

func (w *dnsWorld) clientAddr(ci int) netip.AddrPort {
	for len(w.cliAddr) <= ci {
		n := len(w.cliAddr)
		w.cliAddr = append(w.cliAddr, netip.MustParseAddrPort(fmt.Sprintf("192.168.1.%d:%d", 10+n, 5000+n)))
	}
	return w.cliAddr[ci]
}

// wireName renders a name the way a client may spell it.
func (w *dnsWorld) wireName(name int, style int) string {
	n := dnsAllNames[name]
	switch style {
	case 1:
		n = strings.ToUpper(n)
	case 2:
		n = strings.ToUpper(n[:1]) + n[1:]
	}
	return n + "."
}

// doOp issues one client question through the real handler (runs on a client task).
func (w *dnsWorld) doOp(op *dnsOp, timeout time.Duration) {
	s := w.s
	ctl := w.ctl
	op.task = verifsim.TaskName()
	op.gen = w.gen
	op.key = w.opKey(op)
	op.expectReject = op.key.scope == -1
	op.reloadOverlap = w.reloads
	op.rs = w.rules
	if w.track != nil {
		w.track.scan()
		op.pre = w.track.entry(op.key)
	}
	w.curOp[op.task] = op
	delete(w.chains, op.task)
	msg := new(dnsmessage.Msg)
	msg.Id = op.id
	msg.RecursionDesired = true
	msg.Question = []dnsmessage.Question{{Name: op.qname, Qtype: op.qtype, Qclass: dnsmessage.ClassINET}}
	src := w.clientAddr(op.cli)
	req := &udpRequest{realSrc: src, realDst: w.resolverAddr(op), src: src, routingResult: &bpfRoutingResult{}}
	var rw dnsmessage.ResponseWriter
	if op.viaUDP {
		req.lConn = &net.UDPConn{}
	} else {
		rw = &dnsRW{w: w, op: op}
	}
	op.start, op.startStep = s.Now(), s.Step
	path := "writer"
	if op.viaUDP {
		path = "udp"
	}
	s.Notef("client c%d op %d -> ask %s %s id=%d (%s path, key %v)", op.cli, op.idx, op.qname, dnsmessage.TypeToString[op.qtype], op.id, path, op.key)
	ctx, cancel := context.WithTimeout(context.Background(), timeout)
	err := ctl.HandleWithResponseWriter_(ctx, msg, req, rw)
	cancel()
	op.err = err
	op.end, op.endStep = s.Now(), s.Step
	op.genEnd = w.gen
	op.done = true
	delete(w.curOp, op.task)
	delete(w.chains, op.task)
	if err != nil {
		s.Notef("client c%d op %d: handler returned error: %v", op.cli, op.idx, err)
	}
	w.opsDone++
	w.afterOp(op)
}

// resolverAddr: the DNS server the client addressed its question to.
func (w *dnsWorld) resolverAddr(op *dnsOp) netip.AddrPort {
	if op.resolver == 1 {
		return w.asis2
	}
	return w.asis
}

// opKey: the cache scope of a client question; questions routed as-is are scoped by the resolver addressed.
func (w *dnsWorld) opKey(op *dnsOp) dnsKey {
	k := w.keyOf(op.name, op.qtype)
	if k.scope == len(w.ups) && op.resolver == 1 {
		k.scope++
		w.s.Probe("dns.as-is-question-to-the-second-resolver")
	}
	return k
}

func (w *dnsWorld) keyOf(name int, qtype uint16) dnsKey {
	return dnsKey{name: name, qtype: qtype, scope: w.rules.evalRequest(dnsAllNames[name], qtype, len(w.ups))}
}

// dnsEvictionPath names the controller path that is evicting an entry (from the call stack).
func dnsEvictionPath() string {
	switch {
	case dnsCallerHas("evictLRUIfFull"):
		return "lru"
	case dnsCallerHas("evictExpiredDnsCache"):
		return "janitor-expiry"
	case dnsCallerHas("backgroundRefresh"):
		return "end-of-refresh"
	case dnsCallerHas("RemoveDnsRespCacheFamily"):
		return "rejected-question"
	case dnsCallerHas("LookupDnsRespCache_"):
		return "lookup"
	case dnsCallerHas("LookupDnsRespCache"):
		return "plain-lookup"
	}
	return "other"
}

// sortedInts is a tiny helper for stable messages.
func sortedInts(m map[int]bool) []int {
	var r []int
	for k := range m {
		r = append(r, k)
	}
	sort.Ints(r)
	return r
}
