package control

// kernsim world: the control-plane side of the simulated kernel.
//
// Real mode (bpf(2) available): the real Go install/read code of package control
// runs against REAL kernel maps created with cilium/ebpf, whose key/value sizes
// are the ones the compiled C program declares (as the loader would take them
// from the ELF). After every control-plane write the kernel maps are mirrored
// byte-for-byte into the C simulator; before every control-plane read the
// C-side maps are copied into the kernel maps under the C-computed key bytes.
//
// Fallback mode (bpf(2) refused): no kernel maps; the same real encoders / key
// constructors / structs are called directly and their bytes are fed to the
// simulator; RetrieveRoutingResult is replaced by a re-implemented two-step
// lookup that decodes the C-side bytes with the Go struct types.

import (
	"bytes"
	"context"
	"encoding/binary"
	"errors"
	"fmt"
	"io"
	"os"
	"reflect"
	"sort"
	"sync"
	"unsafe"

	"github.com/cilium/ebpf"
	"github.com/daeuniverse/dae/common/consts"
	verifsim "github.com/daeuniverse/dae/internal/verifsim"
	"github.com/sirupsen/logrus"
)

var (
	ksBpfProbeOnce sync.Once
	ksBpfOK        bool
)

func ksProbeBpf() bool {
	ksBpfProbeOnce.Do(func() {
		if os.Getenv("VERIF_KERNSIM_NOBPF") != "" {
			return
		}
		m, err := ebpf.NewMap(&ebpf.MapSpec{Type: ebpf.Array, KeySize: 4, ValueSize: 4, MaxEntries: 1})
		if err != nil {
			return
		}
		m.Close()
		lpm, err := ebpf.NewMap(&ebpf.MapSpec{Type: ebpf.LPMTrie, KeySize: 20, ValueSize: 4, MaxEntries: 8, Flags: 1})
		if err != nil {
			return
		}
		lpm.Close()
		ksBpfOK = true
	})
	return ksBpfOK
}

type ksWorldOpts struct {
	LpmArrayMax   uint32 // 0 = as declared
	LpmInnerMax   uint32
	RoutingMapMax uint32
}

type ksWorld struct {
	s    *verifsim.Sim
	c    *ksClient
	real bool
	bpf  *bpfObjects
	log  *logrus.Logger
	now  uint64 // simulated ktime (ns)

	// mirror caches (what the simulator currently holds for control-plane-written maps)
	cacheRouting map[uint32][]byte
	cacheMeta    []byte
	cacheLpm     map[uint32]string
	cacheDomain  map[string][]byte
	cacheConn    map[uint32][]byte

	lastRing uint32
	noBatch  bool

	// fallback-mode state
	fbSlots map[uint32]bool
}

func ksDiscardLogger() *logrus.Logger {
	l := logrus.New()
	l.SetOutput(io.Discard)
	l.SetLevel(logrus.PanicLevel)
	return l
}

type ksInfra struct{ msg string }

// ksFatal aborts the run as infrastructure trouble (never a violation).
func ksFatal(format string, a ...any) {
	fmt.Fprintf(os.Stderr, "KERNSIM INFRA: "+format+"\n", a...)
	os.Exit(2)
}

func newKsWorld(s *verifsim.Sim, o ksWorldOpts) *ksWorld {
	c, err := ksGet()
	if err != nil {
		ksFatal("cannot start simulator: %v", err)
	}
	if err := c.Reset(); err != nil {
		// a dead child right after start is infrastructure
		ksFatal("reset: %v", err)
	}
	w := &ksWorld{s: s, c: c, log: ksDiscardLogger(), real: ksProbeBpf(),
		cacheRouting: map[uint32][]byte{}, cacheLpm: map[uint32]string{}, cacheDomain: map[string][]byte{}, cacheConn: map[uint32][]byte{},
		fbSlots: map[uint32]bool{}}
	verifMonotonicNow = func() (uint64, error) { return w.now, nil }
	w.bpf = &bpfObjects{}
	if !w.real {
		s.Probe("kern.fallback-decode")
		return w
	}
	s.Probe("kern.real-bpf-maps")
	mk := func(name string, t ebpf.MapType, flags uint32, max uint32, inner *ebpf.MapSpec) *ebpf.Map {
		mi := c.Maps[name]
		if mi == nil {
			ksFatal("C program declares no map %q", name)
		}
		if max == 0 || max > mi.MaxEntries {
			max = mi.MaxEntries
		}
		spec := &ebpf.MapSpec{Type: t, KeySize: mi.KeySize, ValueSize: mi.ValueSize, MaxEntries: max, Flags: flags, InnerMap: inner}
		if t == ebpf.ArrayOfMaps {
			spec.ValueSize = 4
		}
		m, err := ebpf.NewMap(spec)
		if err != nil {
			ksFatal("creating kernel map %s: %v", name, err)
		}
		return m
	}
	const noPrealloc = 1
	lpmT := c.Maps["unused_lpm_type"]
	innerMax := o.LpmInnerMax
	if innerMax == 0 || innerMax > lpmT.MaxEntries {
		innerMax = lpmT.MaxEntries
	}
	innerSpec := &ebpf.MapSpec{Type: ebpf.LPMTrie, KeySize: lpmT.KeySize, ValueSize: lpmT.ValueSize, MaxEntries: innerMax, Flags: noPrealloc}
	b := w.bpf
	b.UnusedLpmType = mk("unused_lpm_type", ebpf.LPMTrie, noPrealloc, innerMax, nil)
	b.LpmArrayMap = mk("lpm_array_map", ebpf.ArrayOfMaps, 0, o.LpmArrayMax, innerSpec)
	b.RoutingMap = mk("routing_map", ebpf.Array, 0, o.RoutingMapMax, nil)
	b.RoutingMetaMap = mk("routing_meta_map", ebpf.Array, 0, 0, nil)
	b.DomainRoutingMap = mk("domain_routing_map", ebpf.Hash, noPrealloc, 4096, nil)
	b.OutboundConnectivityMap = mk("outbound_connectivity_map", ebpf.Array, 0, 0, nil)
	b.ConnStateMap = mk("conn_state_map", ebpf.Hash, noPrealloc, 4096, nil)
	b.RoutingHandoffMap = mk("routing_handoff_map", ebpf.Hash, noPrealloc, 4096, nil)
	return w
}

func (w *ksWorld) Close() {
	verifMonotonicNow = nil
	if w.bpf != nil {
		w.bpf.Close()
	}
}

// simErr turns a simulator failure into the right outcome: a dead simulator
// process (sanitizer report, crash) is a violation of the code under test.
func (w *ksWorld) simErr(err error) bool {
	if err == nil {
		return false
	}
	if w.c.dead {
		w.s.Failf("kern-memory-error", "%s", w.c.deadMsg)
		return true
	}
	ksFatal("simulator protocol error: %v", err)
	return true
}

func (w *ksWorld) SetTime(ns uint64) bool {
	w.now = ns
	return !w.simErr(w.c.SetTime(ns))
}

func ksNative(v any) []byte {
	var b bytes.Buffer
	if err := binary.Write(&b, binary.NativeEndian, v); err != nil {
		ksFatal("encoding %T: %v", v, err)
	}
	return b.Bytes()
}

func ksRawBytes[T any](v *T) []byte {
	return append([]byte(nil), unsafe.Slice((*byte)(unsafe.Pointer(v)), unsafe.Sizeof(*v))...)
}

func u32key(i uint32) []byte {
	var b [4]byte
	binary.NativeEndian.PutUint32(b[:], i)
	return b[:]
}

// ---- kernel map raw access ----

func kmLookup(m *ebpf.Map, key []byte) ([]byte, bool, error) {
	val := make([]byte, m.ValueSize())
	err := m.Lookup(key, &val)
	if err != nil {
		if errors.Is(err, ebpf.ErrKeyNotExist) {
			return nil, false, nil
		}
		return nil, false, err
	}
	return val, true, nil
}

func kmDump(m *ebpf.Map) ([]ksKV, error) {
	var out []ksKV
	it := m.Iterate()
	k := make([]byte, m.KeySize())
	v := make([]byte, m.ValueSize())
	for it.Next(&k, &v) {
		out = append(out, ksKV{append([]byte(nil), k...), append([]byte(nil), v...)})
	}
	if err := it.Err(); err != nil {
		return nil, err
	}
	sort.Slice(out, func(i, j int) bool { return bytes.Compare(out[i].K, out[j].K) < 0 })
	return out, nil
}

// ---- mirroring: kernel maps -> simulator (control-plane-written maps) ----

// MirrorRouting copies routing_map, routing_meta_map and the lpm_array_map slots
// from the kernel maps into the simulator. full=false restricts the slot scan to
// slots the simulator already holds plus the ring window the allocator moved
// over since the last mirror; every run ends with a full scan.
func (w *ksWorld) MirrorRouting(full bool) bool {
	if !w.real {
		return true
	}
	rm, mm, lm := w.c.Maps["routing_map"], w.c.Maps["routing_meta_map"], w.c.Maps["lpm_array_map"]
	max := w.bpf.RoutingMap.MaxEntries()
	vs := int(w.bpf.RoutingMap.ValueSize())
	vals := w.batchArray(w.bpf.RoutingMap)
	for i := uint32(0); i < max; i++ {
		v := vals[int(i)*vs : int(i+1)*vs]
		if old, had := w.cacheRouting[i]; had && bytes.Equal(old, v) {
			continue
		}
		if !w.cacheHas(i) && isZero(v) {
			w.cacheRouting[i] = append([]byte(nil), v...)
			continue
		}
		if _, err := w.c.MapPut(rm, u32key(i), v); w.simErr(err) {
			return false
		}
		w.cacheRouting[i] = append([]byte(nil), v...)
	}
	v, ok, err := kmLookup(w.bpf.RoutingMetaMap, u32key(0))
	if err != nil || !ok {
		ksFatal("routing_meta_map lookup: %v", err)
	}
	if !bytes.Equal(v, w.cacheMeta) {
		if _, err := w.c.MapPut(mm, u32key(0), v); w.simErr(err) {
			return false
		}
		w.cacheMeta = v
	}
	amax := w.bpf.LpmArrayMap.MaxEntries()
	var slots []uint32
	if full {
		for i := uint32(0); i < amax; i++ {
			slots = append(slots, i)
		}
	} else {
		seen := map[uint32]bool{}
		for i := range w.cacheLpm {
			seen[i] = true
		}
		ring := uint32(consts.MaxMatchSetLen)
		cur := globalNextLpmIndex.Load()
		for i := w.lastRing; ; i = (i + 1) % ring {
			seen[i%ring] = true
			if i == cur {
				break
			}
		}
		for i := range seen {
			if i < amax {
				slots = append(slots, i)
			}
		}
		sort.Slice(slots, func(a, b int) bool { return slots[a] < slots[b] })
	}
	w.lastRing = globalNextLpmIndex.Load()
	for _, i := range slots {
		var id uint32
		err := w.bpf.LpmArrayMap.Lookup(i, &id)
		if err != nil {
			if !errors.Is(err, ebpf.ErrKeyNotExist) {
				ksFatal("lpm_array_map[%d] lookup: %v", i, err)
			}
			if _, had := w.cacheLpm[i]; had {
				if _, err := w.c.InnerDel(lm, i); w.simErr(err) {
					return false
				}
				delete(w.cacheLpm, i)
			}
			continue
		}
		im, err := ebpf.NewMapFromID(ebpf.MapID(id))
		if err != nil {
			ksFatal("open inner lpm %d: %v", id, err)
		}
		ents, err := kmDump(im)
		im.Close()
		if err != nil {
			ksFatal("dump inner lpm: %v", err)
		}
		var sig bytes.Buffer
		for _, e := range ents {
			sig.Write(e.K)
			sig.Write(e.V)
		}
		if old, had := w.cacheLpm[i]; had && old == sig.String() {
			continue
		}
		if _, err := w.c.InnerSet(lm, i, ents); w.simErr(err) {
			return false
		}
		w.cacheLpm[i] = sig.String()
	}
	return true
}

// batchArray reads a whole ARRAY map with one batch lookup (falls back to single lookups).
func (w *ksWorld) batchArray(m *ebpf.Map) []byte {
	n, vs := int(m.MaxEntries()), int(m.ValueSize())
	out := make([]byte, n*vs)
	if !w.noBatch {
		keys := make([]uint32, n)
		// a []([vs]byte) built by reflection: cilium wants len(values) == len(keys)
		vt := reflect.SliceOf(reflect.ArrayOf(vs, reflect.TypeOf(byte(0))))
		vals := reflect.MakeSlice(vt, n, n)
		var cur ebpf.MapBatchCursor
		got, err := m.BatchLookup(&cur, keys, vals.Interface(), nil)
		if got == n && (err == nil || errors.Is(err, ebpf.ErrKeyNotExist)) {
			ok := true
			for i, k := range keys {
				if k != uint32(i) {
					ok = false
					break
				}
			}
			if ok {
				copy(out, unsafe.Slice((*byte)(vals.UnsafePointer()), n*vs))
				return out
			}
		}
		w.noBatch = true
	}
	for i := 0; i < n; i++ {
		v, ok, err := kmLookup(m, u32key(uint32(i)))
		if err != nil || !ok {
			ksFatal("array lookup [%d]: %v", i, err)
		}
		copy(out[i*vs:], v)
	}
	return out
}

func (w *ksWorld) cacheHas(i uint32) bool { _, ok := w.cacheRouting[i]; return ok }

func isZero(b []byte) bool {
	for _, x := range b {
		if x != 0 {
			return false
		}
	}
	return true
}

func (w *ksWorld) MirrorDomain() bool {
	dm := w.c.Maps["domain_routing_map"]
	var ents []ksKV
	if w.real {
		var err error
		ents, err = kmDump(w.bpf.DomainRoutingMap)
		if err != nil {
			ksFatal("dump domain_routing_map: %v", err)
		}
	}
	return w.applyDomain(dm, ents)
}

func (w *ksWorld) applyDomain(dm *ksMapInfo, ents []ksKV) bool {
	seen := map[string]bool{}
	for _, e := range ents {
		seen[string(e.K)] = true
		if old, ok := w.cacheDomain[string(e.K)]; ok && bytes.Equal(old, e.V) {
			continue
		}
		if _, err := w.c.MapPut(dm, e.K, e.V); w.simErr(err) {
			return false
		}
		w.cacheDomain[string(e.K)] = e.V
	}
	var gone []string
	for k := range w.cacheDomain {
		if !seen[k] {
			gone = append(gone, k)
		}
	}
	sort.Strings(gone)
	for _, k := range gone {
		if _, err := w.c.MapDel(dm, []byte(k)); w.simErr(err) {
			return false
		}
		delete(w.cacheDomain, k)
	}
	return true
}

func (w *ksWorld) MirrorConnectivity() bool {
	if !w.real {
		return true
	}
	cm := w.c.Maps["outbound_connectivity_map"]
	max := w.bpf.OutboundConnectivityMap.MaxEntries()
	vs := int(w.bpf.OutboundConnectivityMap.ValueSize())
	vals := w.batchArray(w.bpf.OutboundConnectivityMap)
	for i := uint32(0); i < max; i++ {
		v := vals[int(i)*vs : int(i+1)*vs]
		old, had := w.cacheConn[i]
		if had && bytes.Equal(old, v) {
			continue
		}
		if !had && isZero(v) {
			w.cacheConn[i] = append([]byte(nil), v...)
			continue
		}
		if _, err := w.c.MapPut(cm, u32key(i), v); w.simErr(err) {
			return false
		}
		w.cacheConn[i] = append([]byte(nil), v...)
	}
	return true
}

// ---- mirroring: simulator -> kernel maps (datapath-written maps read by Go) ----

func (w *ksWorld) syncToKernel(name string, m *ebpf.Map) bool {
	mi := w.c.Maps[name]
	cents, err := w.c.MapDump(mi)
	if w.simErr(err) {
		return false
	}
	kents, err := kmDump(m)
	if err != nil {
		ksFatal("dump %s: %v", name, err)
	}
	want := map[string][]byte{}
	for _, e := range cents {
		want[string(e.K)] = e.V
	}
	for _, e := range kents {
		if _, ok := want[string(e.K)]; !ok {
			if err := m.Delete(e.K); err != nil && !errors.Is(err, ebpf.ErrKeyNotExist) {
				ksFatal("delete %s: %v", name, err)
			}
		}
	}
	for _, e := range cents {
		if err := m.Update(e.K, e.V, ebpf.UpdateAny); err != nil {
			ksFatal("mirror %s into the kernel map: %v", name, err)
		}
	}
	return true
}

// syncFromKernel propagates control-plane deletions back into the simulator.
func (w *ksWorld) syncFromKernel(name string, m *ebpf.Map) bool {
	mi := w.c.Maps[name]
	cents, err := w.c.MapDump(mi)
	if w.simErr(err) {
		return false
	}
	kents, err := kmDump(m)
	if err != nil {
		ksFatal("dump %s: %v", name, err)
	}
	have := map[string]bool{}
	for _, e := range kents {
		have[string(e.K)] = true
	}
	for _, e := range cents {
		if !have[string(e.K)] {
			if _, err := w.c.MapDel(mi, e.K); w.simErr(err) {
				return false
			}
		}
	}
	return true
}

func (w *ksWorld) FlowMapsToKernel() bool {
	if !w.real {
		return true
	}
	return w.syncToKernel("conn_state_map", w.bpf.ConnStateMap) && w.syncToKernel("routing_handoff_map", w.bpf.RoutingHandoffMap)
}

func (w *ksWorld) FlowMapsFromKernel() bool {
	if !w.real {
		return true
	}
	return w.syncFromKernel("conn_state_map", w.bpf.ConnStateMap) && w.syncFromKernel("routing_handoff_map", w.bpf.RoutingHandoffMap)
}

// ---- install of one routing generation ----

type ksGeneration struct {
	core     *controlPlaneCore
	snapshot *routingKernspaceSnapshot
	matcher  *RoutingMatcher
	text     string
	ref      *refProgram
}

func newKsCore(w *ksWorld, id2name map[uint8]string) *controlPlaneCore {
	closed, toClose := context.WithCancel(context.Background())
	core := &controlPlaneCore{
		log:             w.log,
		outboundId2Name: id2name,
		closed:          closed,
		close:           toClose,
		domainRouting:   newDomainRoutingTracker(),
		bpfOwned:        false,
	}
	core.bpf.Store(w.bpf)
	return core
}

// BuildKernspace installs the generation's program the way NewControlPlane /
// CommitPreparedDatapath do, and mirrors the result into the simulator.
func (w *ksWorld) BuildKernspace(g *ksGeneration) ([]uint32, error) {
	if w.real {
		idx, err := g.snapshot.BuildKernspace(w.log, w.bpf)
		if err != nil {
			w.MirrorRouting(false) // whatever was written before the failure is what the kernel sees
			return nil, err
		}
		sort.Slice(idx, func(i, j int) bool { return idx[i] < idx[j] })
		w.MirrorRouting(false)
		return idx, nil
	}
	return w.fallbackBuildKernspace(g)
}

// fallbackBuildKernspace: the glue of buildRoutingKernspace re-done over the
// real pieces (reserveLpmRingSlots, cidrToBpfLpmKey, rewriteKernRulesWithRingLpmIndex,
// the Go struct encodings) because its map calls need a kernel.
func (w *ksWorld) fallbackBuildKernspace(g *ksGeneration) ([]uint32, error) {
	sn := g.snapshot
	if len(sn.rules) == 0 {
		return nil, fmt.Errorf("no routing rules to build")
	}
	lpmCount := uint32(len(sn.simulatedLpmTries))
	start, err := reserveLpmRingSlots(lpmCount)
	if err != nil {
		return nil, err
	}
	lm, rm, mm := w.c.Maps["lpm_array_map"], w.c.Maps["routing_map"], w.c.Maps["routing_meta_map"]
	var used []uint32
	for i, cidrs := range sn.simulatedLpmTries {
		var ents []ksKV
		seen := map[string]bool{}
		for _, c := range cidrs {
			k := ksNative(cidrToBpfLpmKey(c))
			if seen[string(k)] {
				continue
			}
			seen[string(k)] = true
			ents = append(ents, ksKV{k, u32key(1)})
		}
		slot := (start + uint32(i)) % uint32(consts.MaxMatchSetLen)
		st, err := w.c.InnerSet(lm, slot, ents)
		if w.simErr(err) {
			return nil, nil
		}
		if st != 0 {
			return nil, fmt.Errorf("update lpm slot %d: errno %d", slot, -st)
		}
		used = append(used, slot)
		w.fbSlots[slot] = true
	}
	kern, err := rewriteKernRulesWithRingLpmIndex(sn.rules, start, lpmCount)
	if err != nil {
		return nil, err
	}
	for i := range kern {
		st, err := w.c.MapPut(rm, u32key(uint32(i)), ksNative(kern[i]))
		if w.simErr(err) {
			return nil, nil
		}
		if st != 0 {
			return nil, fmt.Errorf("routing_map[%d]: errno %d", i, -st)
		}
	}
	if _, err := w.c.MapPut(mm, u32key(0), u32key(uint32(len(kern)))); w.simErr(err) {
		return nil, nil
	}
	sort.Slice(used, func(i, j int) bool { return used[i] < used[j] })
	return used, nil
}

// AfterSlotOps mirrors slot deletions done by Inherit/Replace/Close.
func (w *ksWorld) AfterSlotOps() bool {
	return w.MirrorRouting(false)
}
