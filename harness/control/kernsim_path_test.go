package control

// C03 engine "kernpath": the TC programs of the working tree's tproxy.c run
// natively over frames of a small set of flows, with the routing program,
// domain bitmaps, connectivity bits and PARAM block installed by the real Go
// code, a per-flow reference model written from the property text, every frame
// executed twice from the same pre-state (direct packet access vs. forced
// byte-load path), and the hand-over read back through the real
// controlPlaneCore.RetrieveRoutingResult.

import (
	"bytes"
	"encoding/binary"
	"fmt"
	"net/netip"
	"testing"
	"time"

	"github.com/daeuniverse/dae/common/consts"
	"github.com/daeuniverse/dae/component/outbound/dialer"
	verifsim "github.com/daeuniverse/dae/internal/verifsim"
	"golang.org/x/sys/unix"
)

func TestSimC03(t *testing.T) {
	verifsim.Main(t, verifsim.Engine{
		Prop: "C03", Name: "kernpath", NoBubble: true, Scenario: c03Scenario,
		Real: []string{
			"control/kern/tproxy.c: tproxy_{lan,wan}_{ingress,egress}_l{2,3}, tproxy_dae0peer_ingress, tproxy_dae0_ingress and the cgroup programs filling cookie_pid_map, compiled natively (clang, ASan+UBSan) from the working tree; both parse_transport_fast and parse_transport_slow",
			"controlPlaneCore.RetrieveRoutingResult (conn_state_map stage and routing_handoff_map stage incl. routingHandoffExpired against the simulated clock) over real kernel maps filled with the C-computed key/value bytes; bpfTuplesKeyFromAddrPorts",
			"outboundAliveChangeCallback + outboundConnectivityMapKey; Retain/ReleaseUdpConnStateTuples; the routing install path of C02 (builder, encoders, BuildKernspace, BatchUpdateDomainRouting); bpfDaeParam bytes as the PARAM block",
		},
		Stubs: []string{
			"the kernel: maps, clock, skb memory (linear window + guard page), helpers, socket lookups and process identity are simulated (kernsim/driver.c)",
			"TC attach order, checksum offload, bpf_redirect(_peer) semantics beyond the recorded target, the verifier",
			"PARAM is written from a bpfDaeParam value, not through fullLoadBpfObjects' anonymous literal (needs netns/netlink)",
			"when bpf(2) is unavailable (probe kern.fallback-decode) RetrieveRoutingResult is replaced by a two-step lookup decoding the C-side bytes with the Go structs",
		},
		Rule: "one run = routing program (<=6 rules) + connectivity bits + 2-5 flows (LAN/WAN, TCP/UDP, v4/v6, L2/L3, dae-owned, WAN-originated, DNS) with interleaved packet scripts, time advances, reloads, binding/connectivity changes, janitor deletes and map faults; non-trivial = at least one packet changed datapath state; signature = sequence of (event kind, flow class, verdict class)",
	})
}

const (
	c03LanIf  = 3
	c03WanIf  = 2
	c03Dae0If = 7
	c03DaePid = 4242
)

type c03Flow struct {
	id       int
	kind     int // 0 LAN ingress, 1 WAN egress, 2 inbound to local service (reply on wan_egress), 3 inbound to LAN service (reply on lan_ingress)
	l2       bool
	p        refPacket // forward direction as seen by the hook that decides (LAN ingress / WAN egress / the REPLY for inbound kinds)
	ext      []uint8   // IPv6 extension headers
	extLen   []int
	ipOpts   int // IPv4 option bytes (multiple of 4)
	daeOwned int // 0 no, 1 by pid, 2 by socket mark
	synPassMark uint32 // != 0: the SYN was forwarded as direct with this mark while the flow could not be stored
	cookie   uint64
	pid      uint32
	udpSock  uint8 // socket-lookup answer for LAN UDP (0 none, 1 somebody's socket, 2 dae's own)
	script   []c03Step
	pos      int

	tracked  bool
	decision refDecision
	closing  bool
	last     uint64
	tainted  bool
	originIn bool // tracked as opened from the WAN side
	shape    string // tag of a recorded defect shape that affects this flow's decision
	free     bool // statement silent for this flow (local socket present etc.)
}

type c03Step struct {
	syn, ack, fin, rst bool
	reverse            bool // frame of the other direction (inbound kinds: the inbound frame)
	pad                int
}

type c03State struct {
	s      *verifsim.Sim
	w      *ksWorld
	outs   *ksOutTable
	gen    *ksGeneration
	binds  []ksBinding
	param  bpfDaeParam
	alive  map[[3]int]bool // outbound, domain(0 tcp,1 dns-udp,2 data-udp), family(0 v4, 1 v6)
	flows  []*c03Flow
	now    uint64
	t0     uint64
	faulty bool
	changed bool
	gwMac  [6]byte
}

func c03Scenario(s *verifsim.Sim) {
	T := s.T
	outs := genOutbounds(T)
	globalNextLpmIndex.Store(uint32([]int{0, consts.MaxMatchSetLen - 2}[T.Choose(2)]))
	w := newKsWorld(s, ksWorldOpts{})
	defer w.Close()
	w.lastRing = globalNextLpmIndex.Load()
	st := &c03State{s: s, w: w, outs: outs, alive: map[[3]int]bool{}, gwMac: [6]byte{0x02, 0, 0, 0, 0, 0xfe}}
	st.now = uint64(1000+T.Choose(5000)) * 1e9
	st.t0 = st.now
	if !w.SetTime(st.now) {
		return
	}
	// PARAM block
	st.param = bpfDaeParam{TproxyPort: 12345, ControlPlanePid: c03DaePid, Dae0Ifindex: c03Dae0If, DaeNetnsId: 99,
		Dae0peerMac: [6]uint8{0x02, 0xda, 0xe0, 0, 0, 1}, UseRedirectPeer: uint8(T.Choose(2)), HasBpfGetCurrentTask: uint8(T.Choose(2)),
		DaeSocketMark: []uint32{0x8a, 0, 0x4000}[T.Choose(3)]}
	if rc, err := w.c.SetParam(ksNative(st.param)); w.simErr(err) {
		return
	} else if rc != 0 {
		s.Failf("param-layout", "the Go bpfDaeParam encoding has %d bytes, the C program's struct dae_param %d", len(ksNative(st.param)), w.c.ParamSize)
		return
	}
	// first generation
	if !st.install(genRuleText(T, outs, 6), true) {
		return
	}
	// connectivity bits: everything set explicitly once (array starts at 0 = down)
	for _, g := range outs.groups {
		id := int(outs.name2id[g])
		for dom := 0; dom < 3; dom++ {
			for fam := 0; fam < 2; fam++ {
				st.setAlive(id, dom, fam, !T.Chance(1, 5), true)
			}
		}
	}
	for _, id := range []int{0, 1} {
		for dom := 0; dom < 3; dom++ {
			for fam := 0; fam < 2; fam++ {
				st.setAlive(id, dom, fam, true, true)
			}
		}
	}
	if !w.MirrorConnectivity() {
		return
	}
	// faults
	switch T.Pick(10, 2, 2, 1) {
	case 1:
		st.faulty = true
		if w.simErr(w.c.SetMaxEntries(w.c.Maps["conn_state_map"], uint32(1+T.Choose(3)))) {
			return
		}
	case 2:
		st.faulty = true
		if w.simErr(w.c.SetFault(w.c.Maps["conn_state_map"], int32(T.Choose(4)), int32(unix.E2BIG), T.Chance(1, 3))) {
			return
		}
	case 3:
		if ksSkip("lanhandoff") {
			break
		}
		st.faulty = true
		if w.simErr(w.c.SetFault(w.c.Maps["routing_handoff_map"], int32(T.Choose(3)), int32(unix.ENOMEM), T.Chance(1, 2))) {
			return
		}
	}
	// flows
	nf := 2 + T.Pick(3, 3, 2, 1)
	for i := 0; i < nf; i++ {
		f := st.genFlow(T, i)
		st.flows = append(st.flows, f)
		if f.kind == 1 && f.daeOwned != 2 && f.cookie != 0 {
			if !st.registerProcess(f) {
				return
			}
		}
	}
	// interleaving
	for step := 0; step < 120 && !s.Failed(); step++ {
		var live []*c03Flow
		for _, f := range st.flows {
			if f.pos < len(f.script) {
				live = append(live, f)
			}
		}
		if len(live) == 0 {
			break
		}
		ev := T.Pick(16, 4, 1, 1, 1, 1, 1)
		if (ev == 2 || ev == 3) && st.hasWanUdpDirect() && (!T.Chance(1, 6) || ksSkip("wanudpdirect")) {
			// changing rules/bindings under a tracked WAN UDP flow that was decided plain direct is
			// rare on purpose: recorded defect "wan-udp-direct-recomputed"
			ev = 1
		}
		switch ev {
		case 0:
			f := live[T.Choose(len(live))]
			st.sendNext(f)
		case 1:
			st.advance(T)
			st.realJanitor() // the conn-state janitor ticks every few seconds in production
		case 2:
			if st.install(genRuleText(T, outs, 6), false) {
				s.SeqStep("reload", "", true)
				st.changed = true
			}
		case 3:
			st.binds = nil
			st.rebind(T)
			s.SeqStep("rebind", "", true)
			st.changed = true
		case 4:
			if len(outs.groups) > 0 {
				id := int(outs.name2id[outs.groups[T.Choose(len(outs.groups))]])
				dom, fam := T.Choose(3), T.Choose(2)
				st.setAlive(id, dom, fam, !st.alive[[3]int{id, dom, fam}], false)
				if !w.MirrorConnectivity() {
					return
				}
				s.SeqStep("health", fmt.Sprintf("o%d d%d f%d", id, dom, fam), true)
			}
		case 5:
			st.janitor(T)
		case 6:
			st.illegalFrame(T)
		}
	}
	st.gen.core.Close()
	s.SeqSimTime = time.Duration(st.now - st.t0)
}

// route asks the written rules about the flow's forward packet with the domain currently bound to its destination.
func (st *c03State) route(f *c03Flow) refDecision {
	f.p.domain = ""
	for _, b := range st.binds {
		for _, a := range b.addrs {
			if a == f.p.dst {
				f.p.domain = b.name
			}
		}
	}
	d := st.gen.ref.route(&f.p)
	// the kernel program is compiled from the optimised rule list: if the recorded optimiser defect
	// (C02 "negated-singleton-merge") changes this very decision, violations of this flow carry its tag
	f.shape = ""
	if v := st.gen.ref.variantNegMerge().route(&f.p); !sameDecision(v, d) {
		f.shape = "/negated-singleton-merge"
	}
	return d
}

func (st *c03State) hasWanUdpDirect() bool {
	for _, f := range st.flows {
		if (f.kind == 1 || f.kind == 2) && !f.originIn && !f.p.tcp && f.tracked && f.pos < len(f.script) && f.daeOwned == 0 &&
			f.decision.outbound == uint8(consts.OutboundDirect) && f.decision.mark == 0 && !f.decision.must {
			return true
		}
	}
	return false
}

// ---- control-plane actions ----

func (st *c03State) install(text string, first bool) bool {
	s, w := st.s, st.w
	gen, builder, err := buildGeneration(w, text, st.outs)
	if err != nil {
		ksFatal("generated rule text rejected: %v\n%s", err, text)
	}
	s.Notef("rules:\n%s", text)
	idx, err := w.BuildKernspace(gen)
	if s.Failed() {
		return false
	}
	if err != nil {
		s.Failf("install-error", "BuildKernspace failed without an injected fault: %v\n%s", err, text)
		return false
	}
	gen.core.lpmTrieIndices = idx
	gen.matcher, err = builder.BuildUserspace()
	if err != nil {
		ksFatal("BuildUserspace: %v", err)
	}
	if st.gen != nil {
		gen.core.InheritLpmIndices(st.gen.core.EjectLpmIndices())
		st.gen.core.Close()
		if !w.AfterSlotOps() {
			return false
		}
	}
	st.gen = gen
	st.rebind(s.T)
	return !s.Failed()
}

func (st *c03State) rebind(T *verifsim.Tape) {
	c := &c02State{s: st.s, w: st.w, outs: st.outs, cur: st.gen, binds: st.binds}
	c.rebind(T)
	st.binds = c.binds
}

func (st *c03State) netType(dom, fam int) *dialer.NetworkType {
	nt := &dialer.NetworkType{L4Proto: consts.L4ProtoStr_TCP, IpVersion: consts.IpVersionStr_4}
	if fam == 1 {
		nt.IpVersion = consts.IpVersionStr_6
	}
	switch dom {
	case 1:
		nt.L4Proto, nt.IsDns, nt.UdpHealthDomain = consts.L4ProtoStr_UDP, true, dialer.UdpHealthDomainDns
	case 2:
		nt.L4Proto, nt.UdpHealthDomain = consts.L4ProtoStr_UDP, dialer.UdpHealthDomainData
	}
	return nt
}

func (st *c03State) setAlive(id, dom, fam int, alive, isInit bool) {
	st.alive[[3]int{id, dom, fam}] = alive
	nt := st.netType(dom, fam)
	if st.w.real {
		st.gen.core.outboundAliveChangeCallback(uint8(id), false)(alive, nt, isInit)
		return
	}
	// fallback: the callback's map write needs a kernel; the key constructor is still the real one
	v := uint32(0)
	if alive {
		v = 1
	}
	st.w.c.MapPut(st.w.c.Maps["outbound_connectivity_map"], u32key(outboundConnectivityMapKey(uint8(id), nt)), u32key(v))
}

func (st *c03State) registerProcess(f *c03Flow) bool {
	progName := "tproxy_wan_cg_sock_create"
	switch {
	case f.p.tcp && !f.p.v6():
		progName = []string{"tproxy_wan_cg_sock_create", "tproxy_wan_cg_connect4"}[st.s.T.Choose(2)]
	case f.p.tcp:
		progName = []string{"tproxy_wan_cg_sock_create", "tproxy_wan_cg_connect6"}[st.s.T.Choose(2)]
	case !f.p.v6():
		progName = []string{"tproxy_wan_cg_sock_create", "tproxy_wan_cg_sendmsg4"}[st.s.T.Choose(2)]
	default:
		progName = []string{"tproxy_wan_cg_sock_create", "tproxy_wan_cg_sendmsg6"}[st.s.T.Choose(2)]
	}
	prog := st.w.c.Progs[progName]
	if prog == nil {
		ksFatal("program %s not found in tproxy.c", progName)
	}
	var comm [16]byte
	name := f.p.pname
	if f.daeOwned == 1 {
		name = "dae"
	}
	copy(comm[:15], name)
	_, _, err := st.w.c.RunCgroup(prog, f.cookie, uint64(f.pid)<<32|uint64(f.pid+1), comm, "/usr/bin/"+name+" --opt /x/y", false)
	return !st.w.simErr(err)
}

func (st *c03State) advance(T *verifsim.Tape) {
	ladder := []uint64{100e6, 500e6, 1500e6, 3e9, 7e9, 13e9, 60e9, 110e9, 125e9, 300e9}
	d := ladder[T.Pick(4, 4, 3, 3, 2, 3, 2, 2, 3, 1)]
	// stay >= 2 s away from every tracked flow's idle boundary
	for tries := 0; tries < 6; tries++ {
		bad := false
		for _, f := range st.flows {
			if !f.tracked {
				continue
			}
			for _, to := range []uint64{10e9, 120e9} {
				gap := st.now + d - f.last
				if gap+2e9 > to && gap < to+2e9 {
					bad = true
				}
			}
		}
		if !bad {
			break
		}
		d += 4100e6
	}
	st.now += d
	st.w.SetTime(st.now)
	st.s.SeqSimTime = time.Duration(st.now - st.t0)
	st.s.SeqStep("time", fmt.Sprintf("+%v", time.Duration(d)), false)
}

func (st *c03State) tuple(f *c03Flow) (netip.AddrPort, netip.AddrPort, uint8) {
	proto := uint8(unix.IPPROTO_UDP)
	if f.p.tcp {
		proto = unix.IPPROTO_TCP
	}
	return netip.AddrPortFrom(f.p.src, f.p.sport), netip.AddrPortFrom(f.p.dst, f.p.dport), proto
}

// realJanitor runs one sweep of the production conn-state janitor
// (ControlPlane.cleanupConnStateMapBeforeLocked) over the kernel maps at the simulated time. The
// statement lets tracking end after the documented idle timeouts only, so a sweep must be
// invisible to the reference model: nothing is told to it.
func (st *c03State) realJanitor() {
	if !st.w.real || st.s.Failed() {
		return
	}
	if !st.w.FlowMapsToKernel() {
		return
	}
	now := st.now
	verifJanitorClock = func(ts *unix.Timespec) error {
		*ts = unix.NsecToTimespec(int64(now))
		return nil
	}
	defer func() { verifJanitorClock = nil }()
	cp := &ControlPlane{log: st.w.log, core: st.gen.core, controlPlaneDatapathJanitor: newControlPlaneDatapathJanitor()}
	u, t := cp.cleanupConnStateMapBeforeLocked(false, 0)
	if u.deleted+t.deleted > 0 {
		st.s.Probe("kern.real-janitor-deleted")
	}
	st.s.Probe("kern.real-janitor-sweep")
	st.w.FlowMapsFromKernel()
}

func (st *c03State) janitor(T *verifsim.Tape) {
	var cands []*c03Flow
	for _, f := range st.flows {
		if !f.p.tcp && f.kind <= 1 && f.p.dport != 53 && f.p.sport != 53 {
			cands = append(cands, f)
		}
	}
	if len(cands) == 0 || !st.w.real {
		return
	}
	f := cands[T.Choose(len(cands))]
	src, dst, proto := st.tuple(f)
	key := bpfTuplesKeyFromAddrPorts(src, dst, proto)
	if !st.w.FlowMapsToKernel() {
		return
	}
	st.gen.core.RetainUdpConnStateTuples([]bpfTuplesKey{key})
	if err := st.gen.core.ReleaseUdpConnStateTuples([]bpfTuplesKey{key}); err != nil {
		st.s.Failf("handover-mismatch", "ReleaseUdpConnStateTuples(%v->%v): %v", src, dst, err)
		return
	}
	if !st.w.FlowMapsFromKernel() {
		return
	}
	f.tracked = false
	st.s.SeqStep("janitor", fmt.Sprintf("flow%d", f.id), true)
}

// ---- flows ----

func (st *c03State) genFlow(T *verifsim.Tape, id int) *c03Flow {
	bd := ksCollect(st.gen.ref)
	f := &c03Flow{id: id}
	f.kind = T.Pick(5, 5, 1, 1)
	f.l2 = !T.Chance(1, 4)
	p := genPacket(T, st.gen.ref, bd, st.binds)
	p.wan = f.kind == 1 || f.kind == 2
	p.sport = uint16(20000 + id*17 + T.Choose(8)) // distinct tuples
	if T.Chance(1, 8) {
		p.dport = 53
	}
	if p.dport == 0 {
		p.dport = 4443
	}
	if f.kind >= 2 && p.dport == 53 {
		p.dport = 5353 // DNS datagrams are stateless: no WAN-originated tracking to speak of
	}
	if p.sport == 53 {
		p.sport = 20053
	}
	p.hasMac = f.l2
	if !f.l2 {
		p.mac = [6]byte{}
	} else if p.mac == ([6]byte{}) {
		p.mac = [6]byte{0xaa, 0xbb, 0xcc, 0, 0, 9}
	}
	if !p.wan {
		p.pname = ""
	}
	if len(p.pname) > 15 {
		p.pname = p.pname[:15]
	}
	f.p = *p
	if f.p.v6() {
		ne := T.Pick(5, 2, 1)
		// a SYN+ACK long enough for the direct-access path is rare on purpose (recorded defect "synack-long-frame")
		shortOnly := f.kind >= 2 && f.p.tcp && (!T.Chance(1, 300) || ksSkip("synackpad"))
		for i := 0; i < ne; i++ {
			f.ext = append(f.ext, []uint8{0, 60, 43}[T.Choose(3)])
			l := []int{8, 16, 88}[T.Pick(3, 2, 1)]
			if shortOnly && l > 16 {
				l = 16
			}
			f.extLen = append(f.extLen, l)
		}
	} else if T.Chance(1, 6) {
		f.ipOpts = 4 * (1 + T.Choose(3))
	}
	if f.kind == 1 {
		switch T.Pick(7, 1, 1, 1) {
		case 0:
			f.cookie = uint64(1000 + id)
			f.pid = uint32(3000 + id)
			if f.p.pname == "" {
				f.p.pname = "curl"
			}
		case 1: // unknown process
			f.cookie = 0
			f.p.pname = ""
		case 2:
			f.daeOwned = 1
			f.cookie = uint64(1000 + id)
			f.pid = c03DaePid
			f.p.pname = "dae"
		case 3:
			if st.param.DaeSocketMark != 0 {
				f.daeOwned = 2
			}
			f.p.pname = ""
		}
	}
	if f.kind == 2 {
		f.p.pname = "" // no process registered for the local service's socket
	}
	if f.kind == 0 && !f.p.tcp {
		f.udpSock = uint8(T.Pick(8, 1, 1))
		if f.udpSock == 1 || (f.udpSock == 2 && st.param.DaeSocketMark == 0) {
			f.free = true // a local socket answers for this tuple (dae's own cannot be told apart without a socket mark): statement silent
		}
	}
	pad := func() int {
		switch T.Pick(1, 3, 1) {
		case 0:
			return 0
		case 1:
			return 100 + T.Choose(60)
		}
		return 1200
	}
	synPad := func() int {
		if T.Chance(1, 8) {
			return 120 // SYN carrying data (TCP fast open)
		}
		return 0
	}
	synAckPad := func() int {
		if T.Chance(1, 300) && !ksSkip("synackpad") {
			return 120 // rare on purpose: recorded defect "synack-long-frame"
		}
		return 0
	}
	inbound := f.kind >= 2
	if f.p.tcp {
		if inbound {
			f.script = append(f.script, c03Step{syn: true, reverse: true, pad: synPad()}, c03Step{syn: true, ack: true, pad: synAckPad()})
		} else {
			f.script = append(f.script, c03Step{syn: true, pad: synPad()})
		}
		n := T.Pick(1, 3, 3, 2)
		for i := 0; i < n; i++ {
			f.script = append(f.script, c03Step{ack: true, pad: pad(), reverse: inbound && T.Chance(1, 3)})
		}
		switch T.Pick(2, 2, 1, 2) {
		case 0: // a new SYN on the same tuple while the old connection was never seen closing
			// (peer restarted, or a handshake retry): tracking restarts with this SYN's decision.
			// Chosen by the flow's number, not by a new draw, so that recorded tapes keep their meaning.
			if !inbound && f.id%2 == 1 {
				f.script = append(f.script, c03Step{syn: true}, c03Step{ack: true, pad: 64}, c03Step{ack: true, pad: 0})
			}
		case 1:
			f.script = append(f.script, c03Step{ack: true, fin: true}, c03Step{ack: true, pad: pad()})
		case 2:
			f.script = append(f.script, c03Step{rst: true})
		case 3: // connection closes and the same tuple is reused
			f.script = append(f.script, c03Step{ack: true, fin: true})
			if !inbound {
				f.script = append(f.script, c03Step{syn: true}, c03Step{ack: true, pad: pad()})
			}
		}
	} else {
		if inbound {
			f.script = append(f.script, c03Step{reverse: true, pad: pad()})
		}
		n := 2 + T.Pick(2, 3, 2, 1)
		for i := 0; i < n; i++ {
			f.script = append(f.script, c03Step{pad: pad(), reverse: inbound && T.Chance(1, 3)})
		}
	}
	return f
}

func ksProto(v6 bool) uint32 {
	if v6 {
		return 0xdd86 // htons(ETH_P_IPV6) as stored in __sk_buff.protocol
	}
	return 0x0008
}

// buildFrame renders the logical packet (optionally reversed) as wire bytes.
func (st *c03State) buildFrame(f *c03Flow, stp c03Step) []byte {
	p := f.p
	src, dst, sport, dport := p.src, p.dst, p.sport, p.dport
	smac, dmac := p.mac, st.gwMac
	if stp.reverse {
		src, dst, sport, dport = dst, src, dport, sport
		smac, dmac = dmac, smac
	}
	var b bytes.Buffer
	if f.l2 {
		b.Write(dmac[:])
		b.Write(smac[:])
		if p.v6() {
			b.Write([]byte{0x86, 0xdd})
		} else {
			b.Write([]byte{0x08, 0x00})
		}
	}
	var l4 bytes.Buffer
	if p.tcp {
		h := make([]byte, 20)
		binary.BigEndian.PutUint16(h[0:], sport)
		binary.BigEndian.PutUint16(h[2:], dport)
		binary.BigEndian.PutUint32(h[4:], 1000+uint32(f.pos))
		h[12] = 5 << 4
		var fl byte
		if stp.fin {
			fl |= 0x01
		}
		if stp.syn {
			fl |= 0x02
		}
		if stp.rst {
			fl |= 0x04
		}
		if stp.ack {
			fl |= 0x10
		}
		h[13] = fl
		binary.BigEndian.PutUint16(h[14:], 65535)
		l4.Write(h)
	} else {
		h := make([]byte, 8)
		binary.BigEndian.PutUint16(h[0:], sport)
		binary.BigEndian.PutUint16(h[2:], dport)
		binary.BigEndian.PutUint16(h[4:], uint16(8+stp.pad))
		l4.Write(h)
	}
	for i := 0; i < stp.pad; i++ {
		l4.WriteByte(byte(0x41 + i%23))
	}
	l4proto := byte(unix.IPPROTO_UDP)
	if p.tcp {
		l4proto = unix.IPPROTO_TCP
	}
	if p.v6() {
		var exts bytes.Buffer
		next := l4proto
		// build chain back to front
		type eh struct {
			t uint8
			l int
		}
		var chain []eh
		for i := range f.ext {
			chain = append(chain, eh{f.ext[i], f.extLen[i]})
		}
		bodies := make([][]byte, len(chain))
		for i := len(chain) - 1; i >= 0; i-- {
			e := make([]byte, chain[i].l)
			e[0] = next
			e[1] = byte(chain[i].l/8 - 1)
			bodies[i] = e
			next = chain[i].t
		}
		for _, e := range bodies {
			exts.Write(e)
		}
		h := make([]byte, 40)
		tc := p.dscp << 2
		h[0] = 0x60 | tc>>4
		h[1] = tc << 4
		binary.BigEndian.PutUint16(h[4:], uint16(exts.Len()+l4.Len()))
		h[6] = next
		h[7] = 64
		s16, d16 := src.As16(), dst.As16()
		copy(h[8:], s16[:])
		copy(h[24:], d16[:])
		b.Write(h)
		b.Write(exts.Bytes())
	} else {
		ihl := 5 + f.ipOpts/4
		h := make([]byte, 20+f.ipOpts)
		h[0] = 0x40 | byte(ihl)
		h[1] = p.dscp << 2
		binary.BigEndian.PutUint16(h[2:], uint16(len(h)+l4.Len()))
		h[6] = 0x40 // DF
		h[8] = 64
		h[9] = l4proto
		s4, d4 := src.As4(), dst.As4()
		copy(h[12:], s4[:])
		copy(h[16:], d4[:])
		for i := 20; i < len(h); i++ {
			h[i] = 1 // NOP options
		}
		b.Write(h)
	}
	b.Write(l4.Bytes())
	return b.Bytes()
}

type c03Outcome struct {
	fast, slow *ksRunResult
}

// runBoth executes the frame twice from the same pre-state: once letting the
// direct-access path run, once forcing the byte-load path (pull failure), and
// demands identical observable results.
func (st *c03State) runBoth(prog *ksProgInfo, skb *ksSkb, what string, synack bool) *ksRunResult {
	s, w := st.s, st.w
	if w.simErr(w.c.Snapshot()) {
		return nil
	}
	a := *skb
	a.PullFail = false
	fast, err := w.c.Run(prog, &a)
	if w.simErr(err) {
		return nil
	}
	if w.simErr(w.c.Restore()) {
		return nil
	}
	b := *skb
	b.PullFail = true
	slow, err := w.c.Run(prog, &b)
	if w.simErr(err) {
		return nil
	}
	if fast.NLoad == 0 && fast.PullFailed == 0 {
		s.Probe("kern.fast-parse")
	}
	if slow.NLoad > 0 {
		s.Probe("kern.slow-parse")
	}
	if fast.NLoad > 0 && fast.PullFailed == 0 {
		s.Probe("kern.fast-then-slow")
	}
	for _, r := range []*ksRunResult{fast, slow} {
		if r.SkAcquired != r.SkReleased {
			s.Failf("helper-misuse", "%s: %d socket references acquired, %d released by %s", what, r.SkAcquired, r.SkReleased, prog.Name)
			return nil
		}
	}
	if fast.Rc != slow.Rc || fast.Mark != slow.Mark || fast.Cb != slow.Cb || fast.RedirectKind != slow.RedirectKind ||
		fast.RedirectIfindex != slow.RedirectIfindex || fast.RedirectFlags != slow.RedirectFlags || fast.PktType != slow.PktType ||
		!bytes.Equal(fast.Pkt, slow.Pkt) || fast.Digest != slow.Digest {
		rule := "path-dependence"
		if synack && len(skb.Pkt) >= 128 {
			// recorded defect shape: a TCP segment with SYN and ACK that is long enough for the
			// direct-access path (bpf_skb_pull_data(128) succeeds)
			rule += "/synack-long-frame"
		}
		s.Failf(rule, "%s: %s (%s, %d bytes): direct-access path gave rc=%d mark=%#x cb=%v redirect=%d/%d maps=%016x, byte-load path gave rc=%d mark=%#x cb=%v redirect=%d/%d maps=%016x (packet bytes equal: %v)\nframe: %x",
			rule, what, prog.Name, len(skb.Pkt), fast.Rc, fast.Mark, fast.Cb, fast.RedirectKind, fast.RedirectIfindex, fast.Digest,
			slow.Rc, slow.Mark, slow.Cb, slow.RedirectKind, slow.RedirectIfindex, slow.Digest, bytes.Equal(fast.Pkt, slow.Pkt), skb.Pkt)
		return nil
	}
	return slow
}

func (st *c03State) progFor(f *c03Flow, reverse bool) *ksProgInfo {
	var name string
	switch {
	case f.kind == 0:
		name = "tproxy_lan_ingress"
	case f.kind == 1:
		name = "tproxy_wan_egress"
	case f.kind == 2 && reverse:
		name = "tproxy_wan_ingress"
	case f.kind == 2:
		name = "tproxy_wan_egress"
	case f.kind == 3 && reverse:
		name = "tproxy_lan_egress"
	default:
		name = "tproxy_lan_ingress"
	}
	if f.l2 {
		name += "_l2"
	} else {
		name += "_l3"
	}
	p := st.w.c.Progs[name]
	if p == nil {
		ksFatal("program %s not found in tproxy.c", name)
	}
	return p
}

func (st *c03State) skbFor(f *c03Flow, stp c03Step, frame []byte) *ksSkb {
	skb := &ksSkb{Pkt: frame, Protocol: ksProto(f.p.v6()), Headlen: uint32(len(frame)), StoreFailAt: -1}
	if st.s.T.Chance(1, 4) {
		skb.LinAfterPull = 128
	}
	if st.s.T.Chance(1, 4) && len(frame) > 54 {
		skb.Headlen = 54
	}
	lanSide := f.kind == 0 || f.kind == 3
	if lanSide {
		skb.Ifindex = c03LanIf
		if !stp.reverse {
			skb.IngressIfindex = c03LanIf
		} else {
			skb.IngressIfindex = c03WanIf // forwarded from WAN towards the LAN host
		}
	} else {
		skb.Ifindex = c03WanIf
		if stp.reverse {
			skb.IngressIfindex = c03WanIf
		}
	}
	skb.UdpLookup = f.udpSock
	skb.Cookie = f.cookie
	if f.daeOwned == 2 {
		skb.Mark = st.param.DaeSocketMark
	}
	return skb
}

func (st *c03State) healthUp(d refDecision, p *refPacket) (up bool, free bool) {
	if p.dport == 53 {
		return true, true // statement silent on DNS vs. health bits
	}
	dom := 0
	if !p.tcp {
		dom = 2
	}
	fam := 0
	if p.v6() {
		fam = 1
	}
	return st.alive[[3]int{int(d.outbound), dom, fam}], false
}

func (st *c03State) sendNext(f *c03Flow) {
	s, w := st.s, st.w
	stp := f.script[f.pos]
	f.pos++
	frame := st.buildFrame(f, stp)
	prog := st.progFor(f, stp.reverse)
	skb := st.skbFor(f, stp, frame)
	what := fmt.Sprintf("flow%d kind%d %s step%d syn=%v ack=%v fin=%v rst=%v rev=%v", f.id, f.kind, &f.p, f.pos-1, stp.syn, stp.ack, stp.fin, stp.rst, stp.reverse)
	s.Notef("%s via %s len=%d", what, prog.Name, len(frame))
	res := st.runBoth(prog, skb, what, f.p.tcp && stp.syn && stp.ack)
	if res == nil {
		return
	}
	cls := fmt.Sprintf("k%d tcp=%v v6=%v rev=%v rc=%d", f.kind, f.p.tcp, f.p.v6(), stp.reverse, res.Rc)
	s.SeqStep("pkt", cls, true)
	if s.LogOn {
		if ents, err := w.c.MapDump(w.c.Maps["conn_state_map"]); err == nil {
			for _, e := range ents {
				s.Notef("   conn_state %x = %x", e.K, e.V)
			}
		}
	}
	if res.UpdFailFired > 0 {
		s.Fault("map-update-failed")
	}

	// --- reference model ---
	if f.tracked {
		to := uint64(120e9)
		if f.closing {
			to = 10e9
		}
		if st.now-f.last > to {
			f.tracked = false
			f.closing = false
			s.Probe("kern.idle-expiry")
		}
	}
	untouched := func() bool {
		return res.Rc == w.c.ActOK && bytes.Equal(res.Pkt, frame) && res.Mark == skb.Mark && res.RedirectKind == 0
	}
	if f.kind >= 2 {
		// WAN-originated connection: the inbound frame starts tracking (origin WAN) unless the tuple
		// is already tracked as locally originated; replies of a WAN-originated one pass untouched
		if stp.reverse {
			if f.tracked && f.tainted && !f.originIn && st.faulty {
				// the datapath could not record this flow as locally originated (injected map
				// fault), so for it this inbound frame opens the flow from the WAN side
				if ex, wan := st.stateOrigin(f); ex && wan {
					s.Probe("kern.fault-resync-wan-origin")
					f.tracked, f.closing, f.originIn, f.tainted = true, false, true, false
				}
			}
			if !f.tracked {
				if !f.p.tcp || (stp.syn && !stp.ack) {
					f.tracked, f.closing, f.originIn, f.tainted = true, false, true, false
				}
			}
			if f.tracked {
				f.last = st.now
				if f.p.tcp && (stp.fin || stp.rst) {
					f.closing = true
				}
				if st.faulty && (res.UpdFailFired > 0 || !st.hasState(f, true)) {
					f.tainted = true // the inbound direction could not be recorded (injected map fault)
				}
			}
			return
		}
		if f.tracked && f.originIn {
			if f.tainted {
				// the inbound direction could not be recorded (injected map fault): the datapath may
				// have started tracking this very frame as a locally originated flow, and that entry
				// lives as long as frames keep arriving - the statement stays silent until then
				f.last = st.now
				return
			}
			if st.faulty && !st.hasState(f, true) {
				f.tainted = true
				return
			}
			f.last = st.now
			if f.p.tcp && (stp.fin || stp.rst) {
				f.closing = true
			}
			if !untouched() {
				s.Failf("verdict-inbound-reply", "%s: reply of a WAN-originated connection was not passed untouched: rc=%d mark=%#x redirect=%d bytes-unchanged=%v", what, res.Rc, res.Mark, res.RedirectKind, bytes.Equal(res.Pkt, frame))
			}
			return
		}
		// not tracked as WAN-originated: an ordinary locally originated packet
	}
	if f.daeOwned != 0 {
		if !untouched() {
			s.Failf("verdict-dae-own", "%s: a packet sent by dae itself (owned=%d) was not let through untouched: rc=%d mark=%#x redirect=%d", what, f.daeOwned, res.Rc, res.Mark, res.RedirectKind)
		}
		return
	}
	if f.free {
		return
	}
	stateless := !f.p.tcp && (f.p.dport == 53 || f.p.sport == 53)
	var d refDecision
	first := false
	switch {
	case stateless:
		d = st.route(f)
		first = true
	case f.p.tcp:
		if stp.syn && !stp.ack {
			f.tracked, f.closing, f.tainted, f.originIn = true, false, false, false
			f.synPassMark = 0
			f.decision = st.route(f)
			first = true
		} else if !f.tracked || f.tainted {
			// statement silent: mid-stream segment of a flow that is not (or could not be) tracked - except
			// that when the datapath itself forwarded the SYN as direct with the rule's mark although it could
			// not remember the flow, the segments it forwards afterwards belong to that same decision: they must
			// not leave with another mark (one connection split over two fwmark routes)
			if f.tainted && f.synPassMark != 0 && (f.kind == 0 || f.kind == 3) && res.Rc == w.c.ActOK && res.RedirectKind == 0 && res.Mark != f.synPassMark {
				s.Failf("sticky-decision/mark-lost-after-unstored-syn", "sticky-decision/mark-lost-after-unstored-syn: %s: the SYN of this connection was forwarded as direct with mark %#x while its conn_state entry could not be stored (injected map fault); this later segment is forwarded with mark %#x", what, f.synPassMark, res.Mark)
			}
			return
		}
		d = f.decision
	default:
		if f.tracked && f.tainted {
			if ex, wan := st.stateOrigin(f); ex && !wan {
				// the datapath managed to store the flow this time: tracking restarts with this datagram
				f.tracked = false
			} else if ex && wan {
				return // recorded from an inbound frame meanwhile: the statement stays silent for this tainted flow
			}
		}
		if !f.tracked {
			f.tracked, f.tainted, f.originIn = true, false, false
			f.decision = st.route(f)
			first = true
		}
		d = f.decision
	}
	if !stateless {
		f.last = st.now
		if f.p.tcp && (stp.fin || stp.rst) {
			f.closing = true
		}
	}
	relaxed := false
	if st.faulty {
		if res.UpdFailFired > 0 || f.tainted {
			relaxed = true
		}
		if !stateless && !st.hasState(f, false) {
			f.tainted = true
			relaxed = true
			s.Probe("kern.map-full")
			if !f.p.tcp {
				d = st.route(f) // nothing is remembered for this tuple: every datagram is a first packet
				first = true
			}
		}
	}
	lan := f.kind == 0 || f.kind == 3
	// expected verdict class
	const (
		vPass = iota
		vDrop
		vRedirect
	)
	expect := func(d refDecision) (int, uint8, bool) {
		expOut := d.outbound
		if f.p.dport == 53 && !d.must {
			expOut = uint8(consts.OutboundControlPlaneRouting)
		}
		want, silent := vRedirect, false
		switch {
		case expOut == uint8(consts.OutboundDirect):
			want = vPass
			if !lan && d.mark != 0 {
				want = vRedirect // locally originated traffic that needs a mark is handed to dae
			}
		case expOut == uint8(consts.OutboundBlock):
			want = vDrop
		default:
			if expOut != uint8(consts.OutboundControlPlaneRouting) {
				up, sil := st.healthUp(d, &f.p)
				if sil {
					silent = true // statement silent on DNS traffic vs. health bits: drop or redirect
				} else if !up {
					want = vDrop
					s.Probe("kern.health-down")
				}
			}
		}
		return want, expOut, silent
	}
	want, expOut, silent := expect(d)
	if silent && res.Rc == w.c.ActShot {
		want = vDrop
	}
	got := -1
	switch {
	case res.Rc == w.c.ActOK && res.RedirectKind == 0:
		got = vPass
	case res.Rc == w.c.ActShot:
		got = vDrop
	case res.Rc == w.c.ActRedirect && res.RedirectKind != 0:
		got = vRedirect
	}
	tag := ""
	if !first && st.changed && !lan && !f.p.tcp && d.outbound == uint8(consts.OutboundDirect) && d.mark == 0 && !d.must {
		tag = "/wan-udp-direct-recomputed"
	}
	desc := func() string {
		return fmt.Sprintf("%s\nfirst-packet decision (rules as written): %v first=%v; verdict rc=%d mark=%#x redirect kind=%d ifindex=%d cb=%v; rules now:\n%s", what, d, first, res.Rc, res.Mark, res.RedirectKind, res.RedirectIfindex, res.Cb, st.gen.text)
	}
	if got != want && relaxed {
		if got == vDrop || (got == vPass && d.outbound == uint8(consts.OutboundDirect) && d.mark == 0) {
			return // fail-closed outcomes under an injected map fault
		}
		// the flow's record could not be kept: a fresh decision under the current rules is the other legal reading
		alt := st.route(f)
		if w2, e2, _ := expect(alt); w2 == got {
			d, want, expOut = alt, w2, e2
		}
	}
	if got != want {
		rule := map[int]string{vPass: "verdict-direct", vDrop: "verdict-drop", vRedirect: "verdict-redirect"}[want]
		if !first {
			rule = "sticky-decision" + tag
		}
		rule += f.shape
		s.Failf(rule, "%s: expected %s, got %s\n%s", rule, []string{"pass", "drop", "redirect to dae"}[want], map[int]string{vPass: "pass", vDrop: "drop", vRedirect: "redirect", -1: "other"}[got], desc())
		return
	}
	switch want {
	case vPass:
		if !bytes.Equal(res.Pkt, frame) {
			s.Failf("verdict-direct", "direct traffic was modified\n%s", desc())
			return
		}
		wantMark := skb.Mark
		if lan {
			wantMark = d.mark
		}
		if res.Mark != wantMark {
			s.Failf("verdict-direct", "direct traffic: skb->mark=%#x, want %#x\n%s", res.Mark, wantMark, desc())
		} else if first && f.p.tcp && f.tainted && lan && d.mark != 0 {
			f.synPassMark = d.mark
			s.Probe("kern.syn-forwarded-with-mark-but-not-remembered")
		}
	case vRedirect:
		s.Probe("kern.redirect")
		if res.RedirectIfindex != st.param.Dae0Ifindex {
			s.Failf("verdict-redirect", "redirected to ifindex %d, dae0 is %d\n%s", res.RedirectIfindex, st.param.Dae0Ifindex, desc())
			return
		}
		st.checkHandover(f, d, expOut, res, desc, relaxed)
		if s.Failed() {
			return
		}
		st.deliverToDae(f, res, what)
	}
}

// hasState: does the datapath hold a conn_state entry for the flow (reply=true: under the reply tuple's key)?
// stateOrigin reads the flow's conn_state entry: whether it exists and whether the datapath
// recorded it as opened from the WAN side (struct conn_state.is_wan_ingress_direction).
func (st *c03State) stateOrigin(f *c03Flow) (exists, wanOrigin bool) {
	src, dst, proto := st.tuple(f)
	key := bpfTuplesKeyFromAddrPorts(src, dst, proto)
	v, ok, err := st.w.c.MapGet(st.w.c.Maps["conn_state_map"], ksNative(key))
	if st.w.simErr(err) || !ok || len(v) == 0 {
		return false, false
	}
	return true, v[0] != 0
}

func (st *c03State) hasState(f *c03Flow, _ bool) bool {
	src, dst, proto := st.tuple(f)
	key := bpfTuplesKeyFromAddrPorts(src, dst, proto)
	_, ok, err := st.w.c.MapGet(st.w.c.Maps["conn_state_map"], ksNative(key))
	if st.w.simErr(err) {
		return true
	}
	return ok
}

func (st *c03State) checkHandover(f *c03Flow, d refDecision, expOut uint8, res *ksRunResult, desc func() string, relaxed bool) {
	s, w := st.s, st.w
	src, dst, proto := st.tuple(f)
	var got *bpfRoutingResult
	var err error
	if w.real {
		if !w.FlowMapsToKernel() {
			return
		}
		if st.s.T.Chance(1, 4) {
			// a pass of the production hand-over janitor that is in progress while this frame is redirected:
			// it sampled the clock before the kernel published the record (1 µs .. 2 s earlier) and reaches the
			// record afterwards. A record younger than the sample is not expired.
			back := []uint64{1e3, 1e6, 5e8, 2e9}[st.s.T.Choose(4)]
			sample := w.now
			if sample > back {
				sample -= back
			}
			saved := verifMonotonicNow
			verifMonotonicNow = func() (uint64, error) { return sample, nil }
			cp := &ControlPlane{log: st.w.log, core: st.gen.core, controlPlaneDatapathJanitor: newControlPlaneDatapathJanitor()}
			n := cp.cleanupRoutingHandoffMapBeforeLocked(0)
			verifMonotonicNow = saved
			st.s.Probe("kern.handoff-janitor-pass-racing-a-redirect")
			if n > 0 {
				st.s.Probe("kern.handoff-janitor-deleted")
			}
			st.w.FlowMapsFromKernel()
		}
		got, err = st.gen.core.RetrieveRoutingResult(src, dst, proto)
	} else {
		got, err = st.fallbackRetrieve(src, dst, proto)
	}
	if err != nil {
		rule := "handover-mismatch"
		if f.kind == 0 && !f.p.tcp && f.p.dport == 53 && res.UpdFailFired > 0 {
			// recorded defect shape: LAN ingress ignores a failed routing_handoff_map update, and a
			// stateless DNS datagram has no other record
			rule += "/lan-dns-handoff-update-ignored"
		}
		s.Failf(rule, "%s: flow redirected to dae but RetrieveRoutingResult(%v, %v, %d) fails: %v\n%s", rule, src, dst, proto, err, desc())
		return
	}
	if !st.hasState(f, false) || (!f.p.tcp && f.p.dport == 53) {
		s.Probe("kern.handoff-fallback")
	}
	var wantMac [6]uint8
	if f.l2 {
		wantMac = f.p.mac
	}
	var wantPname [16]uint8
	wantPid := uint32(0)
	if f.kind == 1 && f.cookie != 0 {
		copy(wantPname[:], f.p.pname)
		wantPid = f.pid
	}
	mustB := uint8(0)
	if d.must {
		mustB = 1
	}
	if relaxed {
		alt := st.route(f)
		altOut := alt.outbound
		if f.p.dport == 53 && !alt.must {
			altOut = uint8(consts.OutboundControlPlaneRouting)
		}
		if got.Outbound == altOut && got.Mark == alt.mark && (got.Must != 0) == alt.must {
			d, expOut, mustB = alt, altOut, got.Must
		}
	}
	if got.Outbound != expOut || got.Mark != d.mark || got.Must != mustB || got.Dscp != f.p.dscp || got.Mac != wantMac || got.Pname != wantPname || got.Pid != wantPid {
		if f.shape == "" && f.kind == 0 && !f.p.tcp && f.p.dport == 53 && res.UpdFailFired > 0 {
			// same recorded defect shape as above, second face: the failed (and ignored)
			// routing_handoff_map update leaves the record of an EARLIER datagram of this tuple
			// in place, and the control plane recovers that stale decision
			s.Failf("handover-mismatch/lan-dns-handoff-update-ignored", "handover-mismatch/lan-dns-handoff-update-ignored: the routing_handoff_map update for this datagram failed (injected) and was ignored; control plane recovered the stale record (outbound=%d mark=%#x must=%d) of an earlier datagram, the decision was (outbound=%d mark=%#x must=%d)\n%s",
				got.Outbound, got.Mark, got.Must, expOut, d.mark, mustB, desc())
			return
		}
		s.Failf("handover-mismatch"+f.shape, "handover-mismatch"+f.shape+": control plane recovered (outbound=%d mark=%#x must=%d dscp=%d mac=%x pname=%q pid=%d), the decision was (outbound=%d mark=%#x must=%d dscp=%d mac=%x pname=%q pid=%d)\n%s",
			got.Outbound, got.Mark, got.Must, got.Dscp, got.Mac, string(bytes.TrimRight(got.Pname[:], "\x00")), got.Pid,
			expOut, d.mark, mustB, f.p.dscp, wantMac, string(bytes.TrimRight(wantPname[:], "\x00")), wantPid, desc())
	}
}

// fallbackRetrieve: two-step lookup over the simulator's bytes, decoded with the Go structs (no kernel).
func (st *c03State) fallbackRetrieve(src, dst netip.AddrPort, proto uint8) (*bpfRoutingResult, error) {
	key := ksNative(bpfTuplesKeyFromAddrPorts(src, dst, proto))
	if v, ok, _ := st.w.c.MapGet(st.w.c.Maps["conn_state_map"], key); ok {
		var cs bpfConnState
		if len(v) != binary.Size(cs) {
			return nil, fmt.Errorf("conn_state value has %d bytes, Go struct %d", len(v), binary.Size(cs))
		}
		binary.Read(bytes.NewReader(v), binary.NativeEndian, &cs)
		if cs.Meta.Data.HasRouting != 0 {
			r := routingResultFromConnState(cs.Meta.Data.Mark, cs.Meta.Data.Must, cs.Meta.Data.Outbound, cs.Mac, cs.Meta.Data.Dscp, cs.Pname, cs.Pid)
			return &r, nil
		}
	}
	v, ok, _ := st.w.c.MapGet(st.w.c.Maps["routing_handoff_map"], key)
	if !ok {
		return nil, fmt.Errorf("key does not exist")
	}
	var e bpfRoutingHandoffEntry
	if len(v) != binary.Size(e) {
		return nil, fmt.Errorf("routing_handoff value has %d bytes, Go struct %d", len(v), binary.Size(e))
	}
	binary.Read(bytes.NewReader(v), binary.NativeEndian, &e)
	if routingHandoffExpired(st.now, e.LastSeenNs) {
		return nil, fmt.Errorf("key does not exist (expired)")
	}
	r := routingResultFromConnState(e.Result.Mark, e.Result.Must, e.Result.Outbound, e.Result.Mac, e.Result.Dscp, e.Result.Pname, e.Result.Pid)
	return &r, nil
}

// deliverToDae feeds the redirected skb to the program on the other end (dae0peer ingress):
// "redirected to dae" only holds if that hook lets it in.
func (st *c03State) deliverToDae(f *c03Flow, res *ksRunResult, what string) {
	w := st.w
	prog := w.c.Progs["tproxy_dae0peer_ingress"]
	if prog == nil {
		return
	}
	skb := &ksSkb{Pkt: res.Pkt, Protocol: ksProto(f.p.v6()), Headlen: uint32(len(res.Pkt)), Ifindex: c03Dae0If + 1, IngressIfindex: c03Dae0If + 1,
		Mark: res.Mark, Cb: res.Cb, PktType: res.PktType, Listener: true, StoreFailAt: -1}
	r := st.runBoth(prog, skb, what+" -> dae0peer", false)
	if r == nil {
		return
	}
	if r.Rc != w.c.ActOK {
		st.s.Failf("verdict-redirect", "%s: the redirected packet is rejected by tproxy_dae0peer_ingress (rc=%d, cb=%v)", what, r.Rc, res.Cb)
	}
}

// illegalFrame: fragments, truncated frames, ihl<5, extension chains ending in NONE on a
// throw-away tuple; only path equivalence, memory safety and helper discipline are demanded.
func (st *c03State) illegalFrame(T *verifsim.Tape) {
	if len(st.flows) == 0 {
		return
	}
	base := st.flows[T.Choose(len(st.flows))]
	f := *base
	f.p.sport = uint16(61000 + T.Choose(50))
	f.id = 99
	f.daeOwned = 0
	f.cookie = 0
	stp := c03Step{syn: T.Chance(1, 2), ack: T.Chance(1, 2), pad: []int{0, 90, 130, 300}[T.Choose(4)], reverse: false}
	if stp.syn && stp.ack && stp.pad > 0 && (!T.Chance(1, 200) || ksSkip("synackpad")) {
		stp.pad = 0 // long SYN+ACK segments are rare on purpose: recorded defect "synack-long-frame"
	}
	frame := st.buildFrame(&f, stp)
	if f.p.tcp && stp.syn && stp.ack && len(frame) >= 128 && (!T.Chance(1, 200) || ksSkip("synackpad")) {
		stp.ack = false
		frame = st.buildFrame(&f, stp)
	}
	l3 := 0
	if f.l2 {
		l3 = 14
	}
	kind := T.Choose(5)
	switch kind {
	case 0: // truncated
		cuts := []int{l3 + 1, l3 + 19, l3 + 20, l3 + 27, l3 + 39, l3 + 40, l3 + 47, l3 + 59, len(frame) - 1, 129, 128, 127}
		c := cuts[T.Choose(len(cuts))]
		if c > 0 && c < len(frame) {
			frame = frame[:c]
		}
	case 1: // ihl < 5
		if !f.p.v6() {
			frame[l3] = 0x40 | byte(T.Choose(5))
		}
	case 2: // non-initial / first fragment
		if !f.p.v6() {
			binary.BigEndian.PutUint16(frame[l3+6:], []uint16{0x2000, 0x00b9, 0x20b9}[T.Choose(3)])
		} else {
			fr := make([]byte, 8)
			fr[0] = frame[l3+6]
			binary.BigEndian.PutUint16(fr[2:], []uint16{0x0001, 0x00b8, 0x00b9}[T.Choose(3)])
			frame[l3+6] = 44
			frame = append(append(append([]byte(nil), frame[:l3+40]...), fr...), frame[l3+40:]...)
		}
	case 3: // extension chain ends in NONE
		if f.p.v6() {
			if len(f.ext) > 0 {
				frame[l3+40] = 59
			} else {
				frame[l3+6] = 59
			}
		}
	case 4: // unknown L4 protocol
		if f.p.v6() && len(f.ext) == 0 {
			frame[l3+6] = 132
		} else if !f.p.v6() {
			frame[l3+9] = 132
		}
	}
	names := []string{"tproxy_lan_ingress", "tproxy_wan_egress", "tproxy_wan_ingress", "tproxy_lan_egress"}
	name := names[T.Choose(4)]
	if f.l2 {
		name += "_l2"
	} else {
		name += "_l3"
	}
	if f.l2 && T.Chance(1, 6) {
		name = "tproxy_dae0_ingress"
	}
	prog := st.w.c.Progs[name]
	if prog == nil {
		return
	}
	skb := st.skbFor(&f, stp, frame)
	if name == "tproxy_wan_egress_l2" || name == "tproxy_wan_egress_l3" {
		skb.IngressIfindex = 0
	}
	res := st.runBoth(prog, skb, fmt.Sprintf("illegal-frame kind%d", kind), f.p.tcp && stp.syn && stp.ack)
	if res != nil {
		st.s.SeqStep("illegal", fmt.Sprintf("k%d %s rc=%d", kind, name, res.Rc), true)
		st.s.Probe("kern.illegal-frame")
	}
}
