package control

import "testing"

func TestSimC03(t *testing.T) { t.Skip("not built yet") }
