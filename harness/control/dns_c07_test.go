package control

// dnssim — C07: questions and answers are routed by the first matching DNS rule.
//
// Oracle: the reference evaluator (dns_rules_test.go) of the rules as written
// gives, for each question, the expected first upstream or reject, and, for each
// scripted upstream answer, accept / empty / ask again at upstream j. Observed:
// the sequence of upstream queries the resolving task issued, and the reply.

import (
	"fmt"
	"net/netip"
	"strings"
	"time"

	"github.com/daeuniverse/dae/common/consts"
	verifsim "github.com/daeuniverse/dae/internal/verifsim"
	dnsmessage "github.com/miekg/dns"
)

const dnsReaskBound = 8 // generous: the statement only demands "bounded"

func (w *dnsWorld) upName(i int) string {
	switch {
	case i == -1:
		return "reject"
	case i == -2:
		return "accept"
	case i == len(w.ups):
		return "asis"
	case i >= 0 && i < len(w.ups):
		return w.ups[i].tag
	}
	return fmt.Sprintf("?%d", i)
}

func (w *dnsWorld) c07AfterOp(op *dnsOp) {
	s := w.s
	if op.gen != op.genEnd || op.rs == nil {
		return
	}
	rs := op.rs
	lname := dnsAllNames[op.name]
	exp := rs.evalRequest(lname, op.qtype, len(w.ups))
	var reply *dnsmessage.Msg
	if len(op.replies) > 0 {
		reply = op.replies[0]
	}
	rk := [2]int{op.name, int(op.qtype)}
	if exp == -1 {
		s.Probe("dns.c07-request-rejected")
		if op.chain != nil {
			s.Failf("c07-rejected-question-sent-upstream"+rs.negClass(), "question %s %s is routed to reject by the request rules but upstream %s received query #%d for it\n%s", op.qname, dnsmessage.TypeToString[op.qtype],
				w.upName(op.chain.queries[0].up), op.chain.queries[0].seq, rs.textCache)
			return
		}
		if reply == nil || op.err != nil {
			s.Failf("c07-reject-not-answered", "question %s %s is routed to reject: expected an empty answer, got err=%v and %d replies", op.qname, dnsmessage.TypeToString[op.qtype], op.err, len(op.replies))
			return
		}
		if len(reply.Answer) != 0 || reply.Rcode != dnsmessage.RcodeSuccess {
			cls := "not-empty"
			if op.pre != nil {
				cls = "cached-answer-served"
			}
			ids, _ := w.decodeAnswers(reply.Answer)
			s.Failf("c07-reject-not-empty@"+cls+strings.TrimPrefix(rs.negClass(), "@"), "question %s %s is routed to reject but the reply has rcode %d and answers %v\n%s", op.qname, dnsmessage.TypeToString[op.qtype], reply.Rcode, dnsAnsIDs(ids), rs.textCache)
			return
		}
		w.track.rejects[rk] = op.start
		return
	}
	// ---- served without an own upstream query: must not predate a reject of this question
	if op.chain == nil {
		if reply != nil {
			ids, _ := w.decodeAnswers(reply.Answer)
			for _, id := range ids {
				if a := w.ansByID(id); a != nil {
					if t, ok := w.track.rejects[rk]; ok && a.sentAt < t {
						s.Failf("c07-cache-survived-reject", "question %s %s was routed to reject at %v; now (rules changed) it is routed to %s and was answered from the cache with a%d, obtained at %v before the reject",
							op.qname, dnsmessage.TypeToString[op.qtype], t, w.upName(exp), a.id, a.sentAt)
						return
					}
				}
			}
		}
		return
	}
	// ---- went upstream: follow the chain
	hops := op.chain.queries
	if hops[0].up != exp {
		s.Failf("c07-wrong-first-upstream"+rs.negClass(), "question %s %s: the first matching request rule names %s but the query (#%d) went to %s\n%s", op.qname, dnsmessage.TypeToString[op.qtype], w.upName(exp), hops[0].seq, w.upName(hops[0].up), rs.textCache)
		return
	}
	if len(hops) > dnsReaskBound {
		s.Failf("c07-unbounded-reasks", "question %s %s caused %d upstream queries\n%s", op.qname, dnsmessage.TypeToString[op.qtype], len(hops), rs.textCache)
		return
	}
	// an answer the response rules sent on to another upstream is never what the client gets
	if reply != nil && op.err == nil {
		got, _ := w.decodeAnswers(reply.Answer)
		for _, q := range hops {
			a := q.answered
			if a == nil || a.empty || q.name != op.name || q.qtype != op.qtype {
				continue
			}
			if v := rs.evalResponse(lname, op.qtype, q.up, a.ips); v >= 0 {
				for _, id := range got {
					if id == a.id {
						s.Failf("c07-answer-sent-elsewhere-delivered"+rs.negClass(), "question %s %s: answer a%d from %s matches a response rule that asks again at %s, yet it is what the client received (queries of this resolution: %s)\n%s",
							op.qname, dnsmessage.TypeToString[op.qtype], a.id, w.upName(q.up), w.upName(v), w.hopsText(hops), rs.textCache)
						return
					}
				}
			}
		}
	}
	for i, q := range hops {
		if q.name != op.name || q.qtype != op.qtype {
			s.Failf("c07-reask-changed-question", "question %s %s: upstream query #%d asks %s %s", op.qname, dnsmessage.TypeToString[op.qtype], q.seq, q.qname, dnsmessage.TypeToString[q.qtype])
			return
		}
		a := q.answered
		if a == nil {
			return // this hop got no (regular) answer: nothing more to demand
		}
		verdict := rs.evalResponse(lname, op.qtype, q.up, a.ips)
		last := i == len(hops)-1
		// A failed attempt of the same hop is not a re-ask: DoTCP retries once on a new
		// connection after closing the one whose round trip failed, and a tcp+udp upstream
		// falls back from UDP to TCP. (A genuine re-ask at the same upstream reuses the
		// pooled connection and is what the verdict says.)
		if !last && hops[i+1].up == q.up && verdict != q.up {
			if (q.tcp && q.tc.cli.IsClosed()) || (!q.tcp && hops[i+1].tcp) {
				s.Probe("dns.c07-transport-retry")
				continue
			}
		}
		switch {
		case verdict >= 0:
			s.Probe("dns.c07-reask")
			if last {
				// the chain was cut: only legitimate as the loop bound, which must surface as an error
				if op.err == nil && reply != nil {
					s.Failf("c07-reask-not-performed"+rs.negClass(), "question %s %s: answer a%d from %s matches a response rule that asks again at %s, but no further query was sent and the client got a reply\n%s",
						op.qname, dnsmessage.TypeToString[op.qtype], a.id, w.upName(q.up), w.upName(verdict), rs.textCache)
				}
				if op.err != nil {
					s.Probe("dns.c07-reask-bound-hit")
				}
				return
			}
			if hops[i+1].up != verdict {
				s.Failf("c07-wrong-reask-upstream"+rs.negClass(), "question %s %s: answer a%d from %s must be asked again at %s (first matching response rule) but query #%d went to %s\n%s",
					op.qname, dnsmessage.TypeToString[op.qtype], a.id, w.upName(q.up), w.upName(verdict), hops[i+1].seq, w.upName(hops[i+1].up), rs.textCache)
				return
			}
		case !last:
			s.Failf("c07-asked-again-after-final-verdict"+rs.negClass(), "question %s %s: answer a%d from %s is %sed by the response rules but another query (#%d) was sent to %s\n%s",
				op.qname, dnsmessage.TypeToString[op.qtype], a.id, w.upName(q.up), w.upName(verdict), hops[i+1].seq, w.upName(hops[i+1].up), rs.textCache)
			return
		default:
			if reply == nil || op.err != nil {
				return
			}
			ids, _ := w.decodeAnswers(reply.Answer)
			if verdict == -1 {
				s.Probe("dns.c07-response-rejected")
				if len(reply.Answer) != 0 {
					s.Failf("c07-response-reject-not-emptied"+rs.negClass(), "question %s %s: answer a%d from %s is rejected by the response rules but the client received %v\n%s",
						op.qname, dnsmessage.TypeToString[op.qtype], a.id, w.upName(q.up), dnsAnsIDs(ids), rs.textCache)
				}
				return
			}
			if !a.empty && (len(ids) != 1 || ids[0] != a.id) {
				cls := rs.negClass()
				// The client got an answer this upstream had sent EARLIER, for the same question,
				// over another connection: a stale reply handed over through a pooled response
				// slot (the open responseSlotPool finding, F2), not a routing decision.
				if len(ids) == 1 && cls == "" {
					if d := w.ansByID(ids[0]); d != nil && d.id != a.id && d.name == op.name && d.qtype == op.qtype && d.forQuery != nil && d.forQuery.tcp && q.tcp && d.forQuery.tc != q.tc && d.sentStep < q.step {
						cls = "@stale-reply-of-another-connection"
					}
				}
				s.Failf("c07-accepted-answer-not-delivered"+cls, "question %s %s: answer a%d from %s is accepted by the response rules but the client received %v\n%s",
					op.qname, dnsmessage.TypeToString[op.qtype], a.id, w.upName(q.up), dnsAnsIDs(ids), rs.textCache)
			}
			return
		}
	}
}

func (w *dnsWorld) hopsText(hops []*dnsUpQuery) string {
	var p []string
	for _, q := range hops {
		t := fmt.Sprintf("#%d->%s", q.seq, w.upName(q.up))
		if q.answered != nil {
			t += fmt.Sprintf(":a%d", q.answered.id)
			if q.answered.rcode != 0 {
				t += fmt.Sprintf("(rcode %d)", q.answered.rcode)
			}
		} else {
			t += ":no answer"
		}
		p = append(p, t)
	}
	return strings.Join(p, " ")
}

func dnsScenarioC07(w *dnsWorld) {
	s, T := w.s, w.T
	w.faulty = 0
	w.cfg = dnsCfg{optimistic: T.Chance(1, 3), staleTtl: 30, fixed: map[string]int{}, janitor: 30 * time.Second, idleTTL: 2 * time.Minute}
	if !w.setup(dnsSetup{nNames: [2]int{2, 4}, nUps: [2]int{2, 3}, schemes: []string{"udp", "udp", "tcp", "tcp+udp"}, rich: true, reject: true, dialMode: consts.DialMode_Ip}) {
		return
	}
	w.drawSpecs([]int{1, 2, 3}, true, true)
	rounds := T.Range(2, 10)
	for r := 0; r < rounds && !s.Failed(); r++ {
		k := 1 + T.Pick(5, 2)
		var ops []*dnsOp
		for i := 0; i < k; i++ {
			op := &dnsOp{cli: i, idx: len(w.ops), id: uint16(100 + len(w.ops)), viaUDP: T.Chance(1, 4)}
			op.name, op.qtype = w.names[T.Choose(len(w.names))], dnsQtypes[T.Pick(3, 2, 1)]
			op.qname = w.wireName(op.name, T.Pick(4, 1, 1))
			ops = append(ops, op)
			w.ops = append(w.ops, op)
		}
		done := 0
		for i, op := range ops {
			op := op
			verifsim.Go(fmt.Sprintf("client%d", i), func() {
				w.doOp(op, 10*time.Second)
				done++
			})
		}
		if !w.settle(func() bool { return done == len(ops) && !w.pendingWork() && w.fwdInFlight() == 0 }, 6) {
			break
		}
		if T.Chance(1, 4) {
			rs := dnsGenRuleSet(T, w.rules.tags, w.names, true, true)
			s.Fault("reload-reuse")
			w.env("reload", func() { w.reloadReuse(rs) })
			s.RunUntil(func() bool { return w.envTasks == 0 }, 5)
		}
		w.idle([]time.Duration{100 * time.Millisecond, time.Second, 12 * time.Second, 40 * time.Second}[T.Pick(3, 2, 1, 1)])
	}
	// the controller is still usable: a plain question gets some outcome
	if !s.Failed() {
		op := &dnsOp{cli: 0, idx: len(w.ops), id: 7, name: w.names[0], qtype: dnsmessage.TypeA}
		op.qname = w.wireName(op.name, 0)
		w.ops = append(w.ops, op)
		done := false
		verifsim.Go("client0", func() { w.doOp(op, 10*time.Second); done = true })
		if !s.RunUntil(func() bool { return done }, 8) && !s.Failed() {
			s.Failf("c07-controller-wedged", "after the workload a plain question %s A did not complete", op.qname)
		}
	}
	w.shutdown()
}

var _ = netip.Addr{}
