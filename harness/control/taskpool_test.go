package control

// C13(a): UdpTaskPool under the deterministic scheduler.

import (
	"fmt"
	"net/netip"
	"sort"
	"strings"
	"testing"
	"time"

	verifsim "github.com/daeuniverse/dae/internal/verifsim"
)

type tpRec struct {
	key       int
	producer  int
	pseq      int // per (producer,key) sequence
	callSeq   int // global event seq when EmitTask was called
	retSeq    int // global event seq when EmitTask returned (0 = not returned)
	startSeq  []int
	endSeq    []int
	worker    []string
	afterStop bool // emitted after Close() began: may legitimately be dropped
}

func tpScenario(s *verifsim.Sim) {
	T := s.T
	aging := []time.Duration{50 * time.Microsecond, time.Millisecond, 10 * time.Millisecond, 100 * time.Millisecond}[T.Choose(4)]
	saved := UdpTaskPoolAgingTime
	UdpTaskPoolAgingTime = aging
	defer func() { UdpTaskPoolAgingTime = saved }()

	nKeys := T.Range(1, 3)
	nProd := T.Range(1, 4)
	keys := make([]UdpFlowKey, nKeys)
	for i := range keys {
		keys[i] = NewUdpFlowKey(netip.MustParseAddrPort(fmt.Sprintf("10.0.0.%d:1000", i+1)), netip.MustParseAddrPort("1.1.1.1:443"))
	}
	doClose := T.Chance(1, 4)
	burst := T.Chance(1, 8) // one producer floods a key beyond the channel capacity

	pool := NewUdpTaskPool()
	defer pool.Close()
	seq := 0
	var recs []*tpRec
	running := map[int]string{} // key -> worker currently inside a task of that key

	type plan struct {
		key   int
		sleep time.Duration
		body  int // yields inside the task body
	}
	plans := make([][]plan, nProd)
	sleeps := []time.Duration{0, 0, 0, aging / 2, aging, aging + aging/4, 2 * aging, 3 * aging}
	for p := range plans {
		n := T.Range(1, 6)
		if burst && p == 0 {
			n = UdpTaskQueueLength + T.Range(2, 12)
		}
		for i := 0; i < n; i++ {
			pl := plan{key: T.Choose(nKeys)}
			if burst && p == 0 {
				pl.key = 0
			} else {
				pl.sleep = sleeps[T.Choose(len(sleeps))]
				pl.body = T.Choose(3)
			}
			plans[p] = append(plans[p], pl)
		}
	}
	// in a burst run the flooding producer comes back with a few more packets of the same flow
	// when the worker has drained the channel and is part-way through the overflow FIFO
	lateAfter, lateN := 0, 0
	if burst {
		lateAfter = T.Range(1, 3) // come back when only this many accepted packets of the flow are still waiting
		lateN = T.Range(0, 3)
	}
	accepted0 := func() int {
		n := 0
		for _, r := range recs {
			if r.key == 0 && r.retSeq > 0 {
				n++
			}
		}
		return n
	}
	executed0 := func() int {
		n := 0
		for _, r := range recs {
			if r.key == 0 && len(r.endSeq) > 0 {
				n++
			}
		}
		return n
	}
	prodDone := 0
	for p := 0; p < nProd; p++ {
		p := p
		verifsim.Go(fmt.Sprintf("producer%d", p), func() {
			defer func() { prodDone++ }()
			pseq := map[int]int{}
			all := plans[p]
			if burst && p == 0 {
				for i := 0; i < lateN; i++ {
					all = append(all, plan{key: 0, body: -1})
				}
			}
			for _, pl := range all {
				if pl.body < 0 {
					// a late packet of the flooded flow: wait (without letting time pass) until
					// the worker is inside the overflow FIFO
					pl.body = 0
					for guard := 0; accepted0()-executed0() > lateAfter && guard < 4000 && !s.Failed(); guard++ {
						verifsim.Yield("producer-waits-for-drain")
					}
					s.Probe("taskpool.emit-during-overflow-drain")
				}
				if pl.sleep > 0 {
					time.Sleep(pl.sleep)
					verifsim.Yield("producer-woke")
				}
				r := &tpRec{key: pl.key, producer: p, pseq: pseq[pl.key]}
				pseq[pl.key]++
				body := pl.body
				seq++
				r.callSeq = seq
				recs = append(recs, r)
				pool.EmitTask(keys[r.key], func() {
					w := verifsim.TaskName()
					seq++
					r.startSeq = append(r.startSeq, seq)
					r.worker = append(r.worker, w)
					if other, busy := running[r.key]; busy {
						s.Failf("one-at-a-time", "task p%d/k%d/#%d started on %s while %s is still inside a task of the same flow", r.producer, r.key, r.pseq, w, other)
					}
					running[r.key] = w
					for i := 0; i < body; i++ {
						verifsim.Yield("task-body")
					}
					if burst && r.producer == 0 && r.pseq == 0 {
						// a slow handler: the first packet of the flooded flow is still being handled while
						// the rest of the burst arrives, so the channel really fills up and the FIFO spills
						for guard := 0; accepted0() < len(plans[0]) && guard < 20000 && !s.Failed(); guard++ {
							verifsim.Yield("slow-handler")
						}
						if accepted0() > UdpTaskQueueLength+1 {
							s.Probe("taskpool.backlog-beyond-channel")
						}
					}
					delete(running, r.key)
					seq++
					r.endSeq = append(r.endSeq, seq)
				})
				seq++
				r.retSeq = seq
			}
		})
	}
	allDone := func() bool { return prodDone == nProd }
	s.RunUntil(allDone, 7)
	if s.Failed() {
		return
	}
	if !allDone() {
		s.Probe("step-budget-exhausted")
		return
	}
	executed := func() bool {
		for _, r := range recs {
			if len(r.endSeq) == 0 {
				return false
			}
		}
		return true
	}
	executedAll := func() bool {
		return executed() && len(s.LiveTasks("udp_task_pool.go")) == 0
	}
	// bounded liveness: everything accepted runs, then every convoy exits after
	// the idle timeout - or at once when the pool is closed (shutdown path; Close
	// is only exercised after the producers are done, it is not part of the
	// interleavings the property quantifies over).
	ok := true
	if doClose {
		ok = s.Quiesce(executed, 0, 20*aging+2*time.Second)
		if ok {
			verifsim.Go("closer", func() { pool.Close() })
			ok = s.Quiesce(executedAll, 0, time.Millisecond)
		}
	} else {
		ok = s.Quiesce(executedAll, 0, 20*aging+2*time.Second)
	}
	if s.Failed() {
		return
	}
	// ---- oracle over the recorded history
	for _, r := range recs {
		if len(r.startSeq) > 1 {
			s.Failf("exactly-once", "task p%d/k%d/#%d executed %d times (workers %v)", r.producer, r.key, r.pseq, len(r.startSeq), r.worker)
			return
		}
		if len(r.startSeq) == 0 && true {
			s.Failf("exactly-once", "task p%d/k%d/#%d was accepted (EmitTask returned at seq %d) but never executed; live convoys: %v", r.producer, r.key, r.pseq, r.retSeq, s.LiveTasks("udp_task_pool.go"))
			return
		}
	}
	// per-flow order: program order of each producer, and real-time order across producers
	byKey := map[int][]*tpRec{}
	for _, r := range recs {
		if len(r.startSeq) == 1 {
			byKey[r.key] = append(byKey[r.key], r)
		}
	}
	workerKey := map[string]int{}
	for k, l := range byKey {
		sort.Slice(l, func(i, j int) bool { return l[i].startSeq[0] < l[j].startSeq[0] })
		for i := 0; i < len(l); i++ {
			a := l[i]
			if prev, ok := workerKey[a.worker[0]]; ok && prev != k {
				s.Failf("own-queue", "worker %s executed tasks of flow k%d and k%d", a.worker[0], prev, k)
				return
			}
			workerKey[a.worker[0]] = k
			if !strings.Contains(a.worker[0], "udp_task_pool.go") {
				s.Failf("own-queue", "task p%d/k%d/#%d ran on %q, not on a convoy worker", a.producer, a.key, a.pseq, a.worker[0])
				return
			}
			for j := i + 1; j < len(l); j++ {
				b := l[j] // b started after a
				if b.retSeq != 0 && b.retSeq < a.callSeq {
					s.Failf("fifo", "flow k%d: task p%d/#%d (accepted at seq %d..%d) ran after p%d/#%d which was only emitted at seq %d", k, a.producer, a.pseq, a.callSeq, a.retSeq, b.producer, b.pseq, b.callSeq)
					return
				}
				if a.producer == b.producer && b.pseq < a.pseq {
					s.Failf("fifo", "flow k%d: producer %d's task #%d ran before its task #%d", k, a.producer, a.pseq, b.pseq)
					return
				}
				if len(a.endSeq) == 1 && b.startSeq[0] < a.endSeq[0] {
					s.Failf("one-at-a-time", "flow k%d: tasks p%d/#%d and p%d/#%d overlap", k, a.producer, a.pseq, b.producer, b.pseq)
					return
				}
			}
		}
	}
	if !ok {
		s.Failf("convoy-leak", "after producers stopped, %v simulated time later not quiescent: live convoys %v", 20*aging+2*time.Second, s.LiveTasks("udp_task_pool.go"))
		return
	}
	if burst {
		s.Probe("taskpool.overflow-burst")
	}
}

func TestSimC13a(t *testing.T) {
	verifsim.Main(t, verifsim.Engine{
		Prop: "C13", Name: "taskpool", MaxSteps: 30000, Scenario: tpScenario,
		Real:  []string{"control.UdpTaskPool (EmitTask, acquireQueue, enqueue, convoy, overflow FIFO, channel recycling, Close) instrumented at every sync operation"},
		Stubs: []string{"sync.Map and sync.Pool replaced by deterministic equivalents (same API)"},
		Rule:  "tape draws idle timeout, 1-3 flow keys, 1-4 producers with 1-6 tasks each (or a >128 burst), sleeps around the idle timeout, optional Close; non-trivial = at least two schedulable options at some step; distinct = distinct (task,site) schedule hash",
	})
}
