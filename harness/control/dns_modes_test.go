package control

func dnsScenarioC08(w *dnsWorld) {}
func dnsScenarioC07(w *dnsWorld) {}
func dnsScenarioC10(w *dnsWorld) {}
func dnsScenarioC18(w *dnsWorld) {}

func (w *dnsWorld) c08AfterOp(op *dnsOp)                   {}
func (w *dnsWorld) c07AfterOp(op *dnsOp)                   {}
func (w *dnsWorld) c08OnRemoved(e *dnsEntryObs, before int) {}
func (w *dnsWorld) c08OnQuery(q *dnsUpQuery)               {}

type dnsC18 struct{}
