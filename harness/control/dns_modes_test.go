package control

func dnsScenarioC07(w *dnsWorld) {}
func dnsScenarioC18(w *dnsWorld) {}

func (w *dnsWorld) c07AfterOp(op *dnsOp) {}

type dnsC18 struct{}
