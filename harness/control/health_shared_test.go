package control

// small helpers shared by harnesses that are built without health_test.go

import (
	"context"
	"errors"

	"github.com/daeuniverse/outbound/netproxy"
)

type nopDialer struct{}

func (nopDialer) DialContext(ctx context.Context, network, addr string) (netproxy.Conn, error) {
	return nil, errors.New("not used")
}
