package control

// dnssim — C08: the cache serves only live, correctly scoped answers with
// truthful TTLs; stale window; single refresh; LRU.
//
// Reference model: the observed history of cache entries (key, scripted answer,
// insertion instant) plus the scripted TTL / configured fixed TTL / stale window.
// Deadlines are computed by the harness from those, never read from the entry.

import (
	"fmt"
	"strings"
	"time"

	"github.com/daeuniverse/dae/common/consts"
	verifsim "github.com/daeuniverse/dae/internal/verifsim"
	dnsmessage "github.com/miekg/dns"
)

const dnsMargin = time.Second

func (w *dnsWorld) staleLimit(dl time.Duration) (limit time.Duration, unbounded bool) {
	if !w.cfg.optimistic {
		return dl, false
	}
	if w.cfg.staleTtl == 0 {
		return 0, true
	}
	return dl + time.Duration(w.cfg.staleTtl)*time.Second, false
}

func (w *dnsWorld) c08OnQuery(q *dnsUpQuery) {
	if !w.on(dnsModeC08) || q.chain == nil || !q.chain.refresh {
		return
	}
	now := w.s.Now()
	for _, ch := range w.allChains {
		if ch == q.chain || !ch.refresh || ch.key != q.chain.key {
			continue
		}
		for _, o := range ch.queries {
			// the earlier refresh is certainly still waiting for this query when it is recent, or when
			// the task that sent it is still inside the forwarder call it sent it from
			if !o.reacted && o.open() && (now-o.at < 2*time.Second || (o.task != q.task && w.s.InFunc(o.task, ").ForwardDNS"))) {
				cls := ""
				if w.reloads > 0 {
					cls = "@after-reload"
				}
				w.s.Failf("c08-concurrent-refresh"+cls, "two refreshes of the stale entry %v are in flight: upstream query #%d (task %s) is sent %v after query #%d (task %s), which is still unanswered",
					ch.key, q.seq, q.task, now-o.at, o.seq, o.task)
				return
			}
		}
	}
	w.s.Probe("dns.background-refresh-query")
}

func (w *dnsWorld) c08AfterOp(op *dnsOp) {
	s := w.s
	if op.key.scope < 0 || op.gen != op.genEnd || op.reloadOverlap != w.reloads {
		return
	}
	var served *dnsAns
	var m *dnsmessage.Msg
	if op.err == nil && len(op.replies) > 0 {
		m = op.replies[0]
		ids, _ := w.decodeAnswers(m.Answer)
		for _, id := range ids {
			if a := w.ansByID(id); a != nil {
				served = a
			}
		}
	}
	// ---- safety: what was served
	if served != nil && (served.name != op.name || served.qtype != op.qtype) {
		s.Failf("c08-wrong-name-or-type-served", "client c%d asked %v and was served answer a%d, which is an answer for %s %s", op.cli, op.key, served.id, dnsAllNames[served.name], dnsmessage.TypeToString[served.qtype])
		return
	}
	if served != nil {
		fresh := served.chain != nil && (served.chain == op.chain || served.sentStep >= op.startStep)
		if served.chain != nil && served.chain.key != op.key && (served.chain.op == nil || served.chain.op.gen == served.chain.op.genEnd) {
			s.Failf("c08-wrong-scope-served", "client c%d asked %v and was served answer a%d, which was obtained by a resolution for %v", op.cli, op.key, served.id, served.chain.key)
			return
		}
		if !fresh {
			var e *dnsEntryObs
			for _, x := range w.track.byAnswer(served.id) {
				if x.keyOK && x.key == op.key {
					e = x
				}
			}
			if e == nil {
				s.Failf("c08-wrong-scope-served@never-cached-under-key", "client c%d asked %v and was served answer a%d from the cache, but that answer was never cached under this key", op.cli, op.key, served.id)
				return
			}
			if dl, ok := e.deadline(w); ok {
				// fixed_domain_ttl configured for the name, but the question that fetched the
				// answer spelled the name with capitals
				caseCls := ""
				if _, fx := w.cfg.fixed[dnsAllNames[op.name]]; fx && served.forQuery != nil && served.forQuery.qname != strings.ToLower(served.forQuery.qname) {
					caseCls = "fixed-ttl-and-mixed-case-question"
				}
				limit, unbounded := w.staleLimit(dl)
				if !unbounded && op.start > limit+dnsMargin {
					cls := "no-stale-serving-configured"
					if w.cfg.optimistic {
						cls = "beyond-stale-window"
					}
					if caseCls != "" {
						cls = caseCls
					}
					if e.mixedTTL(w) {
						// legitimate if the whole answer lived as long as its FIRST record says
						if lf, _ := w.staleLimit(e.deadlineByFirstRecord()); op.start <= lf+dnsMargin {
							cls = "first-record-ttl-used"
						}
					}
					s.Failf("c08-expired-served@"+cls, "client c%d asked %v at %v and was served answer a%d from the cache; it was inserted at %v with lifetime %v (deadline %v, optimistic=%v stale window %ds): served %v after the last instant it may be served",
						op.cli, op.key, op.start, served.id, e.insertedAt, dl-e.insertedAt, dl, w.cfg.optimistic, w.cfg.staleTtl, op.start-limit)
					return
				}
				if e.mixedTTL(w) && op.start > dl+dnsMargin && op.start < e.deadlineByFirstRecord() {
					s.Probe("dns.c08-hit-between-shortest-and-first-record-ttl")
				}
				if op.end < dl-dnsMargin {
					s.Probe("dns.fresh-cache-hit")
					if fx, isFixed := w.cfg.fixed[dnsAllNames[op.name]]; isFixed && fx >= 60 && op.start-e.insertedAt > 17*time.Second {
						for _, o := range w.ops {
							if o != op && o.key == op.key && o.task != "" && (!o.done || o.endStep >= op.startStep) && o.startStep <= w.s.Step {
								s.Probe("dns.c08-concurrent-hits-on-fixed-ttl-entry-past-pack-tolerance")
								break
							}
						}
					}
					remaining := (dl - op.start + time.Second - 1) / time.Second
					for _, rr := range m.Answer {
						if ttl := time.Duration(rr.Header().Ttl); ttl > remaining+15+1 {
							cls := ""
							if fx, isFixed := w.cfg.fixed[dnsAllNames[op.name]]; isFixed && caseCls == "" {
								if od, ok2 := e.originalDeadline(); ok2 && time.Duration(fx)*time.Second < od-e.insertedAt {
									if ro := (od - op.start + time.Second - 1) / time.Second; ttl <= ro+15+1 {
										cls = "@original-ttl-shown-for-a-fixed-ttl-name"
									}
								}
							}
							if e.mixedTTL(w) && cls == "" {
								if rf := (e.deadlineByFirstRecord() - op.start + time.Second - 1) / time.Second; ttl <= rf+15+1 {
									cls = "@first-record-ttl-used"
								}
							}
							for _, o := range w.ops {
								if cls != "" {
									break
								}
								if o != op && o.key == op.key && o.task != "" && o.startStep <= w.s.Step && (!o.done || o.endStep >= op.startStep) {
									cls = "@concurrent-lookups"
								}
							}
							if caseCls != "" && cls == "" {
								cls = "@" + caseCls
							}
							s.Failf("c08-ttl-overstated"+cls, "client c%d asked %v at %v and the cached answer a%d shows TTL %ds although only %ds of its lifetime remain (inserted %v, lifetime %v); slack allowed: 15 s",
								op.cli, op.key, op.start, served.id, ttl, remaining, e.insertedAt, dl-e.insertedAt)
							return
						}
					}
				} else if op.start > dl+dnsMargin {
					s.Probe("dns.stale-served")
				}
			}
		}
	}
	// ---- liveness: inside the stale window the expired answer is served at once
	if !w.cfg.optimistic {
		return
	}
	pre := op.pre
	if pre == nil {
		// was the entry dropped although its stale window was still open?
		if last := w.track.latest(op.key); last != nil && last.removed && !last.replaced && last.removedAt <= op.start && last.removeCtx != "shutdown" && last.cause(w) != "rejected-question" {
			if dl, ok := last.deadline(w); ok && w.inStaleWindow(dl, op.start, op.end) && last.removedAt < w.windowEnd(dl)-dnsMargin && !w.lruMayEvict(last) && op.chain != nil {
				cls := "entry-dropped-at-" + last.cause(w)
				if w.fixedCase(last) {
					cls = "fixed-ttl-and-mixed-case-question"
				}
				s.Failf("c08-stale-not-served@"+cls, "client c%d asked %v at %v, inside the stale window of answer a%v (deadline %v, window %ds), and had to wait for upstream query #%d: the entry had been dropped at %v (%s)",
					op.cli, op.key, op.start, last.ids, dl, w.cfg.staleTtl, op.chain.queries[0].seq, last.removedAt, last.cause(w))
			}
		}
		return
	}
	dl, ok := pre.deadline(w)
	if !ok || !w.inStaleWindow(dl, op.start, op.end) || w.lruMayEvict(pre) {
		return
	}
	if w.fixedCase(pre) {
		if op.chain != nil || op.err != nil || m == nil {
			s.Failf("c08-stale-not-served@fixed-ttl-and-mixed-case-question", "client c%d asked %v at %v, inside the stale window the configured fixed TTL gives the cached answer a%v (inserted %v, deadline %v, window %ds), and was not answered from the cache", op.cli, op.key, op.start, pre.ids, pre.insertedAt, dl, w.cfg.staleTtl)
		}
		return
	}
	if pre.removed && !pre.replaced && pre.removedAt <= op.end && op.chain != nil {
		if c := pre.cause(w); c == "end-of-refresh" || c == "janitor-expiry" || c == "lru" {
			// dropped by another path between the op's start and its lookup
			s.Failf("c08-stale-not-served@entry-dropped-at-"+c, "client c%d asked %v at %v, inside the stale window of the cached answer a%v (deadline %v, window %ds), and had to wait for upstream query #%d: the entry was dropped at %v (%s)",
				op.cli, op.key, op.start, pre.ids, dl, w.cfg.staleTtl, op.chain.queries[0].seq, pre.removedAt, c)
			return
		}
	}
	switch {
	case op.chain != nil:
		s.Failf("c08-stale-not-served@went-upstream", "client c%d asked %v at %v, inside the stale window of the cached answer a%v (inserted %v, deadline %v, window %ds): instead of being answered at once it waited for upstream query #%d",
			op.cli, op.key, op.start, pre.ids, pre.insertedAt, dl, w.cfg.staleTtl, op.chain.queries[0].seq)
	case op.err != nil || m == nil:
		s.Failf("c08-stale-not-served@error", "client c%d asked %v at %v, inside the stale window of the cached answer a%v (deadline %v, window %ds), and got err=%v with %d replies",
			op.cli, op.key, op.start, pre.ids, dl, w.cfg.staleTtl, op.err, len(op.replies))
	}
}

// fixedCase: fixed_domain_ttl is configured for the entry's name but the question
// that fetched the answer spelled the name with capitals (the known case-sensitive
// lookup): the model's lifetime and the controller's differ for such an entry.
func (w *dnsWorld) fixedCase(e *dnsEntryObs) bool {
	if e == nil || !e.keyOK {
		return false
	}
	if _, fx := w.cfg.fixed[dnsAllNames[e.key.name]]; !fx {
		return false
	}
	for _, id := range e.ids {
		if a := w.ansByID(id); a != nil && a.forQuery != nil && a.forQuery.qname != strings.ToLower(a.forQuery.qname) {
			return true
		}
	}
	return false
}

func (w *dnsWorld) windowEnd(dl time.Duration) time.Duration {
	if w.cfg.staleTtl == 0 {
		return 1 << 60
	}
	return dl + time.Duration(w.cfg.staleTtl)*time.Second
}

// inStaleWindow: the whole lookup [from,to] lies inside (deadline, deadline+window), 1 s away from both ends.
func (w *dnsWorld) inStaleWindow(dl, from, to time.Duration) bool {
	return from >= dl+dnsMargin && to <= w.windowEnd(dl)-dnsMargin
}

// lruMayEvict: with a size limit the entry may legitimately disappear at any janitor pass.
func (w *dnsWorld) lruMayEvict(e *dnsEntryObs) bool {
	return w.cfg.maxSize > 0 && w.maxCount > w.cfg.maxSize
}

// c08OnRemoved collects the evictions of one janitor pass (the pass removes its
// victims one scheduling step at a time); the LRU order is judged when the pass is
// over (c08FlushLRU, called once simulated time has moved on).
func (w *dnsWorld) c08OnRemoved(gone []*dnsEntryObs, before int) {
	if w.cfg.maxSize <= 0 || w.closing {
		return
	}
	for _, r := range gone {
		if r.replaced || !r.keyOK {
			continue
		}
		if len(w.lruBatch) == 0 {
			w.lruBefore, w.lruAt, w.lruStep = before, w.s.Now(), w.s.Step
			w.lruBusy = len(w.curOp) > 0
		}
		w.lruBatch = append(w.lruBatch, r)
	}
}

func (w *dnsWorld) c08FlushLRU() {
	if len(w.lruBatch) == 0 {
		return
	}
	if len(w.curOp) > 0 {
		w.lruBusy = true
	}
	// the pass is over when the cache is back within its limit; a pass that is still
	// not finished a second later (janitor starved by the scheduler) is not judged
	if len(w.track.cur) > w.cfg.maxSize {
		if w.s.Now() > w.lruAt+time.Second {
			w.lruBatch = nil
		}
		return
	}
	batch, before := w.lruBatch, w.lruBefore
	w.lruBatch = nil
	if before <= w.cfg.maxSize || w.lruBusy {
		return
	}
	for _, r := range batch {
		if r.cause(w) != "lru" {
			continue
		}
		ru, okr := w.track.lastUse[r.key]
		if !okr {
			continue
		}
		w.s.Probe("dns.lru-eviction")
		for _, a := range w.track.cur {
			if !a.keyOK || a.insertStep >= w.lruStep {
				continue
			}
			au, oka := w.track.lastUse[a.key]
			if !a.replacedExisting && !a.restored && (!oka || a.insertedAt > au.max) {
				// storing an answer under a key that had no entry at that moment counts as a use of
				// that key (also when it was fetched by dae's own companion query, or by a refresh
				// whose stale entry had been evicted before the answer arrived)
				au, oka = dnsUse{min: a.insertedAt, max: a.insertedAt}, true
			}
			if !oka {
				continue
			}
			if ru.min > au.max {
				cls := "plain"
				if r.refreshed {
					cls = "after-refresh-replaced-the-entry"
				}
				w.s.Failf("c08-lru-evicted-recently-used@"+cls, "max_cache_size=%d, %d entries at %v: the janitor evicted %v (last asked for at %v) and kept %v (last asked for at %v)",
					w.cfg.maxSize, before, w.lruAt, r.key, ru.min, a.key, au.max)
				return
			}
		}
	}
}

// ---------------------------------------------------------------------------
// scenario: rounds of lookups separated by jumps of simulated time placed
// relative to the deadlines of the cached entries

func dnsScenarioC08(w *dnsWorld) {
	s, T := w.s, w.T
	w.faulty = T.Pick(3, 2)
	w.cfg = dnsCfg{optimistic: T.Pick(1, 2) == 1, fixed: map[string]int{}}
	w.cfg.maxSize = []int{0, 2, 3}[T.Pick(3, 1, 1)]
	w.cfg.staleTtl = []int{30, 5, 60}[T.Choose(3)]
	if w.cfg.maxSize > 0 && T.Chance(1, 2) {
		w.cfg.staleTtl = 0
	}
	w.cfg.janitor = []time.Duration{30 * time.Second, 5 * time.Second, 120 * time.Second}[T.Choose(3)]
	w.cfg.idleTTL = 2 * time.Minute
	w.envBudget = T.Range(0, 4)
	if !w.setup(dnsSetup{nNames: [2]int{2, 4}, nUps: [2]int{1, 2}, schemes: []string{"udp", "udp", "tcp"}, dialMode: consts.DialMode_Ip}) {
		return
	}
	if T.Chance(1, 3) {
		// fixed_domain_ttl for one name (shorter or longer than the answers' own TTL)
		// 5 s: shorter than every upstream TTL but the smallest; 60 s: shorter than the 120 s
		// answers (and long enough for the packed reply to leave its 15 s tolerance), longer than the rest
		w.cfg.fixed[dnsAllNames[w.names[0]]] = []int{5, 60}[T.Choose(2)]
		w.plane.dnsFixedDomainTtl = w.cfg.fixed
		if err := w.ctl.TryUpdateRuntime(w.controllerOption(), w.plane.dnsRouting); err != nil {
			s.Failf("harness-dns", "%v", err)
			return
		}
		s.Notef("fixed_domain_ttl %v", w.cfg.fixed)
	}
	w.drawSpecs([]int{0, 1, 2, 3}, false, false)
	if w.cfg.fixed[dnsAllNames[w.names[0]]] == 60 {
		// the name with the 60 s fixed TTL is answered with 120 s records by every upstream:
		// its entries live 60 s, long enough for the packed reply to leave its tolerance
		for k, sp := range w.spec {
			if k[1] == w.names[0] {
				sp.ttlIdx = 3
				w.spec[k] = sp
			}
		}
	}
	rounds := T.Range(2, 9)
	nCli := 3
	for r := 0; r < rounds && !s.Failed(); r++ {
		k := 1 + T.Pick(4, 2, 1)
		var ops []*dnsOp
		for i := 0; i < k; i++ {
			op := &dnsOp{cli: i % nCli, idx: len(w.ops), id: uint16(100 + len(w.ops)), viaUDP: T.Chance(1, 4), resolver: T.Pick(3, 1)}
			// revisit a cached key most of the time
			if cur := w.sortedEntries(); len(cur) > 0 && T.Chance(3, 4) {
				e := cur[T.Choose(len(cur))]
				if w.focus != nil && (i == 0 || (i == 1 && len(w.ops)%2 == 0)) {
					e = w.focus // every other round a second client asks the same question concurrently
				}
				op.name, op.qtype = e.key.name, e.key.qtype
				if e.key.scope >= len(w.ups) && T.Chance(3, 4) {
					op.resolver = e.key.scope - len(w.ups) // mostly under the scope it was cached for
				}
			} else {
				op.name, op.qtype = w.names[T.Choose(len(w.names))], dnsQtypes[T.Pick(3, 2, 1)]
			}
			if op.qtype == dnsmessage.TypeTXT {
				// most "other type" questions are spread over SVCB/HTTPS and a few uncommon
				// types below 34 (derived from the op number, no extra draw); a name cached
				// under one type of a pair is asked for under the other one
				op.qtype = w.spreadOtherType(op.name, op.idx)
			}
			op.qname = w.wireName(op.name, T.Pick(4, 1, 1))
			ops = append(ops, op)
			w.ops = append(w.ops, op)
		}
		done := 0
		for i, op := range ops {
			op := op
			verifsim.Go(fmt.Sprintf("client%d", i), func() {
				w.doOp(op, 10*time.Second)
				done++
			})
		}
		ok := w.settle(func() bool { return done == len(ops) && !w.pendingWork() && w.fwdInFlight() == 0 }, 5)
		if !ok {
			if !s.Failed() {
				// an upstream that never answers keeps the resolution waiting for its timeout
				s.RunUntil(func() bool { return done == len(ops) && w.fwdInFlight() == 0 }, 8)
			}
			if done != len(ops) {
				s.Probe("dns.step-budget-exhausted")
				break
			}
		}
		if s.Failed() {
			break
		}
		if len(w.ups) > 1 && T.Chance(1, 8) {
			// swap the request rules: a name may now be routed to the other upstream (another scope)
			rs := dnsGenRuleSet(T, w.rules.tags, w.names, false, false)
			s.Fault("reload-reuse")
			w.env("reload", func() { w.reloadReuse(rs) })
			s.RunUntil(func() bool { return w.envTasks == 0 }, 5)
		}
		if T.Chance(1, 20) {
			// a reload is only modelled between resolutions: a refresh still in flight on the
			// old controller (closed right after the restore) is not part of the statement
			s.Quiesce(func() bool { return true }, 0, 0)
			w.track.scan()
			if w.pendingWork() || w.fwdInFlight() > 0 {
				w.idle(w.pickJump())
				continue
			}
			w.env("reload", func() { w.reloadClone() })
			s.RunUntil(func() bool { return w.envTasks == 0 }, 5)
		}
		w.idle(w.pickJump())
	}
	w.shutdown()
}

func (w *dnsWorld) sortedEntries() []*dnsEntryObs {
	var r []*dnsEntryObs
	for _, e := range w.track.hist {
		if !e.removed && e.keyOK {
			r = append(r, e)
		}
	}
	return r
}

// pickJump chooses how long to let time pass before the next round: instants
// relative to an entry's deadline and stale window, always >= 2 s away from them.
func (w *dnsWorld) pickJump() time.Duration {
	T := w.T
	now := w.s.Now()
	cur := w.sortedEntries()
	if len(cur) == 0 || T.Chance(1, 6) {
		return []time.Duration{100 * time.Millisecond, time.Second, 7 * time.Second, 40 * time.Second}[T.Choose(4)]
	}
	e := cur[T.Choose(len(cur))]
	w.focus = e // the next round's first revisit asks for this entry's key: the jump was placed for it
	dl, ok := e.deadline(w)
	if !ok {
		return time.Second
	}
	stale := time.Duration(w.cfg.staleTtl) * time.Second
	if w.cfg.staleTtl == 0 {
		stale = 10 * time.Minute
	}
	var target time.Duration
	switch T.Choose(7) {
	case 0:
		target = e.insertedAt + (dl-e.insertedAt)/2
	case 1:
		target = dl - 2*time.Second
	case 2:
		target = dl + 2*time.Second
	case 3:
		target = dl + stale/2
	case 4:
		target = dl + stale - 2*time.Second
	case 5:
		target = dl + stale + 2*time.Second
	default:
		target = dl + stale + 70*time.Second
	}
	if target <= now {
		return 100 * time.Millisecond
	}
	return target - now
}

// reloadClone: the reload path that builds a new controller and replays the cache
// (CloneCacheForReload -> NewDnsController -> RestoreReloadCache -> old.Close).
func (w *dnsWorld) reloadClone() {
	s := w.s
	old := w.ctl
	entries := old.CloneCacheForReload()
	routing, err := w.buildRouting(w.rules)
	if err != nil {
		s.Failf("harness-dns", "reload: %v", err)
		return
	}
	nc, err := NewDnsController(routing, w.controllerOption())
	if err != nil {
		s.Failf("harness-dns", "reload: %v", err)
		return
	}
	w.newCtl = nc
	w.reloads++
	s.Fault("reload-clone-restore")
	s.Notef("reload: clone %d entries into a new controller", len(entries))
	w.track.restoring = true
	w.track.frozen = true
	n := nc.RestoreReloadCache(entries, w.plane.routingMatcher.domainMatcher.MatchDomainBitmap, time.Now())
	w.plane.dnsRouting = routing
	w.plane.dnsController = nc
	w.ctl = nc
	w.track.ctl = nc
	w.track.frozen = false
	w.track.scan()
	w.track.restoring = false
	s.Notef("reload: %d entries restored", n)
	_ = old.Close()
}
