package control

// Workload generators for kernsim: outbound tables, rule texts, DNS bindings and
// logical packets. Everything is drawn from the choice tape; smaller tape values
// give simpler things (fewer rules, plain outbounds, no negation).

import (
	"fmt"
	"net/netip"
	"os"
	"strings"

	"github.com/daeuniverse/dae/common/consts"
	"github.com/daeuniverse/dae/component/routing"
	"github.com/daeuniverse/dae/config"
	verifsim "github.com/daeuniverse/dae/internal/verifsim"
	"github.com/daeuniverse/dae/pkg/config_parser"
)

type ksOutTable struct {
	name2id map[string]uint8
	id2name map[uint8]string
	groups  []string // user groups (id >= 2)
}

func genOutbounds(T *verifsim.Tape) *ksOutTable {
	o := &ksOutTable{name2id: map[string]uint8{"direct": 0, "block": 1}, id2name: map[uint8]string{0: "direct", 1: "block"}}
	pool := []uint8{2, 3, 4, 9, 64, 128, 200, 249, 250}
	n := 1 + T.Pick(4, 3, 2, 1)
	for i := 0; i < n && len(pool) > 0; i++ {
		k := T.Choose(len(pool))
		id := pool[k]
		pool = append(pool[:k], pool[k+1:]...)
		name := fmt.Sprintf("g%d", id)
		o.name2id[name] = id
		o.id2name[id] = name
		o.groups = append(o.groups, name)
	}
	return o
}

var (
	ksV4Bases = []string{"10.1.2.3", "10.1.2.255", "10.200.0.1", "192.168.1.10", "203.0.113.7", "8.8.8.8", "224.0.0.251", "1.1.1.1"}
	ksV6Bases = []string{"fd00::1", "2001:db8::1", "2001:db8:1:2::5", "2001:db8:8000::1", "ff02::fb", "2606:4700::1111"}
	ksV4Lens  = []int{32, 24, 16, 8, 0, 1, 7, 9, 15, 17, 23, 25, 31}
	ksV6Lens  = []int{128, 64, 32, 48, 1, 8, 33, 47, 63, 65, 96, 97, 120, 127}
	ksPorts   = []string{"80", "443", "53", "1000-2000", "8080", "0-65535", "53-53", "1-1023", "65535", "0", "52-54", "54-60"}
	ksMacs    = []string{"aa:bb:cc:00:00:01", "aa:bb:cc:00:00:02", "02:42:ac:11:00:02"}
	ksPnames  = []string{"curl", "NetworkManager", "systemd-resolved", "averyveryverylongprocessname", "x"}
	ksDscps   = []string{"0", "4", "46", "63", "0x2e"}
	ksSuffix  = []string{"example.com", "com", "b.example.com", "example.org", ".sub.example.net"}
	ksFull    = []string{"www.example.com", "example.org", "a-b_c.example.net"}
	ksKeyword = []string{"exam", "oogl", "-b_", "e.c"}
	ksRegex   = []string{`^a.*\.net$`, `[0-9]+\.example\.com`, `^(www|api)\.`}
	ksNames   = []string{"example.com", "www.example.com", "a.b.example.com", "notexample.com", "example.com.evil.io", "Example.Org", "www.example.org.",
		"a-b_c.example.net", "api.google.com", "7.example.com", "x.sub.example.net", "sub.example.net", "com", "localhost", "WWW.EXAMPLE.COM"}
)

// ksSkip: development aid. VERIF_KERNSIM_SKIP=a,b makes the generators avoid
// input classes that hit an already recorded genuine defect, so that the rest of
// the space can be explored; never set by ./check itself.
func ksSkip(what string) bool {
	for _, x := range strings.Split(os.Getenv("VERIF_KERNSIM_SKIP"), ",") {
		if x == what {
			return true
		}
	}
	return false
}

func ksQuote(v string) string {
	if strings.ContainsAny(v, ":^$[]()|\\*+ ") || strings.HasPrefix(v, ".") {
		return "'" + v + "'"
	}
	return v
}

func genPrefix(T *verifsim.Tape) string {
	if T.Chance(1, 3) {
		b := ksV6Bases[T.Choose(len(ksV6Bases))]
		if T.Chance(1, 12) {
			return "::ffff:10.1.2.0/120" // IPv4-mapped literal
		}
		l := ksV6Lens[T.Choose(len(ksV6Lens))]
		if T.Chance(1, 1500) && !ksSkip("v6len0") {
			l = 0 // rare on purpose: hits the recorded defect "v6-prefix-len-0"
		}
		if l == 128 && T.Chance(1, 2) {
			return b
		}
		p := netip.PrefixFrom(netip.MustParseAddr(b), l)
		if T.Chance(3, 4) {
			p = p.Masked()
		}
		return p.String()
	}
	b := ksV4Bases[T.Choose(len(ksV4Bases))]
	l := ksV4Lens[T.Choose(len(ksV4Lens))]
	if l == 32 && T.Chance(1, 2) {
		return b
	}
	p := netip.PrefixFrom(netip.MustParseAddr(b), l)
	if T.Chance(3, 4) {
		p = p.Masked()
	}
	return p.String()
}

type ksGenCond struct {
	fn  string
	not bool
	txt string
}

func genCond(T *verifsim.Tape, fnIdx int) ksGenCond {
	fns := []string{"dip", "dport", "l4proto", "sip", "sport", "ipversion", "domain", "mac", "pname", "dscp", "ip", "port"}
	fn := fns[fnIdx%len(fns)]
	c := ksGenCond{fn: fn, not: T.Chance(1, 4)}
	nv := 1 + T.Pick(5, 3, 2, 1)
	var vals []string
	switch fn {
	case "dip", "ip", "sip":
		for i := 0; i < nv; i++ {
			vals = append(vals, ksQuote(genPrefix(T)))
		}
	case "dport", "port", "sport":
		for i := 0; i < nv; i++ {
			vals = append(vals, ksPorts[T.Choose(len(ksPorts))])
		}
	case "l4proto":
		vals = [][]string{{"tcp"}, {"udp"}, {"tcp", "udp"}}[T.Choose(3)]
	case "ipversion":
		vals = [][]string{{"4"}, {"6"}, {"4", "6"}}[T.Choose(3)]
	case "mac":
		for i := 0; i < nv && i < 3; i++ {
			vals = append(vals, ksQuote(ksMacs[T.Choose(len(ksMacs))]))
		}
	case "pname":
		for i := 0; i < nv; i++ {
			vals = append(vals, ksPnames[T.Choose(len(ksPnames))])
		}
	case "dscp":
		for i := 0; i < nv; i++ {
			vals = append(vals, ksDscps[T.Choose(len(ksDscps))])
		}
	case "domain":
		for i := 0; i < nv; i++ {
			switch T.Pick(4, 3, 2, 2, 1, 1) {
			case 0:
				vals = append(vals, "suffix: "+ksQuote(ksSuffix[T.Choose(len(ksSuffix))]))
			case 1:
				vals = append(vals, "full: "+ksQuote(ksFull[T.Choose(len(ksFull))]))
			case 2:
				vals = append(vals, "keyword: "+ksQuote(ksKeyword[T.Choose(len(ksKeyword))]))
			case 3:
				vals = append(vals, "regex: "+ksQuote(ksRegex[T.Choose(len(ksRegex))]))
			case 4:
				vals = append(vals, ksQuote(ksSuffix[T.Choose(3)])) // bare value = suffix
			case 5:
				vals = append(vals, "contains: "+ksQuote(ksKeyword[T.Choose(len(ksKeyword))]))
			}
		}
	}
	neg := ""
	if c.not {
		neg = "!"
	}
	c.txt = neg + fn + "(" + strings.Join(vals, ", ") + ")"
	return c
}

func genOutboundText(T *verifsim.Tape, o *ksOutTable, allowMustRules bool) string {
	names := append([]string{"direct", "block"}, o.groups...)
	if allowMustRules && T.Chance(1, 10) {
		return "must_rules"
	}
	// groups more often than direct/block
	w := make([]int, len(names))
	for i := range w {
		w[i] = 3
	}
	w[0], w[1] = 2, 1
	name := names[T.Pick(w...)]
	marks := []string{"0x1", "0x800", "255", "0xdeadbeef", "0xffffffff", "0x100", "0"}
	switch T.Pick(8, 2, 2, 3, 1) {
	case 1:
		return "must_" + name
	case 2:
		return name + "(must)"
	case 3:
		return name + "(mark: " + marks[T.Choose(len(marks))] + ")"
	case 4:
		return name + "(mark: " + marks[T.Choose(len(marks))] + ", must)"
	}
	return name
}

// genRuleText returns a complete config text (global + routing sections).
func genRuleText(T *verifsim.Tape, o *ksOutTable, maxRules int) string {
	var b strings.Builder
	b.WriteString("global {}\nrouting {\n")
	n := T.Pick(1, 2, 3, 3, 3, 2, 2, 2, 1, 1, 1, 1, 1)
	if n >= 11 && maxRules >= 12 {
		// a wide program: more than 32 match sets, so the per-address domain bitmap spans several
		// 32-bit words and domain() sets sit in different words (chosen by the rarest value of the
		// existing draw; the draws below only happen in these runs)
		n = 34 + T.Choose(10)
		for i := 0; i < n; i++ {
			var c ksGenCond
			if i == 0 || i == n-1 || T.Chance(1, 5) {
				c = genCond(T, 6) // domain
			} else {
				// narrow fillers (mac, pname, dscp, ports), so that the walk usually reaches the late rules
				c = genCond(T, []int{7, 8, 9, 4, 1}[T.Choose(5)])
			}
			c.txt = strings.TrimPrefix(c.txt, "!")
			fmt.Fprintf(&b, "    %s -> %s\n", c.txt, genOutboundText(T, o, true))
		}
		fmt.Fprintf(&b, "    fallback: %s\n}\n", genOutboundText(T, o, false))
		return b.String()
	}
	if n > maxRules {
		n = maxRules
	}
	var prev []ksGenCond
	prevOut := ""
	for i := 0; i < n; i++ {
		var conds []ksGenCond
		out := ""
		// negated neighbours are rare on purpose: they hit the recorded defect "negated-singleton-merge"
		if len(prev) == 1 && T.Chance(1, 4) && (!prev[0].not || (T.Chance(1, 100) && !ksSkip("negmerge"))) {
			// neighbour of the same shape: same function, negation and outbound, other values
			fidx := map[string]int{"dip": 0, "dport": 1, "l4proto": 2, "sip": 3, "sport": 4, "ipversion": 5, "domain": 6, "mac": 7, "pname": 8, "dscp": 9, "ip": 10, "port": 11}[prev[0].fn]
			c := genCond(T, fidx)
			if c.not != prev[0].not {
				c.not = prev[0].not
				c.txt = strings.TrimPrefix(c.txt, "!")
				if c.not {
					c.txt = "!" + c.txt
				}
			}
			conds = []ksGenCond{c}
			out = prevOut
		} else {
			nc := 1 + T.Pick(5, 3, 1)
			for j := 0; j < nc; j++ {
				conds = append(conds, genCond(T, T.Choose(12)))
			}
			out = genOutboundText(T, o, true)
			if ksSkip("negmerge") && len(conds) == 1 && len(prev) == 1 && conds[0].not && prev[0].not {
				conds[0].not = false
				conds[0].txt = strings.TrimPrefix(conds[0].txt, "!")
			}
		}
		var ts []string
		for _, c := range conds {
			ts = append(ts, c.txt)
		}
		fmt.Fprintf(&b, "    %s -> %s\n", strings.Join(ts, " && "), out)
		prev, prevOut = conds, out
	}
	fmt.Fprintf(&b, "    fallback: %s\n}\n", genOutboundText(T, o, false))
	return b.String()
}

// ---- building one generation with the production pipeline ----

func buildGeneration(w *ksWorld, text string, o *ksOutTable) (*ksGeneration, *RoutingMatcherBuilder, error) {
	sections, err := config_parser.Parse(text)
	if err != nil {
		return nil, nil, fmt.Errorf("parse: %w", err)
	}
	conf, err := config.New(sections)
	if err != nil {
		return nil, nil, fmt.Errorf("config.New: %w", err)
	}
	prog, err := routing.NewNormalizedProgram(conf.Routing.Rules, conf.Routing.Fallback,
		&routing.AliasOptimizer{},
		&routing.DatReaderOptimizer{Logger: w.log},
		&routing.MergeAndSortRulesOptimizer{},
		&routing.DeduplicateParamsOptimizer{},
	)
	if err != nil {
		return nil, nil, fmt.Errorf("NewNormalizedProgram: %w", err)
	}
	builder, err := NewRoutingMatcherBuilderFromProgram(w.log, prog, o.name2id, w.bpf)
	if err != nil {
		return nil, nil, fmt.Errorf("builder: %w", err)
	}
	ref, err := refParse(text, o.name2id)
	if err != nil {
		return nil, nil, fmt.Errorf("refroute parse: %w", err)
	}
	g := &ksGeneration{core: newKsCore(w, o.id2name), snapshot: builder.KernspaceSnapshot(), text: text, ref: ref}
	return g, builder, nil
}

// ---- DNS bindings (domain -> addresses), one owner per address ----

type ksBinding struct {
	name  string
	addrs []netip.Addr
}

func ksAddrAdd(a [16]byte, delta int) [16]byte {
	carry := delta
	for i := 15; i >= 0 && carry != 0; i-- {
		v := int(a[i]) + carry
		carry = 0
		for v < 0 {
			v += 256
			carry--
		}
		for v > 255 {
			v -= 256
			carry++
		}
		a[i] = byte(v)
	}
	return a
}

func ksPrefixFirstLast(p refPrefix) (first, last [16]byte) {
	first, last = p.addr, p.addr
	for bit := p.bits; bit < 128; bit++ {
		first[bit/8] &^= 1 << (7 - bit%8)
		last[bit/8] |= 1 << (7 - bit%8)
	}
	return
}

func ksAddrFrom16(a [16]byte) netip.Addr {
	ad := netip.AddrFrom16(a)
	if ad.Is4In6() {
		return ad.Unmap()
	}
	return ad
}

// ksCollect gathers boundary material from the written rules.
type ksBoundaries struct {
	dst, src   []netip.Addr
	dports     []uint16
	sports     []uint16
	macs       [][6]byte
	pnames     []string
	dscps      []uint8
	names      []string
}

func ksCollect(prog *refProgram) *ksBoundaries {
	b := &ksBoundaries{}
	addAddr := func(dst *[]netip.Addr, p refPrefix) {
		f, l := ksPrefixFirstLast(p)
		for _, a := range [][16]byte{f, l, ksAddrAdd(f, -1), ksAddrAdd(l, 1), ksAddrAdd(f, 1)} {
			*dst = append(*dst, ksAddrFrom16(a))
		}
	}
	for _, r := range prog.rules {
		for _, c := range r.conds {
			for _, v := range c.vals {
				switch c.fn {
				case "ip":
					addAddr(&b.dst, v.prefix)
				case "sip":
					addAddr(&b.src, v.prefix)
				case "port":
					b.dports = append(b.dports, v.lo, v.hi, v.lo-1, v.hi+1)
				case "sport":
					b.sports = append(b.sports, v.lo, v.hi, v.lo-1, v.hi+1)
				case "mac":
					b.macs = append(b.macs, v.mac)
					m := v.mac
					m[5] ^= 1
					b.macs = append(b.macs, m)
				case "pname":
					b.pnames = append(b.pnames, v.raw)
					if len(v.raw) > 16 {
						b.pnames = append(b.pnames, v.raw[:16], v.raw[:15])
					} else {
						b.pnames = append(b.pnames, v.raw+"x")
					}
				case "dscp":
					b.dscps = append(b.dscps, v.dscp, v.dscp+1)
				case "domain":
					raw := strings.TrimPrefix(v.raw, ".")
					switch v.key {
					case "suffix":
						b.names = append(b.names, raw, "w."+raw, "x"+raw, raw+".io", strings.ToUpper(raw)+".")
					case "full":
						b.names = append(b.names, raw, "x"+raw, "x."+raw)
					case "keyword":
						b.names = append(b.names, "a"+raw+"z.io", raw)
					}
				}
			}
		}
	}
	return b
}

func genBindings(T *verifsim.Tape, prog *refProgram) []ksBinding {
	bd := ksCollect(prog)
	names := append(append([]string(nil), bd.names...), ksNames...)
	n := T.Pick(2, 3, 3, 2, 1)
	used := map[netip.Addr]bool{}
	usedName := map[string]bool{}
	var out []ksBinding
	for i := 0; i < n; i++ {
		name := names[T.Choose(len(names))]
		if usedName[refCanonDomain(name)] {
			continue
		}
		usedName[refCanonDomain(name)] = true
		b := ksBinding{name: name}
		na := 1 + T.Pick(3, 1)
		for j := 0; j < na; j++ {
			var a netip.Addr
			if len(bd.dst) > 0 && T.Chance(1, 2) {
				a = bd.dst[T.Choose(len(bd.dst))]
			} else if T.Chance(1, 3) {
				a = netip.MustParseAddr(fmt.Sprintf("2001:db8:d::%x", 1+T.Choose(200)))
			} else {
				a = netip.MustParseAddr(fmt.Sprintf("198.51.100.%d", 1+T.Choose(200)))
			}
			if used[a] || a.IsUnspecified() {
				continue
			}
			used[a] = true
			b.addrs = append(b.addrs, a)
		}
		if len(b.addrs) > 0 {
			out = append(out, b)
		}
	}
	return out
}

// ---- logical packets ----

func ksPoolAddr(T *verifsim.Tape, v6 bool) netip.Addr {
	if v6 {
		return netip.MustParseAddr(ksV6Bases[T.Choose(len(ksV6Bases))])
	}
	return netip.MustParseAddr(ksV4Bases[T.Choose(len(ksV4Bases))])
}

func genPacket(T *verifsim.Tape, prog *refProgram, bd *ksBoundaries, binds []ksBinding) *refPacket {
	p := &refPacket{}
	v6 := T.Chance(1, 3)
	p.src, p.dst = ksPoolAddr(T, v6), ksPoolAddr(T, v6)
	p.sport = []uint16{40000, 1000, 2000, 53, 80, 1500, 65535, 1}[T.Choose(8)]
	p.dport = []uint16{443, 80, 53, 8080, 1000, 2000, 1023, 1024, 54, 52, 65535, 0}[T.Choose(12)]
	p.tcp = !T.Chance(1, 3)
	p.dscp = []uint8{0, 0, 4, 46, 63, 5}[T.Choose(6)]
	p.wan = T.Chance(1, 3)
	if p.wan {
		p.hasMac = T.Chance(1, 3)
		if T.Chance(3, 4) {
			p.pname = ksPnames[T.Choose(len(ksPnames))]
			if len(p.pname) > 16 {
				p.pname = p.pname[:16] // the kernel only ever knows 16 bytes of comm
			}
		}
	} else {
		p.hasMac = !T.Chance(1, 5)
	}
	if p.hasMac {
		var m [6]byte
		fmt.Sscanf(ksMacs[T.Choose(len(ksMacs))], "%x:%x:%x:%x:%x:%x", &m[0], &m[1], &m[2], &m[3], &m[4], &m[5])
		p.mac = m
	}
	// steer towards boundaries of what the rules mention
	if len(bd.dst) > 0 && T.Chance(2, 3) {
		p.dst = bd.dst[T.Choose(len(bd.dst))]
	}
	if len(bd.src) > 0 && T.Chance(2, 3) {
		p.src = bd.src[T.Choose(len(bd.src))]
	}
	if len(bd.dports) > 0 && T.Chance(1, 2) {
		p.dport = bd.dports[T.Choose(len(bd.dports))]
	}
	if len(bd.sports) > 0 && T.Chance(1, 2) {
		p.sport = bd.sports[T.Choose(len(bd.sports))]
	}
	if p.hasMac && len(bd.macs) > 0 && T.Chance(1, 2) {
		p.mac = bd.macs[T.Choose(len(bd.macs))]
	}
	if p.wan && len(bd.pnames) > 0 && T.Chance(1, 2) {
		p.pname = bd.pnames[T.Choose(len(bd.pnames))]
		if len(p.pname) > 16 {
			p.pname = p.pname[:16]
		}
	}
	if len(bd.dscps) > 0 && T.Chance(1, 2) {
		p.dscp = bd.dscps[T.Choose(len(bd.dscps))] & 63
	}
	if len(binds) > 0 && T.Chance(1, 2) {
		b := binds[T.Choose(len(binds))]
		p.dst = b.addrs[T.Choose(len(b.addrs))]
	}
	if p.dst.IsUnspecified() {
		p.dst = ksPoolAddr(T, p.dst.Is6())
	}
	if p.src.Is6() != p.dst.Is6() {
		p.src = ksPoolAddr(T, p.dst.Is6())
	}
	p.domain = ""
	for _, b := range binds {
		for _, a := range b.addrs {
			if a == p.dst {
				p.domain = b.name
			}
		}
	}
	return p
}

func (p *refPacket) mac16() (m [16]byte) {
	if p.hasMac {
		copy(m[10:], p.mac[:])
	}
	return
}

func (p *refPacket) pname16() (n [16]byte) {
	if p.wan {
		copy(n[:], p.pname)
	}
	return
}

func (p *refPacket) l4type() consts.L4ProtoType {
	if p.tcp {
		return consts.L4ProtoType_TCP
	}
	return consts.L4ProtoType_UDP
}

func (p *refPacket) ipver() consts.IpVersionType {
	if p.v6() {
		return consts.IpVersion_6
	}
	return consts.IpVersion_4
}
