package control

// Engine "udpflow" (C06 / C13 / C18, UDP side): the real ControlPlane.handlePkt of
// control/udp.go, fed datagram by datagram the way the tproxy UDP listener feeds it
// (ClassifyUdpFlow -> EnsureSnifferSession -> task -> DefaultUdpTaskPool.EmitTask or
// `go task()`), with simulated node dialers / packet conns, a real userspace
// RoutingMatcher, real DialerGroups and dialer.Dialers, a scripted kernel hand-over
// record, and a seam in place of the client-side Anyfrom reply socket.
//
// The oracles are history checks written from the texts of C06, C13 and C18; they
// know what the clients sent (and when), what reached the simulated upstream
// transports (bytes, address argument, transport identity, dialer, time) and what
// the reply seam was handed. They do not read the state of the code under test.

import (
	"bytes"
	"context"
	"crypto/aes"
	"crypto/cipher"
	"crypto/hkdf"
	"crypto/sha256"
	"crypto/tls"
	"errors"
	"fmt"
	"io"
	"net"
	"net/netip"
	"os"
	"sort"
	"strings"
	"testing"
	"time"

	"github.com/cilium/ebpf"
	"github.com/daeuniverse/dae/common/consts"
	ob "github.com/daeuniverse/dae/component/outbound"
	componentdialer "github.com/daeuniverse/dae/component/outbound/dialer"
	verifsim "github.com/daeuniverse/dae/internal/verifsim"
	"github.com/daeuniverse/dae/pkg/config_parser"
	D "github.com/daeuniverse/outbound/dialer"
	"github.com/daeuniverse/outbound/netproxy"
	"github.com/daeuniverse/outbound/pool"
	"github.com/sirupsen/logrus"
)

// ---------------------------------------------------------------------------------
// corpus: ClientHellos from crypto/tls's QUIC API, Initial packets from an encoder
// written from RFC 9000 / 9001 / 9369 (same encoder as harness/sniffing/quic_test.go)

type ufHello struct {
	name string
	data []byte
}

var ufCorpus []ufHello
var ufMatcher *RoutingMatcher

const ufDirectName = "direct.example.net" // the one name the rules send to the built-in direct outbound

type ufDetRand struct{ x uint64 }

func (r *ufDetRand) Read(p []byte) (int, error) {
	for i := range p {
		r.x = r.x*6364136223846793005 + 1442695040888963407
		p[i] = byte(r.x >> 33)
	}
	return len(p), nil
}

func ufSetup(t *testing.T) {
	if ufCorpus != nil {
		return
	}
	for i, name := range []string{ufDirectName, "quic.example.com", "a-very-long-subdomain-label-for-testing.cdn.example-service.net", ""} {
		cfg := &tls.Config{ServerName: name, InsecureSkipVerify: true, MinVersion: tls.VersionTLS13, NextProtos: []string{"h3"},
			Rand: &ufDetRand{x: uint64(i + 11)}, Time: func() time.Time { return time.Unix(1700000000, 0) }}
		c := tls.QUICClient(&tls.QUICConfig{TLSConfig: cfg})
		c.SetTransportParameters(bytes.Repeat([]byte{0x01, 0x02, 0x43, 0xe8}, 6+10*i))
		if err := c.Start(context.Background()); err != nil {
			t.Fatalf("quic client start: %v", err)
		}
		var hello []byte
		for {
			ev := c.NextEvent()
			if ev.Kind == tls.QUICNoEvent {
				break
			}
			if ev.Kind == tls.QUICWriteData && ev.Level == tls.QUICEncryptionLevelInitial {
				hello = append(hello, ev.Data...)
			}
		}
		c.Close()
		if len(hello) < 100 {
			t.Fatalf("no ClientHello produced for %q", name)
		}
		ufCorpus = append(ufCorpus, ufHello{strings.ToLower(name), hello})
	}
	logger := logrus.New()
	logger.SetOutput(io.Discard)
	sections, err := config_parser.Parse(`routing {
    domain(full: ` + ufDirectName + `) -> direct
    fallback: g
}`)
	if err != nil {
		t.Fatalf("rules: %v", err)
	}
	var rules []*config_parser.RoutingRule
	for _, sec := range sections {
		if sec.Name != "routing" {
			continue
		}
		for _, it := range sec.Items {
			if r, ok := it.Value.(*config_parser.RoutingRule); ok {
				rules = append(rules, r)
			}
		}
	}
	b, err := NewRoutingMatcherBuilder(logger, rules, map[string]uint8{"direct": 0, "block": 1, "g": 2}, nil, "g")
	if err != nil {
		t.Fatalf("matcher builder: %v", err)
	}
	ufMatcher, err = b.BuildUserspace()
	if err != nil {
		t.Fatalf("matcher: %v", err)
	}
}

func ufVarint(b []byte, v uint64) []byte {
	switch {
	case v < 1<<6:
		return append(b, byte(v))
	case v < 1<<14:
		return append(b, byte(v>>8)|0x40, byte(v))
	case v < 1<<30:
		return append(b, byte(v>>24)|0x80, byte(v>>16), byte(v>>8), byte(v))
	default:
		return append(b, byte(v>>56)|0xc0, byte(v>>48), byte(v>>40), byte(v>>32), byte(v>>24), byte(v>>16), byte(v>>8), byte(v))
	}
}

func ufExpandLabel(secret []byte, label string, n int) []byte {
	full := "tls13 " + label
	info := []byte{byte(n >> 8), byte(n), byte(len(full))}
	info = append(info, full...)
	info = append(info, 0)
	out, err := hkdf.Expand(sha256.New, secret, string(info), n)
	if err != nil {
		panic(err)
	}
	return out
}

type ufKeys struct{ key, iv, hp []byte }

func ufInitialKeys(version uint32, dcid []byte) ufKeys {
	salt := []byte{0x38, 0x76, 0x2c, 0xf7, 0xf5, 0x59, 0x34, 0xb3, 0x4d, 0x17, 0x9a, 0xe6, 0xa4, 0xc8, 0x0c, 0xad, 0xcc, 0xbb, 0x7f, 0x0a}
	kl, il, hl := "quic key", "quic iv", "quic hp"
	if version == 0x6b3343cf {
		salt = []byte{0x0d, 0xed, 0xe3, 0xde, 0xf7, 0x00, 0xa6, 0xdb, 0x81, 0x93, 0x81, 0xbe, 0x6e, 0x26, 0x9d, 0xcb, 0xf9, 0xbd, 0x2e, 0xd9}
		kl, il, hl = "quicv2 key", "quicv2 iv", "quicv2 hp"
	}
	initial, err := hkdf.Extract(sha256.New, dcid, salt)
	if err != nil {
		panic(err)
	}
	client := ufExpandLabel(initial, "client in", 32)
	return ufKeys{ufExpandLabel(client, kl, 16), ufExpandLabel(client, il, 12), ufExpandLabel(client, hl, 16)}
}

// ufInitial builds one protected Initial packet carrying the given frames.
func ufInitial(version uint32, dcid, scid []byte, pn uint32, pnLen int, frames []byte, minSize int) []byte {
	k := ufInitialKeys(version, dcid)
	typ := byte(0)
	if version == 0x6b3343cf {
		typ = 1
	}
	first := byte(0x80|0x40) | typ<<4 | byte(pnLen-1)
	hdr := []byte{first, byte(version >> 24), byte(version >> 16), byte(version >> 8), byte(version)}
	hdr = append(hdr, byte(len(dcid)))
	hdr = append(hdr, dcid...)
	hdr = append(hdr, byte(len(scid)))
	hdr = append(hdr, scid...)
	hdr = ufVarint(hdr, 0)
	payload := append([]byte(nil), frames...)
	for len(hdr)+2+pnLen+len(payload)+16 < minSize || len(payload)+pnLen < 4+16 {
		payload = append(payload, 0)
	}
	length := pnLen + len(payload) + 16
	hdr = append(hdr, byte(length>>8)|0x40, byte(length))
	pnOff := len(hdr)
	for i := pnLen - 1; i >= 0; i-- {
		hdr = append(hdr, byte(pn>>(8*i)))
	}
	block, _ := aes.NewCipher(k.key)
	aead, _ := cipher.NewGCM(block)
	nonce := append([]byte(nil), k.iv...)
	for i := 0; i < 4; i++ {
		nonce[len(nonce)-1-i] ^= byte(pn >> (8 * i))
	}
	ct := aead.Seal(nil, nonce, payload, hdr)
	pkt := append(append([]byte(nil), hdr...), ct...)
	sample := pkt[pnOff+4 : pnOff+4+16]
	hpb, _ := aes.NewCipher(k.hp)
	mask := make([]byte, 16)
	hpb.Encrypt(mask, sample)
	pkt[0] ^= mask[0] & 0x0f
	for i := 0; i < pnLen; i++ {
		pkt[pnOff+i] ^= mask[1+i]
	}
	return pkt
}

func ufCryptoFrame(off int, data []byte) []byte {
	f := []byte{0x06}
	f = ufVarint(f, uint64(off))
	f = ufVarint(f, uint64(len(data)))
	return append(f, data...)
}

// ---------------------------------------------------------------------------------
// model objects

type ufArrival struct {
	f        *ufFlow
	n        int // arrival number within the flow
	k        int // script index (identity of the datagram)
	data     []byte
	tArr     time.Duration
	started  bool
	startClock int
	finished bool
	hErr     error
	lossOK   bool // an injected fault may have cost this datagram
	fwd      int  // times it reached an upstream transport
	tFwd     time.Duration
}

type ufFlow struct {
	id       int
	src, dst netip.AddrPort
	sniffPort bool   // destination-bound: one of the documented QUIC ports
	ordered  bool    // handled through the per-flow ordered queue
	kind     string  // quic-sni, quic-nosni, quic-incomplete, quic-corrupt, plain
	hello    *ufHello
	outbound uint8 // hand-over record: 2 = proxy group chosen from the address, 0xFD = control-plane routing
	script   [][]byte
	initial  []bool // script entry is a QUIC Initial packet
	nFlight  int    // the first nFlight script entries form the Initial flight
	gaps     []time.Duration
	order    []int // arrival order (script indices, with network duplicates / reordering)
	arrivals []*ufArrival
	lossUntil time.Duration
	done     bool
	tFlightComplete time.Duration // arrival time of the last missing flight datagram (-1: never complete)
	seenFlight map[int]bool
	firstDial  *ufConnDial
	cleanFlight bool   // quic-sni on a sniffed port, and nothing but the flight's datagrams arrives before the flight is complete
	sniffedSeen string // name the endpoint of this flow was seen to carry (observation for probes and the wrong-name rule)
	fwdSeq     []int // script indices in the order they reached the upstream
}

type ufConnDial struct {
	group   string // "g" or "direct"
	dialer  int
	addr    string
	network string
	t       time.Duration
	ok      bool
}

type ufConn struct {
	id        int
	pc        *verifsim.SimPacketConn
	dial      ufConnDial
	key       string
	flows     map[int]bool
	writesOK  int
	handled   int // replies handed to the reply seam
	delivered int
	lastAct   time.Duration
	killed    bool
	killWhy   string
	mustNot   bool
	mustNotClock int
	closedAt  time.Duration
	lastAddr  string
	ipv       consts.IpVersionStr
	creator   string // handler task that dialled it
	creatorArr *ufArrival
	dialReturned bool
}

type ufReply struct {
	c       *ufConn
	data    []byte
	from    netip.AddrPort
	to      netip.AddrPort
	t       time.Duration
	got     int
	sendErr bool
}

var ufModes = []string{"", "C06", "C13", "C18"}

func ufPickMode(s *verifsim.Sim) string {
	v := s.T.Choose(len(ufModes))
	if !s.T.Replaying() {
		if p := os.Getenv("VERIF_PROP"); p != "" {
			for i, n := range ufModes {
				if n == p && len(s.T.Rec) > 0 {
					v = i
					s.T.Rec[len(s.T.Rec)-1] = uint32(i)
				}
			}
		}
	}
	return ufModes[v]
}

type ufLogHook struct{ s *verifsim.Sim }

func (h *ufLogHook) Levels() []logrus.Level { return []logrus.Level{logrus.ErrorLevel} }
func (h *ufLogHook) Fire(e *logrus.Entry) error {
	if strings.Contains(e.Message, "sniffing panicked") {
		h.s.Failf("c06-udp-sniff-panic", "handlePkt recovered a panic of the packet sniffer: %v (src=%v dst=%v)", e.Data["panic"], e.Data["src"], e.Data["dst"])
	}
	return nil
}

func ufReset() {
	componentdialer.ResetGlobalProxyStateForReload()
	verifUdpSendPktHook = nil
	SetFailedQuicDcidCache(nil)
	verifBpfBatchDeleteHook = nil
	verifBpfBatchUpdateHook = nil
}

func ufIsSniffPort(p uint16) bool { return p == 443 || p == 8443 }

func ufScenario(s *verifsim.Sim) {
	T := s.T
	mode := ufPickMode(s)
	on := func(p string) bool { return mode == "" || mode == p }
	s.TrackFrames = true // the invalidation oracle asks where an endpoint's creator is parked
	s.BusyMaxQ = 4 // <= 1 ms while tasks are runnable: the scheduler never stalls a running handler for seconds
	faults := T.Chance(1, 2)
	dialMode := []consts.DialMode{consts.DialMode_Ip, consts.DialMode_DomainPlus, consts.DialMode_DomainCao}[T.Pick(2, 3, 3)]
	scopeSensitive := T.Chance(1, 4)
	nFlows := T.Pick(3, 3, 2) + 1
	logger := logrus.New()
	logger.SetOutput(io.Discard)
	logger.SetLevel([]logrus.Level{logrus.InfoLevel, logrus.DebugLevel, logrus.TraceLevel}[T.Pick(4, 1, 1)])
	logger.AddHook(&ufLogHook{s})

	seq := 0
	var conns []*ufConn
	byPC := map[*verifsim.SimPacketConn]*ufConn{}
	var flows []*ufFlow
	var replies []*ufReply
	curArr := map[string]*ufArrival{} // handler task -> arrival it is working on
	inFlight := map[string]int{}      // endpoint key class -> dials in flight
	lastConn := map[string]*ufConn{}  // endpoint key class -> transport that last carried its traffic
	globalLossOK := false
	invalidating := 0 // health invalidations in progress
	evClock := 0      // orders handler starts against completed health changes
	poolClosing := false
	const natFloor = 30 * time.Second // DefaultNatTimeout: the shortest NAT lifetime documented in udp.go
	fail := func(prop, rule, format string, a ...any) {
		if on(prop) {
			s.Failf(rule, format, a...)
		}
	}
	keyOf := func(f *ufFlow) string {
		if f.sniffPort || (scopeSensitive && f.outbound == uint8(consts.OutboundControlPlaneRouting)) {
			return f.src.String() + ">" + f.dst.String()
		}
		return f.src.String() + ">*"
	}
	alive := func(c *ufConn, now time.Duration) bool {
		return c != nil && !c.killed && c.pc.CloseCount == 0 && c.writesOK > 0 && now < c.lastAct+natFloor-2*time.Second
	}
	lossy := func(a *ufArrival, why string) {
		// an injected fault may cost the datagram in hand, the datagrams buffered with it, and what
		// arrives while the failure is remembered (2 s negative cache + slack)
		if a == nil {
			return
		}
		// (the failure is remembered per endpoint key, and flows of one client socket may share a key)
		for _, f := range flows {
			if f.src != a.f.src {
				continue
			}
			for _, x := range f.arrivals {
				if x.fwd == 0 {
					x.lossOK = true
				}
			}
			f.lossUntil = s.Now() + 12*time.Second
		}
	}

	// ---- globals of package control that handlePkt uses: fresh instances inside the bubble
	DefaultUdpEndpointPool = NewUdpEndpointPool()
	DefaultPacketSnifferSessionMgr = NewPacketSnifferPool()
	DefaultUdpTaskPool = NewUdpTaskPool()
	SetFailedQuicDcidCache(newFailedQuicDcidCache(0))

	// ---- bpf layer behind the conn-state owner (tuples registered by endpoints)
	fakeBpf := &bpfObjects{}
	fakeBpf.ConnStateMap = new(ebpf.Map)
	verifBpfBatchDeleteHook = func(m *ebpf.Map, keys interface{}) (int, error) {
		ks, _ := keys.([]bpfTuplesKey)
		return len(ks), nil
	}
	core := &controlPlaneCore{log: logger}
	core.bpf.Store(fakeBpf)

	// doom: a health change of a proxy node may retire those of its endpoints that have not carried traffic yet.
	// "Not yet" includes an endpoint whose very first write is still inside UdpEndpoint.WriteTo (the transport has the
	// datagram, the endpoint is not marked as having sent): the health change is concurrent with that write and may be
	// ordered before it.
	var gFixed bool
	doom := func(di int, why string) {
		if gFixed {
			return // a group with the fixed policy ignores node health by design (explicit user choice)
		}
		firstWriteInProgress := false
		var names []string
		for n := range curArr {
			names = append(names, n)
		}
		sort.Strings(names)
		for _, n := range names {
			if s.ParkedInFunc(n, "UdpEndpoint).WriteTo") {
				firstWriteInProgress = true
			}
		}
		for _, c := range conns {
			if c.dial.group == "g" && (di < 0 || c.dial.dialer == di) && c.pc.CloseCount == 0 && !c.killed && c.handled == 0 {
				if c.writesOK == 0 || (c.writesOK == 1 && firstWriteInProgress) {
					c.killed, c.killWhy = true, why
				}
			}
		}
	}
	markAllInProgressLossy := func(why string) {
		for _, f := range flows {
			for _, x := range f.arrivals {
				if x.started && !x.finished {
					lossy(x, why)
				}
			}
		}
	}
	// ---- node dialers
	mkPlan := func(group string, di int) func(ctx context.Context, network, addr string) verifsim.DialPlan {
		return func(ctx context.Context, network, addr string) verifsim.DialPlan {
			a := curArr[verifsim.TaskName()]
			now := s.Now()
			plan := verifsim.DialPlan{}
			dial := ufConnDial{group: group, dialer: di, addr: addr, network: network, t: now}
			key := "?"
			if a != nil {
				key = keyOf(a.f)
				if inFlight[key] > 0 {
					fail("C13", "c13-udp-concurrent-dials", "a second dial (to %q via %s/d%d) for the endpoint of %s started while one is still in flight", addr, group, di, key)
				}
				if c := lastConn[key]; alive(c, now) && c.key != key {
					// the flow's earlier datagrams rode on the source's shared (not destination-bound) endpoint and the
					// flow now gets a destination-bound one (first QUIC Initial seen): tolerated, see NOTES open questions
					s.Probe("udpflow.forked-from-shared-endpoint")
				} else if alive(c, now) {
					fail("C13", "c13-udp-redundant-dial", "flow %d (%s): dial to %q via %s/d%d started at %v although transport c%d of that source is alive (last carried traffic at %v, not closed, nothing that may end it has happened)", a.f.id, key, addr, group, di, now, c.id, c.lastAct)
				}
			}
			inFlight[key]++
			s.Notef("dial %s/d%d network=%s addr=%s key=%s", group, di, network, addr, key)
			kind := 0
			if faults {
				kind = T.Pick(12, 3, 1, 1, 1, 1)
			} else {
				kind = T.Pick(3, 1)
			}
			switch kind {
			case 1:
				plan.Delay = []time.Duration{time.Millisecond, 100 * time.Millisecond, 2 * time.Second}[T.Choose(3)]
			case 2:
				plan.Err = verifsim.ErrSimRefused
				s.Fault("dial-refused")
			case 3:
				plan.Err = verifsim.ErrSimUnreachable
				s.Fault("dial-unreachable")
			case 4:
				plan.Err = verifsim.ErrSimGeneric
				s.Fault("dial-generic-error")
			case 5:
				plan.Hang = true
				s.Fault("dial-hang")
			}
			if plan.Err != nil || plan.Hang {
				lossy(a, "dial-failure")
				// a failed dial may take the node's health down for everybody: endpoints under creation on that node
				// are refused, and the datagrams in hand with them
				for _, f := range flows {
					for _, x := range f.arrivals {
						if x.started && !x.finished {
							lossy(x, "dial-failure-elsewhere")
						}
					}
				}
				if a != nil && a.f.firstDial == nil {
					a.f.firstDial = &dial
				}
				return plan
			}
			dial.ok = true
			c := &ufConn{id: len(conns), dial: dial, key: key, flows: map[int]bool{}, closedAt: -1, lastAct: now, creator: verifsim.TaskName(), creatorArr: a}
			if a != nil {
				c.ipv = consts.IpVersionFromAddr(a.f.src.Addr())
				// the health domain the node was admitted under travels in the dial's network string
				if mn, err := netproxy.ParseMagicNetwork(network); err == nil && mn.IPVersion != "" {
					c.ipv = consts.IpVersionStr(mn.IPVersion)
				}
				if a.f.firstDial == nil {
					d2 := dial
					a.f.firstDial = &d2
				}
			}
			if invalidating > 0 && group == "g" && !gFixed {
				c.killed, c.killWhy = true, "dialled-during-health-change"
			}
			c.pc = verifsim.NewSimPacketConn(fmt.Sprintf("c%d", c.id), &seq)
			c.pc.WriteHook = func(b []byte, waddr string) (int, error) {
				wa := curArr[verifsim.TaskName()]
				now := s.Now()
				// (a handler that began before the health change was complete may have obtained the endpoint before it)
				if c.mustNot && wa != nil && wa.startClock > c.mustNotClock {
					fail("C13", "c13-udp-invalidated-endpoint-used", "flow %d datagram #%d, whose handling began after the health change was complete, was written to transport c%d (%s/d%d) although its node had been invalidated before the transport carried any traffic", wa.f.id, wa.k, c.id, c.dial.group, c.dial.dialer)
				}
				if faults && T.Chance(1, 14) {
					c.killed, c.killWhy = true, "write-error"
					s.Fault("upstream-write-error")
					lossy(wa, "write-error")
					return 0, verifsim.ErrSimGeneric
				}
				// whose datagram is it?
				var owner *ufFlow
				k := -1
				for _, f := range flows {
					for i, d := range f.script {
						if bytes.Equal(d, b) {
							owner, k = f, i
						}
					}
				}
				if owner == nil {
					desc := "?"
					if wa != nil {
						desc = fmt.Sprintf("flow %d (%s) datagram #%d", wa.f.id, wa.f.kind, wa.k)
						if wa.k < len(wa.f.script) && len(b) == len(wa.f.script[wa.k]) {
							desc += fmt.Sprintf(", first difference at byte %d", ufFirstDiff(b, wa.f.script[wa.k]))
						}
					}
					fail("C06", "c06-udp-altered", "the upstream transport c%d received %d bytes that no client sent (handler was working on %s)", c.id, len(b), desc)
					return len(b), nil
				}
				key := keyOf(owner)
				// (a transport that a fault has already doomed may still see the writes of handlers that obtained it before)
				if p := lastConn[key]; p != nil && p != c && alive(p, now) && p.key == c.key && !c.killed {
					fail("C13", "c13-udp-second-endpoint", "flow %d (%s, %s): datagram #%d went through transport c%d (dialled %v via %s/d%d) while transport c%d of the same source, which carried its earlier datagrams (last at %v), is alive", owner.id, owner.kind, key, k, c.id, c.dial.t, c.dial.group, c.dial.dialer, p.id, p.lastAct)
				}
				if !c.killed {
					lastConn[key] = c
				}
				if invalidating > 0 && c.writesOK == 0 && c.handled == 0 && c.dial.group == "g" && !gFixed {
					c.killed, c.killWhy = true, "first-write-during-health-change"
				}
				c.flows[owner.id] = true
				c.writesOK++
				c.lastAct = now
				c.lastAddr = waddr
				// C18: the address argument of every write is the address of the dial
				ufCheckTarget(s, fail, owner, c, waddr, "write", dialMode)
				owner.fwdSeq = append(owner.fwdSeq, k)
				// attribute to the earliest arrival of that datagram not yet forwarded
				var hit *ufArrival
				for _, x := range owner.arrivals {
					if x.k == k && x.fwd == 0 {
						hit = x
						break
					}
				}
				if hit == nil {
					n := 0
					for _, x := range owner.arrivals {
						if x.k == k {
							n++
						}
					}
					fail("C06", "c06-udp-duplicated", "flow %d (%s): datagram #%d arrived %d time(s) at dae but reached the upstream once more (transport c%d)", owner.id, owner.kind, k, n, c.id)
					return len(b), nil
				}
				hit.fwd++
				hit.tFwd = now
				s.Notef("upstream c%d got flow %d datagram #%d (arrival %d) addr=%s", c.id, owner.id, k, hit.n, waddr)
				return len(b), nil
			}
			c.pc.OnClose = func() {
				c.closedAt = s.Now()
				s.Notef("transport c%d closed (%s)", c.id, c.killWhy)
				if !c.killed && !poolClosing && c.writesOK > 0 {
					s.Probe("udpflow.endpoint-closed-by-nat-expiry")
				}
			}
			conns = append(conns, c)
			byPC[c.pc] = c
			if T.Chance(1, 4) {
				plan.Conn = c.pc.WithTransportDone()
			} else {
				plan.Conn = c.pc
			}
			return plan
		}
	}
	opt := &componentdialer.GlobalOption{Log: logger, CheckInterval: 30 * time.Second}
	nop := func(bool, *componentdialer.NetworkType, bool) {}
	type ufDial struct {
		sd *verifsim.SimDialer
		d  *componentdialer.Dialer
	}
	wrap := func(sd *verifsim.SimDialer) netproxy.Dialer { return &ufDialWrap{sd: sd, after: func(network, addr string, conn netproxy.Conn) {
		switch x := conn.(type) {
		case *verifsim.SimPacketConn:
			if c := byPC[x]; c != nil {
				c.dialReturned = true
			}
		case verifsim.SimTransportPacketConn:
			if c := byPC[x.SimPacketConn]; c != nil {
				c.dialReturned = true
			}
		}
		a := curArr[verifsim.TaskName()]
		key := "?"
		if a != nil {
			key = keyOf(a.f)
		}
		inFlight[key]--
	}} }
	nG := T.Range(1, 2)
	var gDialers []ufDial
	for di := 0; di < nG; di++ {
		sd := &verifsim.SimDialer{Name: fmt.Sprintf("g%d", di)}
		sd.Plan = mkPlan("g", di)
		proto := []string{"socks5", "trojan", "shadowsocks"}[T.Choose(3)]
		d := componentdialer.NewDialer(wrap(sd), opt, componentdialer.InstanceOption{DisableCheck: true},
			&componentdialer.Property{Property: D.Property{Name: sd.Name, Address: fmt.Sprintf("198.51.100.%d:1080", di+1), Protocol: proto}})
		// the production callback (connectivity.go: node not alive any more -> InvalidateDialerNetworkType), bracketed
		// so that the oracle knows when a health change is being applied
		realCb := core.dialerAliveTransitionCallback(d)
		dIdx := di
		d.RegisterAliveTransitionCallback(func(nt *componentdialer.NetworkType, alive bool) {
			if !alive {
				invalidating++
				doom(dIdx, "node-health-dropped")
				markAllInProgressLossy("node-health-dropped")
			}
			realCb(nt, alive)
			if !alive {
				doom(dIdx, "node-health-dropped")
				markAllInProgressLossy("node-health-dropped")
				invalidating--
			}
		})
		verifsim.Reg(d) // pointer-keyed maps of the pool are iterated in creation order
		gDialers = append(gDialers, ufDial{sd, d})
	}
	sdDirect := &verifsim.SimDialer{Name: "direct"}
	sdDirect.Plan = mkPlan("direct", 0)
	dd := componentdialer.NewDialer(wrap(sdDirect), opt, componentdialer.InstanceOption{DisableCheck: true}, &componentdialer.Property{Property: D.Property{Name: "direct"}})
	verifsim.Reg(dd)
	var gd []*componentdialer.Dialer
	var gann []*componentdialer.Annotation
	for _, x := range gDialers {
		gd = append(gd, x.d)
		gann = append(gann, &componentdialer.Annotation{})
	}
	fixed := ob.DialerSelectionPolicy{Policy: consts.DialerSelectionPolicy_Fixed}
	gPolicy := fixed
	if T.Chance(2, 3) {
		gPolicy = ob.DialerSelectionPolicy{Policy: consts.DialerSelectionPolicy_MinLastLatency}
	}
	gFixed = gPolicy.Policy == consts.DialerSelectionPolicy_Fixed
	groups := []*ob.DialerGroup{
		ob.NewDialerGroup(opt, "direct", []*componentdialer.Dialer{dd}, []*componentdialer.Annotation{{}}, fixed, nop),
		ob.NewDialerGroup(opt, "block", []*componentdialer.Dialer{dd}, []*componentdialer.Annotation{{}}, fixed, nop),
		ob.NewDialerGroup(opt, "g", gd, gann, gPolicy, nop),
	}
	ctx, cancel := context.WithCancel(context.Background())
	cp := &ControlPlane{log: logger, core: core, drainTracker: newControlPlaneDrainTracker(), ctx: ctx, cancel: cancel,
		udpRouteScopeSensitive: scopeSensitive}
	cp.outbounds, cp.routingMatcher, cp.dialMode = groups, ufMatcher, dialMode

	// ---- reply seam: what the client-side socket is asked to send
	verifUdpSendPktHook = func(data []byte, from netip.AddrPort, realTo netip.AddrPort) error {
		var r *ufReply
		for _, x := range replies {
			if bytes.Equal(x.data, data) {
				r = x
			}
		}
		if r == nil {
			fail("C13", "c13-udp-reply-altered", "the client-side socket was asked to send %d bytes (from %v to %v) that no upstream sent", len(data), from, realTo)
			return nil
		}
		if from != r.from || realTo != r.to {
			fail("C13", "c13-udp-reply-misaddressed", "a reply that the upstream %v sent on transport c%d (client %v) was handed to the client-side socket as from=%v to=%v", r.from, r.c.id, r.to, from, realTo)
			return nil
		}
		if faults && T.Chance(1, 10) {
			r.sendErr = true
			s.Fault("reply-send-error")
			return errors.New("simulated sendmsg failure")
		}
		s.Notef("reply of c%d handed to the client-side socket: from=%v to=%v", r.c.id, from, realTo)
		r.got++
		r.c.handled++
		r.c.lastAct = s.Now()
		if r.got > 1 {
			fail("C13", "c13-udp-reply-duplicated", "a reply of transport c%d was handed to the client-side socket %d times", r.c.id, r.got)
		}
		s.Probe("udpflow.reply-delivered")
		return nil
	}

	// ---- flows
	srcs := []netip.AddrPort{netip.MustParseAddrPort("10.0.0.2:40001"), netip.MustParseAddrPort("10.0.0.3:40002"), netip.MustParseAddrPort("[fd00::4]:40003")}
	dsts4 := []netip.AddrPort{netip.MustParseAddrPort("93.184.216.34:443"), netip.MustParseAddrPort("93.184.216.35:8443"), netip.MustParseAddrPort("198.18.0.5:5353"),
		netip.MustParseAddrPort("203.0.113.9:53"), netip.MustParseAddrPort("198.18.0.6:27015"), netip.MustParseAddrPort("93.184.216.34:443")}
	dsts6 := []netip.AddrPort{netip.MustParseAddrPort("[2606:2800:220:1::34]:443"), netip.MustParseAddrPort("[2001:db8::5]:5353"), netip.MustParseAddrPort("[2606:2800:220:1::35]:443")}
	usedPair := map[string]bool{}
	for fi := 0; fi < nFlows; fi++ {
		f := &ufFlow{id: fi, tFlightComplete: -1, seenFlight: map[int]bool{}}
		si := fi
		if fi > 0 && T.Chance(1, 4) {
			si = T.Choose(fi) // two flows of one client socket
		}
		f.src = srcs[si]
		for try := 0; ; try++ {
			if f.src.Addr().Is4() {
				f.dst = dsts4[T.Pick(4, 2, 2, 1, 1, 1)]
			} else {
				f.dst = dsts6[T.Pick(3, 1, 1)]
			}
			if !usedPair[f.src.String()+f.dst.String()] || try > 8 {
				break
			}
		}
		if usedPair[f.src.String()+f.dst.String()] {
			f.src = netip.AddrPortFrom(f.src.Addr(), f.src.Port()+uint16(10*(fi+1)))
		}
		usedPair[f.src.String()+f.dst.String()] = true
		f.sniffPort = ufIsSniffPort(f.dst.Port())
		f.outbound = 2
		if T.Chance(1, 2) {
			f.outbound = uint8(consts.OutboundControlPlaneRouting)
		}
		// the listener's dispatch rule (real code decides; the oracle only needs to know whether order is promised)
		f.ordered = ClassifyUdpFlow(f.src, f.dst, []byte{0x40, 0, 0, 0, 0, 0, 0, 0}).DispatchStrategy() == StrategyOrderedIngress
		// ---- script
		quic := T.Chance(3, 4)
		if !f.sniffPort {
			quic = T.Chance(1, 4) // QUIC-looking payload towards a port that is not sniffed
		}
		f.kind = "plain"
		if quic {
			f.kind = []string{"quic-sni", "quic-nosni", "quic-incomplete", "quic-corrupt"}[T.Pick(8, 1, 2, 1)]
			hi := T.Choose(3)
			if f.kind == "quic-nosni" {
				hi = 3
			}
			h := ufCorpus[hi]
			f.hello = &h
			version := uint32(1)
			if T.Chance(1, 6) {
				version = 0x6b3343cf
			}
			dcid := make([]byte, []int{8, 8, 12, 20}[T.Choose(4)])
			for i := range dcid {
				dcid[i] = byte(0x30 + i*7 + fi*3 + T.Choose(3))
			}
			scid := []byte{1, 2, 3, byte(fi)}
			nPk := 1 + T.Pick(6, 6, 6, 2, 2, 2) // 1-6 packets: a hello spread over five or more datagrams keeps the session in need-more for four rounds and longer
			// cut the CRYPTO stream into nPk..nPk+3 pieces
			cuts := []int{0, len(h.data)}
			wantCuts := nPk + 1 + T.Choose(3)
			for tries := 0; len(cuts) < wantCuts && tries < 40; tries++ {
				c := 1 + T.Choose(len(h.data)-1)
				dup := false
				for _, x := range cuts {
					if x == c {
						dup = true
					}
				}
				if !dup {
					cuts = append(cuts, c)
				}
			}
			sort.Ints(cuts)
			type piece struct{ off, end int }
			var pieces []piece
			for i := 0; i+1 < len(cuts); i++ {
				pieces = append(pieces, piece{cuts[i], cuts[i+1]})
			}
			if T.Chance(1, 2) {
				for i := len(pieces) - 1; i > 0; i-- {
					j := T.Choose(i + 1)
					pieces[i], pieces[j] = pieces[j], pieces[i]
				}
			}
			if nPk > len(pieces) {
				nPk = len(pieces)
			}
			perPk := make([][]byte, nPk)
			for i, p := range pieces {
				k := i * nPk / len(pieces)
				if T.Chance(1, 4) {
					perPk[k] = append(perPk[k], 0x01)
				}
				if T.Chance(1, 4) {
					perPk[k] = append(perPk[k], make([]byte, 1+T.Choose(20))...)
				}
				perPk[k] = append(perPk[k], ufCryptoFrame(p.off, h.data[p.off:p.end])...)
			}
			pn := uint32(T.Choose(3))
			var dg [][]byte
			for k := 0; k < nPk; k++ {
				minSize := 1200
				if T.Chance(1, 3) {
					minSize = 0
				}
				dg = append(dg, ufInitial(version, dcid, scid, pn, 1+T.Choose(4), perPk[k], minSize))
				pn += 1 + uint32(T.Choose(2))
			}
			if len(dg) >= 2 && T.Chance(1, 5) {
				dg[0] = append(dg[0], dg[1]...)
				dg = append(dg[:1], dg[2:]...)
			}
			switch f.kind {
			case "quic-incomplete":
				if len(dg) >= 2 {
					dg = dg[:len(dg)-1] // the client never gets to send the rest
				} else {
					// one packet holding only the first part of the hello
					half := len(h.data) / 2
					dg = [][]byte{ufInitial(version, dcid, scid, 0, 2, ufCryptoFrame(0, h.data[:half]), 1200)}
				}
			case "quic-corrupt":
				d := dg[T.Choose(len(dg))]
				d[len(d)-1-T.Choose(40)] ^= 1 << uint(T.Choose(8))
			}
			for _, d := range dg {
				f.script = append(f.script, d)
				f.initial = append(f.initial, true)
			}
			f.nFlight = len(dg)
		}
		nData := T.Range(1, 6)
		for i := 0; i < nData; i++ {
			n := []int{24, 60, 300, 1200}[T.Choose(4)]
			d := stampedUf(n, byte(fi), byte(i))
			d[0] = 0x40 | byte(T.Choose(0x40)) // QUIC short header / anything that is not a long header
			f.script = append(f.script, d)
			f.initial = append(f.initial, false)
		}
		gapChoices := []time.Duration{0, 0, time.Millisecond, 50 * time.Millisecond, time.Second, 35 * time.Second, 130 * time.Second}
		for i := range f.script {
			g := gapChoices[T.Pick(6, 6, 4, 3, 2, 1, 1)]
			if i < f.nFlight && g > 50*time.Millisecond {
				g = 50 * time.Millisecond // a flight is sent in one go
			}
			if i == 0 {
				g = []time.Duration{0, time.Millisecond, 20 * time.Millisecond}[T.Choose(3)]
			}
			f.gaps = append(f.gaps, g)
		}
		// the network between client and dae: duplicates, adjacent swaps
		for i := range f.script {
			f.order = append(f.order, i)
		}
		if T.Chance(1, 4) && len(f.order) > 1 {
			i := T.Choose(len(f.order) - 1)
			f.order[i], f.order[i+1] = f.order[i+1], f.order[i]
			s.Fault("client-datagram-reordered")
		}
		if T.Chance(1, 4) {
			i := T.Choose(len(f.order))
			f.order = append(f.order[:i+1], f.order[i:]...)
			s.Fault("client-datagram-duplicated")
		}
		if f.nFlight >= 2 && T.Chance(1, 6) {
			// the client's loss-recovery timer: the first packet of the flight is sent again (2-3 more times)
			// before the rest gets through
			for i, k := range f.order {
				if k == 0 {
					n := T.Range(2, 3)
					rep := make([]int, n)
					f.order = append(f.order[:i+1], append(rep, f.order[i+1:]...)...)
					s.Fault("client-initial-retransmitted")
					break
				}
			}
		}
		if f.kind == "quic-sni" && f.sniffPort {
			seen := map[int]bool{}
			f.cleanFlight = true
			for _, k := range f.order {
				if len(seen) == f.nFlight {
					break
				}
				if k >= f.nFlight {
					f.cleanFlight = false
					break
				}
				seen[k] = true
			}
		}
		flows = append(flows, f)
	}

	// ---- the listener's per-datagram sequence (control_plane.go processPacket), minus the socket
	ingress := func(f *ufFlow, a *ufArrival) {
		pktBuf := pool.Get(len(a.data))
		copy(pktBuf, a.data)
		fd := ClassifyUdpFlow(f.src, f.dst, pktBuf)
		if fd.IsQuicInitial {
			fd = fd.EnsureSnifferSession()
		}
		task := func() {
			name := verifsim.TaskName()
			curArr[name] = a
			a.started = true
			evClock++
			a.startClock = evClock
			if invalidating > 0 {
				lossy(a, "invalidate")
			}
			rr := &bpfRoutingResult{Outbound: f.outbound}
			func() {
				defer func() {
					if r := recover(); r != nil {
						s.Failf("task-panic", "handlePkt panicked on flow %d (%s) datagram #%d: %v", f.id, f.kind, a.k, r)
					}
				}()
				s.Notef("handlePkt begins: flow %d datagram #%d (arrival %d) quicInitial=%v", f.id, a.k, a.n, fd.IsQuicInitial)
				a.hErr = cp.handlePkt(nil, pktBuf, f.src, f.dst, rr, fd, false)
				s.Notef("handlePkt returns: flow %d datagram #%d (arrival %d): %v", f.id, a.k, a.n, a.hErr)
			}()
			// observation (C06 observe_at: the sniffing result): the name the flow's endpoint carries
			for i := range DefaultUdpEndpointPool.shards {
				for key, ue := range DefaultUdpEndpointPool.shards[i].pool {
					if ue == nil || ue.SniffedDomain == "" || key.Src != f.src || key.Dst != f.dst {
						continue
					}
					carried := ""
					if f.hello != nil {
						carried = f.hello.name // also an incomplete or damaged flight may hold the whole server_name extension
					}
					if !strings.EqualFold(ue.SniffedDomain, carried) {
						fail("C06", "c06-udp-wrong-name", "flow %d (%s, dst %v): its endpoint carries the sniffed name %q, the flow's Initial flight carries %q", f.id, f.kind, f.dst, ue.SniffedDomain, carried)
					} else if !f.sniffPort {
						fail("C06", "c06-udp-sniffed-on-unsniffed-port", "flow %d (dst %v): a name (%q) was sniffed although only ports 443 and 8443 are sniffed", f.id, f.dst, ue.SniffedDomain)
					} else if f.sniffedSeen == "" {
						f.sniffedSeen = ue.SniffedDomain
						s.Probe("udpflow.name-sniffed")
						if f.nFlight > 1 {
							s.Probe("udpflow.multi-datagram-hello")
						}
					}
				}
			}
			// the listener returns the buffer to the pool: whoever kept a reference now reads garbage
			for i := range pktBuf {
				pktBuf[i] = 0xEE
			}
			pktBuf.Put()
			if invalidating > 0 {
				lossy(a, "invalidate")
			}
			a.finished = true
			delete(curArr, name)
		}
		switch fd.DispatchStrategy() {
		case StrategyOrderedIngress:
			DefaultUdpTaskPool.EmitTask(fd.Key, task)
		default:
			verifsim.Go(fmt.Sprintf("direct-f%d", f.id), task)
		}
	}
	clientsDone := 0
	for _, f := range flows {
		f := f
		verifsim.Go(fmt.Sprintf("client%d", f.id), func() {
			defer func() { clientsDone++; f.done = true }()
			for n, k := range f.order {
				if s.Failed() {
					return
				}
				if g := f.gaps[k]; g > 0 && (n == 0 || f.order[n-1] != k) {
					time.Sleep(g)
					verifsim.YieldB("client-woke")
				}
				a := &ufArrival{f: f, n: n, k: k, data: f.script[k], tArr: s.Now()}
				if globalLossOK || a.tArr < f.lossUntil {
					a.lossOK = true
				}
				f.arrivals = append(f.arrivals, a)
				if k < f.nFlight {
					f.seenFlight[k] = true
					if len(f.seenFlight) == f.nFlight && f.tFlightComplete < 0 {
						f.tFlightComplete = a.tArr
					}
				}
				ingress(f, a)
				verifsim.YieldB("client-sent")
			}
		})
	}

	// ---- environment
	envTask := 0
	spawn := func(name string, fn func()) {
		envTask++
		verifsim.Go("env-"+name, func() { fn(); envTask-- })
	}
	open := func(pred func(c *ufConn) bool) []*ufConn {
		var r []*ufConn
		for _, c := range conns {
			if c.pc.CloseCount == 0 && c.writesOK > 0 && (pred == nil || pred(c)) {
				r = append(r, c)
			}
		}
		return r
	}
	replyBudget := T.Range(0, 5)
	s.AddEvent(&verifsim.Event{Name: "reply", Enabled: func() bool { return replyBudget > 0 && len(open(nil)) > 0 }, Fire: func() {
		replyBudget--
		cs := open(nil)
		c := cs[T.Choose(len(cs))]
		from, err := netip.ParseAddrPort(c.lastAddr)
		if err != nil {
			return // a name was the write target: the reply source is the resolved peer, unknown here
		}
		var to netip.AddrPort
		for _, f := range flows {
			if c.flows[f.id] && f.dst == from {
				to = f.src
			}
		}
		if !to.IsValid() {
			return
		}
		r := &ufReply{c: c, from: from, to: to, t: s.Now()}
		r.data = stampedUf([]int{16, 200, 1200}[T.Choose(3)], 0xF0|byte(c.id&0xf), byte(len(replies)))
		r.data[0] = 'R'
		replies = append(replies, r)
		c.delivered++
		c.pc.Deliver(verifsim.Datagram{Data: append([]byte(nil), r.data...), From: from})
	}})
	if faults {
		envBudget := T.Range(0, 3)
		s.AddEvent(&verifsim.Event{Name: "invalidate", Enabled: func() bool { return envBudget > 0 && len(conns) > 0 }, Fire: func() {
			envBudget--
			di := T.Choose(len(gDialers))
			ipv := []consts.IpVersionStr{consts.IpVersionStr_4, consts.IpVersionStr_6}[T.Pick(3, 1)]
			s.Fault("health-invalidate")
			spawn("invalidate", func() {
				var cand []*ufConn
				doom(di, "invalidated-before-traffic")
				for _, c := range conns {
					if c.dial.group == "g" && c.dial.dialer == di && c.ipv == ipv && c.pc.CloseCount == 0 && !gFixed {
						if c.writesOK == 0 && c.handled == 0 {
							// must be: the endpoint exists already (its creator has left GetOrCreate, or is registering it:
							// its view of the node's health predates this change)
							exists := c.dialReturned && (s.ParkedInFunc(c.creator, "UdpEndpointPool).registerEndpoint") ||
								(c.creatorArr != nil && c.creatorArr.finished) ||
								(s.ParkedInFunc(c.creator, "ControlPlane).handlePkt") && !s.ParkedInFunc(c.creator, "UdpEndpointPool).GetOrCreate")))
							if exists {
								cand = append(cand, c)
								s.Notef("invalidate: c%d is a candidate (dialReturned=%v creatorFinished=%v inRegister=%v inHandlePkt=%v inGetOrCreate=%v)", c.id, c.dialReturned, c.creatorArr != nil && c.creatorArr.finished,
									s.ParkedInFunc(c.creator, "UdpEndpointPool).registerEndpoint"), s.ParkedInFunc(c.creator, "ControlPlane).handlePkt"), s.ParkedInFunc(c.creator, "UdpEndpointPool).GetOrCreate"))
							}
						}
					}
				}
				nt := componentdialer.NetworkType{L4Proto: consts.L4ProtoStr_UDP, IpVersion: ipv, UdpHealthDomain: componentdialer.UdpHealthDomainData}
				// an endpoint whose creation overlaps the health change is refused, and the datagram in hand with it
				markInProgress := func() {
					for _, f := range flows {
						for _, x := range f.arrivals {
							if x.started && !x.finished {
								lossy(x, "invalidate")
							}
						}
					}
				}
				markInProgress()
				invalidating++
				DefaultUdpEndpointPool.InvalidateDialerNetworkType(gDialers[di].d, &nt)
				doom(di, "invalidated-before-traffic")
				invalidating--
				markInProgress()
				for _, c := range cand {
					if c.writesOK == 0 && c.handled == 0 && c.delivered == 0 {
						c.mustNot = true
						evClock++
						c.mustNotClock = evClock
						s.Notef("invalidate returned: c%d must not be used any more (closed=%d)", c.id, c.pc.CloseCount)
					}
				}
				for _, f := range flows {
					if !f.done || len(f.arrivals) < len(f.order) {
						s.Probe("udpflow.invalidation-between-datagrams")
						break
					}
				}
			})
		}})
		s.AddEvent(&verifsim.Event{Name: "node-down", Enabled: func() bool { return envBudget > 0 && len(conns) > 0 }, Weight: 1, Fire: func() {
			envBudget--
			if !T.Chance(1, 3) {
				return
			}
			di := T.Choose(len(gDialers))
			ipv := []consts.IpVersionStr{consts.IpVersionStr_4, consts.IpVersionStr_6}[T.Pick(3, 1)]
			s.Fault("node-reported-down")
			globalLossOK = true // no node left, or a node that must not be used: datagrams may be refused from now on
			for _, f := range flows {
				for _, x := range f.arrivals {
					if x.fwd == 0 {
						x.lossOK = true
					}
				}
			}
			spawn("node-down", func() {
				doom(di, "node-down-before-traffic")
				nt := componentdialer.NetworkType{L4Proto: consts.L4ProtoStr_UDP, IpVersion: ipv, UdpHealthDomain: componentdialer.UdpHealthDomainData}
				gDialers[di].d.ReportUnavailableForced(&nt, errors.New("simulated health check failure"))
			})
		}})
		s.AddEvent(&verifsim.Event{Name: "upstream-read-error", Enabled: func() bool { return envBudget > 0 && len(open(nil)) > 0 }, Fire: func() {
			envBudget--
			if !T.Chance(1, 2) {
				return
			}
			cs := open(nil)
			c := cs[T.Choose(len(cs))]
			c.killed, c.killWhy = true, "read-error"
			c.pc.InjectReadErr(verifsim.ErrSimGeneric)
			s.Fault("upstream-read-error")
			for _, f := range flows {
				if c.flows[f.id] {
					// a datagram being written to a transport that dies under it may be lost with it
					for _, x := range f.arrivals {
						if x.started && !x.finished {
							lossy(x, "read-error")
						}
					}
				}
			}
		}})
	}

	s.Invariant = func() {
		for _, c := range conns {
			if c.pc.CloseCount > 1 {
				fail("C13", "c13-udp-close-once", "transport c%d (%s/d%d) was closed %d times", c.id, c.dial.group, c.dial.dialer, c.pc.CloseCount)
			}
		}
	}

	allHandled := func() bool {
		if clientsDone != len(flows) || envTask != 0 {
			return false
		}
		for _, f := range flows {
			for _, a := range f.arrivals {
				if !a.finished {
					return false
				}
			}
		}
		return true
	}
	shutdown := func() {
		poolClosing = true
		cancel()
		spawn("close", func() {
			DefaultUdpTaskPool.Close()
			DefaultUdpEndpointPool.Close()
			DefaultPacketSnifferSessionMgr.Close()
		})
		s.Quiesce(func() bool { return envTask == 0 }, 0, time.Minute)
		for _, c := range conns {
			c.pc.FireTransportDone()
		}
		for _, x := range gDialers {
			_ = x.d.Close()
		}
		_ = dd.Close()
		for _, g := range groups {
			_ = g.Close()
		}
	}
	completed := s.RunUntil(allHandled, 9)
	if s.Failed() {
		shutdown()
		return
	}
	if !completed {
		s.Probe("step-budget-exhausted")
		// bounded liveness: a handler may wait for a dial (8 s per attempt, a few attempts), never for minutes
		for _, f := range flows {
			for _, a := range f.arrivals {
				if a.started && !a.finished && s.Now()-a.tArr > 10*time.Minute {
					fail("C13", "c13-udp-handler-wedged", "flow %d (%s): the handler of datagram #%d (arrived %v) has not returned at %v; live tasks: %v", f.id, f.kind, a.k, a.tArr, s.Now(), s.LiveTasks(""))
				}
			}
		}
		shutdown()
		return
	}
	// let the sniffing budget pass: whatever was withheld for sniffing has to be out by now
	settle := PacketSnifferTtl + 3*time.Second
	tSettle := s.Now() + settle
	s.Quiesce(func() bool { return s.Now() >= tSettle }, 0, settle+time.Second)
	tEnd := s.Now()

	// ---------------- history oracles ----------------
	for _, f := range flows {
		desc := fmt.Sprintf("flow %d (%s->%s, %s, hand-over outbound %#x, dial_mode %v, %d-datagram flight, arrival order %v)", f.id, f.src, f.dst, f.kind, f.outbound, dialMode, f.nFlight, f.order)
		// C06: exactly once per arrival
		for _, a := range f.arrivals {
			if a.fwd == 0 && !a.lossOK && !globalLossOK {
				class := ""
				// listed finding: the held part of a flight whose rest never arrives, or arrives after a non-Initial
				// datagram of the flow. A complete flight that arrived in one piece is a different matter (no class).
				if a.k < f.nFlight && f.sniffPort && !(f.cleanFlight && f.tFlightComplete >= 0) {
					class = "@initial-buffered-for-sniffing-never-released"
				}
				fail("C06", "c06-udp-withheld"+class, "%s: datagram #%d (%d bytes, arrived at %v) never reached the upstream although no fault was injected; now %v, i.e. more than the sniffing session lifetime (%v) after the last arrival; handler result: %v", desc, a.k, len(a.data), a.tArr, tEnd, PacketSnifferTtl, a.hErr)
				break
			}
		}
		// C06: arrival order per ordered flow. The datagrams of the Initial flight may be held back until the flight
		// is complete; everything else keeps its place.
		if f.ordered {
			flightHeld := func(k int) bool { return k < f.nFlight && f.sniffPort }
			var wantF, wantD, gotF, gotD []int
			for _, a := range f.arrivals {
				if a.fwd > 0 {
					if flightHeld(a.k) {
						wantF = append(wantF, a.k)
					} else {
						wantD = append(wantD, a.k)
					}
				}
			}
			for _, k := range f.fwdSeq {
				if flightHeld(k) {
					gotF = append(gotF, k)
				} else {
					gotD = append(gotD, k)
				}
			}
			var wantAll []int
			for _, a := range f.arrivals {
				if a.fwd > 0 {
					wantAll = append(wantAll, a.k)
				}
			}
			if !ufSameOrder(wantF, gotF) || !ufSameOrder(wantD, gotD) {
				fail("C06", "c06-udp-reordered", "%s: datagrams reached the upstream in the order %v, they arrived in the order %v", desc, f.fwdSeq, wantAll)
			} else if !ufSameOrder(wantAll, f.fwdSeq) {
				s.Probe("udpflow.data-overtook-held-initial")
				// a datagram that arrives after the flight is complete never overtakes the flight (clean flights:
				// sniffing ends with the flight; an interleaved flight may be released later, by whatever bounds the hold)
				if f.tFlightComplete >= 0 && f.cleanFlight {
					lastFlightPos := -1
					for i, k := range f.fwdSeq {
						if flightHeld(k) {
							lastFlightPos = i
						}
					}
					seenAt := map[int]int{}
					for i, k := range f.fwdSeq {
						if _, ok := seenAt[k]; !ok {
							seenAt[k] = i
						}
					}
					for _, a := range f.arrivals {
						if a.fwd > 0 && !flightHeld(a.k) && a.tArr > f.tFlightComplete && a.n > 0 {
							if pos, ok := seenAt[a.k]; ok && pos < lastFlightPos && f.firstArrivalOf(a.k) == a {
								fail("C06", "c06-udp-reordered@overtook-complete-flight", "%s: datagram #%d arrived at %v, after the Initial flight was complete (%v), and reached the upstream before the flight's datagrams: upstream order %v", desc, a.k, a.tArr, f.tFlightComplete, f.fwdSeq)
								break
							}
						}
					}
				}
			}
		}
		// C06: latency. A datagram that does not take part in sniffing goes out with its own handler call.
		for _, a := range f.arrivals {
			if a.fwd == 0 || a.lossOK {
				continue
			}
			release := a.tArr
			if a.k < f.nFlight && f.sniffPort && f.tFlightComplete >= 0 && f.tFlightComplete > release {
				release = f.tFlightComplete
			}
			if a.tFwd-release > 30*time.Second {
				fail("C06", "c06-udp-delayed", "%s: datagram #%d arrived at %v (its flight was complete at %v) and reached the upstream only at %v", desc, a.k, a.tArr, f.tFlightComplete, a.tFwd)
			}
		}
		if f.kind == "quic-sni" && f.sniffPort && f.nFlight > 1 && f.tFlightComplete >= 0 {
			s.Probe("udpflow.multi-datagram-hello-offered")
		}
	}
	// C18: what the node of the flow's first dial was given, and which outbound it belongs to
	// (two passes: the rule with a listed finding is evaluated last so that it does not mask the others)
	for pass := 0; pass < 2; pass++ {
	for _, f := range flows {
		d := f.firstDial
		if d == nil {
			continue
		}
		// which name dae may know at that moment: the one carried, once the whole flight has arrived; with an
		// incomplete / damaged / interleaved flight it may or may not have been extractable - both are accepted
		names := []string{""}
		if f.cleanFlight {
			names = []string{f.hello.name}
		} else if f.hello != nil && f.hello.name != "" && f.sniffPort {
			names = []string{"", f.hello.name}
		}
		type verdict struct{ rule, msg string }
		var first *verdict
		okAny := false
		for _, name := range names {
			reroute := dialMode == consts.DialMode_DomainCao || f.outbound == uint8(consts.OutboundControlPlaneRouting)
			wantGroup := "g"
			if name == ufDirectName && reroute {
				wantGroup = "direct"
			}
			wantTarget := f.dst.String()
			if name != "" && dialMode != consts.DialMode_Ip && wantGroup != "direct" {
				wantTarget = net.JoinHostPort(name, fmt.Sprint(f.dst.Port()))
			}
			desc := fmt.Sprintf("flow %d (%s->%s, %s, carried name %q, hand-over outbound %#x, dial_mode %v, arrival order %v)", f.id, f.src, f.dst, f.kind, name, f.outbound, dialMode, f.order)
			var v *verdict
			host, _, _ := net.SplitHostPort(d.addr)
			_, ipErr := netip.ParseAddr(host)
			switch {
			case d.group != wantGroup && wantGroup == "direct":
				v = &verdict{"c18-udp-not-rerouted", fmt.Sprintf("%s: the rules send this name to direct, but the flow's first dial (at %v, target %q) went to the proxy group", desc, d.t, d.addr)}
			case d.group != wantGroup:
				v = &verdict{"c18-udp-wrong-outbound", fmt.Sprintf("%s: the flow's first dial (at %v, target %q) went to %s, the rules and the hand-over record say %s", desc, d.t, d.addr, d.group, wantGroup)}
			case d.addr == wantTarget:
			case ipErr == nil && wantTarget != f.dst.String() && d.addr == f.dst.String():
				v = &verdict{"c18-udp-ip-sent-in-domain-mode", fmt.Sprintf("%s: the node (%s/d%d) was given the destination address %q; with this dial_mode and a sniffed name it has to be given %q", desc, d.group, d.dialer, d.addr, wantTarget)}
			case ipErr != nil && wantTarget == f.dst.String():
				v = &verdict{"c18-udp-name-sent-where-ip-is-due", fmt.Sprintf("%s: the node (%s/d%d) was given %q; it has to be given the destination address %q", desc, d.group, d.dialer, d.addr, wantTarget)}
			default:
				v = &verdict{"c18-udp-wrong-target", fmt.Sprintf("%s: the node (%s/d%d) was given %q instead of %q", desc, d.group, d.dialer, d.addr, wantTarget)}
			}
			if v == nil {
				okAny = true
				if d.group == "direct" && name != "" && pass == 0 {
					s.Probe("udpflow.rerouted-to-direct")
				}
				break
			}
			if first == nil {
				first = v
			}
		}
		if !okAny && first != nil && (first.rule == "c18-udp-ip-sent-in-domain-mode") == (pass == 1) {
			fail("C18", first.rule, "%s", first.msg)
		}
	}
	}
	// C13: replies
	for _, r := range replies {
		if r.got == 0 && !r.sendErr && !r.c.killed && (r.c.closedAt < 0 || r.c.closedAt > r.t+time.Second) && !globalLossOK {
			fail("C13", "c13-udp-reply-lost", "a reply (%d bytes from %v) delivered at %v to transport c%d, which stayed open until %v, never reached the client-side socket", len(r.data), r.from, r.t, r.c.id, r.c.closedAt)
		}
	}
	for _, f := range flows {
		expired := false
		for _, c := range conns {
			if c.flows[f.id] && !c.killed && c.closedAt >= 0 && c.closedAt < tEnd {
				for _, c2 := range conns {
					if c2.flows[f.id] && c2.dial.t >= c.closedAt {
						expired = true
					}
				}
			}
		}
		if expired {
			s.Probe("udpflow.nat-expiry-between-datagrams")
		}
	}

	// ---- shutdown: every dialled transport closed exactly once, nothing left running
	shutdown()
	ok := s.Quiesce(func() bool {
		return envTask == 0 && len(s.LiveTasks("udp_endpoint_pool.go")) == 0 && len(s.LiveTasks("udp_task_pool.go")) == 0 && len(s.LiveTasks("packet_sniffer_pool.go")) == 0
	}, 0, 30*time.Second)
	if s.Failed() {
		return
	}
	if !ok {
		fail("C13", "c13-udp-goroutine-leak", "30 s after the pools were closed: still running %v", append(append(s.LiveTasks("udp_endpoint_pool.go"), s.LiveTasks("udp_task_pool.go")...), s.LiveTasks("packet_sniffer_pool.go")...))
		return
	}
	for _, c := range conns {
		if c.pc.CloseCount != 1 {
			fail("C13", "c13-udp-close-once", "transport c%d (dialled at %v via %s/d%d for %s, %d datagrams, %s) was closed %d times by the end of the run", c.id, c.dial.t, c.dial.group, c.dial.dialer, c.key, c.writesOK, c.killWhy, c.pc.CloseCount)
			return
		}
	}
}

// ufCheckTarget: C18 at the node. addr is what the node's dialer (DialContext) or its packet conn (WriteTo) was given.
func ufCheckTarget(s *verifsim.Sim, fail func(prop, rule, format string, a ...any), f *ufFlow, c *ufConn, addr, what string, dialMode consts.DialMode) {
	host, port, err := net.SplitHostPort(addr)
	if err != nil {
		fail("C18", "c18-udp-malformed-target", "flow %d: %s target %q is not host:port", f.id, what, addr)
		return
	}
	if port != fmt.Sprint(f.dst.Port()) {
		fail("C18", "c18-udp-wrong-port", "flow %d (dst %v): %s target %q carries another port", f.id, f.dst, what, addr)
		return
	}
	ip, ipErr := netip.ParseAddr(host)
	carried := ""
	if f.hello != nil {
		carried = f.hello.name
	}
	if ipErr != nil {
		// a name was given to the node
		if carried == "" || !strings.EqualFold(host, carried) {
			fail("C06", "c06-udp-wrong-name", "flow %d (%s): the node was given the name %q, the flow's Initial flight carries %q", f.id, f.kind, host, carried)
			return
		}
		if !f.sniffPort {
			fail("C06", "c06-udp-sniffed-on-unsniffed-port", "flow %d (dst %v): the node was given the name %q although only ports 443 and 8443 are sniffed", f.id, f.dst, host)
			return
		}
		if dialMode == consts.DialMode_Ip {
			fail("C18", "c18-udp-name-in-ip-mode", "flow %d: dial_mode ip, the node was given the name %q", f.id, host)
			return
		}
		if c.dial.group == "direct" {
			fail("C18", "c18-udp-name-sent-through-builtin-outbound", "flow %d: the built-in direct outbound was given the name %q instead of %v", f.id, host, f.dst)
			return
		}
		if dialMode == consts.DialMode_DomainCao && strings.EqualFold(host, ufDirectName) {
			fail("C18", "c18-udp-not-rerouted", "flow %d: domain++ sent the sniffed name %q to the proxy group although the rules route that name to direct", f.id, host)
			return
		}
		s.Probe("udpflow.name-given-to-node")
		return
	}
	if ip != f.dst.Addr() {
		fail("C18", "c18-udp-wrong-address", "flow %d (dst %v): %s target %q is another address", f.id, f.dst, what, addr)
		return
	}
}

func (f *ufFlow) firstArrivalOf(k int) *ufArrival {
	for _, a := range f.arrivals {
		if a.k == k {
			return a
		}
	}
	return nil
}

func ufSameOrder(a, b []int) bool {
	if len(a) != len(b) {
		return false
	}
	for i := range a {
		if a[i] != b[i] {
			return false
		}
	}
	return true
}

func ufFirstDiff(a, b []byte) int {
	n := len(a)
	if len(b) < n {
		n = len(b)
	}
	for i := 0; i < n; i++ {
		if a[i] != b[i] {
			return i
		}
	}
	return n
}

func stampedUf(n int, a, b byte) []byte {
	d := make([]byte, n)
	for i := range d {
		switch i % 4 {
		case 0:
			d[i] = a
		case 1:
			d[i] = b
		case 2:
			d[i] = byte(i >> 8)
		case 3:
			d[i] = byte(i)
		}
	}
	return d
}

// ufDialWrap is the netproxy.Dialer handed to the real dialer.Dialer.
type ufDialWrap struct {
	sd    *verifsim.SimDialer
	after func(network, addr string, conn netproxy.Conn)
}

func (d *ufDialWrap) DialContext(ctx context.Context, network, addr string) (netproxy.Conn, error) {
	conn, err := d.sd.DialContext(ctx, network, addr)
	d.after(network, addr, conn)
	return conn, err
}

func TestSimUdpFlow(t *testing.T) {
	ufSetup(t)
	// the pools created at package initialisation run their janitors on the real clock, outside every
	// bubble; the sniffer pool's janitor sweeps whatever failed-DCID cache is installed globally. Stop them.
	DefaultPacketSnifferSessionMgr.Close()
	DefaultUdpEndpointPool.Close()
	DefaultUdpTaskPool.Close()
	SetFailedQuicDcidCache(nil)
	prop := os.Getenv("VERIF_PROP")
	if prop == "" {
		prop = "C06"
	}
	verifsim.Main(t, verifsim.Engine{
		Prop: prop, Name: "udpflow", MaxSteps: 30000, Scenario: ufScenario, Reset: ufReset,
		Real:  []string{"control.ControlPlane.handlePkt (udp.go), ClassifyUdpFlow / UdpFlowDecision (udp_flow.go), UdpTaskPool (ordered per-flow dispatch), PacketSnifferPool + failed-DCID cache (packet_sniffer_pool.go), component/sniffing packet sniffer (QUIC Initial unprotect, CRYPTO reassembly, SNI extraction), chooseProxyDialer / ChooseDialTarget / Route (dial.go, control_plane.go, utils.go), real userspace RoutingMatcher built from rule text, DialerGroup + dialer.Dialer (selection, alive state, alive-transition callback of connectivity.go), UdpEndpointPool / UdpEndpoint (GetOrCreate, WriteTo, reply loop, reply sender, janitor, InvalidateDialerNetworkType), forwardUdpEndpointReplyToClient, udpConnStateTracker, controlPlaneDrainTracker"},
		Stubs: []string{"the listener socket (*net.UDPConn argument of handlePkt): nil; it is only used by the DNS fast path (well-formed DNS query to port 53), which this engine never sends", "the listener's per-datagram sequence (processPacket closure in control_plane.go: classify, EnsureSnifferSession, task, dispatch by DispatchStrategy) is repeated by the harness, without its per-endpoint cache of the routing record", "kernel hand-over record (RetrieveRoutingResult): scripted per flow - proxy group chosen from the address, or control-plane routing", "node dialers and their packet conns: simulated (verifsim.SimDialer / SimPacketConn)", "client-side reply socket: sendPktWithResponseConnSlot ends at a harness hook (overlay seam udpflow_hooks.go.txt) instead of an Anyfrom socket (transparent bind in dae's netns); normalizeSendPktAddrFamily, the Anyfrom pool and the raw-socket fallback are not run", "bpf batch delete on conn_state_map: accepted by a hook in the stub build's BpfMapBatchDelete", "DNS controller absent; dial_mode domain (needs DNS knowledge) not drawn"},
		Rule:  "tape draws dial_mode (ip / domain+ / domain++), 1-3 flows (v4/v6 sources, sometimes two flows of one source; ports 443, 8443, 5353, 27015, 53), hand-over record per flow, per flow a script: QUIC Initial flight (hello with/without SNI from crypto/tls, CRYPTO cut into pieces, reordered, 1-6 packets, first packet retransmitted up to 3 times, padded, coalesced, v1/v2; complete, incomplete or bit-flipped) or none, then 1-6 opaque datagrams, gaps 0..130 s (beyond the NAT lifetimes); network duplicates and swaps datagrams; 1-2 proxy nodes (fixed or min-latency policy) + direct; fault runs add dial refused/unreachable/error/hang, upstream write errors, upstream read errors, health invalidation, node reported down, reply send errors; upstream replies at arbitrary points; non-trivial = >=2 schedulable options at some step or >=1 fault fired",
	})
}
