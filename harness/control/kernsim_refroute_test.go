package control

// refroute: the routing oracle of kernsim. It evaluates the rules AS WRITTEN
// (C01's statement), independently of the repo's matcher, builder and
// optimisers: the rule text is parsed with the repo's config parser only, then
// walked top to bottom here.
//
//   - first rule whose &&-joined conditions all hold wins; values inside one
//     condition are alternatives; '!' negates the whole condition;
//   - must_rules only sets the must flag and continues; `must_` prefix and the
//     (must) parameter set must on that rule; (mark: n) gives the fwmark;
//   - fallback applies when no rule holds;
//   - CIDR containment on the 16-byte form (IPv4 as IPv4-mapped), inclusive port
//     ranges, tcp/udp and 4/6 sets, exact MAC (a negated MAC condition never holds
//     for a frame without a MAC), exact DSCP, process name on its first 16 bytes
//     and only when one is known, domain full/suffix/keyword/regex on the
//     lower-cased name without trailing dot.

import (
	"fmt"
	"net/netip"
	"regexp"
	"strconv"
	"strings"

	"github.com/daeuniverse/dae/pkg/config_parser"
)

type refPrefix struct {
	addr [16]byte
	bits int // on the 128-bit form
}

type refValue struct {
	key    string
	raw    string
	prefix refPrefix
	lo, hi uint16
	mac    [6]byte
	pname  [16]byte
	dscp   uint8
	re     *regexp.Regexp
}

type refCond struct {
	fn   string // canonical: ip, sip, port, sport, l4proto, ipversion, mac, pname, dscp, domain
	not  bool
	vals []refValue
}

type refOutbound struct {
	name      string
	id        uint8
	mark      uint32
	must      bool
	mustRules bool
}

type refRule struct {
	conds []refCond
	out   refOutbound
}

type refProgram struct {
	rules    []refRule
	fallback refOutbound
}

// refPacket is the logical packet both routers are asked about.
type refPacket struct {
	src, dst     netip.Addr // native family (v4 or v6)
	sport, dport uint16
	tcp          bool
	wan          bool
	hasMac       bool
	mac          [6]byte
	pname        string // "" = unknown
	dscp         uint8
	domain       string // "" = none learned
}

func (p *refPacket) v6() bool { return p.dst.Is6() && !p.dst.Is4In6() }

func (p *refPacket) String() string {
	l4 := "udp"
	if p.tcp {
		l4 = "tcp"
	}
	side := "lan"
	if p.wan {
		side = "wan"
	}
	mac := "-"
	if p.hasMac {
		mac = fmt.Sprintf("%x", p.mac)
	}
	return fmt.Sprintf("%s %s %s:%d->%s:%d mac=%s pname=%q dscp=%d domain=%q", side, l4, p.src, p.sport, p.dst, p.dport, mac, p.pname, p.dscp, p.domain)
}

func refTo16(a netip.Addr) [16]byte { return a.As16() }

func refParsePrefix(s string) (refPrefix, error) {
	if !strings.Contains(s, "/") {
		a, err := netip.ParseAddr(s)
		if err != nil {
			return refPrefix{}, err
		}
		return refPrefix{addr: a.As16(), bits: 128}, nil
	}
	p, err := netip.ParsePrefix(s)
	if err != nil {
		return refPrefix{}, err
	}
	bits := p.Bits()
	if p.Addr().Is4() {
		bits += 96
	}
	return refPrefix{addr: p.Addr().As16(), bits: bits}, nil
}

func (p refPrefix) contains(a [16]byte) bool {
	full, rem := p.bits/8, p.bits%8
	for i := 0; i < full; i++ {
		if p.addr[i] != a[i] {
			return false
		}
	}
	if rem != 0 {
		mask := byte(0xff << (8 - rem))
		if p.addr[full]&mask != a[full]&mask {
			return false
		}
	}
	return true
}

func refParseOutbound(f *config_parser.Function, name2id map[string]uint8) (refOutbound, error) {
	o := refOutbound{name: f.Name}
	if o.name == "must_rules" {
		o.mustRules = true
		return o, nil
	}
	if strings.HasPrefix(o.name, "must_") {
		o.must = true
		o.name = strings.TrimPrefix(o.name, "must_")
	}
	for _, p := range f.Params {
		switch {
		case p.Key == "mark":
			v, err := strconv.ParseUint(p.Val, 0, 32)
			if err != nil {
				return o, err
			}
			o.mark = uint32(v)
		case p.Key == "" && p.Val == "must":
			o.must = true
		default:
			return o, fmt.Errorf("unknown outbound parameter %q:%q", p.Key, p.Val)
		}
	}
	id, ok := name2id[o.name]
	if !ok {
		return o, fmt.Errorf("unknown outbound %q", o.name)
	}
	o.id = id
	return o, nil
}

func refCanonFn(n string) string {
	switch n {
	case "dip":
		return "ip"
	case "dport":
		return "port"
	}
	return n
}

func refParse(text string, name2id map[string]uint8) (*refProgram, error) {
	sections, err := config_parser.Parse(text)
	if err != nil {
		return nil, err
	}
	var sec *config_parser.Section
	for _, s := range sections {
		if s.Name == "routing" {
			sec = s
		}
	}
	if sec == nil {
		return nil, fmt.Errorf("no routing section")
	}
	prog := &refProgram{}
	haveFallback := false
	for _, it := range sec.Items {
		switch v := it.Value.(type) {
		case *config_parser.RoutingRule:
			r := refRule{}
			r.out, err = refParseOutbound(&v.Outbound, name2id)
			if err != nil {
				return nil, err
			}
			for _, f := range v.AndFunctions {
				c := refCond{fn: refCanonFn(f.Name), not: f.Not}
				for _, p := range f.Params {
					rv := refValue{key: p.Key, raw: p.Val}
					switch c.fn {
					case "ip", "sip":
						rv.prefix, err = refParsePrefix(p.Val)
					case "port", "sport":
						lo, hi, ok := strings.Cut(p.Val, "-")
						var a, b uint64
						a, err = strconv.ParseUint(lo, 10, 16)
						b = a
						if ok && err == nil {
							b, err = strconv.ParseUint(hi, 10, 16)
						}
						rv.lo, rv.hi = uint16(a), uint16(b)
					case "mac":
						parts := strings.Split(p.Val, ":")
						if len(parts) != 6 {
							err = fmt.Errorf("bad mac %q", p.Val)
							break
						}
						for i, x := range parts {
							var b uint64
							b, err = strconv.ParseUint(x, 16, 8)
							rv.mac[i] = byte(b)
						}
					case "pname":
						copy(rv.pname[:], p.Val) // first 16 bytes
					case "dscp":
						var d uint64
						d, err = strconv.ParseUint(p.Val, 0, 8)
						rv.dscp = uint8(d)
					case "domain":
						switch p.Key {
						case "", "domain":
							rv.key = "suffix"
						case "contains":
							rv.key = "keyword"
						}
						if rv.key == "regex" {
							rv.re, err = regexp.Compile(p.Val)
						}
					case "l4proto", "ipversion":
					default:
						err = fmt.Errorf("unknown function %q", f.Name)
					}
					if err != nil {
						return nil, fmt.Errorf("refroute: %s(%s): %v", f.Name, p.Val, err)
					}
					c.vals = append(c.vals, rv)
				}
				r.conds = append(r.conds, c)
			}
			prog.rules = append(prog.rules, r)
		case *config_parser.Param:
			if v.Key != "fallback" {
				return nil, fmt.Errorf("unexpected routing parameter %q", v.Key)
			}
			var f *config_parser.Function
			if len(v.AndFunctions) == 1 {
				f = v.AndFunctions[0]
			} else if v.Val != "" {
				f = &config_parser.Function{Name: v.Val}
			} else {
				return nil, fmt.Errorf("bad fallback")
			}
			prog.fallback, err = refParseOutbound(f, name2id)
			if err != nil {
				return nil, err
			}
			haveFallback = true
		}
	}
	if !haveFallback {
		id, ok := name2id["direct"]
		if !ok {
			return nil, fmt.Errorf("no fallback")
		}
		prog.fallback = refOutbound{name: "direct", id: id}
	}
	return prog, nil
}

func refCanonDomain(d string) string {
	return strings.ToLower(strings.TrimSuffix(d, "."))
}

func (v *refValue) matches(fn string, p *refPacket) bool {
	switch fn {
	case "ip":
		return v.prefix.contains(refTo16(p.dst))
	case "sip":
		return v.prefix.contains(refTo16(p.src))
	case "port":
		return p.dport >= v.lo && p.dport <= v.hi
	case "sport":
		return p.sport >= v.lo && p.sport <= v.hi
	case "l4proto":
		return (v.raw == "tcp" && p.tcp) || (v.raw == "udp" && !p.tcp)
	case "ipversion":
		return (v.raw == "4" && !p.v6()) || (v.raw == "6" && p.v6())
	case "mac":
		return p.hasMac && v.mac == p.mac
	case "pname":
		if !p.wan || p.pname == "" {
			return false
		}
		var pn [16]byte
		copy(pn[:], p.pname)
		return pn == v.pname
	case "dscp":
		return p.dscp == v.dscp
	case "domain":
		if p.domain == "" {
			return false
		}
		name := refCanonDomain(p.domain)
		if name == "" {
			return false
		}
		pat := v.raw // patterns are generated in lower case; the statement is silent on upper-case patterns
		switch v.key {
		case "full":
			return name == pat
		case "suffix":
			if strings.HasPrefix(pat, ".") {
				return strings.HasSuffix(name, pat)
			}
			return name == pat || strings.HasSuffix(name, "."+pat)
		case "keyword":
			return strings.Contains(name, pat)
		case "regex":
			return v.re.MatchString(name)
		}
	}
	return false
}

func (c *refCond) holds(p *refPacket) bool {
	hit := false
	for i := range c.vals {
		if c.vals[i].matches(c.fn, p) {
			hit = true
			break
		}
	}
	if c.not {
		if c.fn == "mac" && !p.hasMac {
			return false // a negated MAC rule never matches a frame without a MAC
		}
		return !hit
	}
	return hit
}

type refDecision struct {
	outbound uint8
	mark     uint32
	must     bool
	rule     int // index of the deciding rule, -1 = fallback
}

func (d refDecision) String() string {
	return fmt.Sprintf("(outbound=%d mark=%#x must=%v by rule %d)", d.outbound, d.mark, d.must, d.rule)
}

func (prog *refProgram) route(p *refPacket) refDecision {
	must := false
	for i := range prog.rules {
		r := &prog.rules[i]
		ok := true
		for j := range r.conds {
			if !r.conds[j].holds(p) {
				ok = false
				break
			}
		}
		if !ok {
			continue
		}
		if r.out.mustRules {
			must = true
			continue
		}
		return refDecision{r.out.id, r.out.mark, r.out.must || must, i}
	}
	return refDecision{prog.fallback.id, prog.fallback.mark, prog.fallback.must || must, -1}
}

// ---- attribution of a deviation to an already recorded defect shape ----
//
// refDiagnose re-evaluates the written rules under ONE deliberately wrong
// reading at a time. If that reading reproduces exactly what the code under
// test decided, the deviation is attributed to that shape and the violation's
// rule id carries the tag; anything else stays untagged and is reported as new.

func sameDecision(a, b refDecision) bool {
	return a.outbound == b.outbound && a.mark == b.mark && a.must == b.must
}

func refDiagnose(prog *refProgram, p *refPacket, user, kern refDecision) string {
	right := prog.route(p)
	// (1) an IPv6 prefix of length 0 only matches "::" (the userspace trie's key for it
	// is 128 zero bits); the kernel's LPM key is right.
	if sameDecision(kern, right) && !sameDecision(user, right) {
		if v := prog.variantV6Len0().route(p); sameDecision(v, user) {
			return "v6-prefix-len-0"
		}
	}
	// (2) neighbouring negated single-condition rules with the same function and
	// outbound are merged into one negated condition over the union of values.
	if sameDecision(user, kern) && !sameDecision(user, right) {
		if v := prog.variantNegMerge().route(p); sameDecision(v, user) {
			return "negated-singleton-merge"
		}
	}
	return ""
}

func (prog *refProgram) clone() *refProgram {
	c := &refProgram{fallback: prog.fallback}
	for _, r := range prog.rules {
		nr := refRule{out: r.out}
		for _, cd := range r.conds {
			nc := refCond{fn: cd.fn, not: cd.not, vals: append([]refValue(nil), cd.vals...)}
			nr.conds = append(nr.conds, nc)
		}
		c.rules = append(c.rules, nr)
	}
	return c
}

func (prog *refProgram) variantV6Len0() *refProgram {
	c := prog.clone()
	for i := range c.rules {
		for j := range c.rules[i].conds {
			cd := &c.rules[i].conds[j]
			if cd.fn != "ip" && cd.fn != "sip" {
				continue
			}
			for k := range cd.vals {
				v := &cd.vals[k]
				if v.prefix.bits == 0 && strings.Contains(v.raw, ":") {
					v.prefix = refPrefix{bits: 128} // only "::"
				}
			}
		}
	}
	return c
}

func (prog *refProgram) variantNegMerge() *refProgram {
	c := prog.clone()
	var out []refRule
	for _, r := range c.rules {
		if n := len(out); n > 0 && len(r.conds) == 1 && len(out[n-1].conds) == 1 &&
			r.conds[0].not && out[n-1].conds[0].not && r.conds[0].fn == out[n-1].conds[0].fn && r.out == out[n-1].out {
			out[n-1].conds[0].vals = append(out[n-1].conds[0].vals, r.conds[0].vals...)
			continue
		}
		out = append(out, r)
	}
	c.rules = out
	return c
}
