package control

// dnssim — C10: domain_routing_map mirrors the live DNS cache.
//
// Oracle (set-of-owners model, from the statement): at every quiescent point the
// simulated map holds, for every address, exactly the OR of the domain bitmaps of
// the cache entries that currently list that address, and no entry for an address
// that no live entry lists (or whose OR is zero).

import (
	"fmt"
	"net/netip"
	"runtime"
	"sort"
	"strings"
	"time"

	"github.com/daeuniverse/dae/common/consts"
	"github.com/daeuniverse/dae/component/dns"
	verifsim "github.com/daeuniverse/dae/internal/verifsim"
)

// dnsCallerHas reports whether a function whose name contains sub is on the stack.
func dnsCallerHas(sub string) bool {
	var pcs [48]uintptr
	n := runtime.Callers(2, pcs[:])
	fr := runtime.CallersFrames(pcs[:n])
	for {
		f, more := fr.Next()
		if strings.Contains(f.Function, sub) {
			return true
		}
		if !more {
			return false
		}
	}
}

func (w *dnsWorld) c10Expected() map[[4]uint32]bpfDomainRouting {
	exp := map[[4]uint32]bpfDomainRouting{}
	w.ctl.dnsCache.Range(func(k, v any) bool {
		raw, _ := k.(string)
		c, _ := v.(*DnsCache)
		if c == nil {
			return true
		}
		key, ok := w.parseCacheKey(raw)
		if !ok {
			return true
		}
		bm, known := w.entryBitmap[c]
		if !known {
			bm = w.bitmapOf(key.name)
		}
		_, ips := w.decodeAnswers(c.Answer)
		for _, ip := range ips {
			if ip.Unmap().IsUnspecified() { // 0.0.0.0, :: and the 4-in-6 spelling of 0.0.0.0 (the kernel key of 0.0.0.0)
				continue
			}
			kk := dnsKernKey(ip)
			cur := exp[kk]
			for i := range cur.Bitmap {
				cur.Bitmap[i] |= bm[i]
			}
			exp[kk] = cur
		}
		return true
	})
	for k, v := range exp {
		zero := true
		for _, x := range v.Bitmap {
			if x != 0 {
				zero = false
			}
		}
		if zero {
			delete(exp, k)
		}
	}
	return exp
}

func (w *dnsWorld) c10Owners(k [4]uint32) string {
	var o []string
	w.ctl.dnsCache.Range(func(kk, v any) bool {
		c, _ := v.(*DnsCache)
		if c == nil {
			return true
		}
		_, ips := w.decodeAnswers(c.Answer)
		for _, ip := range ips {
			if dnsKernKey(ip) == k {
				o = append(o, kk.(string))
			}
		}
		return true
	})
	sort.Strings(o)
	return fmt.Sprint(o)
}

// c10Check compares the simulated kernel table with the cache at a quiescent point.
func (w *dnsWorld) c10Check(when string) {
	if w.s.Failed() || w.kern.tainted || w.kern.inSync > 0 || w.kern.inCallback > 0 || len(w.curOp) > 0 || w.envTasks > 0 {
		return
	}
	if len(w.kern.dirty) > 0 {
		// the last sync of some owner failed (injected delete failure) and has not been
		// repeated successfully yet
		return
	}
	afterFault := ""
	if w.kern.delFails > 0 {
		w.s.Probe("dns.c10-comparison-after-failed-delete-was-repaired")
		afterFault = "-after-a-failed-delete-elsewhere"
	}
	if ch := w.ctl.bpfUpdateCh; ch != nil && len(ch) > 0 {
		return
	}
	w.s.Probe("dns.c10-quiescent-comparison")
	exp := w.c10Expected()
	var keys [][4]uint32
	seen := map[[4]uint32]bool{}
	for k := range exp {
		keys = append(keys, k)
		seen[k] = true
	}
	for k := range w.kern.m {
		if !seen[k] {
			keys = append(keys, k)
		}
	}
	sort.Slice(keys, func(i, j int) bool { return dnsKernKeyString(keys[i]) < dnsKernKeyString(keys[j]) })
	for _, k := range keys {
		e, inExp := exp[k]
		g, inKern := w.kern.m[k]
		switch {
		case inKern && !inExp:
			cls := w.kern.writerClass(k)
			if cls == "sync-update" {
				// written (again) after the entry holding this address had already been replaced
				// in the cache: the side effects of two inserts ran in the opposite order
				for _, a := range w.answers {
					if len(a.ips) == 0 || dnsKernKey(a.ips[0]) != k {
						continue
					}
					for _, e := range w.track.byAnswer(a.id) {
						if e.removed && e.replaced && w.kern.lastStep[k] > e.removeStep {
							cls = "sync-update-after-entry-was-replaced"
						}
					}
				}
			}
			if o, ok := w.kern.failedDel[k]; ok {
				cls = "after-failed-delete-never-repaired"
				when += fmt.Sprintf(" (the delete of this address failed in task %s; every owner has synced successfully since)", o)
			} else if o, ok := w.kern.unrecorded[k]; ok {
				cls = "written-by-a-sync-whose-delete-failed"
				when += fmt.Sprintf(" (written by the update batch of a sync of owner %q whose delete batch then failed; every owner has synced successfully since)", o)
			} else {
				cls += afterFault
			}
			w.s.Failf("c10-stale-address@"+cls, "%s: domain_routing_map holds %s (bitmap %s) but no live cache entry with a non-zero domain bitmap lists that address (entries listing it: %s); last written by %s",
				when, dnsKernKeyString(k), dnsBitmapString(g), w.c10Owners(k), w.kern.lastWriter[k])
			return
		case !inKern && inExp && w.queueDrops > 0:
			// recorded finding: a lookup's update that finds the bounded asynchronous queue full is dropped by design
			// ("will be retried on next access"); until somebody looks the entry up again its addresses are missing
			w.s.Failf("c10-missing-address@after-an-update-was-dropped-at-the-full-queue", "%s: live cache entries %s list %s (union of their domain bitmaps %s) but domain_routing_map has no entry for it; %d update(s) of this run found the asynchronous update queue (capacity %d in this run) full and were dropped; last touched by %s",
				when, w.c10Owners(k), dnsKernKeyString(k), dnsBitmapString(e), w.queueDrops, w.queueCap, w.kern.lastWriter[k])
			return
		case !inKern && inExp:
			w.s.Failf("c10-missing-address@"+w.kern.writerClass(k)+afterFault, "%s: live cache entries %s list %s (union of their domain bitmaps %s) but domain_routing_map has no entry for it; last touched by %s",
				when, w.c10Owners(k), dnsKernKeyString(k), dnsBitmapString(e), w.kern.lastWriter[k])
			return
		case e != g && w.queueDrops > 0:
			w.s.Failf("c10-wrong-bitmap@after-an-update-was-dropped-at-the-full-queue", "%s: domain_routing_map[%s] = %s but the live cache entries listing it (%s) have the union %s; %d update(s) of this run found the asynchronous update queue (capacity %d in this run) full and were dropped; last written by %s",
				when, dnsKernKeyString(k), dnsBitmapString(g), w.c10Owners(k), dnsBitmapString(e), w.queueDrops, w.queueCap, w.kern.lastWriter[k])
			return
		case e != g:
			if _, ok := w.kern.unrecorded[k]; ok {
				w.s.Failf("c10-wrong-bitmap@written-by-a-sync-whose-delete-failed", "%s: domain_routing_map[%s] = %s but the live cache entries listing it (%s) have the union %s; last written by %s, in a sync whose delete batch then failed (every owner has synced successfully since)",
					when, dnsKernKeyString(k), dnsBitmapString(g), w.c10Owners(k), dnsBitmapString(e), w.kern.lastWriter[k])
				return
			}
			w.s.Failf("c10-wrong-bitmap@"+w.kern.writerClass(k)+afterFault, "%s: domain_routing_map[%s] = %s but the live cache entries listing it (%s) have the union %s; last written by %s",
				when, dnsKernKeyString(k), dnsBitmapString(g), w.c10Owners(k), dnsBitmapString(e), w.kern.lastWriter[k])
			return
		}
	}
}

func dnsBitmapString(b bpfDomainRouting) string {
	var p []string
	for i, x := range b.Bitmap {
		if x != 0 {
			p = append(p, fmt.Sprintf("%d:%08x", i, x))
		}
	}
	return "{" + strings.Join(p, " ") + "}"
}

// writerClass: which path touched the address last (class of the C10 rules).
func (k *dnsKernMap) writerClass(key [4]uint32) string {
	w := k.lastWriter[key]
	op := "update"
	if strings.HasPrefix(w, "delete") {
		op = "delete"
	}
	switch {
	case w == "":
		return "never-written"
	case strings.Contains(w, "async-update-worker"):
		return "async-" + op
	case strings.Contains(w, "restore"):
		return "reload-clear"
	}
	return "sync-" + op
}

func (k *dnsKernMap) noteWriter(keys [][4]uint32, op string) {
	who := op + " by task " + verifsim.TaskName()
	if dnsCallerHas("processBpfUpdateTask") {
		who += " (async-update-worker)"
		k.w.s.Probe("dns.c10-async-update")
	}
	for _, key := range keys {
		k.lastWriter[key] = who
		k.lastStep[key] = k.w.s.Step
	}
}

// ---------------------------------------------------------------------------

func dnsScenarioC10(w *dnsWorld) {
	s, T := w.s, w.T
	w.faulty = T.Pick(4, 1)
	w.cfg = dnsCfg{optimistic: T.Chance(1, 2), fixed: map[string]int{}}
	w.cfg.maxSize = []int{0, 2, 3}[T.Pick(3, 1, 1)]
	w.cfg.staleTtl = []int{30, 5}[T.Choose(2)]
	if w.cfg.maxSize > 0 && T.Chance(1, 2) {
		w.cfg.staleTtl = 0
	}
	w.cfg.janitor = []time.Duration{30 * time.Second, 5 * time.Second}[T.Choose(2)]
	w.cfg.idleTTL = 2 * time.Minute
	w.envBudget = T.Range(0, 3)
	// a third of the runs give the asynchronous update queue room for one or two entries only, so that a
	// burst (a reload restoring the cache, several lookups at once) finds it full
	if qs := []int{0, 0, 0, 1, 2}[T.Choose(5)]; qs > 0 {
		verifDnsUpdateQueueSizeHook = func(int) int { return qs }
		w.queueCap = qs
		s.Probe("dns.c10-small-update-queue")
		verifDnsUpdateDroppedHook = func() {
			w.queueDrops++
			s.Probe("dns.c10-update-dropped-at-the-full-queue")
		}
	}
	bpfFaults := T.Chance(1, 5)
	if !w.setup(dnsSetup{nNames: [2]int{2, 4}, nUps: [2]int{1, 2}, schemes: []string{"udp"}, reject: true, dialMode: consts.DialMode_Ip, bpfFaults: bpfFaults}) {
		return
	}
	w.drawSpecs([]int{0, 1, 2, 3, 4}, true, true)
	rounds := T.Range(2, 9)
	for r := 0; r < rounds && !s.Failed(); r++ {
		k := 1 + T.Pick(4, 2, 1)
		var ops []*dnsOp
		for i := 0; i < k; i++ {
			op := &dnsOp{cli: i, idx: len(w.ops), id: uint16(100 + len(w.ops)), viaUDP: T.Chance(1, 4), resolver: T.Pick(3, 1)}
			if cur := w.sortedEntries(); len(cur) > 0 && T.Chance(2, 3) {
				e := cur[T.Choose(len(cur))]
				if i == 0 && w.focus != nil {
					e = w.focus
				}
				op.name, op.qtype = e.key.name, e.key.qtype
				if e.key.scope >= len(w.ups) {
					op.resolver = e.key.scope - len(w.ups) // revisit the entry under the scope it was cached for
				}
			} else {
				op.name, op.qtype = w.names[T.Choose(len(w.names))], dnsQtypes[T.Pick(4, 3, 1)]
			}
			op.qname = w.wireName(op.name, T.Pick(4, 1, 1))
			ops = append(ops, op)
			w.ops = append(w.ops, op)
		}
		// some clients ask again shortly afterwards (lookups straddling a deadline while
		// an asynchronous update of the first lookup may still be queued)
		again := map[*dnsOp]*dnsOp{}
		pause := map[*dnsOp]time.Duration{}
		for _, op := range ops {
			if T.Chance(1, 3) {
				op2 := &dnsOp{cli: op.cli, idx: len(w.ops), id: uint16(100 + len(w.ops)), name: op.name, qtype: op.qtype, qname: op.qname, resolver: op.resolver}
				w.ops = append(w.ops, op2)
				again[op] = op2
				pause[op] = []time.Duration{time.Second, 3 * time.Second, 5 * time.Second}[T.Choose(3)]
			}
		}
		done := 0
		for i, op := range ops {
			op := op
			verifsim.Go(fmt.Sprintf("client%d", i), func() {
				w.doOp(op, 10*time.Second)
				if op2 := again[op]; op2 != nil {
					time.Sleep(pause[op])
					verifsim.YieldB("client-woke")
					w.doOp(op2, 10*time.Second)
				}
				done++
			})
		}
		if !w.settle(func() bool { return done == len(ops) && !w.pendingWork() && w.fwdInFlight() == 0 }, 6) {
			break
		}
		w.c10Quiescent(fmt.Sprintf("after round %d", r))
		// background refreshes spawned by the round must be over before a reload
		for i := 0; i < 4 && (w.pendingWork() || w.fwdInFlight() > 0) && !s.Failed(); i++ {
			w.settle(func() bool { return !w.pendingWork() && w.fwdInFlight() == 0 }, 6)
			w.c10Quiescent(fmt.Sprintf("after round %d", r))
		}
		reloadOK := !w.pendingWork() && w.fwdInFlight() == 0
		// one draw over 15 values as before (recorded tapes keep their length): 0-7 nothing,
		// 8-11 a reload that only changes the domain rules (same DNS rules, next generation of
		// the name -> bitmap table), 12-13 a reload that also swaps the DNS request rules, 14 a
		// new generation with a replayed cache
		act := 0
		switch v := T.Choose(15); {
		case v >= 14:
			act = 2
		case v >= 12:
			act = 1
		case v >= 8:
			act = 3
		}
		switch act {
		case 3:
			s.Fault("reload-domain-rules")
			rs := w.rules
			w.env("reload", func() { w.reloadReuse(rs) })
			s.RunUntil(func() bool { return w.envTasks == 0 }, 5)
		case 1:
			// swap the request rules (a name may become rejected, or stop being rejected)
			rs := dnsGenRuleSet(T, w.rules.tags, w.names, false, true)
			w.env("reload", func() { w.reloadReuse(rs) })
			s.RunUntil(func() bool { return w.envTasks == 0 }, 5)
		case 2:
			if !reloadOK {
				break
			}
			// every other time the reload itself takes the time of the pause (entries
			// expire between clone and restore) and the next round starts right away,
			// while the new generation's update worker is still replaying the cache
			gap := time.Duration(0)
			if r%2 == 0 {
				gap = w.pickJumpC10()
			}
			var fin func()
			w.env("reload", func() { fin = w.c10ReloadRestore() })
			s.RunUntil(func() bool { return w.envTasks == 0 }, 5)
			if gap > 0 && fin != nil && !s.Failed() {
				s.Probe("dns.c10-reload-takes-time")
				w.idle(gap)
			}
			if fin != nil && !s.Failed() {
				w.env("reload", fin)
				s.RunUntil(func() bool { return w.envTasks == 0 }, 5)
			}
			if gap > 0 {
				continue
			}
		}
		w.idle(w.pickJumpC10())
		w.c10Quiescent(fmt.Sprintf("after the pause following round %d", r))
	}
	w.shutdown()
}

// c10Quiescent drains every runnable task without letting time pass or firing
// events, then compares.
func (w *dnsWorld) c10Quiescent(when string) {
	if w.s.Failed() {
		return
	}
	w.s.Quiesce(func() bool { return true }, 0, 0)
	w.track.scan()
	w.c10Check(when)
}

func (w *dnsWorld) pickJumpC10() time.Duration {
	T := w.T
	if T.Chance(1, 3) {
		return []time.Duration{100 * time.Millisecond, 2 * time.Second, 61 * time.Second, 70 * time.Second}[T.Choose(4)]
	}
	return w.pickJump()
}

// c10ReloadRestore models a reload that builds a new generation: cleared kernel
// table, fresh tracker, new controller, cache replayed through RestoreReloadCache
// (which re-populates the table through the asynchronous update worker).
//
// Two halves: the first one retires the old generation and clears the table, the
// returned second one builds the new generation and replays the cache; the
// scenario may let time pass in between (a reload takes time).
func (w *dnsWorld) c10ReloadRestore() (finish func()) {
	s := w.s
	old := w.ctl
	entries := old.CloneCacheForReload()
	routing, err := w.buildRouting(w.rules)
	if err != nil {
		s.Failf("harness-dns", "reload: %v", err)
		return
	}
	// The old generation is retired first: its janitor / update worker share the kernel
	// table with the new generation, and the statement is not about two generations
	// writing the table at the same time.
	w.track.frozen = true
	_ = old.Close()
	// new generation's core (clearReloadDomainRoutingMap + fresh tracker)
	for k := range w.kern.m {
		delete(w.kern.m, k)
		w.kern.lastWriter[k] = "reload clear (restore)"
	}
	w.kern.dirty, w.kern.failedDel = map[string]bool{}, map[[4]uint32]string{}
	return func() { w.c10ReloadFinish(routing, entries) }
}

func (w *dnsWorld) c10ReloadFinish(routing *dns.Dns, entries map[string]*DnsCache) {
	s := w.s
	core := &controlPlaneCore{log: w.log, domainRouting: newDomainRoutingTracker()}
	core.bpf.Store(w.plane.core.bpf.Load())
	w.plane.core = core
	nc, err := NewDnsController(routing, w.controllerOption())
	if err != nil {
		s.Failf("harness-dns", "reload: %v", err)
		return
	}
	w.newCtl = nc
	w.reloads++
	s.Fault("reload-clone-restore")
	s.Notef("reload: new generation, %d entries replayed", len(entries))
	w.track.restoring, w.track.frozen = true, true
	w.bitmapGen++ // the new generation's domain rules
	nc.RestoreReloadCache(entries, w.plane.routingMatcher.domainMatcher.MatchDomainBitmap, time.Now())
	for _, v := range entries {
		if v != nil {
			w.entryBitmap[v] = w.bitmapOf(w.nameIndex(v.GetFqdn())) // RestoreReloadCache re-matches every restored entry
		}
	}
	s.Notef("domain rules generation %d", w.bitmapGen)
	w.plane.dnsRouting, w.plane.dnsController = routing, nc
	w.ctl, w.track.ctl = nc, nc
	w.track.frozen = false
	w.track.scan()
	w.track.restoring = false
}

func dnsZeroBitmap(b []uint32) bool {
	for _, x := range b {
		if x != 0 {
			return false
		}
	}
	return true
}

// c10OverlapProbes: reach probes for the overlap histories the statement quantifies
// over (an owner re-synced in place with another bitmap while a second live owner
// with a non-zero bitmap lists one of its addresses).
func (w *dnsWorld) c10OverlapProbes(e *dnsEntryObs) {
	nb := w.entryBitmap[e.ptr]
	// a refresh that changes nothing: same address list, same bitmap, replaced in place
	for i := len(w.track.hist) - 1; i >= 0; i-- {
		if h := w.track.hist[i]; h != e && h.raw == e.raw {
			if !e.restored && h.replaced && h.removeStep == e.insertStep && len(e.ips) > 0 && fmt.Sprint(h.ips) == fmt.Sprint(e.ips) && fmt.Sprint(w.entryBitmap[h.ptr]) == fmt.Sprint(nb) && !dnsZeroBitmap(nb) {
				w.s.Probe("dns.c10-in-place-refresh-with-identical-addresses-and-bitmap")
			}
			break
		}
	}
	sharesWithOther := false
	for _, o := range w.track.cur {
		if o == e || o.raw == e.raw || dnsZeroBitmap(w.entryBitmap[o.ptr]) {
			continue
		}
		for _, x := range o.ips {
			for _, y := range e.ips {
				if x == y && !x.Unmap().IsUnspecified() {
					sharesWithOther = true
				}
			}
		}
	}
	if !sharesWithOther {
		return
	}
	w.s.Probe("dns.c10-insert-sharing-an-address-with-a-live-owner")
	var old *dnsEntryObs
	for i := len(w.track.hist) - 1; i >= 0; i-- {
		if h := w.track.hist[i]; h != e && h.raw == e.raw {
			old = h
			break
		}
	}
	if old == nil {
		return
	}
	ob := w.entryBitmap[old.ptr]
	if !e.restored && old.replaced && old.removeStep == e.insertStep {
		switch {
		case dnsZeroBitmap(nb) && !dnsZeroBitmap(ob):
			w.overlapZeroed[e.raw] = true
			w.s.Probe("dns.c10-owner-replaced-in-place-bitmap-became-zero")
		case !dnsZeroBitmap(nb) && dnsZeroBitmap(ob):
			w.s.Probe("dns.c10-owner-replaced-in-place-bitmap-became-non-zero")
		}
	}
	if !dnsZeroBitmap(nb) && w.overlapZeroed[e.raw] {
		w.s.Probe("dns.c10-owner-non-zero-again-after-in-place-zero")
	}
}

var _ = netip.Addr{}

