package control

// dnssim — third reply path (C09 mode): DNS over TCP through the transparent
// fast path. The real handleTCPDnsFastPath / readDnsMsgFromBufio /
// tcpDnsResponseWriter run over a simulated byte stream: the client writes one
// or several length-prefixed queries (one by one, or all at once), the stream
// re-segments them on the way (tape-chosen chunks, so the reader's Peek sees
// partial frames), and the harness parses the frames dae writes back.
//
// The fast path serves one query at a time, in order: the i-th reply frame
// belongs to the i-th query of the connection. The frame parser runs on the
// handler's task (write hook), so the switch from one question to the next is
// observed exactly where dae finishes one and reads the next.

import (
	"bufio"
	"context"
	"encoding/binary"
	"errors"
	"fmt"
	"net"
	"time"

	verifsim "github.com/daeuniverse/dae/internal/verifsim"
	dnsmessage "github.com/miekg/dns"
)

type dnsCliConn struct {
	id       int
	ops      []*dnsOp
	cur      int // index of the question being served
	cli, srv *verifsim.StreamEnd
	wbuf     []byte
	task     string
	replied  []chan struct{}
	ended    bool
	handled  bool
}

// dnsNetConn gives a simulated stream end the two address methods of net.Conn.
type dnsNetConn struct {
	*verifsim.StreamEnd
	local, remote net.Addr
}

func (c dnsNetConn) LocalAddr() net.Addr  { return c.local }
func (c dnsNetConn) RemoteAddr() net.Addr { return c.remote }

func (w *dnsWorld) tcpOpBegin(tc *dnsCliConn) {
	if tc.cur >= len(tc.ops) {
		return
	}
	s := w.s
	op := tc.ops[tc.cur]
	op.task = tc.task
	op.gen = w.gen
	op.key = w.keyOf(op.name, op.qtype)
	op.expectReject = op.key.scope == -1
	op.reloadOverlap = w.reloads
	op.rs = w.rules
	if w.track != nil {
		w.track.scan()
		op.pre = w.track.entry(op.key)
	}
	w.curOp[op.task] = op
	delete(w.chains, op.task)
	op.start, op.startStep = s.Now(), s.Step
	s.Notef("client c%d op %d -> ask %s %s id=%d (tcp fast path, connection dc%d question %d of %d, key %v)", op.cli, op.idx, op.qname, dnsmessage.TypeToString[op.qtype], op.id, tc.id, tc.cur+1, len(tc.ops), op.key)
}

func (w *dnsWorld) tcpOpFinish(tc *dnsCliConn, err error) {
	s := w.s
	op := tc.ops[tc.cur]
	op.err = err
	op.end, op.endStep = s.Now(), s.Step
	op.genEnd = w.gen
	op.done = true
	delete(w.curOp, op.task)
	delete(w.chains, op.task)
	if err != nil {
		s.Notef("client c%d op %d: %v", op.cli, op.idx, err)
	}
	w.opsDone++
	w.afterOp(op)
	close(tc.replied[tc.cur])
	tc.cur++
}

// doTCPConn: client cli opens a TCP connection to the DNS server address (it is
// redirected to dae) and asks ops over it; pipelined: all queries are written
// before the first reply is read.
func (w *dnsWorld) doTCPConn(ops []*dnsOp, pipelined bool, timeout time.Duration) {
	s := w.s
	tc := &dnsCliConn{id: w.nCliConns, ops: ops}
	w.nCliConns++
	tc.cli, tc.srv = verifsim.NewStreamPair(s, fmt.Sprintf("dc%dc", tc.id), fmt.Sprintf("dc%ds", tc.id))
	verifsim.Reg(tc.cli)
	verifsim.Reg(tc.srv)
	for range ops {
		tc.replied = append(tc.replied, make(chan struct{}))
	}
	// frames dae writes to the client
	tc.srv.WriteHook = func(b []byte) (int, error) {
		tc.wbuf = append(tc.wbuf, b...)
		for len(tc.wbuf) >= 2 {
			n := int(binary.BigEndian.Uint16(tc.wbuf))
			if len(tc.wbuf) < 2+n {
				break
			}
			payload := append([]byte(nil), tc.wbuf[2:2+n]...)
			tc.wbuf = tc.wbuf[2+n:]
			if tc.cur >= len(tc.ops) {
				s.Failf("c09-unsolicited-reply", "tcp connection dc%d: a reply frame arrives although all %d questions have been answered", tc.id, len(tc.ops))
				return len(b), nil
			}
			op := tc.ops[tc.cur]
			var m dnsmessage.Msg
			var err error
			if e := m.Unpack(payload); e == nil && m.Rcode == dnsmessage.RcodeServerFailure && len(m.Answer) == 0 && m.Id == op.id {
				// the fast path's own error reply: the resolution failed
				err = errors.New("SERVFAIL from the tcp fast path")
			} else {
				w.onClientReply(op, payload)
			}
			s.Probe("dns.tcp-fast-path-reply")
			w.tcpOpFinish(tc, err)
			w.tcpOpBegin(tc)
		}
		return len(b), nil
	}
	frame := func(op *dnsOp) []byte {
		msg := new(dnsmessage.Msg)
		msg.Id = op.id
		msg.RecursionDesired = true
		msg.Question = []dnsmessage.Question{{Name: op.qname, Qtype: op.qtype, Qclass: dnsmessage.ClassINET}}
		p, err := msg.Pack()
		if err != nil {
			s.Failf("harness-dns", "pack: %v", err)
		}
		f := make([]byte, 2+len(p))
		binary.BigEndian.PutUint16(f, uint16(len(p)))
		copy(f[2:], p)
		return f
	}
	src := w.clientAddr(ops[0].cli)
	verifsim.Go("tcpdns", func() {
		tc.task = verifsim.TaskName()
		w.tcpOpBegin(tc)
		ctx, cancel := context.WithTimeout(context.Background(), timeout+time.Duration(len(ops))*timeout)
		lConn := dnsNetConn{StreamEnd: tc.srv, local: net.TCPAddrFromAddrPort(w.asis), remote: net.TCPAddrFromAddrPort(src)}
		handled, err := w.plane.handleTCPDnsFastPath(ctx, lConn, bufio.NewReader(lConn), src, w.asis, &bpfRoutingResult{})
		cancel()
		tc.handled = handled
		s.Notef("tcp connection dc%d: fast path returned handled=%v err=%v after %d of %d replies", tc.id, handled, err, tc.cur, len(tc.ops))
		for tc.cur < len(tc.ops) {
			w.tcpOpFinish(tc, fmt.Errorf("the connection ended without a reply (handled=%v, err=%v)", handled, err))
			w.tcpOpBegin(tc)
		}
		delete(w.curOp, tc.task)
		tc.srv.Close()
		tc.ended = true
	})
	// the client
	if pipelined && len(ops) > 1 {
		var all []byte
		for _, op := range ops {
			all = append(all, frame(op)...)
		}
		tc.cli.Write(all)
		s.Probe("dns.tcp-fast-path-pipelined-queries")
		for i := range ops {
			<-tc.replied[i]
			verifsim.YieldB("client-woke")
		}
	} else {
		for i, op := range ops {
			tc.cli.Write(frame(op))
			<-tc.replied[i]
			verifsim.YieldB("client-woke")
		}
	}
	tc.cli.Close()
	for !tc.ended {
		time.Sleep(time.Millisecond)
		verifsim.YieldB("client-woke")
	}
}
