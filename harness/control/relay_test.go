package control

// C05 / C06 (stream part): ControlPlane.handleConn -> DNS-over-TCP detection,
// prefetch, ConnSniffer, routeDial, RelayTCP — over simulated stream connections
// whose segmentation and timing the scheduler decides.

import (
	"bytes"
	"context"
	"crypto/tls"
	"encoding/binary"
	"errors"
	"fmt"
	"io"
	"net"
	"net/netip"
	"strings"
	"testing"
	"time"

	"github.com/daeuniverse/dae/common/consts"
	ob "github.com/daeuniverse/dae/component/outbound"
	componentdialer "github.com/daeuniverse/dae/component/outbound/dialer"
	verifsim "github.com/daeuniverse/dae/internal/verifsim"
	D "github.com/daeuniverse/outbound/dialer"
	"github.com/cilium/ebpf"
	"github.com/daeuniverse/dae/pkg/config_parser"
	"github.com/daeuniverse/outbound/netproxy"
	dnsmessage "github.com/miekg/dns"
	"github.com/sirupsen/logrus"
)

type relayHello struct {
	kind string // tls-sni, tls-nosni, http, random, dnsframe, tlsjunk
	name string // the name actually carried ("" = none)
	data []byte
	hdr  int // bytes that must be in the first chunk for the positive recognition clause
}

var relayCorpus []relayHello
var relayMatcher *RoutingMatcher

type detRand struct{ x uint64 }

func (r *detRand) Read(p []byte) (int, error) {
	for i := range p {
		r.x = r.x*6364136223846793005 + 1442695040888963407
		p[i] = byte(r.x >> 33)
	}
	return len(p), nil
}

func mkClientHello(sni string, maxV uint16, alpn []string, seed uint64) []byte {
	c1, c2 := net.Pipe()
	defer c1.Close()
	defer c2.Close()
	cfg := &tls.Config{ServerName: sni, InsecureSkipVerify: true, MinVersion: tls.VersionTLS12, MaxVersion: maxV, NextProtos: alpn,
		Rand: &detRand{x: seed}, Time: func() time.Time { return time.Unix(1700000000, 0) }}
	go func() { _ = tls.Client(c1, cfg).Handshake() }()
	buf := make([]byte, 16384)
	_ = c2.SetReadDeadline(time.Now().Add(2 * time.Second))
	n, _ := c2.Read(buf)
	return append([]byte(nil), buf[:n]...)
}

func relaySetup(t *testing.T) {
	if relayCorpus != nil {
		return
	}
	add := func(kind, name string, data []byte, hdr int) {
		relayCorpus = append(relayCorpus, relayHello{kind, name, data, hdr})
	}
	add("tls-sni", "www.example.com", mkClientHello("www.example.com", tls.VersionTLS13, nil, 1), 5)
	add("tls-sni", "a.b.c.test-site.org", mkClientHello("A.b.C.test-site.org", tls.VersionTLS13, []string{"h2", "http/1.1"}, 2), 5)
	add("tls-sni", "tls12.example.net", mkClientHello("tls12.example.net", tls.VersionTLS12, nil, 3), 5)
	add("tls-nosni", "", mkClientHello("", tls.VersionTLS13, nil, 4), 5)
	http1 := []byte("GET /index.html HTTP/1.1\r\nHost: Web.Example.ORG\r\nUser-Agent: sim\r\nAccept: */*\r\n\r\n")
	add("http", "web.example.org", http1, len(http1))
	http2 := []byte("POST /submit HTTP/1.1\r\nUser-Agent: sim\r\nhost: api.example.org:8080\r\nContent-Length: 5\r\n\r\nhello")
	add("http", "api.example.org:8080", http2, len(http2))
	add("random", "", []byte("SSH-2.0-OpenSSH_9.6\r\n\x00\x00\x01\x02binary-ish-start"), 0)
	add("tlsjunk", "", append([]byte{0x16, 0x03, 0x01, 0x00, 0x20}, bytes.Repeat([]byte{0x5a}, 32)...), 0)
	q := new(dnsmessage.Msg)
	q.SetQuestion("example.com.", dnsmessage.TypeA)
	packed, _ := q.Pack()
	fr := make([]byte, 2+len(packed))
	binary.BigEndian.PutUint16(fr, uint16(len(packed)))
	copy(fr[2:], packed)
	add("dnsframe", "", fr, 0)
	// a length-prefixed DNS *response* (QR=1): not a query, so not DNS client traffic - whatever
	// protocol it is, it has to be relayed like any other bytes, also on port 53
	rmsg := new(dnsmessage.Msg)
	rmsg.SetQuestion("example.org.", dnsmessage.TypeA)
	rmsg.Response = true
	rmsg.Answer = append(rmsg.Answer, &dnsmessage.A{Hdr: dnsmessage.RR_Header{Name: "example.org.", Rrtype: dnsmessage.TypeA, Class: dnsmessage.ClassINET, Ttl: 60}, A: net.IPv4(192, 0, 2, 1)})
	rpacked, _ := rmsg.Pack()
	rfr := make([]byte, 2+len(rpacked))
	binary.BigEndian.PutUint16(rfr, uint16(len(rpacked)))
	copy(rfr[2:], rpacked)
	add("dnsresp", "", rfr, 0)
	for _, h := range relayCorpus {
		if len(h.data) == 0 {
			t.Fatalf("corpus entry %s empty", h.kind)
		}
	}
	logger := logrus.New()
	logger.SetOutput(io.Discard)
	// one name is routed to the built-in direct outbound when the flow is routed again by name (domain++)
	rules, err := relayParseRules(`routing {
    domain(full: tls12.example.net) -> direct
    fallback: g
}`)
	if err != nil {
		t.Fatalf("relay rules: %v", err)
	}
	b, err := NewRoutingMatcherBuilder(logger, rules, map[string]uint8{"direct": 0, "block": 1, "g": 2}, nil, "g")
	if err != nil {
		t.Fatalf("matcher builder: %v", err)
	}
	relayMatcher, err = b.BuildUserspace()
	if err != nil {
		t.Fatalf("matcher: %v", err)
	}
}

// relayParseRules extracts the routing rules of a config text.
func relayParseRules(text string) ([]*config_parser.RoutingRule, error) {
	sections, err := config_parser.Parse(text)
	if err != nil {
		return nil, err
	}
	var rules []*config_parser.RoutingRule
	for _, sec := range sections {
		if sec.Name != "routing" {
			continue
		}
		for _, it := range sec.Items {
			if r, ok := it.Value.(*config_parser.RoutingRule); ok {
				rules = append(rules, r)
			}
		}
	}
	return rules, nil
}

func stamped(n int, tag byte) []byte {
	b := make([]byte, n)
	for i := range b {
		switch i % 4 {
		case 0:
			b[i] = tag
		case 1:
			b[i] = byte(i >> 16)
		case 2:
			b[i] = byte(i >> 8)
		case 3:
			b[i] = byte(i)
		}
	}
	return b
}

type relayOp struct {
	kind  int // 0 write, 1 sleep, 2 closeWrite, 3 wait for peer bytes, 4 close
	data  []byte
	sleep time.Duration
	wait  int
}

func relayScenario(s *verifsim.Sim) {
	T := s.T
	s.BusyMaxQ = 4 // <= 1ms while tasks are runnable: keeps scheduler-induced delay small
	logger := logrus.New()
	logger.SetOutput(io.Discard)

	faults := T.Chance(1, 3)
	// half of the runs let the simulated streams answer the gather write's "is more
	// queued in the socket" question (TIOCINQ on a real *net.TCPConn): relay_hooks.go.txt
	verifRelaySeamReset(T.Chance(1, 2))
	// the datapath's decision for the first packet: none recorded (userspace routing), or - what
	// the kernel would decide from the address alone with these rules - the proxy group
	preRouted := T.Chance(1, 2)
	verifRelayRouting = func(src, dst netip.AddrPort, l4proto uint8) (*bpfRoutingResult, error) {
		if preRouted {
			return &bpfRoutingResult{Outbound: 2}, nil
		}
		return nil, ebpf.ErrKeyNotExist
	}
	port := []uint16{443, 80, 53, 22, 8443}[T.Pick(4, 2, 3, 1, 1)]
	sniffTimeout := []time.Duration{100 * time.Millisecond, 20 * time.Millisecond, 500 * time.Millisecond}[T.Choose(3)]
	dialMode := []consts.DialMode{consts.DialMode_DomainPlus, consts.DialMode_Ip, consts.DialMode_DomainCao}[T.Pick(3, 1, 2)]
	var hello *relayHello
	if !T.Chance(1, 6) { // else: server-first protocol, the client sends nothing at first
		h := relayCorpus[T.Choose(len(relayCorpus))]
		if port == 53 && h.kind == "dnsframe" {
			// a well-formed DNS query on port 53 belongs to the DNS path (dnssim); this
			// engine has no DNS controller, so port 53 only carries non-DNS bytes here
			h = relayCorpus[0]
		}
		hello = &h
	}
	const grace = 10 * time.Second // the relay's documented half-close grace (relayHalfCloseTimeout)
	sniffable := dialMode != consts.DialMode_Ip && !map[uint16]bool{53: true, 22: true}[port]

	// ---- the control plane under test (only what handleConn touches)
	sd := &verifsim.SimDialer{Name: "up"}
	d := componentdialer.NewDialer(sd, &componentdialer.GlobalOption{Log: logger, CheckInterval: 30 * time.Second},
		componentdialer.InstanceOption{DisableCheck: true}, &componentdialer.Property{Property: D.Property{Name: "node", Address: "198.51.100.7:443", Protocol: "trojan"}})
	defer d.Close()
	opt := &componentdialer.GlobalOption{Log: logger, CheckInterval: 30 * time.Second}
	nop := func(bool, *componentdialer.NetworkType, bool) {}
	fixed := ob.DialerSelectionPolicy{Policy: consts.DialerSelectionPolicy_Fixed}
	viaDirect := false
	sdDirect := &verifsim.SimDialer{Name: "direct"}
	sdDirect.Plan = func(ctx context.Context, network, addr string) verifsim.DialPlan {
		viaDirect = true
		return sd.Plan(ctx, network, addr)
	}
	dd := componentdialer.NewDialer(sdDirect, opt, componentdialer.InstanceOption{DisableCheck: true}, &componentdialer.Property{Property: D.Property{Name: "direct"}})
	defer dd.Close()
	groups := []*ob.DialerGroup{
		ob.NewDialerGroup(opt, "direct", []*componentdialer.Dialer{dd}, []*componentdialer.Annotation{{}}, fixed, nop),
		ob.NewDialerGroup(opt, "block", []*componentdialer.Dialer{dd}, []*componentdialer.Annotation{{}}, fixed, nop),
		ob.NewDialerGroup(opt, "g", []*componentdialer.Dialer{d}, []*componentdialer.Annotation{{}}, fixed, nop),
	}
	cp := &ControlPlane{log: logger, core: &controlPlaneCore{log: logger}, sniffingTimeout: sniffTimeout, tcpSniffNegSet: map[tcpSniffNegKey]tcpSniffNegEntry{}}
	cp.outbounds, cp.routingMatcher, cp.dialMode = groups, relayMatcher, dialMode

	srcAddr := netip.MustParseAddrPort("10.1.2.3:40000")
	dstAddr := netip.AddrPortFrom(netip.MustParseAddr("93.184.216.34"), port)
	cli, lEnd := verifsim.NewStreamPair(s, "client", "lconn")
	cli.AutoDeliver = true // what the client receives need not be re-segmented
	lConn := &verifsim.StreamNetConn{StreamEnd: lEnd, Local: net.TCPAddrFromAddrPort(dstAddr), Remote: net.TCPAddrFromAddrPort(srcAddr)}

	// ---- payloads and scripts
	c2s := []byte{}
	if hello != nil {
		c2s = append(c2s, hello.data...)
	}
	tail := stamped([]int{0, 7, 300, 5000, 40000}[T.Pick(2, 3, 3, 2, 1)], 'C')
	s2c := stamped([]int{0, 9, 400, 6000, 70000}[T.Pick(1, 3, 3, 2, 1)], 'S')
	serverFirst := hello == nil || T.Chance(1, 5)

	gaps := []time.Duration{0, 0, sniffTimeout / 4, 2 * sniffTimeout, 7 * time.Second}
	var cops []relayOp
	helloAllAtOnce := true
	firstChunk := 0
	trickle := hello != nil && len(hello.data) > 40 && T.Chance(1, 8)
	if trickle {
		// a slow client: the first bytes arrive in many small pieces, each well within one sniffing
		// timeout of the previous one, the whole taking several timeouts (dae's detection must
		// still give up after its window instead of waiting for as long as the client trickles)
		n := T.Range(6, 12)
		rest := hello.data
		step := len(rest) / (n + 1)
		if step < 1 {
			step = 1
		}
		first := 5 + T.Choose(8)
		if first >= len(rest) {
			first = len(rest) / 2
		}
		firstChunk = first
		cops = append(cops, relayOp{kind: 0, data: rest[:first]})
		rest = rest[first:]
		for i := 0; i < n && len(rest) > step; i++ {
			cops = append(cops, relayOp{kind: 1, sleep: sniffTimeout * 4 / 5}, relayOp{kind: 0, data: rest[:step]})
			rest = rest[step:]
		}
		cops = append(cops, relayOp{kind: 1, sleep: sniffTimeout * 4 / 5}, relayOp{kind: 0, data: rest})
		helloAllAtOnce = false
	} else if hello != nil {
		// cut the first bytes into 1-4 writes with gaps
		cuts := T.Range(0, 3)
		rest := hello.data
		for i := 0; i < cuts && len(rest) > 1; i++ {
			k := 1 + T.Choose(len(rest)-1)
			if T.Chance(1, 3) && len(rest) > 6 {
				k = 1 + T.Choose(6) // cut inside / right after the record header
			}
			if firstChunk == 0 {
				firstChunk = k
			}
			cops = append(cops, relayOp{kind: 0, data: rest[:k]})
			if g := gaps[T.Choose(len(gaps))]; g > 0 {
				cops = append(cops, relayOp{kind: 1, sleep: g})
			}
			helloAllAtOnce = false
			rest = rest[k:]
		}
		if firstChunk == 0 {
			firstChunk = len(rest)
		}
		cops = append(cops, relayOp{kind: 0, data: rest})
	} else {
		// server-first: wait for the server's greeting before talking
		if len(s2c) > 0 {
			cops = append(cops, relayOp{kind: 3, wait: 1})
		} else {
			cops = append(cops, relayOp{kind: 1, sleep: 8 * time.Second})
		}
	}
	closeOrder := T.Choose(3) // 0 client half-closes first, 1 server first, 2 both at once
	midIdle := []time.Duration{0, 0, 7 * time.Second, 25 * time.Second}[T.Choose(4)]
	if closeOrder == 1 && midIdle > 5*time.Second {
		// once the upstream has half-closed, the client direction is only guaranteed
		// for the grace period: keep the client's script well inside it
		midIdle = 5 * time.Second
	}
	// a client that has nothing to say: it shuts down its sending side right away (inside
	// dae's wait for a first byte) and listens (server-first protocol, `nc -N host port </dev/null`)
	earlyFin := hello == nil && closeOrder != 1 && T.Chance(1, 3)
	if earlyFin {
		tail, cops = nil, nil
		if g := []time.Duration{0, sniffTimeout / 4}[T.Choose(2)]; g > 0 {
			cops = append(cops, relayOp{kind: 1, sleep: g})
		}
	}
	if len(tail) > 0 {
		half := len(tail) / 2
		if half > 0 {
			cops = append(cops, relayOp{kind: 0, data: tail[:half]})
		}
		if midIdle > 0 {
			cops = append(cops, relayOp{kind: 1, sleep: midIdle})
		}
		cops = append(cops, relayOp{kind: 0, data: tail[half:]})
	}
	c2s = append(c2s, tail...)
	lateServerData := T.Chance(1, 2)
	serverLateGap := []time.Duration{time.Second, grace - 3*time.Second}[T.Choose(2)]

	// ---- observations
	type obs struct {
		tAccept, tDial, tServerFirst time.Duration
		dialTarget                    string
		dialed                        bool
		srvGot, cliGot                []byte
		srvEOF, cliEOF                time.Duration
		srvErr, cliErr                error
		cliCloseWriteAt               time.Duration
		srvCloseWriteAt               time.Duration
		cliDone, srvDone, hDone       bool
		hErr                          error
		firstDelivered                time.Duration
		allHelloDelivered             time.Duration
		faultFired                    bool
		// bytes that had reached dae's sockets while the direction was still
		// guaranteed to flow (before the other side's half-close + grace)
		safeL2R, safeR2L int
		firstDeliverySize int // bytes of the very first delivery that reached dae
	}
	o := &obs{tAccept: -1, tDial: -1, tServerFirst: -1, srvEOF: -1, cliEOF: -1, cliCloseWriteAt: -1, srvCloseWriteAt: -1, firstDelivered: -1, allHelloDelivered: -1}
	var up, srv *verifsim.StreamEnd

	readAll := func(e *verifsim.StreamEnd, into *[]byte, eofAt *time.Duration, errp *error, onData func()) {
		buf := make([]byte, 4096)
		for {
			n, err := e.Read(buf)
			if n > 0 {
				*into = append(*into, buf[:n]...)
				if onData != nil {
					onData()
				}
			}
			if err != nil {
				if err == io.EOF {
					*eofAt = s.Now()
				} else {
					*errp = err
				}
				return
			}
		}
	}

	// server behaviour: started when dae dials
	sd.Plan = func(ctx context.Context, network, addr string) verifsim.DialPlan {
		o.tDial = s.Now()
		o.dialTarget = addr
		if faults && T.Chance(1, 6) {
			s.Fault("dial-error")
			o.faultFired = true
			return verifsim.DialPlan{Err: verifsim.ErrSimRefused}
		}
		o.dialed = true
		up, srv = verifsim.NewStreamPair(s, "upstream", "server")
		srv.AutoDeliver = true
		if faults && T.Chance(1, 5) {
			k := T.Choose(64)
			cnt := 0
			up.WriteHook = func(b []byte) (int, error) {
				if cnt+len(b) > k {
					s.Fault("upstream-write-error")
					o.faultFired = true
					n := k - cnt
					if n < 0 {
						n = 0
					}
					cnt += n
					return n, verifsim.ErrSimGeneric
				}
				cnt += len(b)
				return len(b), nil
			}
		}
		plan := verifsim.DialPlan{Conn: up, Delay: []time.Duration{0, time.Millisecond, 300 * time.Millisecond}[T.Choose(3)]}
		verifsim.Go("server", func() {
			defer func() { o.srvDone = true }()
			gotCh := 0
			// reader
			readerDone := false
			verifsim.Go("server-reader", func() {
				readAll(srv, &o.srvGot, &o.srvEOF, &o.srvErr, func() {
					if o.tServerFirst < 0 {
						o.tServerFirst = s.Now()
					}
					gotCh = len(o.srvGot)
				})
				readerDone = true
			})
			waitFor := func(cond func() bool, max time.Duration) {
				dl := s.Now() + max
				for !cond() && s.Now() < dl && !s.Failed() {
					time.Sleep(50 * time.Millisecond)
					verifsim.YieldB("server-poll")
				}
			}
			if !serverFirst {
				waitFor(func() bool { return gotCh > 0 || readerDone }, 60*time.Second)
			}
			half := len(s2c) / 2
			if half > 0 {
				srv.Write(s2c[:half])
			}
			switch closeOrder {
			case 0:
				// client half-closes first: keep sending for a while after its EOF
				waitFor(func() bool { return readerDone }, 120*time.Second)
				if lateServerData && o.srvEOF >= 0 {
					time.Sleep(serverLateGap)
					verifsim.YieldB("server-woke")
				}
				srv.Write(s2c[half:])
				o.srvCloseWriteAt = s.Now()
				srv.CloseWrite()
			case 1:
				srv.Write(s2c[half:])
				o.srvCloseWriteAt = s.Now()
				srv.CloseWrite()
				waitFor(func() bool { return readerDone }, 120*time.Second)
			default:
				srv.Write(s2c[half:])
				waitFor(func() bool { return readerDone || len(o.srvGot) >= len(c2s) }, 120*time.Second)
				o.srvCloseWriteAt = s.Now()
				srv.CloseWrite()
				waitFor(func() bool { return readerDone }, 30*time.Second)
			}
			waitFor(func() bool { return readerDone }, 30*time.Second)
			srv.Close()
		})
		return plan
	}

	// environment faults
	if faults {
		budget := 1
		s.AddEvent(&verifsim.Event{Name: "reset-from-client", Enabled: func() bool { return budget > 0 && o.dialed && !o.cliDone && T != nil }, Weight: 1, Fire: func() {
			budget--
			if T.Chance(1, 3) {
				o.faultFired = true
				s.Fault("client-reset")
				cli.Reset(errors.New("read: connection reset by peer"))
			}
		}})
	}

	// track delivery times of the client's first bytes to dae
	s.Invariant = func() {
		now := s.Now()
		if o.srvCloseWriteAt < 0 || now < o.srvCloseWriteAt+grace-time.Second {
			if n := lEnd.ReadTotal + lEnd.Unread(); n > o.safeL2R {
				o.safeL2R = n
			}
		}
		if up != nil && (o.cliCloseWriteAt < 0 || now < o.cliCloseWriteAt+grace-time.Second) {
			if n := up.ReadTotal + up.Unread(); n > o.safeR2L {
				o.safeR2L = n
			}
		}
		if hello == nil {
			return
		}
		got := lEnd.ReadTotal + lEnd.Unread()
		if got > 0 && o.firstDelivered < 0 {
			o.firstDelivered = s.Now()
			o.firstDeliverySize = got
		}
		if got >= len(hello.data) && o.allHelloDelivered < 0 {
			o.allHelloDelivered = s.Now()
		}
	}

	ctx, cancel := context.WithCancel(context.Background())
	defer cancel()
	verifsim.Go("handle", func() {
		o.tAccept = s.Now()
		o.hErr = cp.handleConn(ctx, lConn)
		o.hDone = true
	})
	verifsim.Go("client", func() {
		defer func() { o.cliDone = true }()
		readerDone := false
		verifsim.Go("client-reader", func() {
			readAll(cli, &o.cliGot, &o.cliEOF, &o.cliErr, nil)
			readerDone = true
		})
		for _, op := range cops {
			if s.Failed() {
				return
			}
			switch op.kind {
			case 0:
				if _, err := cli.Write(op.data); err != nil {
					return
				}
			case 1:
				time.Sleep(op.sleep)
				verifsim.YieldB("client-woke")
			case 3:
				dl := s.Now() + 30*time.Second
				for len(o.cliGot) < op.wait && !readerDone && s.Now() < dl {
					time.Sleep(50 * time.Millisecond)
					verifsim.YieldB("client-poll")
				}
			}
		}
		waitReader := func(max time.Duration) {
			dl := s.Now() + max
			for !readerDone && s.Now() < dl && !s.Failed() {
				time.Sleep(50 * time.Millisecond)
				verifsim.YieldB("client-poll")
			}
		}
		switch closeOrder {
		case 0, 2:
			o.cliCloseWriteAt = s.Now()
			cli.CloseWrite()
			waitReader(120 * time.Second)
		case 1:
			waitReader(120 * time.Second) // server closes first
			o.cliCloseWriteAt = s.Now()
			cli.CloseWrite()
		}
		waitReader(30 * time.Second)
		cli.Close()
	})

	finished := func() bool { return o.hDone && o.cliDone && (!o.dialed || o.srvDone) }
	if !s.RunUntil(finished, 9) {
		if s.Failed() {
			return
		}
		if s.Step >= s.MaxSteps {
			s.Probe("step-budget-exhausted")
			// bounded liveness: both peers give up after at most a few simulated minutes; a
			// connection handler still running 15 minutes after it accepted is wedged
			if !o.hDone && o.tAccept >= 0 && s.Now()-o.tAccept > 15*time.Minute {
				s.Failf("c05-handler-never-returns", "port=%d mode=%v hello=%v: handleConn accepted at %v and has not returned at %v although both peers have long gone (client done=%v, server done=%v); live tasks: %v", port, dialMode, helloKind(hello), o.tAccept, s.Now(), o.cliDone, o.srvDone, s.LiveTasks("handle"))
				return
			}
			cancel()
			cli.Close()
			if srv != nil {
				srv.Close()
			}
			s.Quiesce(finished, 0, time.Minute)
			return
		}
	}
	s.Quiesce(func() bool { return len(s.LiveTasks("tcp_relay_core.go")) == 0 }, 0, 30*time.Second)
	if s.Failed() {
		return
	}

	// ---------------- oracle ----------------
	desc := fmt.Sprintf("port=%d mode=%v sniff=%v hello=%v serverFirst=%v closeOrder=%d idle=%v", port, dialMode, sniffTimeout, helloKind(hello), serverFirst, closeOrder, midIdle)
	prefixOf := func(got, sent []byte) bool { return len(got) <= len(sent) && bytes.Equal(got, sent[:len(got)]) }
	if !prefixOf(o.srvGot, c2s) {
		s.Failf("c05-corrupt-l2r", "%s: upstream received %d bytes that are not a prefix of the %d bytes the client sent (first difference at %d)", desc, len(o.srvGot), len(c2s), firstDiff(o.srvGot, c2s))
		return
	}
	if !prefixOf(o.cliGot, s2c) {
		s.Failf("c05-corrupt-r2l", "%s: client received %d bytes that are not a prefix of the %d bytes the upstream sent (first difference at %d)", desc, len(o.cliGot), len(s2c), firstDiff(o.cliGot, s2c))
		return
	}
	// C18 at the node: a flow that ends on a built-in outbound (here: routed again by its sniffed
	// name to direct) is dialled by its original destination address, never by the name
	if o.tDial >= 0 && viaDirect {
		s.Probe("relay.rerouted-to-direct")
		if o.dialTarget != dstAddr.String() {
			s.Failf("c18-name-sent-through-builtin-outbound", "%s: the flow was routed to the built-in direct outbound but its dialer received %q instead of the original destination %s", desc, o.dialTarget, dstAddr)
			return
		}
	}
	if dialMode == consts.DialMode_DomainCao && hello != nil && hello.name == "tls12.example.net" && o.tDial >= 0 && !viaDirect && !o.faultFired {
		if h, _, err := net.SplitHostPort(o.dialTarget); err == nil && strings.EqualFold(h, hello.name) {
			s.Failf("c18-not-rerouted", "%s: domain++ sent the sniffed name %q to the proxy group although the rules route that name to direct", desc, hello.name)
			return
		}
	}
	// C06: the name handed to the dialer
	if o.tDial >= 0 && !viaDirect {
		host := o.dialTarget
		if h, _, err := net.SplitHostPort(o.dialTarget); err == nil {
			host = h
		}
		if _, err := netip.ParseAddr(host); err != nil {
			// a name was used
			want := ""
			if hello != nil {
				want = hello.name
			}
			wantHost := want
			if h, _, err := net.SplitHostPort(want); err == nil {
				wantHost = h
			}
			if hello != nil && hello.kind == "http" && host != "" && len(host) < len(wantHost) && strings.EqualFold(host, wantHost[:len(host)]) {
				s.Failf("c06-wrong-name@truncated-http-host", "%s: dae dialled %q: the HTTP request head was cut inside its Host line and the sniffer took the partial value for the name (the head carries %q)", desc, o.dialTarget, want)
				return
			}
			if want == "" || !strings.EqualFold(host, wantHost) {
				s.Failf("c06-wrong-name", "%s: dae dialled %q but the client's first bytes carry the name %q", desc, o.dialTarget, want)
				return
			}
			s.Probe("relay.name-sniffed")
		} else if hello != nil && hello.name != "" && sniffable && hello.hdr > 0 && firstChunk >= hello.hdr && o.firstDeliverySize >= hello.hdr &&
			o.allHelloDelivered >= 0 && o.firstDelivered >= 0 && o.allHelloDelivered-o.firstDelivered < sniffTimeout/2 && !o.faultFired &&
			o.tAccept >= 0 && o.firstDelivered-o.tAccept < sniffTimeout/2 && // dae only waits one sniffing timeout for a first byte
			(hello.kind != "http" || helloAllAtOnce) {
			s.Failf("c06-name-missed", "%s: the whole %s (%d bytes, first chunk %d) reached dae within %v of its first byte, yet dae dialled the IP %q instead of %q", desc, hello.kind, len(hello.data), firstChunk, o.allHelloDelivered-o.firstDelivered, o.dialTarget, hello.name)
			return
		}
		// detection delay
		window := time.Duration(0)
		if sniffable {
			window = 2 * sniffTimeout
		}
		if port == 53 {
			window = TCPDNSFirstReadTimeout
		}
		if o.tDial-o.tAccept > window+time.Second {
			s.Failf("c05-detection-delay", "%s: dae dialled the upstream %v after accepting the connection; its detection window is %v", desc, o.tDial-o.tAccept, window)
			return
		}
	}
	if !faults && o.tDial < 0 {
		s.Failf("c05-never-dialled", "%s earlyFin=%v: dae accepted a healthy connection (the client stayed to the end, half-closed at %v) but never dialled the upstream; handleConn returned %v", desc, earlyFin, o.cliCloseWriteAt, o.hErr)
		return
	}
	if earlyFin {
		s.Probe("relay.payloadless-client-fin")
	}
	if o.faultFired || !o.dialed {
		// relaxed: an injected error may lose data, never corrupt it (checked above); both ends must be released
		if !lEnd.IsClosed() {
			s.Failf("c05-conn-leak", "%s: after an injected failure the client-side connection was never closed", desc)
		}
		if up != nil && !up.IsClosed() {
			s.Failf("c05-conn-leak", "%s: after an injected failure the upstream connection was never closed", desc)
		}
		return
	}
	// ---- fault-free: complete delivery, half-close, no spurious cut
	// The opposite direction is only guaranteed for the grace period after the
	// first half-close; the scripts keep late data at least 3 s inside it.
	if len(o.srvGot) < o.safeL2R {
		s.Failf("c05-lost-l2r", "%s: healthy connection, %d of the client's %d bytes had reached dae while that direction was still guaranteed to flow, the upstream received only %d (server read error: %v, EOF at %v, client half-closed at %v, server half-closed at %v)", desc, o.safeL2R, len(c2s), len(o.srvGot), o.srvErr, o.srvEOF, o.cliCloseWriteAt, o.srvCloseWriteAt)
		return
	}
	if len(o.cliGot) < o.safeR2L {
		s.Failf("c05-lost-r2l", "%s: healthy connection, %d of the upstream's %d bytes had reached dae while that direction was still guaranteed to flow, the client received only %d (client read error: %v, EOF at %v, client half-closed at %v, server half-closed at %v)", desc, o.safeR2L, len(s2c), len(o.cliGot), o.cliErr, o.cliEOF, o.cliCloseWriteAt, o.srvCloseWriteAt)
		return
	}
	if bytes.Equal(o.srvGot, c2s) && bytes.Equal(o.cliGot, s2c) {
		s.Probe("relay.complete-both-directions")
	}
	if o.srvEOF < 0 {
		s.Failf("c05-no-halfclose-l2r", "%s: the client shut down its sending side at %v but the upstream never saw end of stream (server read error: %v)", desc, o.cliCloseWriteAt, o.srvErr)
		return
	}
	if o.cliEOF < 0 {
		s.Failf("c05-no-halfclose-r2l", "%s: the upstream shut down its sending side at %v but the client never saw end of stream (client read error: %v)", desc, o.srvCloseWriteAt, o.cliErr)
		return
	}
	if o.cliCloseWriteAt >= 0 && o.srvEOF < o.cliCloseWriteAt && !(o.srvCloseWriteAt >= 0 && o.srvEOF > o.srvCloseWriteAt+grace-time.Second) {
		s.Failf("c05-healthy-cut", "%s: the upstream saw end of stream at %v although the client only shut down at %v", desc, o.srvEOF, o.cliCloseWriteAt)
		return
	}
	if o.srvCloseWriteAt >= 0 && o.cliEOF < o.srvCloseWriteAt && !(o.cliCloseWriteAt >= 0 && o.cliEOF > o.cliCloseWriteAt+grace-time.Second) {
		s.Failf("c05-healthy-cut", "%s: the client saw end of stream at %v although the upstream only shut down at %v", desc, o.cliEOF, o.srvCloseWriteAt)
		return
	}
	if lEnd.EOFDeliveredAt >= 0 && o.srvEOF > lEnd.EOFDeliveredAt+2*time.Second && (o.srvCloseWriteAt < 0 || lEnd.EOFDeliveredAt < o.srvCloseWriteAt+grace-3*time.Second) {
		s.Failf("c05-halfclose-not-forwarded@l2r", "%s: the client's end of stream reached dae at %v but the upstream only saw end of stream at %v", desc, lEnd.EOFDeliveredAt, o.srvEOF)
		return
	}
	if up.EOFDeliveredAt >= 0 && o.cliEOF > up.EOFDeliveredAt+2*time.Second && (o.cliCloseWriteAt < 0 || up.EOFDeliveredAt < o.cliCloseWriteAt+grace-3*time.Second) {
		s.Failf("c05-halfclose-not-forwarded@r2l", "%s: the upstream's end of stream reached dae at %v but the client only saw end of stream at %v", desc, up.EOFDeliveredAt, o.cliEOF)
		return
	}
	if !lEnd.IsClosed() || !up.IsClosed() {
		s.Failf("c05-conn-leak", "%s: relay finished but a connection was left open (client side closed=%v upstream closed=%v)", desc, lEnd.IsClosed(), up.IsClosed())
		return
	}
	if midIdle > 0 {
		s.Probe("relay.idle-gap-survived")
	}
	if port == 53 {
		s.Probe("relay.port53")
	}
	if serverFirst {
		s.Probe("relay.server-first")
	}
	if closeOrder == 0 && lateServerData {
		s.Probe("relay.data-after-client-halfclose")
	}
}

func helloKind(h *relayHello) string {
	if h == nil {
		return "none"
	}
	return h.kind
}

func firstDiff(a, b []byte) int {
	n := len(a)
	if len(b) < n {
		n = len(b)
	}
	for i := 0; i < n; i++ {
		if a[i] != b[i] {
			return i
		}
	}
	return n
}

var _ netproxy.Conn = (*verifsim.StreamEnd)(nil)

func TestSimC05(t *testing.T) {
	relaySetup(t)
	verifsim.Main(t, verifsim.Engine{
		Prop: "C05", Name: "relay", MaxSteps: 40000, Scenario: relayScenario,
		Reset: func() { componentdialer.ResetGlobalProxyStateForReload() },
		Real:  []string{"control.ControlPlane.handleConn (DNS-over-TCP detection, bufioConn, prefetchForTcpSniff, prefixedConn, negative sniff cache), routeDial/chooseProxyDialer/ChooseDialTarget, RelayTCPContextWithRecords: relayCore.run, defaultRelayCopyEngine (gather prefix write, continuation copy, buffered loop)", "component/sniffing ConnSniffer / Sniffer stream path (TLS + HTTP)", "real userspace RoutingMatcher, DialerGroup, dialer.Dialer"},
		Stubs: []string{"client and upstream connections: simulated streams (not *net.TCPConn): splice and writev system calls are not executed; the TIOCINQ question of the gather write is answered by the simulated stream in half of the runs (overlay seam relay_hooks.go.txt)", "conn_state/routing hand-over lookup: scripted through an overlay seam (no record = documented userspace-routing fallback, or the proxy group the datapath would pick from the address alone)", "DNS controller absent: valid DNS-over-TCP frames on port 53 fall through to the relay"},
		Rule:  "tape draws destination port (443/80/53/22/8443), dial mode, sniff timeout, first bytes (TLS ClientHello with/without SNI from crypto/tls, HTTP/1 heads, SSH banner, TLS-looking junk, DNS frame, or nothing = server-first), cut points and gaps of the first bytes relative to the timeout, payload sizes up to 70 KB, mid-connection idle gaps up to 25 s, order of the two half-closes, late data inside the grace period, dial delay; fault runs add dial failure, upstream write error after k bytes, client reset; the scheduler re-segments and delays every delivery",
	})
}
