package control

// dnssim — observation of the controller's cache (ground truth of which entries
// exist, taken after every scheduler step) and the simulated domain_routing_map.

import (
	"errors"
	"fmt"
	"net/netip"
	"sort"
	"strconv"
	"strings"
	"time"

	"github.com/bits-and-blooms/bloom/v3"
	"github.com/cilium/ebpf"
	"github.com/daeuniverse/dae/common"
	verifsim "github.com/daeuniverse/dae/internal/verifsim"
	dnsmessage "github.com/miekg/dns"
)

func dnsNewBloom() *bloom.BloomFilter { return bloom.NewWithEstimates(2048, 0.001) }

type dnsEntryObs struct {
	raw              string
	key              dnsKey
	keyOK            bool
	ptr              *DnsCache
	ids              []int
	ips              []netip.Addr
	foreign          string // non-empty: a record that does not belong to the key
	insertedAt       time.Duration
	insertStep       int
	removedAt        time.Duration
	removeStep       int
	removed          bool
	replaced         bool
	removeCtx        string
	ttl              uint32
	hasTTL           bool
	ttlMax           uint32 // largest record TTL of the answer (mixed-TTL answers)
	ttlFirst         uint32 // TTL of the first record
	refreshed        bool   // inserted by a background refresh
	replacedExisting bool   // stored over an entry that was cached under the key at that moment
	restored         bool   // came from a reload clone: keeps the deadline of its origin
	origin           *dnsEntryObs
	countAtRemoval   int
}

// cause: the controller path that evicted the entry (known once its delete callback ran).
func (e *dnsEntryObs) cause(w *dnsWorld) string {
	if c, ok := w.evictCause[e.ptr]; ok {
		return c
	}
	return e.removeCtx
}

// lifetime returns the scripted/effective TTL deadline of the entry (ok=false when unknown).
func (e *dnsEntryObs) deadline(w *dnsWorld) (time.Duration, bool) {
	o := e
	for o.restored && o.origin != nil {
		o = o.origin
	}
	if !o.hasTTL {
		return 0, false
	}
	ttl := time.Duration(o.ttl) * time.Second
	if f, ok := w.cfg.fixed[dnsAllNames[o.key.name]]; ok && o.keyOK {
		ttl = time.Duration(f) * time.Second
	}
	return o.insertedAt + ttl, true
}

// mixedTTL: the answer's records carry different TTLs and no fixed TTL overrides them.
func (e *dnsEntryObs) mixedTTL(w *dnsWorld) bool {
	o := e
	for o.restored && o.origin != nil {
		o = o.origin
	}
	if !o.hasTTL || o.ttlFirst == o.ttl || !o.keyOK {
		return false
	}
	_, fixed := w.cfg.fixed[dnsAllNames[o.key.name]]
	return !fixed
}

// deadlineByFirstRecord: the deadline an implementation gets that takes the TTL of
// the first record for the whole answer (used only to class a finding).
func (e *dnsEntryObs) deadlineByFirstRecord() time.Duration {
	o := e
	for o.restored && o.origin != nil {
		o = o.origin
	}
	return o.insertedAt + time.Duration(o.ttlFirst)*time.Second
}

// originalDeadlineMax: the latest instant any record of the answer is valid (ignores fixed_domain_ttl).
func (e *dnsEntryObs) originalDeadlineMax() (time.Duration, bool) {
	o := e
	for o.restored && o.origin != nil {
		o = o.origin
	}
	if !o.hasTTL {
		return 0, false
	}
	return o.insertedAt + time.Duration(o.ttlMax)*time.Second, true
}

// originalDeadline ignores fixed_domain_ttl.
func (e *dnsEntryObs) originalDeadline() (time.Duration, bool) {
	o := e
	for o.restored && o.origin != nil {
		o = o.origin
	}
	if !o.hasTTL {
		return 0, false
	}
	return o.insertedAt + time.Duration(o.ttl)*time.Second, true
}

type dnsUse struct{ min, max time.Duration }

type dnsCacheTrack struct {
	w         *dnsWorld
	ctl       *DnsController
	cur       map[string]*dnsEntryObs
	hist      []*dnsEntryObs
	lastUse   map[dnsKey]dnsUse
	rejects   map[[2]int]time.Duration // (name, qtype) -> last time a question for it was routed to reject
	frozen    bool
	restoring bool
}

func dnsNewTrack(w *dnsWorld) *dnsCacheTrack {
	return &dnsCacheTrack{w: w, cur: map[string]*dnsEntryObs{}, lastUse: map[dnsKey]dnsUse{}, rejects: map[[2]int]time.Duration{}}
}

func (w *dnsWorld) parseCacheKey(raw string) (dnsKey, bool) {
	base, scope, _ := strings.Cut(raw, "|")
	i := strings.LastIndex(base, ".")
	if i < 0 {
		return dnsKey{}, false
	}
	qt, err := strconv.Atoi(base[i+1:])
	if err != nil {
		return dnsKey{}, false
	}
	k := dnsKey{name: w.nameIndex(base[:i+1]), qtype: uint16(qt), scope: -100}
	if k.name < 0 {
		return k, false
	}
	switch {
	case strings.HasPrefix(scope, "upstream@"):
		for _, u := range w.ups {
			if scope == "upstream@"+u.scheme+"://"+u.hostPort() {
				k.scope = u.idx
			}
		}
	case strings.HasPrefix(scope, "asis"):
		k.scope = len(w.ups)
		if scope == "asis@"+w.asis2.String() {
			k.scope = len(w.ups) + 1
		}
	}
	return k, k.scope != -100
}

// scan diffs the controller's cache against the last observation. It runs after
// every scheduler step; simulated time does not advance inside a task segment, so
// insertion and removal instants are exact.
func (t *dnsCacheTrack) scan() {
	if t.frozen || t.ctl == nil || t.ctl.dnsControllerStore == nil {
		return
	}
	w := t.w
	now, step := w.s.Now(), w.s.Step
	if w.mode == dnsModeC08 {
		w.c08FlushLRU()
	}
	seen := map[string]bool{}
	var news []*dnsEntryObs
	t.ctl.dnsCache.Range(func(k, v any) bool {
		raw, _ := k.(string)
		c, _ := v.(*DnsCache)
		if c == nil {
			return true
		}
		seen[raw] = true
		old := t.cur[raw]
		if old != nil && old.ptr == c {
			return true
		}
		e := &dnsEntryObs{raw: raw, ptr: c, insertedAt: now, insertStep: step}
		e.key, e.keyOK = w.parseCacheKey(raw)
		e.ids, e.ips = w.decodeAnswers(c.Answer)
		if e.keyOK {
			if rr := dnsRecordsBelong(c.Answer, dnsAllNames[e.key.name], e.key.qtype); rr != nil {
				e.foreign = fmt.Sprintf("record %s %s", rr.Header().Name, dnsmessage.TypeToString[rr.Header().Rrtype])
			}
		}
		for _, id := range e.ids {
			if a := w.ansByID(id); a != nil {
				e.ttl, e.ttlMax, e.ttlFirst, e.hasTTL = a.ttl, a.ttlMax, a.ttlFirst, true
				if a.chain != nil && a.chain.refresh {
					e.refreshed = true
				}
				if e.keyOK && (a.name != e.key.name || a.qtype != e.key.qtype) && e.foreign == "" {
					e.foreign = fmt.Sprintf("answer a%d scripted for %s %s", a.id, dnsAllNames[a.name], dnsmessage.TypeToString[a.qtype])
				}
			}
		}
		if len(e.ids) == 0 && len(c.Answer) == 0 {
			// empty answer: the controller caches it with its own minimum; no TTL demand is made
			e.hasTTL = false
		}
		if old != nil {
			old.removed, old.replaced, old.removedAt, old.removeStep = true, true, now, step
			e.replacedExisting = true
			// A lookup of this key that is in progress right now may have touched the entry
			// object that has just been replaced: its recency may or may not have been carried
			// over, so it is not a DEFINITE use of the key for the LRU oracle.
			for _, op := range w.curOp {
				if e.keyOK && op.key == e.key {
					op.useUncertain = true
				}
			}
		}
		news = append(news, e)
		return true
	})
	before := len(t.cur)
	if len(seen) > w.maxCount {
		w.maxCount = len(seen)
	}
	var gone []string
	for raw := range t.cur {
		if !seen[raw] {
			gone = append(gone, raw)
		}
	}
	sort.Strings(gone)
	var goneObs []*dnsEntryObs
	for _, raw := range gone {
		e := t.cur[raw]
		e.removed, e.removedAt, e.removeStep = true, now, step
		e.countAtRemoval = before
		e.removeCtx = w.removalContext(e)
		delete(t.cur, raw)
		goneObs = append(goneObs, e)
		if w.s.LogOn {
			w.s.Notef("cache: entry %s %v removed (%s)", raw, dnsAnsIDs(e.ids), e.removeCtx)
		}
	}
	if len(goneObs) > 0 {
		w.onEntriesRemoved(goneObs, before)
	}
	for _, e := range news {
		if t.restoring {
			// a restored entry continues the life of the latest observation of the same key
			// that holds the same answer (a clone taken before a concurrent refresh restores
			// the older answer)
			for i := len(t.hist) - 1; i >= 0; i-- {
				if o := t.hist[i]; o.raw == e.raw && fmt.Sprint(o.ids) == fmt.Sprint(e.ids) {
					e.restored, e.origin = true, o
					break
				}
			}
		}
		t.cur[e.raw] = e
		t.hist = append(t.hist, e)
		if w.s.LogOn {
			w.s.Notef("cache: entry %s = %v inserted (restored=%v)", e.raw, dnsAnsIDs(e.ids), e.restored)
		}
		w.onEntryInserted(e)
	}
}

// removalContext describes what was going on when an entry disappeared.
func (w *dnsWorld) removalContext(e *dnsEntryObs) string {
	if w.closing {
		return "shutdown"
	}
	for _, op := range w.ops {
		if op.task != "" && !op.done && e.keyOK && op.name == e.key.name && op.qtype == e.key.qtype {
			if op.expectReject {
				return "rejected-question"
			}
			return "during-lookup"
		}
	}
	for _, ch := range w.allChains {
		if ch.refresh && e.keyOK && ch.key == e.key && len(ch.queries) > 0 {
			last := ch.queries[len(ch.queries)-1]
			if w.s.Now()-last.at < 30*time.Second && last.answered == nil {
				return "after-unanswered-refresh"
			}
		}
	}
	return "background"
}

func (t *dnsCacheTrack) entry(k dnsKey) *dnsEntryObs {
	for _, e := range t.cur {
		if e.keyOK && e.key == k {
			return e
		}
	}
	return nil
}

// latest returns the most recent observation (live or removed) for a key.
func (t *dnsCacheTrack) latest(k dnsKey) *dnsEntryObs {
	for i := len(t.hist) - 1; i >= 0; i-- {
		if e := t.hist[i]; e.keyOK && e.key == k {
			return e
		}
	}
	return nil
}

func (t *dnsCacheTrack) byAnswer(id int) []*dnsEntryObs {
	var r []*dnsEntryObs
	for _, e := range t.hist {
		for _, x := range e.ids {
			if x == id {
				r = append(r, e)
			}
		}
	}
	return r
}

// touch records a client lookup of key k during [from,to]. min is the instant from
// which the key is DEFINITELY used at least that recently (used when the key is the
// eviction victim), max the latest instant it may have been used (used when the key
// survives). An uncertain lookup (it overlapped a replacement of the key's entry)
// only raises max.
func (t *dnsCacheTrack) touch(k dnsKey, from, to time.Duration, uncertain bool) {
	u, ok := t.lastUse[k]
	switch {
	case uncertain && ok:
		if to > u.max {
			u.max = to
			t.lastUse[k] = u
		}
	case uncertain:
		// no definite use known: nothing to claim for the victim side
	case !ok || to >= u.max:
		t.lastUse[k] = dnsUse{min: from, max: to}
	default:
		if from > u.min {
			u.min = from
			t.lastUse[k] = u
		}
	}
}

// ---------------------------------------------------------------------------
// simulated domain_routing_map behind the bpf batch hooks

type dnsKernMap struct {
	w          *dnsWorld
	handle     *ebpf.Map
	m          map[[4]uint32]bpfDomainRouting
	updates    int
	deletes    int
	failed     int
	tainted    bool // an UPDATE batch failed half-way: the run is not compared any more
	inSync     int
	inCallback int // cache side-effect callbacks (sync / removal) currently running
	// failed DELETE batches (nothing applied): the owner whose sync failed is "dirty"
	// until a later sync of that owner succeeded; comparisons wait for that
	// (DESIGN C10, fault sub-runs: the next successful sync of the affected owner
	// restores equality)
	dirty      map[string]bool
	failedDel  map[[4]uint32]string // address -> owner, delete failed and has not been repeated yet
	delFails   int
	batchKeys  map[string][][4]uint32 // task -> addresses written by update batches of the sync it is running
	unrecorded map[[4]uint32]string   // address written by the update batch of a sync whose delete batch then failed -> owner
	lastWriter map[[4]uint32]string
	lastStep   map[[4]uint32]int
}

func dnsNewKernMap(w *dnsWorld) *dnsKernMap {
	return &dnsKernMap{w: w, handle: new(ebpf.Map), m: map[[4]uint32]bpfDomainRouting{}, lastWriter: map[[4]uint32]string{}, lastStep: map[[4]uint32]int{}, dirty: map[string]bool{}, failedDel: map[[4]uint32]string{}, batchKeys: map[string][][4]uint32{}, unrecorded: map[[4]uint32]string{}}
}

// syncDone is told about every cache side-effect callback (insert/async update:
// removal=false; eviction: removal=true) when it returns.
func (k *dnsKernMap) syncDone(owner string, c *DnsCache, removal bool, err error) {
	if err != nil {
		k.dirty[owner] = true
		for _, key := range k.batchKeys[verifsim.TaskName()] {
			k.unrecorded[key] = owner
		}
		if k.w.s.LogOn {
			k.w.s.Notef("domain routing sync of owner %q failed: %v", owner, err)
		}
		return
	}
	if !k.dirty[owner] {
		return
	}
	// a real sync of what the cache holds now (not a call that stood back because a
	// newer entry owns the key)
	cur := k.w.cachedUnder(owner)
	if (removal && cur == nil) || (!removal && cur == c) {
		delete(k.dirty, owner)
		k.w.s.Probe("dns.c10-owner-synced-again-after-failed-delete")
		if k.w.s.LogOn {
			k.w.s.Notef("owner %q synced successfully again after a failed sync (removal=%v)", owner, removal)
		}
	}
}

func (k *dnsKernMap) install(faults bool) {
	w := k.w
	verifBpfBatchUpdateHook = func(m *ebpf.Map, keys interface{}, values interface{}, opts *ebpf.BatchOptions) (int, error) {
		if m != k.handle {
			return 0, errBpfObjectsUnavailable
		}
		k.inSync++
		verifsim.Yield("bpf-batch-update")
		k.inSync--
		ks, _ := keys.([][4]uint32)
		vs, _ := values.([]bpfDomainRouting)
		if len(ks) != len(vs) {
			w.s.Failf("c10-batch-shape", "BpfMapBatchUpdate(domain_routing_map) with %d keys and %d values", len(ks), len(vs))
			return 0, errors.New("shape")
		}
		n := len(ks)
		var err error
		if faults && w.envBudget > 0 && w.T.Chance(1, 10) {
			w.envBudget--
			n = w.T.Choose(len(ks) + 1)
			if n == len(ks) {
				n = 0
			}
			err = errors.New("simulated bpf batch update failure")
			k.failed++
			k.tainted = true
			w.s.Fault("bpf-update-fail")
		}
		for i := 0; i < n; i++ {
			k.m[ks[i]] = vs[i]
			delete(k.failedDel, ks[i])
		}
		k.batchKeys[verifsim.TaskName()] = append(k.batchKeys[verifsim.TaskName()], ks[:n]...)
		k.noteWriter(ks[:n], "update")
		k.updates++
		if w.s.LogOn {
			w.s.Notef("domain_routing_map: update batch %s (applied %d of %d)", dnsKernKeys(ks), n, len(ks))
		}
		return n, err
	}
	verifBpfBatchDeleteHook = func(m *ebpf.Map, keys interface{}) (int, error) {
		if m != k.handle {
			return 0, errBpfObjectsUnavailable
		}
		k.inSync++
		verifsim.Yield("bpf-batch-delete")
		k.inSync--
		ks, _ := keys.([][4]uint32)
		n := len(ks)
		var err error
		if faults && w.envBudget > 0 && w.T.Chance(1, 10) {
			w.envBudget--
			n = 0
			err = errors.New("simulated bpf batch delete failure")
			k.failed++
			k.delFails++
			for _, key := range ks {
				k.failedDel[key] = verifsim.TaskName()
			}
			w.s.Fault("bpf-delete-fail")
		}
		for i := 0; i < n; i++ {
			delete(k.m, ks[i])
			delete(k.failedDel, ks[i])
		}
		k.noteWriter(ks[:n], "delete")
		k.deletes++
		if w.s.LogOn {
			w.s.Notef("domain_routing_map: delete batch %s (applied %d of %d)", dnsKernKeys(ks), n, len(ks))
		}
		return n, err
	}
}

func dnsKernKey(ip netip.Addr) [4]uint32 {
	b := ip.As16()
	return common.Ipv6ByteSliceToUint32Array(b[:])
}

func dnsKernKeyString(k [4]uint32) string {
	for _, pool := range [][]netip.Addr{dnsSharedA, dnsSharedAAAA} {
		for _, ip := range pool {
			if dnsKernKey(ip) == k {
				return ip.String()
			}
		}
	}
	for id := 1; id < 4096; id++ {
		if dnsKernKey(dnsUniqueA(id)) == k {
			return fmt.Sprintf("%v(a%d)", dnsUniqueA(id), id)
		}
		if dnsKernKey(dnsUniqueAAAA(id)) == k {
			return fmt.Sprintf("%v(a%d)", dnsUniqueAAAA(id), id)
		}
	}
	return fmt.Sprintf("%08x", k)
}

func dnsKernKeys(ks [][4]uint32) string {
	var p []string
	for _, k := range ks {
		p = append(p, dnsKernKeyString(k))
	}
	return "[" + strings.Join(p, " ") + "]"
}
