package control

// dnssim — generated DNS routing rules and the reference evaluator of the rules
// AS WRITTEN (first matching rule, '&&'-joined conditions, alternatives inside a
// condition, '!' negating the whole condition, fallback). The evaluator shares
// no code with component/dns.

import (
	"fmt"
	"net/netip"
	"strings"

	verifsim "github.com/daeuniverse/dae/internal/verifsim"
	dnsmessage "github.com/miekg/dns"
)

type dnsCond struct {
	kind string // qname | qtype | ip | upstream
	not  bool
	keys []string // qname: full/suffix/keyword per value
	vals []string
}

type dnsRule struct {
	conds []dnsCond
	out   string
}

type dnsRuleSet struct {
	req          []dnsRule
	resp         []dnsRule
	reqFallback  string
	respFallback string
	tags         []string
	textCache    string
}

func (c dnsCond) text() string {
	var parts []string
	for i, v := range c.vals {
		if c.kind == "qname" {
			parts = append(parts, c.keys[i]+": "+v)
		} else if c.kind == "ip" && strings.Contains(v, ":") {
			parts = append(parts, "'"+v+"'")
		} else {
			parts = append(parts, v)
		}
	}
	n := ""
	if c.not {
		n = "!"
	}
	return fmt.Sprintf("%s%s(%s)", n, c.kind, strings.Join(parts, ", "))
}

func (r dnsRule) text() string {
	var cs []string
	for _, c := range r.conds {
		cs = append(cs, c.text())
	}
	return strings.Join(cs, " && ") + " -> " + r.out
}

func dnsQtypeByName(v string) uint16 {
	switch strings.ToLower(v) {
	case "a":
		return dnsmessage.TypeA
	case "aaaa":
		return dnsmessage.TypeAAAA
	case "txt":
		return dnsmessage.TypeTXT
	case "16":
		return dnsmessage.TypeTXT
	case "28":
		return dnsmessage.TypeAAAA
	}
	return 0
}

func (c dnsCond) holds(lname string, qtype uint16, from string, ips []netip.Addr) bool {
	hit := false
	for i, v := range c.vals {
		switch c.kind {
		case "qname":
			switch c.keys[i] {
			case "full":
				hit = hit || lname == v
			case "suffix":
				hit = hit || lname == v || strings.HasSuffix(lname, "."+v)
			case "keyword":
				hit = hit || strings.Contains(lname, v)
			}
		case "qtype":
			hit = hit || dnsQtypeByName(v) == qtype
		case "upstream":
			hit = hit || v == from
		case "ip":
			p, err := netip.ParsePrefix(v)
			if err != nil {
				if a, err2 := netip.ParseAddr(v); err2 == nil {
					p = netip.PrefixFrom(a, a.BitLen())
				}
			}
			for _, ip := range ips {
				if p.IsValid() && p.Contains(ip) {
					hit = true
				}
			}
		}
	}
	return hit != c.not
}

func dnsEvalRules(rules []dnsRule, fallback string, lname string, qtype uint16, from string, ips []netip.Addr) string {
	for _, r := range rules {
		ok := true
		for _, c := range r.conds {
			if !c.holds(lname, qtype, from, ips) {
				ok = false
				break
			}
		}
		if ok {
			return r.out
		}
	}
	return fallback
}

func (rs *dnsRuleSet) tagIndex(t string) int {
	for i, x := range rs.tags {
		if x == t {
			return i
		}
	}
	return -100
}

// evalRequest: -1 reject, nUps asis, else the upstream index.
func (rs *dnsRuleSet) evalRequest(lname string, qtype uint16, nUps int) int {
	switch out := dnsEvalRules(rs.req, rs.reqFallback, lname, qtype, "", nil); out {
	case "reject":
		return -1
	case "asis":
		return nUps
	default:
		return rs.tagIndex(out)
	}
}

// evalResponse: -2 accept, -1 reject, else the upstream index to ask next.
func (rs *dnsRuleSet) evalResponse(lname string, qtype uint16, from int, ips []netip.Addr) int {
	f := "asis"
	if from >= 0 && from < len(rs.tags) {
		f = rs.tags[from]
	}
	switch out := dnsEvalRules(rs.resp, rs.respFallback, lname, qtype, f, ips); out {
	case "accept":
		return -2
	case "reject":
		return -1
	default:
		return rs.tagIndex(out)
	}
}

// negMerged: two neighbouring single-condition negated rules of the same function
// and the same target. The rule optimiser merges such neighbours into one negated
// condition (a recorded defect of the shared routing optimiser, see kernsim's
// "negated-singleton-merge"); verdicts that differ there get their own class.
func dnsNegMerged(rules []dnsRule) bool {
	for i := 1; i < len(rules); i++ {
		a, b := rules[i-1], rules[i]
		if len(a.conds) == 1 && len(b.conds) == 1 && a.conds[0].not && b.conds[0].not && a.conds[0].kind == b.conds[0].kind && a.out == b.out {
			return true
		}
	}
	return false
}

func (rs *dnsRuleSet) negClass() string {
	if dnsNegMerged(rs.req) || dnsNegMerged(rs.resp) {
		return "@negated-neighbours-merged"
	}
	return ""
}

// ---- generation -----------------------------------------------------------

func dnsGenQnameCond(T *verifsim.Tape, names []int) dnsCond {
	c := dnsCond{kind: "qname"}
	n := 1 + T.Pick(3, 1)
	for i := 0; i < n; i++ {
		name := dnsAllNames[names[T.Choose(len(names))]]
		labels := strings.Split(name, ".")
		switch T.Choose(3) {
		case 0:
			c.keys = append(c.keys, "full")
			c.vals = append(c.vals, name)
		case 1:
			c.keys = append(c.keys, "suffix")
			c.vals = append(c.vals, strings.Join(labels[1+T.Choose(len(labels)-1):], "."))
		default:
			c.keys = append(c.keys, "keyword")
			c.vals = append(c.vals, labels[T.Choose(len(labels))])
		}
	}
	return c
}

func dnsGenQtypeCond(T *verifsim.Tape) dnsCond {
	c := dnsCond{kind: "qtype"}
	all := []string{"a", "aaaa", "txt", "16"}
	n := 1 + T.Pick(3, 1)
	for i := 0; i < n; i++ {
		c.vals = append(c.vals, all[T.Choose(len(all))])
	}
	return c
}

// simple: only the fallback (and possibly one plain rule); used by the engines
// that are not about routing.
func dnsGenRuleSet(T *verifsim.Tape, tags []string, names []int, rich bool, allowReject bool) *dnsRuleSet {
	rs := &dnsRuleSet{tags: tags, respFallback: "accept"}
	reqOuts := append([]string{}, tags...)
	// "asis": the question goes to the resolver the client addressed; such answers are scoped by resolver
	reqOuts = append(reqOuts, "asis")
	rs.reqFallback = reqOuts[T.Choose(len(reqOuts))]
	nReq := 0
	if rich {
		nReq = T.Range(0, 4)
	} else if len(tags) > 1 {
		nReq = T.Range(0, 2)
	}
	for i := 0; i < nReq; i++ {
		var r dnsRule
		nc := 1 + T.Pick(3, 1)
		for j := 0; j < nc; j++ {
			var c dnsCond
			if T.Choose(3) == 0 {
				c = dnsGenQtypeCond(T)
			} else {
				c = dnsGenQnameCond(T, names)
			}
			c.not = rich && T.Chance(1, 5)
			r.conds = append(r.conds, c)
		}
		outs := reqOuts
		if allowReject {
			outs = append(append([]string{}, reqOuts...), "reject")
		}
		r.out = outs[T.Choose(len(outs))]
		rs.req = append(rs.req, r)
	}
	if rich {
		respOuts := append([]string{"accept", "reject"}, tags...)
		nResp := T.Range(0, 4)
		for i := 0; i < nResp; i++ {
			var r dnsRule
			nc := 1 + T.Pick(3, 1)
			for j := 0; j < nc; j++ {
				var c dnsCond
				switch T.Choose(4) {
				case 0:
					c = dnsGenQtypeCond(T)
				case 1:
					c = dnsGenQnameCond(T, names)
				case 2:
					c = dnsCond{kind: "upstream"}
					n := 1 + T.Pick(3, 1)
					for k := 0; k < n; k++ {
						c.vals = append(c.vals, tags[T.Choose(len(tags))])
					}
				default:
					c = dnsCond{kind: "ip"}
					pool := []string{"198.18.0.1", "198.18.0.0/30", "100.64.0.0/10", "fd00::/16", "fd00:ffff::/32", "0.0.0.0/32", "100.64.0.0/17"}
					n := 1 + T.Pick(3, 1)
					for k := 0; k < n; k++ {
						c.vals = append(c.vals, pool[T.Choose(len(pool))])
					}
				}
				c.not = T.Chance(1, 5)
				r.conds = append(r.conds, c)
			}
			r.out = respOuts[T.Choose(len(respOuts))]
			rs.resp = append(rs.resp, r)
		}
		if T.Chance(1, 4) {
			rs.respFallback = respOuts[T.Choose(len(respOuts))]
		}
	}
	// (neighbouring negated rules used to be merged by the rule optimiser — repaired in
	// /repo b8028e8; they are generated at their natural rate again, and a regression
	// would surface as class @negated-neighbours-merged)
	return rs
}
