package control

// dnssim — oracles. Each is written from the property statement; rule names carry
// the property prefix (c07- … c18-) and an @class where one oracle can fire for
// different root causes.

import (
	"fmt"
	"strings"
	"time"

	dnsmessage "github.com/miekg/dns"
)

func (w *dnsWorld) on(mode int) bool { return w.mode == mode }

// ---------------------------------------------------------------------------
// C09: every reply carries the client's id and question; no foreign answers

// classifyForeign names the way a scripted answer for another question reached
// a resolution of the victim's question.
func (w *dnsWorld) classifyForeign(name int, qtype uint16, a *dnsAns) (cls string) {
	return w.classifyForeignQ(name, qtype, a, -1, 0)
}

// classifyForeignQ: a may be nil when the foreign reply carried no answer records
// (SERVFAIL, truncated); it is then identified by its question (fname, ftype).
func (w *dnsWorld) classifyForeignQ(name int, qtype uint16, a *dnsAns, fname int, ftype uint16) (cls string) {
	if a == nil && fname < 0 {
		return "unattributed"
	}
	match := func(sr *dnsSent) bool {
		if a != nil {
			return sr.ans == a
		}
		return (sr.ans == nil || sr.ans.empty) && sr.q.name == fname && sr.q.qtype == ftype
	}
	if a != nil && a.wrongFor != nil {
		return "upstream-answered-other-question"
	}
	cls = "unattributed"
	crossed := false
	for _, sr := range w.sent {
		if match(sr) {
			crossed = true
		}
	}
	defer func() {
		// the copy travelled on a transport that never carried a query for the victim's question
		if cls == "unattributed" && crossed {
			cls = "reply-crossed-connections"
			if a != nil && a.forQuery != nil && a.name == name && a.qtype != qtype && a.forQuery.name == a.name && a.forQuery.qtype == a.qtype {
				// a regular answer to a question for the same name and another type: the
				// two questions were taken for one (cache key / coalescing key)
				cls = "answer-of-another-type-of-the-same-name"
			}
		}
	}()
	for _, sr := range w.sent {
		if !match(sr) {
			continue
		}
		// queries for the victim's question on the transport that carried this copy
		var qs []*dnsUpQuery
		if sr.q.tcp {
			qs = sr.q.tc.queries
		} else {
			qs = sr.q.sock.queries
		}
		for _, v := range qs {
			if v.name == name && v.qtype == qtype && v != sr.q {
				if v.wireId == sr.wireId {
					return "stale-reply-same-id"
				}
				cls = "id-mismatch"
			}
		}
	}
	return cls
}

func (w *dnsWorld) checkReply(op *dnsOp, m *dnsmessage.Msg) {
	if !w.on(dnsModeC09) {
		return
	}
	s := w.s
	if m.Id != op.id {
		s.Failf("c09-wrong-id", "client c%d asked %s %s with id %d and received a reply with id %d", op.cli, op.qname, dnsmessage.TypeToString[op.qtype], op.id, m.Id)
		return
	}
	if !m.Response {
		s.Failf("c09-not-a-response", "client c%d op %d received a message without the response bit", op.cli, op.idx)
		return
	}
	ids, _ := w.decodeAnswers(m.Answer)
	var foreign *dnsAns
	for _, id := range ids {
		if a := w.ansByID(id); a != nil && (a.name != op.name || a.qtype != op.qtype) {
			foreign = a
		}
	}
	qok := len(m.Question) == 1 && strings.EqualFold(m.Question[0].Name, op.qname) && m.Question[0].Qtype == op.qtype && m.Question[0].Qclass == dnsmessage.ClassINET
	if !qok {
		cls := "no-foreign-answer"
		if foreign != nil {
			cls = w.classifyForeign(op.name, op.qtype, foreign)
		} else if len(m.Question) == 1 {
			cls = w.classifyForeignQ(op.name, op.qtype, nil, w.nameIndex(m.Question[0].Name), m.Question[0].Qtype)
		}
		s.Failf("c09-wrong-question-delivered@"+cls, "client c%d asked %s %s (id %d) and received a reply whose question section is %s%s", op.cli, op.qname,
			dnsmessage.TypeToString[op.qtype], op.id, dnsQuestionString(m), w.describeForeign(foreign))
		return
	}
	if rr := dnsRecordsBelong(m.Answer, op.qname, op.qtype); rr != nil {
		h := rr.Header()
		{
			cls := w.classifyForeign(op.name, op.qtype, foreign)
			s.Failf("c09-foreign-answer-delivered@"+cls, "client c%d asked %s %s and received a reply with the right question but a record %s %s%s", op.cli, op.qname,
				dnsmessage.TypeToString[op.qtype], h.Name, dnsmessage.TypeToString[h.Rrtype], w.describeForeign(foreign))
			return
		}
	}
	if foreign != nil {
		cls := w.classifyForeign(op.name, op.qtype, foreign)
		s.Failf("c09-foreign-answer-delivered@"+cls, "client c%d asked %s %s and received records of another question%s", op.cli, op.qname, dnsmessage.TypeToString[op.qtype], w.describeForeign(foreign))
	}
}

func (w *dnsWorld) describeForeign(a *dnsAns) string {
	if a == nil {
		return ""
	}
	how := ""
	switch {
	case a.wrongFor != nil:
		how = fmt.Sprintf("; upstream %d sent it, with the right transaction id, in response to query #%d", a.up, a.wrongFor.seq)
	case a.forQuery != nil:
		how = fmt.Sprintf("; upstream %d sent it as the answer to query #%d (id %d)", a.up, a.forQuery.seq, a.forQuery.wireId)
	}
	return fmt.Sprintf(": answer a%d, which is the scripted answer to %s %s%s", a.id, dnsAllNames[a.name], dnsmessage.TypeToString[a.qtype], how)
}

// checkCacheContents: no answer is cached under a name and type it is not an answer to.
func (w *dnsWorld) checkCacheContents() {
	if !w.on(dnsModeC09) || w.track == nil {
		return
	}
	for _, e := range w.track.hist {
		if e.foreign == "" || !e.keyOK {
			continue
		}
		var fa *dnsAns
		for _, id := range e.ids {
			if a := w.ansByID(id); a != nil && (a.name != e.key.name || a.qtype != e.key.qtype) {
				fa = a
			}
		}
		cls := w.classifyForeign(e.key.name, e.key.qtype, fa)
		w.s.Failf("c09-foreign-answer-cached@"+cls, "cache entry %s holds %s%s", e.raw, e.foreign, w.describeForeign(fa))
		return
	}
}

// singleflight, part 1 (checked when a client-led resolution sends its first
// upstream query): no other client-led resolution of the same scoped key has an
// upstream query outstanding at that moment.
func (w *dnsWorld) c09OnQuery(q *dnsUpQuery) {
	if !w.on(dnsModeC09) || q.chain == nil || q.chain.op == nil || len(q.chain.queries) != 1 {
		return
	}
	now := w.s.Now()
	for _, ch := range w.allChains {
		if ch == q.chain || ch.op == nil || ch.key != q.chain.key || ch.gen != q.chain.gen || ch.op.done {
			continue
		}
		// The other resolution counts as running only while its task is inside a forwarder's
		// ForwardDNS: a resolution ends by dae's own deadlines (measured from the START of the
		// coalesced resolution, not from the instant a query was sent), and a new leader can
		// only appear after the previous leader's closure has returned.
		if w.curFwd[ch.task] == nil {
			continue
		}
		for _, o := range ch.queries {
			if !o.reacted && o.open() {
				w.s.Failf("c09-duplicate-upstream-resolution", "client c%d (op %d) and client c%d (op %d) ask the same question %v concurrently and both are resolving it upstream: query #%d is sent while query #%d (sent %v ago) is still outstanding",
					q.chain.op.cli, q.chain.op.idx, ch.op.cli, ch.op.idx, ch.key, q.seq, o.seq, now-o.at)
				return
			}
		}
	}
}

// singleflight, part 2: waiters of a successful resolution get an answer.
func (w *dnsWorld) checkCoalescing() {
	if !w.on(dnsModeC09) {
		return
	}
	var led []*dnsChain
	for _, ch := range w.allChains {
		if ch.op != nil && len(ch.queries) > 0 {
			led = append(led, ch)
		}
	}
	for _, ch := range led {
		lead := ch.op
		if !lead.done || lead.err != nil || len(lead.replies) == 0 || lead.replies[0].Rcode != dnsmessage.RcodeSuccess {
			continue
		}
		for _, op := range w.ops {
			if op == lead || !op.done || op.key != lead.key || op.gen != lead.gen || op.chain != nil {
				continue
			}
			// a waiter: began while the leader's upstream query was outstanding and ended not before the leader
			if op.startStep > ch.queries[0].step && op.startStep < lead.endStep && op.endStep >= lead.endStep {
				if op.err != nil || len(op.replies) == 0 {
					w.s.Failf("c09-waiter-without-answer", "client c%d (op %d) asked %v while client c%d's identical question was being resolved upstream (query #%d); the resolution succeeded but the waiter got err=%v and %d replies",
						op.cli, op.idx, op.key, lead.cli, ch.queries[0].seq, op.err, len(op.replies))
					return
				}
			}
		}
	}
}

// forwarder lifetime: closed exactly once, after its last in-flight query.
func (w *dnsWorld) checkForwarderStep() {
	if !w.on(dnsModeC09) {
		return
	}
	for _, f := range w.fwds {
		if f.closes > 1 {
			w.s.Failf("c09-forwarder-closed-twice", "forwarder f%d (%s over %s) was closed %d times", f.id, f.up, f.l4, f.closes)
			return
		}
		if f.closes == 1 && f.inFlightAtClose > 0 && !f.closedDuringShutdown {
			w.s.Failf("c09-forwarder-closed-in-flight@"+f.closedBy(), "forwarder f%d (%s over %s) was closed by task %s while %d of its queries were still in flight", f.id, f.up, f.l4, f.closer, f.inFlightAtClose)
			return
		}
		if f.beganAfterClose > 0 {
			w.s.Failf("c09-forwarder-used-after-close@"+f.closedBy(), "forwarder f%d (%s over %s): a query began on it after it had been closed by task %s", f.id, f.up, f.l4, f.closer)
			return
		}
	}
}

func dnsLeakClass(f *dnsFwd) string {
	if f != nil && (f.beganAfterClose > 0 || f.inFlightAtClose > 0) {
		return "@forwarder-closed-under-query-" + f.closedBy()
	}
	return ""
}

// after ResetDnsForwarders and quiescence every forwarder is closed exactly once
// and every transport it dialled is closed.
func (w *dnsWorld) checkForwardersRetired(when string) {
	if !w.on(dnsModeC09) {
		return
	}
	// Forwarders that are in the controller's forwarder cache at this point are
	// legitimately open: a forwarder created by a late background refresh is stored
	// after (or while) ResetDnsForwarders walked the cache. Only forwarders that are no
	// longer cached (retired, evicted, lost the store race) must have been closed.
	cached := map[*dnsFwd]bool{}
	w.ctl.dnsForwarderCache.Range(func(_, v any) bool {
		if e, ok := v.(*cachedDnsForwarder); ok {
			if f, ok := e.forwarder.(*dnsFwd); ok {
				cached[f] = true
			}
		}
		return true
	})
	for _, f := range w.fwds {
		if cached[f] {
			continue
		}
		if f.closes != 1 {
			w.s.Failf("c09-forwarder-not-closed", "%s: forwarder f%d (%s over %s) was closed %d times (queries begun %d, in flight %d)", when, f.id, f.up, f.l4, f.closes, f.begun, f.inFlight)
			return
		}
	}
	for _, sk := range w.socks {
		if sk.fwd == nil || cached[sk.fwd] {
			continue
		}
		if !sk.pc.IsClosed() {
			w.s.Failf("c09-socket-leak"+dnsLeakClass(sk.fwd), "%s: udp socket us%d to upstream %d is still open although every forwarder has been closed", when, sk.id, sk.up)
			return
		}
		if sk.pc.CloseCount > 1 {
			w.s.Probe("dns.udp-socket-closed-more-than-once")
		}
	}
	for _, tc := range w.tconns {
		if tc.fwd == nil || cached[tc.fwd] {
			continue
		}
		if !tc.cli.IsClosed() {
			w.s.Failf("c09-socket-leak"+dnsLeakClass(tc.fwd), "%s: tcp connection tc%d to upstream %d is still open although every forwarder has been closed", when, tc.id, tc.up)
			return
		}
	}
}

// ---------------------------------------------------------------------------
// hooks used by the other properties' oracles (filled in dns_c08/c07/c10 files)

func (w *dnsWorld) afterOp(op *dnsOp) {
	if w.track != nil {
		w.track.touch(op.key, op.start, op.end, op.useUncertain)
	}
	switch w.mode {
	case dnsModeC08:
		w.c08AfterOp(op)
	case dnsModeC07:
		w.c07AfterOp(op)
	}
}

func (w *dnsWorld) onEntryInserted(e *dnsEntryObs) {
	if w.mode == dnsModeC10 {
		w.c10OverlapProbes(e)
	}
}

func (w *dnsWorld) onEntriesRemoved(gone []*dnsEntryObs, before int) {
	if w.mode == dnsModeC08 {
		w.c08OnRemoved(gone, before)
	}
}

var _ = time.Second
