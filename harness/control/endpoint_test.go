package control

// C13(b)(c): UdpEndpointPool + conn-state tuple ownership under the
// deterministic scheduler, with a simulated dialer / PacketConn / bpf layer.

import (
	"strings"
	"context"
	"errors"
	"fmt"
	"io"
	"net/netip"
	"sort"
	"syscall"
	"testing"
	"time"

	"github.com/cilium/ebpf"
	"github.com/daeuniverse/dae/common/consts"
	ob "github.com/daeuniverse/dae/component/outbound"
	componentdialer "github.com/daeuniverse/dae/component/outbound/dialer"
	verifsim "github.com/daeuniverse/dae/internal/verifsim"
	D "github.com/daeuniverse/outbound/dialer"
	"github.com/daeuniverse/outbound/netproxy"
	"github.com/sirupsen/logrus"
)

type epConn struct {
	id          int
	pc          *verifsim.SimPacketConn
	key         int
	dialer      int
	dialRetSeq  int
	killStarted bool
	killWhy     string
	mustNotRet  bool // invalidated by a health change before carrying traffic
	mustNotSeq  int
	writes      int // WriteTo calls that reached the transport
	writesDone  int // WriteTo calls that returned success to the client
	handled     int // replies handed to the reply handler
	delivered   int
	published   bool
	lastGoC     time.Duration // start time of the last successful GetOrCreate that returned it
	resetOverlap bool         // a pool Reset ran while this endpoint was being created
	failNext    bool          // handler fails on the next reply
	ue          *UdpEndpoint
	closeSeq    int
	creator     string // task that dialled it (runs createEndpointLocked)
}

// epDialWrap is the netproxy.Dialer handed to the real dialer.Dialer.
type epDialWrap struct {
	sd *verifsim.SimDialer
	w  *epWorld
}

func (d *epDialWrap) DialContext(ctx context.Context, network, addr string) (netproxy.Conn, error) {
	key := -1
	for i, t := range d.w.targets {
		if t == addr {
			key = i
		}
	}
	conn, err := d.sd.DialContext(ctx, network, addr)
	d.w.inFlight[key]--
	if err == nil && conn != nil {
		var pc *verifsim.SimPacketConn
		switch x := conn.(type) {
		case *verifsim.SimPacketConn:
			pc = x
		case verifsim.SimTransportPacketConn:
			pc = x.SimPacketConn
		}
		if c := d.w.byPC[pc]; c != nil {
			d.w.seq++
			c.dialRetSeq = d.w.seq
			if d.w.invalidating[c.dialer] > 0 {
				d.w.kill(c, "dialled-during-invalidation")
			}
			if d.w.resetting > 0 {
				d.w.kill(c, "dialled-during-reset")
				c.resetOverlap = true
			}
		}
	}
	return conn, err
}

type epWorld struct {
	s        *verifsim.Sim
	seq      int
	conns    []*epConn
	byPC     map[*verifsim.SimPacketConn]*epConn
	keys     []UdpEndpointKey
	dsts     []netip.AddrPort
	targets  []string
	nat      time.Duration
	faults   bool
	inFlight map[int]int // key -> dials in flight
	kern     map[bpfTuplesKey]bool
	owners   map[bpfTuplesKey]map[*epConn]bool
	delFault map[bpfTuplesKey]bool
	invalidating map[int]int // dialer -> invalidations in progress
	resetting    int
}

func (w *epWorld) kill(c *epConn, why string) {
	if c != nil && !c.killStarted {
		c.killStarted = true
		c.killWhy = why
	}
}

func (w *epWorld) connOf(ue *UdpEndpoint) *epConn {
	if ue == nil || ue.conn == nil {
		return nil
	}
	switch pc := ue.conn.(type) {
	case *verifsim.SimPacketConn:
		return w.byPC[pc]
	case verifsim.SimTransportPacketConn:
		return w.byPC[pc.SimPacketConn]
	}
	return nil
}

// definitelyAlive: nothing that may legitimately end the endpoint has started.
func (w *epWorld) definitelyAlive(c *epConn, now time.Duration) bool {
	return c.published && !c.killStarted && c.pc.CloseCount == 0 && now < c.lastGoC+w.nat-time.Second
}

func epScenario(s *verifsim.Sim) {
	T := s.T
	s.TrackFrames = true // the invalidation oracle asks where an endpoint's creator is parked
	w := &epWorld{s: s, byPC: map[*verifsim.SimPacketConn]*epConn{}, inFlight: map[int]int{},
		kern: map[bpfTuplesKey]bool{}, owners: map[bpfTuplesKey]map[*epConn]bool{}, delFault: map[bpfTuplesKey]bool{}, invalidating: map[int]int{}}
	w.nat = []time.Duration{10 * time.Second, 3 * time.Second, 60 * time.Second}[T.Choose(3)]
	w.faults = T.Chance(2, 3)
	nKeys := T.Range(1, 3)
	nClients := T.Range(1, 4)
	nDialers := T.Range(1, 2)
	allKeys := []UdpEndpointKey{
		{Src: netip.MustParseAddrPort("10.0.0.1:1000")},
		{Src: netip.MustParseAddrPort("10.0.0.2:2000"), Dst: netip.MustParseAddrPort("8.8.8.8:443")},
		{Src: netip.MustParseAddrPort("10.0.0.2:2000"), Dst: netip.MustParseAddrPort("8.8.8.8:443"), RouteScope: udpEndpointRouteScope{Outbound: 2, Mark: 7}},
	}
	w.keys = allKeys[:nKeys]
	for i := range w.keys {
		w.dsts = append(w.dsts, netip.MustParseAddrPort(fmt.Sprintf("203.0.113.%d:443", i+1)))
		w.targets = append(w.targets, w.dsts[i].String())
	}
	logger := logrus.New()
	logger.SetOutput(io.Discard)

	// ---- simulated bpf layer
	fakeBpf := &bpfObjects{}
	fakeBpf.ConnStateMap = new(ebpf.Map)
	verifBpfBatchDeleteHook = func(m *ebpf.Map, keys interface{}) (int, error) {
		verifsim.Yield("bpf-batch-delete")
		ks, _ := keys.([]bpfTuplesKey)
		if m != fakeBpf.ConnStateMap {
			return 0, errBpfObjectsUnavailable
		}
		fail := w.faults && T.Chance(1, 12)
		for _, k := range ks {
			var live []int
			for c := range w.owners[k] {
				if c.ue != nil && !c.ue.udpConnStateClosed {
					live = append(live, c.id)
				}
			}
			if len(live) > 0 {
				sort.Ints(live)
				s.Failf("tuple-deleted-while-owned", "conn_state tuple %v deleted while endpoints c%v that registered it are still alive", k, live)
			}
			if fail {
				w.delFault[k] = true
				continue
			}
			if len(w.owners[k]) > 1 {
				s.Probe("tuple.deleted-after-shared-ownership")
			}
			s.Probe("tuple.deleted")
			delete(w.kern, k)
		}
		if fail {
			s.Fault("bpf-delete-fail")
			return 0, errors.New("simulated bpf batch delete failure")
		}
		return len(ks), nil
	}
	defer func() { verifBpfBatchDeleteHook = nil }()
	coreA := &controlPlaneCore{log: logger}
	coreA.bpf.Store(fakeBpf)
	coreB := &controlPlaneCore{log: logger}
	coreB.bpf.Store(fakeBpf)
	trackA, trackB := newControlPlaneDrainTracker(), newControlPlaneDrainTracker()
	var curOwner udpConnStateOwner = coreA
	curTracker := trackA

	poolClosing := false
	// ---- simulated dialers
	nt := componentdialer.NetworkType{L4Proto: consts.L4ProtoStr_UDP, IpVersion: consts.IpVersionStr_4, UdpHealthDomain: componentdialer.UdpHealthDomainData}
	var dialers []*componentdialer.Dialer
	var simDialers []*verifsim.SimDialer
	for di := 0; di < nDialers; di++ {
		di := di
		sd := &verifsim.SimDialer{Name: fmt.Sprintf("d%d", di)}
		sd.Plan = func(ctx context.Context, network, addr string) verifsim.DialPlan {
			key := -1
			for i, t := range w.targets {
				if t == addr {
					key = i
				}
			}
			now := s.Now()
			if w.inFlight[key] > 0 {
				s.Failf("concurrent-dials", "a second dial for endpoint key k%d started while one is still in flight", key)
			}
			for _, c := range w.conns {
				if c.key == key && w.definitelyAlive(c, now) {
					s.Failf("redundant-dial", "dial for key k%d started at %v although endpoint c%d of that key is alive (created seq %d, last handed out at %v, nat %v)", key, now, c.id, c.dialRetSeq, c.lastGoC, w.nat)
				}
			}
			w.inFlight[key]++
			plan := verifsim.DialPlan{}
			kind := 0
			if w.faults {
				kind = T.Pick(10, 3, 1, 1, 1, 1, 1)
			} else {
				kind = T.Pick(3, 1)
			}
			switch kind {
			case 1:
				plan.Delay = []time.Duration{time.Millisecond, 100 * time.Millisecond, 2 * time.Second}[T.Choose(3)]
			case 2:
				plan.Err = verifsim.ErrSimRefused
				s.Fault("dial-refused")
			case 3:
				plan.Err = verifsim.ErrSimUnreachable
				s.Fault("dial-unreachable")
			case 4:
				plan.Err = verifsim.ErrSimAddrInUse
				s.Fault("dial-transient-local")
			case 5:
				plan.Err = verifsim.ErrSimGeneric
				s.Fault("dial-generic-error")
			case 6:
				plan.Hang = true
				s.Fault("dial-hang")
			}
			if plan.Err == nil && !plan.Hang {
				w.seq++
				c := &epConn{id: len(w.conns), key: key, dialer: di, creator: verifsim.TaskName()}
				c.pc = verifsim.NewSimPacketConn(fmt.Sprintf("c%d", c.id), &w.seq)
				c.pc.WriteHook = func(b []byte, addr string) (int, error) {
					c.writes++
					if w.faults {
						switch T.Pick(14, 1, 1) {
						case 1:
							w.kill(c, "write-error")
							s.Fault("write-error")
							return 0, verifsim.ErrSimGeneric
						case 2:
							if len(b) > 1 {
								w.kill(c, "short-write")
								s.Fault("short-write")
								return len(b) - 1, nil
							}
						}
					}
					return len(b), nil
				}
				c.pc.OnClose = func() {
					w.seq++
					c.closeSeq = w.seq
					if !c.killStarted && !poolClosing {
						s.Probe("endpoint.closed-by-nat-expiry")
					}
					if c.killWhy == "invalidated-before-traffic" {
						s.Probe("endpoint.retired-by-invalidation")
					}
				}
				if w.resetting > 0 {
					c.resetOverlap = true
				}
				w.conns = append(w.conns, c)
				w.byPC[c.pc] = c
				if T.Chance(1, 3) {
					plan.Conn = c.pc.WithTransportDone()
				} else {
					plan.Conn = c.pc
				}
			}
			return plan
		}
		simDialers = append(simDialers, sd)
		prop := &componentdialer.Property{Property: D.Property{Name: sd.Name, Address: fmt.Sprintf("198.51.100.%d:1080", di+1), Protocol: "socks5"}}
		if T.Chance(1, 3) {
			prop = &componentdialer.Property{Property: D.Property{Name: sd.Name}}
		}
		d := componentdialer.NewDialer(&epDialWrap{sd: sd, w: w}, &componentdialer.GlobalOption{Log: logger, CheckInterval: time.Second},
			componentdialer.InstanceOption{DisableCheck: true}, prop)
		dialers = append(dialers, d)
	}
	defer func() {
		for _, d := range dialers {
			_ = d.Close()
		}
	}()

	pool := NewUdpEndpointPool()
	poolClosed := false
	closePool := func() {
		poolClosing = true
		if !poolClosed {
			poolClosed = true
			pool.Close()
		}
	}

	handler := func(ue *UdpEndpoint, data []byte, from netip.AddrPort) error {
		c := w.connOf(ue)
		if c == nil {
			s.Failf("harness", "reply for unknown endpoint")
			return nil
		}
		c.handled++
		if c.failNext {
			c.failNext = false
			w.kill(c, "handler-error")
			s.Fault("handler-error")
			return errors.New("simulated reply write failure")
		}
		return nil
	}

	// ---- clients
	type op struct {
		kind   int // 0 getOrCreate, 1 get, 2 remove, 3 sleep
		key    int
		writes int
		track  bool
		sleep  time.Duration
	}
	sleeps := []time.Duration{time.Millisecond, 300 * time.Millisecond, time.Second, w.nat / 2, w.nat + 2*time.Second}
	plans := make([][]op, nClients)
	for ci := range plans {
		n := T.Range(1, 5)
		for i := 0; i < n; i++ {
			o := op{kind: T.Pick(6, 1, 1, 2), key: T.Choose(nKeys)}
			switch o.kind {
			case 0:
				o.writes = T.Choose(3)
				o.track = T.Chance(1, 2)
			case 3:
				o.sleep = sleeps[T.Choose(len(sleeps))]
			}
			plans[ci] = append(plans[ci], o)
		}
	}
	type cliCtx struct {
		cancel  context.CancelFunc
		dialing bool
		op      string        // what the client is doing
		opStart time.Duration // since when
		done    bool
	}
	clis := make([]*cliCtx, nClients)
	done := 0
	checkReturned := func(what string, ue *UdpEndpoint, key int, startSeq int, start time.Duration) *epConn {
		if ue == nil {
			s.Failf("nil-endpoint", "%s(k%d) reported success with a nil endpoint", what, key)
			return nil
		}
		if ue.failed.Load() || ue.conn == nil {
			s.Failf("failed-endpoint-returned", "%s(k%d) handed out the negative-cache placeholder of a failed dial", what, key)
			return nil
		}
		c := w.connOf(ue)
		if c == nil {
			s.Failf("harness", "endpoint with unknown conn")
			return nil
		}
		c.ue = ue
		if c.key != key {
			s.Failf("wrong-endpoint", "%s(k%d) returned endpoint c%d which was dialled for key k%d", what, key, c.id, c.key)
		}
		if c.pc.CloseCount > 0 && c.closedSeq(w) < startSeq {
			s.Failf("dead-endpoint-returned", "%s(k%d) handed out endpoint c%d whose transport had already been closed (%s) before the call began", what, key, c.id, c.killWhy)
		}
		if c.mustNotRet && c.mustNotSeq < startSeq && c.resetOverlap {
			s.Failf("invalidated-endpoint-returned@created-during-pool-reset", "%s(k%d) handed out endpoint c%d although its dialer was invalidated before it carried any traffic; the endpoint was created while UdpEndpointPool.Reset was clearing the dialer index / epoch maps, which orphaned it from later invalidations", what, key, c.id)
		} else if c.mustNotRet && c.mustNotSeq < startSeq {
			s.Failf("invalidated-endpoint-returned", "%s(k%d) handed out endpoint c%d although its dialer was invalidated before it carried any traffic", what, key, c.id)
		}
		return c
	}
	for ci := 0; ci < nClients; ci++ {
		ci := ci
		cc := &cliCtx{}
		clis[ci] = cc
		verifsim.Go(fmt.Sprintf("client%d", ci), func() {
			defer func() { done++; cc.done = true }()
			for oi, o := range plans[ci] {
				if s.Failed() {
					return
				}
				cc.op, cc.opStart = fmt.Sprintf("op %d (kind %d, key k%d)", oi, o.kind, o.key), s.Now()
				key := w.keys[o.key]
				switch o.kind {
				case 3:
					time.Sleep(o.sleep)
					verifsim.YieldB("client-woke")
				case 1:
					w.seq++
					startSeq, start := w.seq, s.Now()
					if ue, ok := pool.Get(key); ok {
						checkReturned("Get", ue, o.key, startSeq, start)
					}
				case 2:
					if ue, ok := pool.Get(key); ok {
						if c := w.connOf(ue); c != nil {
							w.kill(c, "removed-by-caller")
						}
						_ = pool.Remove(key, ue)
					}
				case 0:
					ctx, cancel := context.WithCancel(context.Background())
					cc.cancel = cancel
					owner, tracker := curOwner, curTracker
					opts := &UdpEndpointOptions{
						Ctx: ctx, Handler: handler, NatTimeout: w.nat, ConnStateOwner: owner, DrainTracker: tracker, Log: logger,
						GetDialOption: func(ctx context.Context) (*DialOption, error) {
							if w.faults {
								switch T.Pick(16, 1, 1) {
								case 1:
									s.Fault("no-alive-dialer")
									return nil, ob.ErrNoAliveDialer
								case 2:
									s.Fault("dial-option-error")
									return nil, errors.New("simulated routing failure")
								}
							}
							ntc := nt
							return &DialOption{Target: w.targets[o.key], Dialer: dialers[T.Choose(len(dialers))], Network: "udp", NetworkType: &ntc}, nil
						},
					}
					w.seq++
					startSeq, start := w.seq, s.Now()
					// which endpoint of this key is definitely alive right now?
					var alive *epConn
					for _, c := range w.conns {
						if c.key == o.key && w.definitelyAlive(c, start) {
							alive = c
						}
					}
					cc.dialing = w.faults && T.Chance(1, 6)
					ue, isNew, err := pool.GetOrCreate(key, opts)
					cc.dialing = false
					cancel()
					if err != nil {
						if errors.Is(err, ErrEndpointFailed) {
							s.Probe("endpoint.negative-cache-hit")
						}
						if alive != nil && w.definitelyAlive(alive, s.Now()) && !errors.Is(err, context.Canceled) {
							s.Failf("same-endpoint", "GetOrCreate(k%d) failed (%v) although endpoint c%d of that key is alive", o.key, err, alive.id)
						}
						continue
					}
					c := checkReturned("GetOrCreate", ue, o.key, startSeq, start)
					if c == nil {
						return
					}
					if alive != nil && c != alive && w.definitelyAlive(alive, s.Now()) {
						s.Failf("same-endpoint", "GetOrCreate(k%d) returned endpoint c%d (isNew=%v) while endpoint c%d of the same key is alive and was handed out at %v", o.key, c.id, isNew, alive.id, alive.lastGoC)
					}
					if c.published && !isNew {
						s.Probe("endpoint.reused")
					}
					if isNew {
						for _, o2 := range w.conns {
							if o2 != c && o2.key == c.key && o2.killStarted {
								s.Probe("endpoint.recreated-after-retire")
								break
							}
						}
					}
					c.published = true
					c.lastGoC = start
					if o.track {
						src, dst := key.Src, w.dsts[o.key]
						ue.TrackUdpConnStateTuplePair(src, dst)
						if !ue.udpConnStateClosed {
							for _, k := range []bpfTuplesKey{bpfTuplesKeyFromAddrPorts(src, dst, uint8(syscall.IPPROTO_UDP)), bpfTuplesKeyFromAddrPorts(dst, src, uint8(syscall.IPPROTO_UDP))} {
								w.kern[k] = true
								if w.owners[k] == nil {
									w.owners[k] = map[*epConn]bool{}
								}
								w.owners[k][c] = true
							}
						}
					}
					for i := 0; i < o.writes; i++ {
						_, werr := ue.WriteTo([]byte{byte(ci), byte(i), 0xAB}, w.targets[o.key])
						if werr != nil {
							break
						}
						c.writesDone++
					}
				}
			}
		})
	}

	// ---- environment
	openConns := func(pred func(c *epConn) bool) []*epConn {
		var r []*epConn
		for _, c := range w.conns {
			if c.pc.CloseCount == 0 && c.ue != nil && (pred == nil || pred(c)) {
				r = append(r, c)
			}
		}
		return r
	}
	envBudget := T.Range(0, 6)
	envTask := 0
	spawn := func(name string, f func()) {
		envTask++
		verifsim.Go(fmt.Sprintf("env-%s", name), func() { f(); envTask-- })
	}
	s.AddEvent(&verifsim.Event{Name: "reply", Enabled: func() bool { return envBudget > 0 && len(openConns(nil)) > 0 }, Fire: func() {
		envBudget--
		cs := openConns(nil)
		c := cs[T.Choose(len(cs))]
		c.delivered++
		c.pc.Deliver(verifsim.Datagram{Data: []byte{0xCD, byte(c.id)}, From: w.dsts[c.key]})
	}})
	if w.faults {
		s.AddEvent(&verifsim.Event{Name: "read-error", Enabled: func() bool { return envBudget > 0 && len(openConns(nil)) > 0 }, Fire: func() {
			envBudget--
			cs := openConns(nil)
			c := cs[T.Choose(len(cs))]
			switch T.Choose(4) {
			case 0:
				w.kill(c, "read-error")
				c.pc.InjectReadErr(verifsim.ErrSimGeneric)
				s.Fault("read-error-generic")
			case 1:
				w.kill(c, "read-refused")
				c.pc.InjectReadErr(verifsim.ErrSimReadRefused)
				s.Fault("read-error-refused")
			case 2:
				w.kill(c, "read-eof")
				c.pc.InjectReadErr(io.EOF)
				s.Fault("read-error-eof")
			case 3:
				w.kill(c, "soft-auth-error")
				c.pc.InjectReadErr(errors.New("cipher: message authentication failed"))
				s.Fault("read-error-soft-auth")
			}
		}})
		s.AddEvent(&verifsim.Event{Name: "transport-done", Enabled: func() bool {
			return envBudget > 0 && len(openConns(func(c *epConn) bool { _, ok := c.ue.conn.(netproxy.TransportLifecycle); return ok })) > 0
		}, Fire: func() {
			envBudget--
			cs := openConns(func(c *epConn) bool { _, ok := c.ue.conn.(netproxy.TransportLifecycle); return ok })
			c := cs[T.Choose(len(cs))]
			w.kill(c, "transport-done")
			c.pc.FireTransportDone()
			s.Fault("transport-done")
		}})
		s.AddEvent(&verifsim.Event{Name: "handler-fail-next", Enabled: func() bool { return envBudget > 0 && len(openConns(nil)) > 0 }, Fire: func() {
			envBudget--
			cs := openConns(nil)
			cs[T.Choose(len(cs))].failNext = true
		}})
		s.AddEvent(&verifsim.Event{Name: "invalidate", Enabled: func() bool { return envBudget > 0 && len(w.conns) > 0 }, Fire: func() {
			envBudget--
			di := T.Choose(len(dialers))
			s.Fault("health-invalidate")
			spawn("invalidate", func() {
				// endpoints of this dialer that have not definitely carried traffic may be
				// retired; those that have carried nothing at all must never be handed out again
				var cand, candNew []*epConn
				for _, c := range w.conns {
					if c.dialer == di && c.pc.CloseCount == 0 {
						if c.writesDone == 0 && c.handled == 0 {
							w.kill(c, "invalidated-before-traffic")
						}
						if c.writes == 0 && c.delivered == 0 && c.ue != nil {
							cand = append(cand, c)
						}
						// not handed out yet, but its creator is already registering it in the
						// dialer index: the generation snapshot was taken before this health
						// change, so the endpoint is as invalidated as a published one
						if c.writes == 0 && c.delivered == 0 && c.ue == nil && c.creator != "" && s.ParkedInFunc(c.creator, "UdpEndpointPool).registerEndpoint") {
							s.Probe("endpoint.invalidate-during-registration")
							candNew = append(candNew, c)
						}
					}
				}
				w.invalidating[di]++
				ntc := nt
				pool.InvalidateDialerNetworkType(dialers[di], &ntc)
				w.invalidating[di]--
				w.seq++
				for _, c := range cand {
					if c.writes == 0 && c.delivered == 0 && c.ue != nil {
						c.mustNotRet = true
						c.mustNotSeq = w.seq
					}
				}
				for _, c := range candNew {
					if c.writes == 0 && c.delivered == 0 && c.ue == nil {
						c.mustNotRet = true
						c.mustNotSeq = w.seq
					}
				}
			})
		}})
		s.AddEvent(&verifsim.Event{Name: "reset", Enabled: func() bool { return envBudget > 0 && len(w.conns) > 0 && envTask == 0 }, Fire: func() {
			envBudget--
			s.Fault("pool-reset")
			spawn("reset", func() {
				for _, c := range w.conns {
					w.kill(c, "pool-reset")
					if c.ue == nil && c.pc.CloseCount == 0 {
						c.resetOverlap = true // still being created
					}
				}
				w.resetting++
				pool.Reset()
				w.resetting--
			})
		}})
		s.AddEvent(&verifsim.Event{Name: "cancel-ctx", Enabled: func() bool {
			for _, cc := range clis {
				if cc.dialing && cc.cancel != nil {
					return envBudget > 0
				}
			}
			return false
		}, Fire: func() {
			envBudget--
			for _, cc := range clis {
				if cc.dialing && cc.cancel != nil {
					cc.cancel()
					s.Fault("ctx-cancel")
					return
				}
			}
		}})
	}
	s.AddEvent(&verifsim.Event{Name: "reload-handover", Enabled: func() bool { return envBudget > 0 && curOwner == udpConnStateOwner(coreA) }, Fire: func() {
		envBudget--
		curOwner, curTracker = coreB, trackB
		s.Probe("endpoint.generation-handover")
	}})

	// invariant after every step: no transport closed twice
	s.Invariant = func() {
		for _, c := range w.conns {
			if c.pc.CloseCount > 1 {
				s.Failf("close-once", "transport of endpoint c%d closed %d times", c.id, c.pc.CloseCount)
			}
		}
	}

	allDone := func() bool { return done == nClients && envTask == 0 }
	if !s.RunUntil(allDone, 9) {
		if !s.Failed() {
			s.Probe("step-budget-exhausted")
			// bounded liveness: with no dial hanging, no operation on the pool (get-or-create, tuple
			// tracking, write, remove) may still be running 10 simulated minutes after it began
			hanging := 0
			for _, n := range w.inFlight {
				hanging += n
			}
			for ci, cc := range clis {
				if cc != nil && !cc.done && hanging == 0 && s.Now()-cc.opStart > 10*time.Minute && !strings.Contains(cc.op, "kind 3") {
					s.Failf("client-op-wedged", "client%d has been inside %s since %v (now %v) with no dial in flight: the operation never returns; live tasks: %v", ci, cc.op, cc.opStart, s.Now(), s.LiveTasks("client"))
					break
				}
			}
		}
		spawn("close", closePool)
		s.Quiesce(func() bool { return envTask == 0 }, 0, time.Minute)
		return
	}
	// ---- quiescent checks before shutdown
	s.Quiesce(func() bool { return true }, 0, time.Millisecond)
	live := 0
	for _, c := range w.conns {
		if c.pc.CloseCount == 0 && c.ue != nil {
			live++
		}
	}
	// every dialled conn that never made it into an endpoint must have been closed by now
	for _, c := range w.conns {
		if c.ue == nil && c.pc.CloseCount == 0 && !c.published {
			// dialled, but the creating call failed or was cancelled afterwards: tolerated only if it is in the pool
			inPool := false
			for i := range pool.shards {
				for _, ue := range pool.shards[i].pool {
					if w.connOf(ue) == c {
						inPool = true
					}
				}
			}
			if !inPool {
				s.Failf("transport-leak", "dial for k%d returned transport c%d which is neither pooled nor closed", c.key, c.id)
			}
		}
	}
	if got := trackA.Count() + trackB.Count(); !s.Failed() {
		pooled := 0
		for i := range pool.shards {
			for _, ue := range pool.shards[i].pool {
				if ue != nil && !ue.failed.Load() && ue.conn != nil {
					if c := w.connOf(ue); c != nil && c.pc.CloseCount == 0 {
						pooled++
					}
				}
			}
		}
		_ = live
		if got < pooled {
			s.Failf("drain-ticket", "%d live pooled endpoints but only %d drain tickets held", pooled, got)
		}
	}
	// ---- shutdown: everything dialled is closed exactly once, nothing left running
	spawn("close", closePool)
	s.Quiesce(func() bool { return envTask == 0 }, 0, 30*time.Second)
	// the lifecycle watcher of a transport legitimately lives as long as the
	// transport itself: end every simulated transport, then nothing may be left.
	for _, c := range w.conns {
		c.pc.FireTransportDone()
	}
	ok := s.Quiesce(func() bool {
		return envTask == 0 && len(s.LiveTasks("udp_endpoint_pool.go")) == 0
	}, 0, 30*time.Second)
	if s.Failed() {
		return
	}
	if !ok {
		s.Failf("endpoint-goroutine-leak", "30 s after pool.Close(): still running %v", s.LiveTasks("udp_endpoint_pool.go"))
		return
	}
	for _, c := range w.conns {
		if c.pc.CloseCount != 1 {
			s.Failf("close-once", "transport of endpoint c%d (key k%d, %s) was closed %d times by the end of the run", c.id, c.key, c.killWhy, c.pc.CloseCount)
			return
		}
	}
	if n := trackA.Count() + trackB.Count(); n != 0 {
		s.Failf("drain-ticket", "%d drain tickets still held after every endpoint was closed", n)
		return
	}
	for k, present := range w.kern {
		if present && !w.delFault[k] {
			s.Failf("tuple-not-deleted", "conn_state tuple %v still present after its last owner was closed", k)
			return
		}
	}
}

func (c *epConn) closedSeq(w *epWorld) int {
	// the SimPacketConn stamps nothing on close; approximate by "closed before the
	// call began" == CloseCount>0 observed at call start, which callers record.
	return c.closeSeq
}

func TestSimC13b(t *testing.T) {
	verifsim.Main(t, verifsim.Engine{
		Prop: "C13", Name: "endpoint", MaxSteps: 20000, Scenario: epScenario,
		Reset: func() { componentdialer.ResetGlobalProxyStateForReload() },
		Real: []string{"control.UdpEndpointPool / UdpEndpoint (GetOrCreate, Get, Remove, Reset, Close, janitor, InvalidateDialerNetworkType, WriteTo, start, replySender, retire, Close, adoptGeneration, watchTransportLifecycle), udpConnStateTracker, controlPlaneDrainTracker, controlPlaneCore.Retain/Release/TransferRetainedUdpConnStateTuples, component/outbound/dialer.Dialer (uninstrumented)"},
		Stubs: []string{"netproxy.Dialer / PacketConn: simulated (verifsim.SimDialer, SimPacketConn)", "bpf batch delete on conn_state_map: simulated map behind a hook in the stub build's BpfMapBatchDelete", "Anyfrom reply sockets: not created (no netns)"},
		Rule:  "tape draws NAT timeout, 1-3 endpoint keys (src-only, src+dst, route-scoped), 1-4 clients x 1-5 ops (GetOrCreate+writes+tuple tracking, Get, Remove, sleeps around the NAT timeout), 1-2 dialers, per-dial outcome, environment events (replies, read errors, transport end, handler failure, health invalidation, pool reset, ctx cancel, generation hand-over); non-trivial = >=2 schedulable options at some step or >=1 fault fired",
	})
}
