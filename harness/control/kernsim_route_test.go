package control

// C02 engine "kernroute": the kernel routing function route() of the working
// tree's tproxy.c, run natively over the bytes the real Go builder/encoders
// install (through real kernel maps when bpf(2) is available), compared per
// probe packet with RoutingMatcher.Match and with refroute (rules as written),
// over install / reload / rollback histories with LPM ring slots.

import (
	"fmt"
	"net/netip"
	"testing"

	"github.com/daeuniverse/dae/common/consts"
	verifsim "github.com/daeuniverse/dae/internal/verifsim"
	dnsmessage "github.com/miekg/dns"
)

func TestSimC02(t *testing.T) {
	verifsim.Main(t, verifsim.Engine{
		Prop: "C02", Name: "kernroute", NoBubble: true, Scenario: c02Scenario,
		Real: []string{
			"control/kern/tproxy.c route() and callees, compiled natively (clang, ASan+UBSan) from the working tree",
			"routing.NewNormalizedProgram with the production optimiser list; RoutingMatcherBuilder (all add* functions); KernspaceSnapshot/buildRoutingKernspace incl. reserveLpmRingSlots, rewriteKernRulesWithRingLpmIndex, cidrToBpfLpmKey, bpfPortRange.Encode, BpfMapBatchUpdate, newLpmMap on real kernel maps",
			"BuildUserspace + RoutingMatcher.Match; controlPlaneCore.Inherit/Replace/EjectLpmIndices and Close; BatchUpdateDomainRouting / domainRoutingTracker.syncOwner; clearReloadDomainRoutingMap",
			"config_parser.Parse + config.New (incl. patchMustOutbound) for the control-plane side; config_parser.Parse alone for the oracle",
		},
		Stubs: []string{
			"the kernel itself: maps, helpers and bpf_loop are simulated (kernsim/driver.c); BPF bytecode, verifier and JIT are not involved",
			"DNS controller / cache: domain bindings are DnsCache values built by the harness and pushed through BatchUpdateDomainRouting",
			"when bpf(2) is unavailable (probe kern.fallback-decode) buildRoutingKernspace's map calls are replaced by harness glue over the same encoders",
		},
		Rule: "one run = outbound table + up to 6 routing generations (install, reload with slot inheritance, rollback with rebuild) + domain bindings + probe packets drawn from rule boundaries; non-trivial = at least one probe decided by a written rule or at least one reload; signature = sequence of (step kind, deciding rule / packet class)",
	})
}

type c02State struct {
	s     *verifsim.Sim
	w     *ksWorld
	outs  *ksOutTable
	cur   *ksGeneration
	binds []ksBinding
	bd    *ksBoundaries
	nprobe int
}

func c02Scenario(s *verifsim.Sim) {
	T := s.T
	outs := genOutbounds(T)
	// pre-position the process-wide ring allocator so that wrap-around is reached in a few reloads
	max := uint32(consts.MaxMatchSetLen)
	start := []uint32{0, max - 3, max - 1, max - 9, max / 2, 5}[T.Pick(3, 3, 2, 2, 1, 1)]
	globalNextLpmIndex.Store(start)

	opts := ksWorldOpts{}
	faultKind := T.Pick(14, 1, 1, 1)
	faultGen := 1 + T.Choose(3)
	switch faultKind {
	case 1:
		opts.LpmArrayMax = 4 + uint32(T.Choose(6)) // slots beyond this cannot be installed
		globalNextLpmIndex.Store(0)
	case 2:
		opts.LpmInnerMax = 1 + uint32(T.Choose(2)) // tries hold at most this many prefixes
	case 3:
		opts.RoutingMapMax = 3 + uint32(T.Choose(6))
	}
	_ = faultGen
	w := newKsWorld(s, opts)
	defer w.Close()
	w.lastRing = globalNextLpmIndex.Load()
	if !w.real {
		faultKind = 0
	}
	st := &c02State{s: s, w: w, outs: outs}
	nGen := 1 + T.Pick(3, 3, 2, 1, 1, 1)
	maxRules := 12
	var simNs uint64

	for g := 0; g < nGen && !s.Failed(); g++ {
		text := genRuleText(T, outs, maxRules)
		gen, builder, err := buildGeneration(w, text, outs)
		if err != nil {
			ksFatal("generated rule text rejected: %v\n%s", err, text)
		}
		if st.cur != nil && faultKind == 0 && len(st.cur.core.lpmTrieIndices) > 0 && T.Chance(1, 6) {
			// the ring has gone round (slots of many built-and-retired generations in between): the next
			// allocation lands on slots the live generation still owns
			globalNextLpmIndex.Store(st.cur.core.lpmTrieIndices[T.Choose(len(st.cur.core.lpmTrieIndices))])
			w.lastRing = globalNextLpmIndex.Load()
			s.Probe("kern.slot-reuse")
		}
		s.Notef("generation %d (ring at %d):\n%s", g, globalNextLpmIndex.Load(), text)
		before := globalNextLpmIndex.Load()
		idx, err := w.BuildKernspace(gen)
		if s.Failed() {
			return
		}
		if err != nil {
			if faultKind == 0 {
				s.Failf("install-error", "BuildKernspace failed without an injected fault: %v\nrules:\n%s", err, text)
				return
			}
			s.Fault(fmt.Sprintf("install-fail-%d", faultKind))
			s.SeqStep("install-failed", fmt.Sprintf("gen%d kind%d", g, faultKind), true)
			// A failure in the LPM phase leaves routing_map untouched: the previous
			// generation must still decide as before (its slots are not the failed one's).
			if st.cur != nil && faultKind != 3 {
				st.probes(4+T.Choose(8), "after-failed-install")
			}
			return
		}
		if after := globalNextLpmIndex.Load(); after < before {
			s.Probe("kern.ring-wrap")
		}
		gen.core.lpmTrieIndices = idx
		gen.matcher, err = builder.BuildUserspace()
		if err != nil {
			ksFatal("BuildUserspace: %v", err)
		}
		s.SeqStep("install", fmt.Sprintf("gen%d rules=%d lpm=%d", g, len(gen.ref.rules), len(idx)), len(gen.ref.rules) > 0)

		if st.cur == nil {
			st.cur = gen
			st.rebind(T)
		} else {
			old := st.cur
			flavour := T.Pick(5, 2)
			switch flavour {
			case 0: // normal reload: new generation takes over, inherits and frees the old slots
				s.Probe("kern.reload")
				st.cur = gen
				if T.Chance(1, 2) {
					// overlap window: new program live, old slots not yet reclaimed
					st.rebind(T)
					st.probes(3+T.Choose(6), "overlap")
				}
				gen.core.InheritLpmIndices(old.core.EjectLpmIndices())
				old.core.Close()
				if !w.AfterSlotOps() {
					return
				}
				s.SeqStep("retire-old", fmt.Sprintf("gen%d", g-1), true)
				st.rebind(T)
			case 1: // staged reload fails: new generation is closed, the old one rebuilds its datapath
				s.Probe("kern.rollback")
				gen.core.Close() // deletes the new generation's slots
				if !w.AfterSlotOps() {
					return
				}
				idx2, err := w.BuildKernspace(old)
				if s.Failed() {
					return
				}
				if err != nil {
					if faultKind == 0 {
						s.Failf("install-error", "rebuild of the previous generation failed without an injected fault: %v", err)
					} else {
						s.Fault(fmt.Sprintf("install-fail-%d", faultKind))
					}
					return
				}
				old.core.ReplaceLpmIndices(idx2)
				if !w.AfterSlotOps() {
					return
				}
				s.SeqStep("rollback", fmt.Sprintf("gen%d", g), true)
				st.rebind(T)
			}
		}
		st.probes(6+T.Choose(30), "steady")
		simNs += 1e9
	}
	// end of run: a full scan of every ring slot, then a last round of probes, so that
	// nothing the control plane wrote outside the expected window goes unseen
	if !s.Failed() && st.cur != nil && st.cur.matcher != nil {
		if w.MirrorRouting(true) {
			st.probes(4, "final")
		}
	}
	s.SeqSimTime = 0
}

// rebind replays the DNS bindings against the current generation the way a
// (re)load does: clear the shared table, fresh tracker, bitmaps from the new matcher.
func (st *c02State) rebind(T *verifsim.Tape) {
	w, g := st.w, st.cur
	if st.binds == nil || T.Chance(1, 3) {
		st.binds = genBindings(T, g.ref)
	}
	st.bd = ksCollect(g.ref)
	if w.real {
		if err := clearReloadDomainRoutingMap(w.bpf); err != nil {
			ksFatal("clearReloadDomainRoutingMap: %v", err)
		}
	}
	g.core.domainRouting = newDomainRoutingTracker()
	for i, b := range st.binds {
		cache := &DnsCache{RouteOwnerKey: fmt.Sprintf("owner%d:%s", i, refCanonDomain(b.name)),
			DomainBitmap: g.matcher.domainMatcher.MatchDomainBitmap(b.name)}
		for _, a := range b.addrs {
			if a.Is4() {
				cache.Answer = append(cache.Answer, &dnsmessage.A{Hdr: dnsmessage.RR_Header{Name: dnsmessage.Fqdn(b.name), Rrtype: dnsmessage.TypeA, Class: dnsmessage.ClassINET, Ttl: 60}, A: a.AsSlice()})
			} else {
				cache.Answer = append(cache.Answer, &dnsmessage.AAAA{Hdr: dnsmessage.RR_Header{Name: dnsmessage.Fqdn(b.name), Rrtype: dnsmessage.TypeAAAA, Class: dnsmessage.ClassINET, Ttl: 60}, AAAA: a.AsSlice()})
			}
		}
		if err := g.core.BatchUpdateDomainRouting(cache); err != nil {
			st.s.Failf("install-error", "BatchUpdateDomainRouting(%s): %v", b.name, err)
			return
		}
	}
	if !w.real {
		// fallback: the tracker's merged view is what syncOwner would have written
		var ents []ksKV
		for k, stt := range g.core.domainRouting.ips {
			kk := k
			ents = append(ents, ksKV{ksRawBytes(&kk), ksNative(stt.merged)})
		}
		sortKV(ents)
		w.applyDomain(w.c.Maps["domain_routing_map"], ents)
		if len(st.binds) > 0 {
			st.s.Probe("kern.domain-bitmap")
		}
		return
	}
	w.MirrorDomain()
	if len(st.binds) > 0 {
		st.s.Probe("kern.domain-bitmap")
	}
}

func (st *c02State) probes(n int, phase string) {
	for i := 0; i < n && !st.s.Failed() && st.nprobe < 200; i++ {
		p := genPacket(st.s.T, st.cur.ref, st.bd, st.binds)
		st.probeOne(p, phase)
		st.nprobe++
	}
}

func decodeRoute(v int64) (out uint8, mark uint32, must bool) {
	return uint8(v & 0xff), uint32((v >> 8) & 0xffffffff), (v>>40)&1 != 0
}

func (st *c02State) probeOne(p *refPacket, phase string) {
	s, g := st.s, st.cur
	var flag [8]uint32
	flag[0] = uint32(p.l4type())
	flag[1] = uint32(p.ipver())
	pn := p.pname16()
	for i := 0; i < 4; i++ {
		flag[2+i] = uint32(pn[4*i]) | uint32(pn[4*i+1])<<8 | uint32(pn[4*i+2])<<16 | uint32(pn[4*i+3])<<24
	}
	flag[6] = uint32(p.dscp)
	if p.wan {
		flag[7] = 1
	}
	kv, err := st.w.c.Route(flag, p.sport, p.dport, p.src.As16(), p.dst.As16(), p.mac16())
	if st.w.simErr(err) {
		return
	}
	uOut, uMark, uMust, uErr := g.matcher.Match(p.src.As16(), p.dst.As16(), p.sport, p.dport, p.ipver(), p.l4type(), p.domain, p.pname16(), p.dscp, p.mac16())
	ref := g.ref.route(p)
	cls := fmt.Sprintf("%s rule=%d", phase, ref.rule)
	s.SeqStep("probe", cls, ref.rule >= 0)
	s.Notef("probe %s", p)
	if p.dport == 53 {
		s.Probe("kern.dns-port53")
	}
	for i := range g.ref.rules {
		if g.ref.rules[i].out.mustRules && i < ref.rule || (ref.rule < 0 && g.ref.rules[i].out.mustRules) {
			if ref.must {
				s.Probe("kern.must-rules")
			}
			break
		}
	}
	ctx := func() string {
		return fmt.Sprintf("packet: %s\nphase: %s\nrules as written:\n%s", p, phase, g.text)
	}
	if kv < 0 {
		s.Failf("route-negative", "route() returned %d (negative: missing trie slot / no match) where the userspace matcher says (%d,%#x,%v,%v)\n%s", kv, uOut, uMark, uMust, uErr, ctx())
		return
	}
	if uErr != nil {
		s.Failf("route-mismatch", "RoutingMatcher.Match failed: %v while route() returned %#x\n%s", uErr, kv, ctx())
		return
	}
	kOut, kMark, kMust := decodeRoute(kv)
	// the one documented difference: DNS (dport 53) not covered by must is handed to the control plane
	eOut, eMark, eMust := uint8(uOut), uMark, uMust
	if p.dport == 53 && !uMust {
		eOut = uint8(consts.OutboundControlPlaneRouting)
	}
	userDec := refDecision{uint8(uOut), uMark, uMust, 0}
	kernDec := refDecision{kOut, kMark, kMust, 0}
	if p.dport == 53 && !kMust && kOut == uint8(consts.OutboundControlPlaneRouting) {
		kernDec.outbound = ref.outbound // hidden behind the sentinel; compare mark/must only
	}
	if kOut != eOut || kMark != eMark || kMust != eMust {
		rule := "route-mismatch"
		if tag := refDiagnose(g.ref, p, userDec, kernDec); tag != "" {
			rule += "/" + tag
		}
		s.Failf(rule, "%s: kernel route() = (outbound=%d mark=%#x must=%v), userspace Match = (outbound=%d mark=%#x must=%v) [expected from kernel: outbound=%d]; rules as written say %v\n%s",
			rule, kOut, kMark, kMust, uOut, uMark, uMust, eOut, ref, ctx())
		return
	}
	if uint8(uOut) != ref.outbound || uMark != ref.mark || uMust != ref.must {
		rule := "refroute-mismatch"
		if tag := refDiagnose(g.ref, p, userDec, kernDec); tag != "" {
			rule += "/" + tag
		}
		s.Failf(rule, "%s: kernel and userspace agree on (outbound=%d mark=%#x must=%v) but the rules as written decide %v\n%s",
			rule, uOut, uMark, uMust, ref, ctx())
		return
	}
}

func sortKV(e []ksKV) {
	for i := 1; i < len(e); i++ {
		for j := i; j > 0 && string(e[j].K) < string(e[j-1].K); j-- {
			e[j], e[j-1] = e[j-1], e[j]
		}
	}
}

var _ = netip.Addr{}
