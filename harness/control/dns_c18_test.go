package control

// dnssim — C18 (stateful part): the dial target follows dial_mode; in domain mode
// the sniffed name is used only while it is known to be genuine (resolved through
// dae until the ORIGINAL TTL, or verified by a completed real-domain probe); the
// probe is asynchronous, single-flight and negatively cached; literals are
// normalised.

import (
	"context"
	"errors"
	"fmt"
	"net"
	"net/netip"
	"strconv"
	"strings"
	"time"

	"github.com/daeuniverse/dae/common/consts"
	"github.com/daeuniverse/dae/common/netutils"
	verifsim "github.com/daeuniverse/dae/internal/verifsim"
	"github.com/daeuniverse/outbound/netproxy"
	dnsmessage "github.com/miekg/dns"
)

type dnsProbe struct {
	host    string
	startAt time.Duration
	endAt   time.Duration
	done    bool
	outcome string // ip | norecord | error | timeout
	settled bool   // every task was drained after the resolver returned: the probe's result is recorded
}

type dnsC18 struct {
	probes  []*dnsProbe
	script  map[string]int // sniffed string -> outcome kind
	negTTL  time.Duration
	timeout time.Duration
}

func (w *dnsWorld) c18InstallProbeSeam() {
	s, T := w.s, w.T
	c := w.c18
	resolveIp46ForRealDomainProbe = func(ctx context.Context, d netproxy.Dialer, resolver netip.AddrPort, host string, network string, race bool) (*netutils.Ip46, error, error) {
		kind, ok := c.script[host]
		if !ok {
			kind = T.Pick(3, 2, 1, 1)
			c.script[host] = kind
		}
		if kind >= 2 {
			// a resolver that failed answers the next time it is asked (derived, no draw): a
			// host whose probe failed an odd number of times is found on the next probe
			fails := 0
			for _, o := range c.probes {
				if o.host == host && o.done && (o.outcome == "error" || o.outcome == "timeout") {
					fails++
				}
			}
			if fails%2 == 1 {
				kind = 0
			}
		}
		p := &dnsProbe{host: host, startAt: s.Now()}
		for _, o := range c.probes {
			if o.host == host && !o.done {
				s.Failf("c18-concurrent-probes", "a second real-domain probe for %q starts at %v while the one started at %v is still running", host, s.Now(), o.startAt)
			}
			if o.host == host && o.done && o.outcome == "norecord" && s.Now() < o.endAt+c.negTTL-2*time.Second {
				s.Failf("c18-probe-during-negative-cache", "the real-domain probe for %q found no record at %v (negative cache %v) and a new probe starts at %v", host, o.endAt, c.negTTL, s.Now())
			}
		}
		c.probes = append(c.probes, p)
		s.Probe("dns.c18-probe-started")
		delay := []time.Duration{10 * time.Millisecond, 100 * time.Millisecond, 300 * time.Millisecond}[T.Choose(3)]
		if kind == 3 {
			delay = time.Hour // never answers: the probe timeout ends it
		}
		s.Notef("real-domain probe for %q starts (script %d, delay %v)", host, kind, delay)
		tm := time.NewTimer(delay)
		select {
		case <-tm.C:
		case <-ctx.Done():
			kind = 3
		}
		tm.Stop()
		verifsim.YieldB("probe-resolver-woke")
		p.done, p.endAt = true, s.Now()
		switch kind {
		case 0:
			p.outcome = "ip"
			return &netutils.Ip46{Ip4: netip.MustParseAddr("203.0.113.9")}, nil, nil
		case 1:
			p.outcome = "norecord"
			return &netutils.Ip46{}, nil, nil
		case 2:
			p.outcome = "error"
			return &netutils.Ip46{}, errors.New("simulated resolver failure"), errors.New("simulated resolver failure")
		}
		p.outcome = "timeout"
		s.Fault("probe-timeout")
		return &netutils.Ip46{}, ctx.Err(), ctx.Err()
	}
}

// verified: "yes" if a successful probe for exactly this string has completed and
// its task has finished; "no" if no probe for it has returned success yet.
func (w *dnsWorld) c18Verified(sniffed string) string {
	st := "no"
	for _, p := range w.c18.probes {
		if p.host == sniffed && p.outcome == "ip" {
			st = "maybe"
			if p.done && p.settled {
				st = "yes"
			}
		}
		if p.host == sniffed && !p.done {
			if st == "no" {
				st = "maybe"
			}
		}
	}
	return st
}

// knownByDns: "yes" / "no" / "maybe" for (name, family) at this instant.
func (w *dnsWorld) c18Known(name int, qtype uint16) string {
	now := w.s.Now()
	res := "no"
	for _, e := range w.track.hist {
		if !e.keyOK || e.key.name != name || e.key.qtype != qtype {
			continue
		}
		od, ok := e.originalDeadline()
		if !ok {
			res = "maybe" // empty answers: no demand
			continue
		}
		odMax, _ := e.originalDeadlineMax() // answers mixing TTLs: between the shortest and the longest nothing is demanded
		switch {
		case !e.removed && now < od-2*time.Second && now > e.insertedAt:
			return "yes"
		case !e.removed && now < od-2*time.Second:
			// stored at this very instant: the resolution that produced it is still running
			// (the entry is published a few operations before it is registered as known)
			res = "maybe"
		case now < odMax+2*time.Second:
			res = "maybe" // near the boundary, or removed early (eviction / reject drops the knowledge)
		}
	}
	return res
}

// c18FailedProbeOnly: non-empty (a description) if every probe for this string
// has completed, was drained, and none of them gave a verdict (all failed).
func (w *dnsWorld) c18FailedProbeOnly(sniffed string) string {
	n, last := 0, ""
	for _, p := range w.c18.probes {
		if p.host != sniffed {
			continue
		}
		if !p.done || !p.settled || (p.outcome != "error" && p.outcome != "timeout") {
			return ""
		}
		n++
		last = fmt.Sprintf("%d probes, the last one ended at %v with outcome %s", n, p.endAt, p.outcome)
	}
	return last
}

type dnsConn struct {
	mode     consts.DialMode
	outbound consts.OutboundIndex
	dst      netip.AddrPort
	sniffed  string
	name     int // -1: not one of the run's names
}

func (w *dnsWorld) c18Check(c dnsConn, target string, reroute, dialIp bool, known, verified string, took time.Duration) {
	s := w.s
	desc := fmt.Sprintf("dial_mode=%s outbound=%s dst=%s sniffed=%q -> target %q reroute=%v dialIp=%v", c.mode, c.outbound.String(), c.dst, c.sniffed, target, reroute, dialIp)
	if took > time.Millisecond {
		s.Failf("c18-dial-target-blocked", "%s: ChooseDialTarget took %v of simulated time (it must not wait for the real-domain probe)", desc, took)
		return
	}
	host, port, err := net.SplitHostPort(target)
	if err != nil || host == "" || strings.ContainsAny(host, "[]") {
		s.Failf("c18-malformed-target", "%s: not a valid host:port (%v)", desc, err)
		return
	}
	if _, err := strconv.ParseUint(port, 10, 16); err != nil {
		s.Failf("c18-malformed-target", "%s: bad port", desc)
		return
	}
	wantIP := func(why string) {
		if target != c.dst.String() {
			s.Failf("c18-name-leaked@"+why, "%s: the destination address %s must be dialled (%s)", desc, c.dst, why)
		}
	}
	if c.mode == consts.DialMode_Ip || c.sniffed == "" || c.outbound.IsReserved() {
		wantIP("ip-mode-or-no-name-or-reserved-outbound")
		if reroute {
			s.Failf("c18-unexpected-reroute", "%s: re-routing requested although the name is not used", desc)
		}
		return
	}
	// the normalised form of the sniffed value
	lit := strings.TrimSuffix(strings.TrimPrefix(c.sniffed, "["), "]")
	wantName := ""
	if _, e := netip.ParseAddr(lit); e == nil && (lit == c.sniffed || strings.HasPrefix(c.sniffed, "[")) {
		wantName = net.JoinHostPort(lit, strconv.Itoa(int(c.dst.Port())))
	} else if _, _, e := net.SplitHostPort(c.sniffed); e == nil {
		wantName = c.sniffed
	} else {
		wantName = net.JoinHostPort(c.sniffed, strconv.Itoa(int(c.dst.Port())))
	}
	switch c.mode {
	case consts.DialMode_DomainPlus, consts.DialMode_DomainCao:
		if !strings.EqualFold(target, wantName) {
			s.Failf("c18-wrong-target@"+string(c.mode), "%s: expected %q", desc, wantName)
			return
		}
		if want := c.mode == consts.DialMode_DomainCao; reroute != want {
			s.Failf("c18-wrong-reroute@"+string(c.mode), "%s: shouldReroute must be %v", desc, want)
		}
	case consts.DialMode_Domain:
		if c.name < 0 {
			// literals / host:port: never "a name known to be genuine"
			if verified == "no" {
				wantIP("literal-or-unknown-value-in-domain-mode")
			}
			return
		}
		isName := strings.EqualFold(target, wantName)
		switch {
		case known == "yes" || verified == "yes":
			if !isName {
				cls := "resolved-through-dae"
				if known != "yes" {
					cls = "verified-by-probe"
				}
				s.Failf("c18-known-name-not-used@"+cls, "%s: the name is known to be genuine (dns knowledge=%s, probe=%s) and must be sent to the node", desc, known, verified)
			}
		case known == "no" && verified == "no":
			// reach: the name still has an entry in the cache (fixed_domain_ttl keeps it beyond the original TTL)
			live, scopes, evicted := 0, map[int]bool{}, false
			for _, e := range w.track.hist {
				if e.keyOK && e.key.name == c.name && e.key.qtype == dnsTypeOfAddr(c.dst.Addr()) {
					scopes[e.key.scope] = true
					if !e.removed {
						live++
					} else if !e.replaced {
						evicted = true
					}
				}
			}
			if live > 0 {
				s.Probe("dns.c18-unknown-name-still-cached-past-its-original-ttl")
				if len(scopes) > 1 {
					s.Probe("dns.c18-unknown-name-still-cached-and-seen-under-two-scopes")
					if evicted {
						s.Probe("dns.c18-unknown-name-still-cached-after-a-sibling-scope-was-evicted")
					}
				}
			}
			if target != c.dst.String() {
				s.Failf("c18-name-leaked@not-known-genuine", "%s: the name was neither resolved through dae within its original TTL nor verified by a completed probe; the destination address %s must be dialled", desc, c.dst)
			}
		}
	}
}

func dnsScenarioC18(w *dnsWorld) {
	s, T := w.s, w.T
	w.faulty = 0
	mode := []consts.DialMode{consts.DialMode_Domain, consts.DialMode_Domain, consts.DialMode_Ip, consts.DialMode_DomainPlus, consts.DialMode_DomainCao}[T.Choose(5)]
	w.cfg = dnsCfg{optimistic: T.Chance(1, 2), staleTtl: 30, fixed: map[string]int{}, janitor: []time.Duration{30 * time.Second, 5 * time.Second}[T.Choose(2)], idleTTL: 2 * time.Minute}
	w.cfg.maxSize = []int{0, 2}[T.Pick(4, 1)]
	// a third of the domain-mode runs concentrate on one name with a long fixed_domain_ttl that is
	// resolved through both resolvers (two scoped entries of one name) in a cache of two entries:
	// evictions re-derive what is known about the name from the entries that remain
	scopeBias := mode == consts.DialMode_Domain && T.Chance(1, 3)
	biasOps := 0
	if scopeBias {
		w.cfg.maxSize = 2
		s.Probe("dns.c18-one-name-two-scopes-small-cache")
	}
	w.c18 = &dnsC18{script: map[string]int{}}
	w.c18.negTTL = []time.Duration{10 * time.Second, 30 * time.Second}[T.Choose(2)]
	if !w.setup(dnsSetup{nNames: [2]int{2, 4}, nUps: [2]int{1, 2}, schemes: []string{"udp"}, reject: true, dialMode: mode}) {
		return
	}
	realDomainNegativeCacheTTL = w.c18.negTTL
	if T.Chance(1, 2) || scopeBias {
		w.cfg.fixed[dnsAllNames[w.names[0]]] = []int{5, 900}[T.Choose(2)]
		if scopeBias {
			w.cfg.fixed[dnsAllNames[w.names[0]]] = 900
		}
		w.plane.dnsFixedDomainTtl = w.cfg.fixed
		if err := w.ctl.TryUpdateRuntime(w.controllerOption(), w.plane.dnsRouting); err != nil {
			s.Failf("harness-dns", "%v", err)
			return
		}
		s.Notef("fixed_domain_ttl %v", w.cfg.fixed)
	}
	w.drawSpecs([]int{1, 2, 3}, false, false)
	w.c18InstallProbeSeam()
	if scopeBias {
		// the verification probe finds no record for this name: it never becomes "verified", what is known about
		// it comes from the DNS cache alone
		w.c18.script[dnsAllNames[w.names[0]]] = 1
	}
	s.Notef("dial_mode %s, negative cache %v", mode, w.c18.negTTL)
	rounds := T.Range(3, 12)
	dsts := []netip.AddrPort{netip.MustParseAddrPort("93.184.216.34:443"), netip.MustParseAddrPort("[2606:2800:220:1::1]:8443")}
	for r := 0; r < rounds && !s.Failed(); r++ {
		if T.Chance(2, 5) {
			// resolve a name through dae
			op := &dnsOp{cli: 0, idx: len(w.ops), id: uint16(100 + len(w.ops)), resolver: T.Pick(2, 1)}
			op.name, op.qtype = w.names[T.Choose(len(w.names))], dnsQtypes[T.Pick(2, 1)]
			if scopeBias && T.Chance(2, 3) {
				// alternate between the two resolvers: first, second, first again (a hit that makes the
				// older entry the more recently used one), ...
				op.name, op.qtype, op.resolver = w.names[0], dnsQtypes[T.Pick(3, 1)], biasOps%2
				biasOps++
			}
			op.qname = w.wireName(op.name, T.Pick(4, 1, 1))
			w.ops = append(w.ops, op)
			done := false
			verifsim.Go("client0", func() { w.doOp(op, 10*time.Second); done = true })
			if !w.settle(func() bool { return done && !w.pendingWork() && w.fwdInFlight() == 0 }, 6) {
				break
			}
			// every third resolution is followed by a reload that builds a new controller and
			// replays the cloned cache (derived from the op count, no extra draw); the harness's
			// knowledge of resolved names lives on through the restored entries
			if len(w.ops)%3 == 2 && !scopeBias { // (a reload rebuilds what is known from the restored entries; the biased runs are about evictions)
				s.Quiesce(func() bool { return true }, 0, 0)
				w.track.scan()
				if !w.pendingWork() && w.fwdInFlight() == 0 {
					w.env("reload", func() { w.reloadClone() })
					s.RunUntil(func() bool { return w.envTasks == 0 }, 5)
					s.Probe("dns.c18-clone-restore-reload")
				}
			}
		} else {
			// a connection with a sniffed value
			c := dnsConn{mode: mode, dst: dsts[T.Pick(2, 1)], outbound: consts.OutboundIndex(2), name: -1}
			if T.Chance(1, 8) {
				c.outbound = consts.OutboundDirect
			}
			switch T.Pick(10, 1, 1, 1, 1, 1, 1) {
			case 0:
				c.name = w.names[T.Choose(len(w.names))]
				if scopeBias && T.Chance(2, 3) {
					c.name = w.names[0]
				}
				c.sniffed = dnsAllNames[c.name]
				switch T.Pick(4, 1, 1) {
				case 1:
					c.sniffed = strings.ToUpper(c.sniffed)
				case 2:
					c.sniffed += "."
				}
			case 1:
				c.sniffed = ""
			case 2:
				c.sniffed = "198.51.100.77"
				if len(w.names)%2 == 1 { // no new draw: the variant follows the number of names of the run
					c.sniffed = "198.51.100.77:8443" // literal that already carries a port
				}
			case 3:
				c.sniffed = "[2001:db8::77]"
				if len(w.names)%2 == 1 {
					c.sniffed = "[2001:db8::77]:8443" // bracketed literal that already carries a port
				}
			case 4:
				c.sniffed = "2001:db8::77"
			case 5:
				if mode != consts.DialMode_Domain {
					c.sniffed = dnsAllNames[w.names[0]] + ":8443"
				}
			case 6:
				c.sniffed = "never-resolved.invalid"
			}
			done := false
			expectProbe, probesBefore := "", 0
			verifsim.Go("conn", func() {
				defer func() { done = true }()
				known, verified := "no", "no"
				if c.name >= 0 {
					w.track.scan()
					known = w.c18Known(c.name, dnsTypeOfAddr(c.dst.Addr()))
				}
				verified = w.c18Verified(c.sniffed)
				probesBefore = len(w.c18.probes)
				if c.mode == consts.DialMode_Domain && c.name >= 0 && !c.outbound.IsReserved() && known == "no" && verified == "no" {
					expectProbe = w.c18FailedProbeOnly(c.sniffed)
				}
				t0 := s.Now()
				target, reroute, dialIp := w.plane.ChooseDialTarget(c.outbound, c.dst, c.sniffed)
				took := s.Now() - t0
				if known2, verified2 := known, w.c18Verified(c.sniffed); verified2 != verified || (c.name >= 0 && w.c18Known(c.name, dnsTypeOfAddr(c.dst.Addr())) != known2) {
					known, verified = "maybe", "maybe" // changed while the call ran
				}
				s.Notef("connection: mode=%s outbound=%s dst=%s sniffed=%q -> target=%q reroute=%v dialIp=%v (known=%s verified=%s)", mode, c.outbound.String(), c.dst, c.sniffed, target, reroute, dialIp, known, verified)
				if c.mode == consts.DialMode_Domain && c.name >= 0 {
					if known == "yes" {
						s.Probe("dns.c18-known-by-dns")
					}
					if verified == "yes" {
						s.Probe("dns.c18-verified-by-probe")
					}
					if known == "no" && verified == "no" {
						s.Probe("dns.c18-unknown-name")
					}
				}
				w.c18Check(c, target, reroute, dialIp, known, verified, took)
			})
			// time advances by at most 1 µs per scheduler step while the call runs, so a call
			// that takes a millisecond of simulated time has really waited for something
			if !s.RunUntil(func() bool { return done }, 1) {
				break
			}
			if expectProbe != "" && !s.Failed() {
				// a probe that FAILED (resolver error / timeout) says nothing about the name:
				// the next connection carrying it must have it probed again
				s.Probe("dns.c18-connection-after-failed-probe")
				s.Quiesce(func() bool { return true }, 0, 0)
				if len(w.c18.probes) == probesBefore && !s.Failed() {
					s.Failf("c18-failed-probe-suppresses-reprobing", "the only real-domain probe(s) for %q so far failed (%s), the name is not known otherwise, and a new connection carrying it at %v did not start a probe", c.sniffed, expectProbe, s.Now())
				}
			}
			// let a probe that was triggered run to its end (or not: the next round may race it)
			if T.Chance(2, 3) {
				s.RunUntil(func() bool {
					for _, p := range w.c18.probes {
						if !p.done {
							return false
						}
					}
					return true
				}, 6)
				s.Quiesce(func() bool { return true }, 0, 0)
				for _, p := range w.c18.probes {
					if p.done {
						p.settled = true
					}
				}
				w.track.scan()
			}
		}
		w.idle(w.pickJumpC18())
	}
	w.shutdown()
}

func dnsTypeOfAddr(a netip.Addr) uint16 {
	if a.Is4() {
		return dnsmessage.TypeA
	}
	return dnsmessage.TypeAAAA
}

// pickJumpC18: instants around the ORIGINAL ttl of a resolved name and around the
// end of the negative cache of a probed name, >= 2 s away from both.
func (w *dnsWorld) pickJumpC18() time.Duration {
	T := w.T
	now := w.s.Now()
	var targets []time.Duration
	for _, e := range w.track.hist {
		if od, ok := e.originalDeadline(); ok && e.keyOK {
			targets = append(targets, od-3*time.Second, od+3*time.Second)
			if dl, ok2 := e.deadline(w); ok2 && dl != od {
				targets = append(targets, dl+3*time.Second)
			}
		}
	}
	for _, p := range w.c18.probes {
		if p.done && p.outcome == "norecord" {
			targets = append(targets, p.endAt+w.c18.negTTL-3*time.Second, p.endAt+w.c18.negTTL+3*time.Second)
		}
	}
	var fut []time.Duration
	for _, t := range targets {
		if t > now {
			fut = append(fut, t)
		}
	}
	if len(fut) == 0 || T.Chance(1, 3) {
		return []time.Duration{100 * time.Millisecond, time.Second, 4 * time.Second}[T.Choose(3)]
	}
	return fut[T.Choose(len(fut))] - now
}
