package control

// C16 / C15: node health thresholds, edge-triggered callbacks, group membership,
// kernel connectivity bit, reload hand-over; selection policy and tolerance.
// Real code: component/outbound/dialer (health state machine, AliveDialerSet,
// recovery timers, reload suppression), component/outbound (DialerGroup),
// control.outboundAliveChangeCallback writing a real outbound_connectivity_map.

import (
	"context"
	"errors"
	"fmt"
	"io"
	"net"
	"sort"
	"strings"
	"testing"
	"time"

	"github.com/cilium/ebpf"
	"github.com/daeuniverse/dae/common/consts"
	ob "github.com/daeuniverse/dae/component/outbound"
	componentdialer "github.com/daeuniverse/dae/component/outbound/dialer"
	verifsim "github.com/daeuniverse/dae/internal/verifsim"
	D "github.com/daeuniverse/outbound/dialer"
	"github.com/sirupsen/logrus"
)

type hNode struct {
	d      *componentdialer.Dialer
	i      int
	addr   string
	alive  [8]bool
	pf, tf [8]int
	hasLat [8]bool
}

type hGroup struct {
	g        *ob.DialerGroup
	outbound uint8
	members  []int
	policy   ob.DialerSelectionPolicy
	tol      time.Duration
	switched bool
	lastBest [8]*componentdialer.Dialer
	bestInit [8]bool
}

type hTrans struct {
	node  int
	idx   int
	alive bool
}

type hWorld struct {
	s       *verifsim.Sim
	nodes   []*hNode
	groups  []*hGroup
	types   [6]*componentdialer.NetworkType
	deaths  map[string]int
	obs     []hTrans // observed transition callbacks
	inflight map[int]int
	overlap  map[int]bool // node had two state-changing reports in flight at once
	depth   int      // model of the suppression depth
	lastEnd time.Duration
	endSeen bool
	cmap    *ebpf.Map
}

func isUDP(nt *componentdialer.NetworkType) bool { return nt.L4Proto == consts.L4ProtoStr_UDP }

func (w *hWorld) suppressed() bool { return w.depth > 0 }

func (w *hWorld) nodeOf(d *componentdialer.Dialer) *hNode {
	for _, n := range w.nodes {
		if n.d == d {
			return n
		}
	}
	return nil
}

// ---- reference model (from the property statement) -------------------------

func (w *hWorld) mDie(n *hNode, idx int, forced bool, exp *[]hTrans) {
	was := n.alive[idx]
	n.alive[idx] = false
	if was {
		*exp = append(*exp, hTrans{n.i, idx, false})
		if !forced && n.addr != "" {
			w.deaths[n.addr]++
			if w.deaths[n.addr] >= 3 {
				delete(w.deaths, n.addr)
				// documented escalation: every network type of this proxy goes down
				for _, nt := range w.types {
					j := nt.Index()
					n.pf[j], n.tf[j] = 1<<20, 1<<20
					if n.alive[j] {
						n.alive[j] = false
						*exp = append(*exp, hTrans{n.i, j, false})
					}
				}
			}
		}
	}
}

func (w *hWorld) mProbeOK(n *hNode, idx int, exp *[]hTrans) {
	n.pf[idx], n.tf[idx] = 0, 0
	n.hasLat[idx] = true
	if n.addr != "" {
		delete(w.deaths, n.addr)
	}
	if !n.alive[idx] {
		n.alive[idx] = true
		*exp = append(*exp, hTrans{n.i, idx, true})
	}
}

func (w *hWorld) mFail(n *hNode, nt *componentdialer.NetworkType, traffic bool, exp *[]hTrans) {
	idx := nt.Index()
	if w.suppressed() {
		return
	}
	thr := 1
	if traffic {
		n.tf[idx]++
		thr = 10
		if isUDP(nt) {
			thr = 50
		}
		if n.tf[idx] >= thr {
			w.mDie(n, idx, false, exp)
		}
		return
	}
	n.pf[idx]++
	if isUDP(nt) {
		thr = 3
	}
	if n.pf[idx] >= thr {
		w.mDie(n, idx, false, exp)
	}
}

func (w *hWorld) mForced(n *hNode, idx int, exp *[]hTrans) {
	n.pf[idx], n.tf[idx] = 1<<20, 1<<20
	w.mDie(n, idx, true, exp)
}

func (w *hWorld) mTrafficOK(n *hNode, nt *componentdialer.NetworkType, exp *[]hTrans) {
	idx := nt.Index()
	n.tf[idx] = 0
	if isUDP(nt) && nt.EffectiveUdpHealthDomain() == componentdialer.UdpHealthDomainData && !n.alive[idx] {
		n.pf[idx] = 0
		if n.addr != "" {
			delete(w.deaths, n.addr)
		}
		n.alive[idx] = true
		*exp = append(*exp, hTrans{n.i, idx, true})
	}
}

// ---- observation ------------------------------------------------------------

func (w *hWorld) kernelBit(outbound uint8, nt *componentdialer.NetworkType) (uint32, bool) {
	if w.cmap == nil {
		return 0, false
	}
	var v uint32
	if err := w.cmap.Lookup(outboundConnectivityMapKey(outbound, nt), &v); err != nil {
		return 0, false
	}
	return v, true
}

func needsAliveState(p consts.DialerSelectionPolicy) bool {
	return p != consts.DialerSelectionPolicy_Fixed
}

func isMinPolicy(p consts.DialerSelectionPolicy) bool {
	switch p {
	case consts.DialerSelectionPolicy_MinLastLatency, consts.DialerSelectionPolicy_MinAverage10Latencies, consts.DialerSelectionPolicy_MinMovingAverageLatencies:
		return true
	}
	return false
}

// checkState compares the implementation with the model after an event has
// completed (sequential configuration) or at quiescence (concurrent one, where
// the model is the implementation's own final MustGetAlive).
func (w *hWorld) checkGroups(rule string, aliveOf func(n *hNode, idx int) bool) {
	s := w.s
	for gi, g := range w.groups {
		pol := g.g.GetSelectionPolicy()
		if !needsAliveState(pol) {
			continue
		}
		for _, nt := range w.types {
			idx := nt.Index()
			set := g.g.MustGetAliveDialerSet(nt)
			if set == nil {
				s.Failf(rule+"-group-membership", "group g%d has no alive set for %s under policy %s", gi, nt.String(), pol)
				return
			}
			if msg := set.VerifIndexConsistent(); msg != "" {
				s.Failf("alive-set-index", "group g%d %s: %s", gi, nt.String(), msg)
				return
			}
			var want, got []int
			for _, m := range g.members {
				if aliveOf(w.nodes[m], idx) {
					want = append(want, m)
				}
			}
			for _, d := range set.VerifMembers() {
				if n := w.nodeOf(d); n != nil {
					got = append(got, n.i)
				}
			}
			sort.Ints(got)
			if fmt.Sprint(want) != fmt.Sprint(got) {
				r := rule + "-group-membership"
				if rule == "quiescent" && w.diffOnlyOverlapped(want, got) {
					r = "group-membership-stale-after-concurrent-updates"
				}
				s.Failf(r, "group g%d (%s) %s: alive set holds nodes %v but the nodes alive for that type are %v", gi, pol, nt.String(), got, want)
				return
			}
			if isMinPolicy(pol) && !g.switched {
				if bit, ok := w.kernelBit(g.outbound, nt); ok {
					wantBit := uint32(0)
					if len(want) > 0 {
						wantBit = 1
					}
					if bit != wantBit {
						r := rule + "-kernel-bit"
						if rule == "quiescent" && len(w.overlap) > 0 {
							r = "kernel-bit-stale-after-concurrent-updates"
						}
						s.Failf(r, "group g%d (%s) %s: kernel connectivity bit is %d but %d of its nodes are alive for that type (%v)", gi, pol, nt.String(), bit, len(want), want)
						return
					}
				}
			}
		}
	}
}

// diffOnlyOverlapped: every node on which the two lists differ had concurrent
// state-changing reports in flight during the run.
func (w *hWorld) diffOnlyOverlapped(a, b []int) bool {
	in := func(l []int, x int) bool {
		for _, y := range l {
			if y == x {
				return true
			}
		}
		return false
	}
	for _, x := range append(append([]int{}, a...), b...) {
		if in(a, x) != in(b, x) && !w.overlap[x] {
			return false
		}
	}
	return true
}

// ---- C15: selection ---------------------------------------------------------

func (w *hWorld) checkSelect(g *hGroup, gi int, nt *componentdialer.NetworkType, strict bool, excl *componentdialer.Dialer, aliveOf func(n *hNode, idx int) bool) {
	d, _, _, err := g.g.SelectWithExclusionResult(nt, strict, excl)
	w.judgeSelect(g, gi, nt, strict, excl, aliveOf, d, err, true, "")
}

// judgeSelect applies the statement's selection rules to one observed result.
// latency=false leaves out the min-policy tolerance clause (used for selections
// that ran concurrently with other selectors, where the model's measurement
// flags are not maintained).
func (w *hWorld) judgeSelect(g *hGroup, gi int, nt *componentdialer.NetworkType, strict bool, excl *componentdialer.Dialer, aliveOf func(n *hNode, idx int) bool, d *componentdialer.Dialer, err error, latency bool, tag string) {
	s := w.s
	pol := g.g.GetSelectionPolicy()
	desc := fmt.Sprintf("%sgroup g%d policy=%s type=%s strict=%v excluded=%v", tag, gi, pol, nt.String(), strict, excl != nil)
	if pol == consts.DialerSelectionPolicy_Fixed {
		want := w.nodes[g.members[g.policy.FixedIndex]].d
		if err != nil || d != want {
			s.Failf("select-fixed", "%s: fixed(%d) returned %v err=%v", desc, g.policy.FixedIndex, w.nodeIdx(d), err)
		}
		return
	}
	// the chain of types tried, per the documented fallbacks
	chain := func(t componentdialer.NetworkType) []componentdialer.NetworkType {
		c := []componentdialer.NetworkType{t}
		if isUDP(&t) && t.EffectiveUdpHealthDomain() == componentdialer.UdpHealthDomainData {
			c = append(c, componentdialer.NetworkType{L4Proto: consts.L4ProtoStr_UDP, IpVersion: t.IpVersion, IsDns: true, UdpHealthDomain: componentdialer.UdpHealthDomainDns})
			c = append(c, componentdialer.NetworkType{L4Proto: consts.L4ProtoStr_TCP, IpVersion: t.IpVersion})
		}
		return c
	}
	types := chain(*nt)
	if !strict {
		other := *nt
		if nt.IpVersion == consts.IpVersionStr_4 {
			other.IpVersion = consts.IpVersionStr_6
		} else {
			other.IpVersion = consts.IpVersionStr_4
		}
		types = append(types, chain(other)...)
	}
	anyCandidate := false
	allowed := map[*componentdialer.Dialer]bool{}
	for _, t := range types {
		for _, m := range g.members {
			n := w.nodes[m]
			if aliveOf(n, t.Index()) && n.d != excl {
				anyCandidate = true
				allowed[n.d] = true
			}
		}
	}
	if err != nil {
		if !errors.Is(err, ob.ErrNoAliveDialer) {
			s.Failf("select-error", "%s: unexpected error %v", desc, err)
			return
		}
		if anyCandidate {
			s.Failf("select-no-alive", "%s: reported no alive node although alive candidates exist among the types tried", desc)
		}
		return
	}
	if d == nil {
		s.Failf("select-error", "%s: nil node without error", desc)
		return
	}
	if !anyCandidate {
		if len(g.members) == 1 && d == w.nodes[g.members[0]].d {
			return // documented last resort
		}
		s.Failf("select-not-alive", "%s: returned node n%d although no node is alive for any type tried", desc, w.nodeIdx(d))
		return
	}
	if d == excl && excl != nil {
		s.Failf("select-excluded", "%s: returned the excluded node n%d", desc, w.nodeIdx(d))
		return
	}
	if !allowed[d] {
		s.Failf("select-not-alive", "%s: returned node n%d which is not alive for any type tried", desc, w.nodeIdx(d))
		return
	}
	// the first type of the chain that has an alive candidate decides (documented
	// fallback order); for the min policies no other alive node with a measurement
	// may beat the chosen one by >= tolerance.
	for _, t := range types {
		set := g.g.MustGetAliveDialerSet(&t)
		var cands []*hNode
		for _, m := range g.members {
			n := w.nodes[m]
			if aliveOf(n, t.Index()) && n.d != excl {
				cands = append(cands, n)
			}
		}
		if len(cands) == 0 {
			continue
		}
		chosen := w.nodeOf(d)
		in := false
		for _, c := range cands {
			if c == chosen {
				in = true
			}
		}
		if !in {
			s.Failf("select-type-order", "%s: node n%d is not alive for %s, the first type tried that has alive candidates", desc, chosen.i, t.String())
			return
		}
		if !isMinPolicy(pol) || !latency {
			return
		}
		if !chosen.hasLat[t.Index()] {
			return // no measurement yet: any alive node is acceptable
		}
		cl := set.SortingLatency(d)
		for _, c := range cands {
			if c == chosen || !c.hasLat[t.Index()] {
				continue
			}
			ol := set.SortingLatency(c.d)
			if g.tol > 0 && ol <= cl-g.tol || g.tol == 0 && ol < cl {
				s.Failf("select-min-tolerance", "%s: chose n%d (%v) although alive n%d (%v) is better by at least the tolerance %v", desc, chosen.i, cl, c.i, ol, g.tol)
				return
			}
		}
		return
	}
}

func (w *hWorld) nodeIdx(d *componentdialer.Dialer) int {
	if n := w.nodeOf(d); n != nil {
		return n.i
	}
	return -1
}

// stickiness of the min-policy choice, evaluated after every health event of
// the sequential configuration.
func (w *hWorld) checkSticky(aliveOf func(n *hNode, idx int) bool) {
	for gi, g := range w.groups {
		pol := g.g.GetSelectionPolicy()
		if !isMinPolicy(pol) {
			continue
		}
		for _, nt := range w.types {
			idx := nt.Index()
			set := g.g.MustGetAliveDialerSet(nt)
			cur, _ := set.GetMinLatency(nil)
			prev := g.lastBest[idx]
			had := g.bestInit[idx]
			g.lastBest[idx], g.bestInit[idx] = cur, true
			if !had || prev == nil || cur == nil || cur == prev {
				continue
			}
			pn, cn := w.nodeOf(prev), w.nodeOf(cur)
			if !aliveOf(pn, idx) || !pn.hasLat[idx] {
				continue
			}
			pl, cl := set.SortingLatency(prev), set.SortingLatency(cur)
			if cl <= pl-g.tol || (pl < g.tol && cl <= pl) {
				continue
			}
			if !cn.hasLat[idx] {
				// a node without measurement sorts optimistically; the statement does not forbid it
				continue
			}
			w.s.Failf("select-min-sticky", "group g%d (%s) %s: choice moved from n%d (%v) to n%d (%v) although the gain is below the tolerance %v and n%d is still alive with a measurement", gi, pol, nt.String(), pn.i, pl, cn.i, cl, g.tol, pn.i)
			return
		}
	}
}

// ---- scenario ---------------------------------------------------------------

func healthScenario(s *verifsim.Sim) {
	T := s.T
	w := &hWorld{s: s, deaths: map[string]int{}, inflight: map[int]int{}, overlap: map[int]bool{}}
	logger := logrus.New()
	logger.SetOutput(io.Discard)
	// production logs at info level; code guarded by IsLevelEnabled runs only then
	logger.SetLevel([]logrus.Level{logrus.PanicLevel, logrus.PanicLevel, logrus.InfoLevel, logrus.InfoLevel}[s.T.Choose(4)]) // (trace level costs a third of the throughput and guards nothing but formatting)
	keys := componentdialer.StandardHealthKeys()
	for i, k := range keys {
		w.types[i] = k.NetworkType()
	}
	concurrent := T.Chance(1, 2)
	nNodes := T.Range(1, 4)
	nGroups := T.Range(1, 3)
	tol := []time.Duration{0, 20 * time.Millisecond, 200 * time.Millisecond}[T.Choose(3)]
	opt := &componentdialer.GlobalOption{Log: logger, CheckInterval: 30 * time.Second, CheckTolerance: tol}
	addrs := []string{"198.51.100.1:443", "198.51.100.1:443", "198.51.100.2:443", ""}
	mkNode := func(i int) *hNode {
		n := &hNode{i: i, addr: addrs[T.Choose(len(addrs))]}
		n.d = componentdialer.NewDialer(nopDialer{}, opt, componentdialer.InstanceOption{DisableCheck: true},
			&componentdialer.Property{Property: D.Property{Name: fmt.Sprintf("n%d", i), Address: n.addr, Protocol: "trojan"}})
		for _, nt := range w.types {
			n.alive[nt.Index()] = true
		}
		return n
	}
	for i := 0; i < nNodes; i++ {
		w.nodes = append(w.nodes, mkNode(i))
	}
	defer func() {
		for _, n := range w.nodes {
			_ = n.d.Close()
		}
	}()
	// kernel connectivity map (real bpf array map; falls back to "not observed")
	if m, err := ebpf.NewMap(&ebpf.MapSpec{Type: ebpf.Array, KeySize: 4, ValueSize: 4, MaxEntries: 64}); err == nil {
		w.cmap = m
		defer m.Close()
		s.Probe("health.real-connectivity-map")
	} else {
		s.Probe("health.connectivity-map-unavailable")
	}
	mkCore := func() *controlPlaneCore {
		ctx, cancel := context.WithCancel(context.Background())
		c := &controlPlaneCore{log: logger, closed: ctx, close: cancel, outboundId2Name: map[uint8]string{}}
		b := &bpfObjects{}
		if w.cmap != nil {
			b.OutboundConnectivityMap = w.cmap
		} else {
			b.OutboundConnectivityMap = new(ebpf.Map)
		}
		c.bpf.Store(b)
		return c
	}
	core := mkCore()
	defer core.close()
	policies := []consts.DialerSelectionPolicy{consts.DialerSelectionPolicy_MinLastLatency, consts.DialerSelectionPolicy_MinAverage10Latencies,
		consts.DialerSelectionPolicy_MinMovingAverageLatencies, consts.DialerSelectionPolicy_Random, consts.DialerSelectionPolicy_Fixed}
	drawPolicy := func(n int) ob.DialerSelectionPolicy {
		p := ob.DialerSelectionPolicy{Policy: policies[T.Pick(3, 2, 2, 2, 1)]}
		if p.Policy == consts.DialerSelectionPolicy_Fixed {
			p.FixedIndex = T.Choose(n)
		}
		return p
	}
	renamedGroup := -1 // set before a reload hand-over: the group of the new generation that got a new name
	mkGroup := func(gi int, members []int, pol ob.DialerSelectionPolicy, c *controlPlaneCore, nodes []*hNode, offsets []time.Duration) *hGroup {
		g := &hGroup{outbound: uint8(2 + gi), members: members, policy: pol, tol: tol}
		var ds []*componentdialer.Dialer
		var ann []*componentdialer.Annotation
		for k, m := range members {
			ds = append(ds, nodes[m].d)
			ann = append(ann, &componentdialer.Annotation{AddLatency: offsets[k]})
		}
		name := fmt.Sprintf("g%d", gi)
		if gi == renamedGroup && nodes != nil && len(nodes) > 0 && nodes[0] != w.nodes[0] {
			name += "-renamed" // the reloaded configuration calls this group differently: it has no predecessor
		}
		g.g = ob.NewDialerGroup(opt, name, ds, ann, pol, c.outboundAliveChangeCallback(g.outbound, false))
		return g
	}
	type gspec struct {
		members []int
		pol     ob.DialerSelectionPolicy
		offsets []time.Duration
	}
	var gspecs []gspec
	for gi := 0; gi < nGroups; gi++ {
		var members []int
		for i := 0; i < nNodes; i++ {
			if T.Chance(2, 3) {
				members = append(members, i)
			}
		}
		if len(members) == 0 {
			members = []int{T.Choose(nNodes)}
		}
		var offs []time.Duration
		for range members {
			offs = append(offs, []time.Duration{0, 0, 30 * time.Millisecond, 300 * time.Millisecond}[T.Choose(4)])
		}
		sp := gspec{members, drawPolicy(len(members)), offs}
		gspecs = append(gspecs, sp)
		w.groups = append(w.groups, mkGroup(gi, sp.members, sp.pol, core, w.nodes, sp.offsets))
	}
	defer func() {
		for _, g := range w.groups {
			_ = g.g.Close()
		}
	}()
	for _, n := range w.nodes {
		n := n
		n.d.RegisterAliveTransitionCallback(func(nt *componentdialer.NetworkType, alive bool) {
			w.obs = append(w.obs, hTrans{n.i, nt.Index(), alive})
		})
	}
	componentdialer.VerifResetReloadSuppression()
	defer componentdialer.VerifResetReloadSuppression()

	modelAlive := func(n *hNode, idx int) bool { return n.alive[idx] }
	implAlive := func(n *hNode, idx int) bool {
		for _, nt := range w.types {
			if nt.Index() == idx {
				return n.d.MustGetAlive(nt)
			}
		}
		return false
	}

	// ---- event generation
	type ev struct {
		kind  int
		node  int
		typ   int
		n     int
		lat   time.Duration
		sleep time.Duration
		group int
		pol   ob.DialerSelectionPolicy
	}
	const (
		eProbeOK = iota
		eProbeFail
		eProbeCanceled
		eProbeSkip
		eTrafficFail
		eTrafficFailIgnorable
		eTransactionalFail
		eForced
		eTrafficOK
		eSuppressBegin
		eSuppressEnd
		eSleep
		ePolicySwitch
		eSelect
	)
	probeTypes := []int{0, 1, 2, 3} // dns-udp4/6, tcp4/6 (StandardHealthKeys order)
	drawEv := func() ev {
		e := ev{kind: T.Pick(6, 5, 1, 1, 4, 1, 2, 3, 3, 1, 1, 2, 2, 5), node: T.Choose(nNodes), typ: T.Choose(6), group: T.Choose(nGroups)}
		switch e.kind {
		case eProbeOK, eProbeFail, eProbeCanceled, eProbeSkip:
			e.typ = probeTypes[T.Choose(4)]
			e.lat = []time.Duration{10 * time.Millisecond, 35 * time.Millisecond, 120 * time.Millisecond, 400 * time.Millisecond, time.Second}[T.Choose(5)]
		case eTrafficFail:
			e.n = []int{1, 2, 9, 10, 49, 50}[T.Choose(6)]
		case eSleep:
			e.sleep = []time.Duration{time.Second, 3 * time.Second, 15 * time.Second, 40 * time.Second}[T.Choose(4)]
		case ePolicySwitch:
			e.pol = drawPolicy(len(gspecs[e.group].members))
		}
		return e
	}
	genericErr := errors.New("simulated probe failure")

	evNames := []string{"probe-ok", "probe-fail", "probe-canceled", "probe-skip", "traffic-fail", "traffic-fail-ignorable", "transactional-fail", "forced", "traffic-ok", "suppress-begin", "suppress-end", "sleep", "policy-switch", "select"}
	apply := func(e ev, exp *[]hTrans, sequential bool) {
		n := w.nodes[e.node]
		nt := w.types[e.typ]
		idx := nt.Index()
		s.Notef("%s: %s n%d %s x%d lat=%v", verifsim.TaskName(), evNames[e.kind], e.node, nt.String(), e.n, e.lat)
		switch e.kind {
		case eProbeFail, eProbeCanceled, eProbeSkip, eTrafficFail, eTrafficFailIgnorable, eTransactionalFail, eForced:
			s.Fault(evNames[e.kind])
		}
		switch e.kind {
		case eProbeOK, eProbeFail, eTrafficFail, eTransactionalFail, eForced, eTrafficOK:
			if w.inflight[e.node] > 0 {
				w.overlap[e.node] = true
				// nodes sharing the proxy address can be hit by the escalation as well
			}
			w.inflight[e.node]++
			defer func() { w.inflight[e.node]-- }()
		}
		switch e.kind {
		case eProbeOK:
			lat := e.lat
			n.d.Check(componentdialer.VerifNewCheckOption(nt, func(ctx context.Context, _ *componentdialer.NetworkType) (bool, error) {
				time.Sleep(lat)
				verifsim.YieldB("probe-done")
				return true, nil
			}))
			if sequential {
				w.mProbeOK(n, idx, exp)
			} else {
				n.hasLat[idx] = true
			}
		case eProbeFail:
			n.d.Check(componentdialer.VerifNewCheckOption(nt, func(ctx context.Context, _ *componentdialer.NetworkType) (bool, error) {
				time.Sleep(e.lat)
				verifsim.YieldB("probe-done")
				return false, genericErr
			}))
			if sequential {
				w.mFail(n, nt, false, exp)
			}
		case eProbeCanceled:
			n.d.Check(componentdialer.VerifNewCheckOption(nt, func(ctx context.Context, _ *componentdialer.NetworkType) (bool, error) {
				return false, context.Canceled
			}))
		case eProbeSkip:
			n.d.Check(componentdialer.VerifNewCheckOption(nt, func(ctx context.Context, _ *componentdialer.NetworkType) (bool, error) {
				return false, nil
			}))
		case eTrafficFail:
			for i := 0; i < e.n; i++ {
				n.d.ReportUnavailable(nt, genericErr)
				if sequential {
					w.mFail(n, nt, true, exp)
				}
			}
		case eTrafficFailIgnorable:
			if T.Chance(1, 2) {
				n.d.ReportUnavailable(nt, context.Canceled)
			} else {
				n.d.ReportUnavailable(nt, net.ErrClosed)
			}
		case eTransactionalFail:
			n.d.ReportUnavailableTransactional(nt, genericErr)
			if sequential {
				w.mFail(n, nt, false, exp)
			}
		case eForced:
			n.d.ReportUnavailableForced(nt, genericErr)
			if sequential {
				w.mForced(n, idx, exp)
			}
		case eTrafficOK:
			n.d.ReportAvailableTraffic(nt)
			if sequential {
				w.mTrafficOK(n, nt, exp)
			}
		}
	}

	if !concurrent {
		// ================= sequential configuration: exact reference model
		nEv := T.Range(3, 40)
		doReload := T.Chance(1, 2)
		finished := false
		verifsim.Go("driver", func() {
			defer func() { finished = true }()
			quiesceUntil := time.Duration(-1)
			for i := 0; i < nEv && !s.Failed(); i++ {
				if s.Now() > 8*time.Minute {
					// keep the whole history well inside any ageing of failure records
					s.Probe("health.time-budget-reached")
					break
				}
				e := drawEv()
				var exp []hTrans
				obs0 := len(w.obs)
				switch e.kind {
				case eSuppressBegin:
					componentdialer.BeginReloadProxyFailureSuppression()
					w.depth++
					s.Probe("health.suppression-window")
				case eSuppressEnd:
					if w.depth > 0 {
						componentdialer.EndReloadProxyFailureSuppression()
						w.depth--
						if w.depth == 0 {
							// non-forced failures count again after the quiesce period: stay
							// clear of the boundary (wait well beyond it)
							quiesceUntil = s.Now() + 60*time.Second
						}
					}
				case eSleep:
					time.Sleep(e.sleep)
					verifsim.YieldB("driver-woke")
				case ePolicySwitch:
					g := w.groups[e.group]
					g.g.SetSelectionPolicy(e.pol)
					g.policy = e.pol
					g.switched = true
					g.bestInit = [8]bool{}
					s.Probe("health.policy-switch")
					// the optimality clause holds for every run-time policy switch: ask right away
					for _, nt := range w.types {
						if s.Failed() {
							break
						}
						w.checkSelect(g, e.group, nt, true, nil, modelAlive)
					}
				case eSelect:
					g := w.groups[e.group]
					var excl *componentdialer.Dialer
					if T.Chance(1, 3) {
						excl = w.nodes[g.members[T.Choose(len(g.members))]].d
					}
					w.checkSelect(g, e.group, w.types[e.typ], T.Chance(1, 2), excl, modelAlive)
				default:
					if quiesceUntil >= 0 && s.Now() < quiesceUntil && w.depth == 0 {
						switch e.kind {
						case eProbeFail, eTrafficFail, eTransactionalFail:
							time.Sleep(quiesceUntil - s.Now())
							verifsim.YieldB("driver-woke")
						}
					}
					apply(e, &exp, true)
				}
				if s.Failed() {
					return
				}
				// ---- compare with the model
				for _, n := range w.nodes {
					for _, nt := range w.types {
						if got := n.d.MustGetAlive(nt); got != n.alive[nt.Index()] {
							s.Failf("health-state", "after event %d (kind %d on n%d %s): node n%d %s alive=%v but the thresholds say %v (probe fails %d, traffic fails %d, suppressed=%v)", i, e.kind, e.node, w.types[e.typ].String(), n.i, nt.String(), got, n.alive[nt.Index()], n.pf[nt.Index()], n.tf[nt.Index()], w.suppressed())
							return
						}
					}
				}
				got := w.obs[obs0:]
				if fmt.Sprint(sortedTrans(got)) != fmt.Sprint(sortedTrans(exp)) {
					s.Failf("alive-callbacks", "after event %d (kind %d on n%d %s): alive-transition callbacks %v, expected exactly the transitions %v", i, e.kind, e.node, w.types[e.typ].String(), got, exp)
					return
				}
				w.checkGroups("seq", modelAlive)
				if s.Failed() {
					return
				}
				w.checkSticky(modelAlive)
			}
			// ---- final sweep: every group, every network type, with and without the family fallback
			for gi, g := range w.groups {
				for _, nt := range w.types {
					for _, strict := range []bool{true, false} {
						if s.Failed() {
							return
						}
						w.checkSelect(g, gi, nt, strict, nil, modelAlive)
					}
				}
			}
			if s.Failed() || !doReload {
				return
			}
			// ---- reload hand-over: snapshot -> new generation -> restore -> floor
			s.Probe("health.reload-handover")
			s.Fault("reload-handover")
			for w.depth > 0 {
				componentdialer.EndReloadProxyFailureSuppression()
				w.depth--
			}
			core2 := mkCore()
			defer core2.close()
			var newNodes []*hNode
			for i, old := range w.nodes {
				n := &hNode{i: i, addr: old.addr}
				n.d = componentdialer.NewDialer(nopDialer{}, opt, componentdialer.InstanceOption{DisableCheck: true},
					&componentdialer.Property{Property: D.Property{Name: fmt.Sprintf("n%d", i), Address: n.addr, Protocol: "trojan"}})
				newNodes = append(newNodes, n)
			}
			defer func() {
				for _, n := range newNodes {
					_ = n.d.Close()
				}
			}()
			var newGroups []*hGroup
			if T.Chance(1, 3) {
				renamedGroup = T.Choose(len(gspecs))
				s.Probe("health.reload-renames-a-group")
			}
			for gi, sp := range gspecs {
				newGroups = append(newGroups, mkGroup(gi, sp.members, w.groups[gi].policy, core2, newNodes, sp.offsets))
			}
			defer func() {
				for _, g := range newGroups {
					_ = g.g.Close()
				}
			}()
			// the production hand-over: ControlPlane.InheritDialerHealthFrom matches groups and nodes by
			// name, restores each node's snapshot and keeps a selection floor per group
			cpOld, cpNew := &ControlPlane{}, &ControlPlane{}
			for _, g := range w.groups {
				cpOld.outbounds = append(cpOld.outbounds, g.g)
			}
			for _, g := range newGroups {
				cpNew.outbounds = append(cpNew.outbounds, g.g)
			}
			if !cpNew.InheritDialerHealthFrom(cpOld) && !(renamedGroup >= 0 && len(gspecs) == 1) { // (a single, renamed group has no predecessor at all)
				s.Failf("reload-handover-state", "InheritDialerHealthFrom found no node of the previous generation although every node exists in both")
				return
			}
			// (1) the last known state is handed over: nobody alive before is dead now, and a node
			// that was dead is alive now only as the floor of a group that had no alive member
			inGroup := map[int]bool{}
			for gi, g := range w.groups {
				if gi == renamedGroup {
					continue // a group without a same-named successor hands nothing over (nodes are matched within same-named groups)
				}
				for _, m := range g.members {
					inGroup[m] = true
				}
			}
			for i, old := range w.nodes {
				if !inGroup[i] {
					continue // a node of no group takes no part in the hand-over
				}
				for _, nt := range w.types {
					was, is := old.d.MustGetAlive(nt), newNodes[i].d.MustGetAlive(nt)
					if was && !is {
						s.Failf("reload-handover-state", "node n%d %s was alive in the previous generation and is not alive after the hand-over", i, nt.String())
						return
					}
					if !was && is {
						legit := false
						for _, g := range w.groups {
							member, anyAlive := false, false
							for _, m := range g.members {
								if m == i {
									member = true
								}
								if w.nodes[m].d.MustGetAlive(nt) {
									anyAlive = true
								}
							}
							if member && !anyAlive {
								legit = true
							}
						}
						if !legit {
							s.Failf("reload-handover-state", "node n%d %s was not alive in the previous generation, is alive after the hand-over, and is in no group that needed a selection floor", i, nt.String())
							return
						}
					}
				}
			}
			// (2) every non-empty group keeps at least one selectable node
			for gi, g := range newGroups {
				if !needsAliveState(g.g.GetSelectionPolicy()) {
					continue
				}
				for _, nt := range w.types {
					if set := g.g.MustGetAliveDialerSet(nt); set == nil || set.Len() < 1 {
						shared := ""
						if gi == renamedGroup {
							shared = "@group-without-predecessor"
						}
						for _, m := range g.members {
							for gj, h := range newGroups {
								if gj == gi {
									continue
								}
								for _, m2 := range h.members {
									if m2 == m {
										if shared == "" {
											shared = "@node-shared-with-another-group"
										}
									}
								}
							}
						}
						s.Failf("reload-selection-floor"+shared, "after reload hand-over group g%d (members %v) has no selectable node for %s", gi, g.members, nt.String())
						return
					}
				}
			}
		})
		s.RunUntil(func() bool { return finished }, 7)
		if !finished && !s.Failed() {
			s.Probe("step-budget-exhausted")
			// bounded liveness: the history is at most 8 simulated minutes long and no call of
			// the dialer / group API waits for anything but locks
			if s.Now() > time.Hour {
				s.Failf("health-call-wedged", "the sequential driver is still inside a dialer/group call at simulated time %v (histories end before 9 minutes); live tasks: %v", s.Now(), s.LiveTasks(""))
			}
		}
		return
	}

	// ================= concurrent configuration: several notifier / selector tasks
	nNot := T.Range(2, 4)
	nSel := T.Range(0, 2)
	done := 0
	total := nNot + nSel
	busy, epoch := 0, 0
	duel := T.Chance(1, 4)
	duelNode, duelTyp := T.Choose(nNodes), T.Choose(6)
	if duel {
		s.Probe("health.revival-death-duel")
	}
	quietNow := func() bool {
		if busy != 0 {
			return false
		}
		for _, name := range s.LiveTasks("") {
			name = name[:strings.Index(name+"@", "@")]
			if strings.Contains(name, "/") || !(strings.HasPrefix(name, "notifier") || strings.HasPrefix(name, "selector")) {
				return false
			}
		}
		return true
	}
	// (no scheduling point inside: the flags are read through the overlay accessor, so the
	// string is one consistent snapshot and so is the triple taken with it)
	snapAlive := func() string {
		var b strings.Builder
		for _, n := range w.nodes {
			for _, nt := range w.types {
				if n.d.VerifAliveNow(nt) {
					b.WriteByte('1')
				} else {
					b.WriteByte('0')
				}
			}
		}
		return b.String()
	}
	for k := 0; k < nNot; k++ {
		k := k
		n := T.Range(2, 12)
		evs := make([]ev, 0, n)
		for i := 0; i < n; i++ {
			e := drawEv()
			switch e.kind {
			case eSuppressBegin, eSuppressEnd, eSelect, ePolicySwitch:
				e.kind = eSleep
				e.sleep = time.Second
			case eTrafficFail:
				if e.n > 10 {
					e.n = 10
				}
			}
			evs = append(evs, e)
		}
		if duel && k < 2 {
			// a revival and a death of the same node and type racing each other from a
			// state in which the type has no alive node at all: the group's alive
			// callback of the one runs while the other one reports
			var pre []ev
			if k == 0 {
				for ni := range w.nodes {
					pre = append(pre, ev{kind: eForced, node: ni, typ: duelTyp})
				}
				pre = append(pre, ev{kind: eTrafficOK, node: duelNode, typ: duelTyp})
			} else {
				for i := 0; i < 3; i++ {
					pre = append(pre, ev{kind: eForced, node: duelNode, typ: duelTyp})
				}
			}
			evs = append(pre, evs...)
		}
		verifsim.Go(fmt.Sprintf("notifier%d", k), func() {
			defer func() { done++ }()
			for _, e := range evs {
				if s.Failed() {
					return
				}
				if e.kind == eSleep {
					time.Sleep(e.sleep)
					verifsim.YieldB("notifier-woke")
					continue
				}
				busy++
				epoch++
				apply(e, nil, false)
				busy--
				epoch++
			}
		})
	}
	for k := 0; k < nSel; k++ {
		k := k
		n := T.Range(1, 8)
		verifsim.Go(fmt.Sprintf("selector%d", k), func() {
			defer func() { done++ }()
			for i := 0; i < n && !s.Failed(); i++ {
				gi := T.Choose(nGroups)
				g := w.groups[gi]
				nt := w.types[T.Choose(6)]
				var excl *componentdialer.Dialer
				if T.Chance(1, 3) {
					excl = w.nodes[g.members[T.Choose(len(g.members))]].d
				}
				strict := T.Chance(1, 2)
				// A selection whose whole interval is quiet - no health event in
				// progress at either end, none begun or ended in between, no timer
				// or helper task alive, every node's recorded state the same at
				// both ends - must obey the statement exactly as a sequential one.
				q0, e0, a0 := quietNow(), epoch, snapAlive()
				d, _, _, err := g.g.SelectWithExclusionResult(nt, strict, excl)
				q1, e1, a1 := quietNow(), epoch, snapAlive()
				if q0 && q1 && e1 == e0 && a1 == a0 {
					s.Probe("health.concurrent-select-in-quiet-interval")
					snapOf := func(n *hNode, idx int) bool { // the state of the quiet interval, not of the moment of judging
						for ti, t := range w.types {
							if t.Index() == idx {
								return a0[n.i*len(w.types)+ti] == '1'
							}
						}
						return false
					}
					w.judgeSelect(g, gi, nt, strict, excl, snapOf, d, err, false, "concurrent configuration, quiet interval: ")
				}
				if err == nil {
					if w.nodeOf(d) == nil {
						s.Failf("select-error", "group g%d returned a node that is not in the group", gi)
					}
					if excl != nil && d == excl && g.g.GetSelectionPolicy() != consts.DialerSelectionPolicy_Fixed && len(g.members) > 1 {
						s.Failf("select-excluded", "group g%d (%s) returned the excluded node n%d", gi, g.g.GetSelectionPolicy(), w.nodeIdx(d))
					}
				}
				time.Sleep(time.Duration(T.Choose(3)) * 50 * time.Millisecond)
				verifsim.YieldB("selector-woke")
			}
		})
	}
	if !s.RunUntil(func() bool { return done == total }, 8) {
		if !s.Failed() {
			s.Probe("step-budget-exhausted")
			if s.Now() > time.Hour {
				s.Failf("health-call-wedged", "%d of %d notifier/selector tasks are still inside a dialer/group call at simulated time %v; live tasks: %v", total-done, total, s.Now(), s.LiveTasks(""))
			}
		}
		return
	}
	s.Quiesce(func() bool { return true }, 0, time.Millisecond)
	// at quiescence every group sees every node's final state, and the kernel bit agrees
	w.checkGroups("quiescent", implAlive)
	if s.Failed() {
		return
	}
	// callbacks: exactly one per actual transition. Under concurrency the order in
	// which callbacks are delivered may differ from the order of the transitions,
	// so the check is on counts: starting alive, a node that ends alive has seen as
	// many deaths as revivals, one that ends dead exactly one more death.
	cnt := map[[2]int][2]int{}
	for _, t := range w.obs {
		k := [2]int{t.node, t.idx}
		c := cnt[k]
		if t.alive {
			c[1]++
		} else {
			c[0]++
		}
		cnt[k] = c
	}
	for _, n := range w.nodes {
		for _, nt := range w.types {
			c := cnt[[2]int{n.i, nt.Index()}]
			wantDiff := 0
			if !n.d.MustGetAlive(nt) {
				wantDiff = 1
			}
			if c[0]-c[1] != wantDiff {
				s.Failf("alive-callbacks", "node n%d %s ends alive=%v after %d death and %d revival callbacks (exactly one callback per transition is required)", n.i, nt.String(), n.d.MustGetAlive(nt), c[0], c[1])
				return
			}
		}
	}
	for gi, g := range w.groups {
		for _, nt := range w.types {
			w.checkSelect(g, gi, nt, true, nil, implAlive)
			if s.Failed() {
				return
			}
		}
	}
}

func sortedTrans(t []hTrans) []hTrans {
	c := append([]hTrans(nil), t...)
	sort.SliceStable(c, func(i, j int) bool {
		if c[i].node != c[j].node {
			return c[i].node < c[j].node
		}
		return c[i].idx < c[j].idx
	})
	return c
}

func TestSimC16(t *testing.T) {
	verifsim.Main(t, verifsim.Engine{
		Prop: "C16", Name: "health", MaxSteps: 60000, Scenario: healthScenario,
		Reset: func() { componentdialer.ResetGlobalProxyStateForReload(); componentdialer.VerifResetReloadSuppression() },
		Real:  []string{"dialer.Dialer health state machine (check, Report*, markAvailable/markUnavailableInternal, NotifyHealthCheckResult, proxy-failure escalation, recovery timers, reload suppression, ReloadHealthSnapshot/RestoreHealthSnapshot/MarkAliveForReloadFallback)", "dialer.AliveDialerSet", "outbound.DialerGroup (selection, policy switch, reload floor)", "control.outboundAliveChangeCallback writing a real BPF array map"},
		Stubs: []string{"periodic probe loop aliveBackground (ants pool, jittered ticker, HTTP/DNS probes): replaced by simulator tasks calling Dialer.Check with a simulated CheckFunc", "fastrand -> tape"},
		Rule:  "tape draws 1-4 nodes (shared/own/no proxy address), 1-3 groups (members, offsets, policy, tolerance); sequential configuration: 3-40 health events checked one by one against the threshold model, then optionally a reload hand-over; concurrent configuration: 2-4 notifier and 0-2 selector tasks, checked at quiescence; non-trivial = >=2 schedulable options at some step",
	})
}
