package control

// dnssim — engine entry, mode selection, common set-up/tear-down and the C09
// scenario (concurrent clients against misbehaving upstreams).

import (
	"fmt"
	"net/netip"
	"os"
	"testing"
	"time"

	"github.com/daeuniverse/dae/common/consts"
	"github.com/daeuniverse/dae/common/netutils"
	componentdialer "github.com/daeuniverse/dae/component/outbound/dialer"
	verifsim "github.com/daeuniverse/dae/internal/verifsim"
	dnsmessage "github.com/miekg/dns"
)

// dnsPickMode: one run serves one property. ./check exports VERIF_PROP; the mode
// is written into the tape entry it was drawn at, so a replay file reproduces
// the run without the environment variable.
func dnsPickMode(s *verifsim.Sim) int {
	v := s.T.Choose(len(dnsModeProps))
	if !s.T.Replaying() {
		if p := os.Getenv("VERIF_PROP"); p != "" {
			for i, n := range dnsModeProps {
				if n == p && len(s.T.Rec) > 0 {
					v = i
					s.T.Rec[len(s.T.Rec)-1] = uint32(i)
				}
			}
		}
	}
	return v
}

func dnsReset() {
	componentdialer.ResetGlobalProxyStateForReload()
	dnsCacheJanitorInterval = 30 * time.Second
	dnsForwarderIdleTTL = 2 * time.Minute
	DnsCacheRouteRefreshInterval = 10 * time.Second
	realDomainNegativeCacheTTL = 10 * time.Second
	realDomainProbeTimeout = 500 * time.Millisecond
	resolveIp46ForRealDomainProbe = netutils.ResolveIp46
	dnsForwarderFactory = newDnsForwarder
	verifDnsSendPktHook = nil
	verifDnsUpdateQueueSizeHook = nil
	verifDnsUpdateDroppedHook = nil
	verifBpfBatchUpdateHook = nil
	verifBpfBatchDeleteHook = nil
	// pooled objects of a previous run hold channels of a dead bubble
	responseSlotPool = verifsim.Pool{New: func() any { return &responseSlot{result: make(chan *dnsmessage.Msg, 1)} }}
	dnsResponseBufPool = verifsim.Pool{New: func() any { buf := make([]byte, 1024); return &buf }}
}

type dnsSetup struct {
	nNames    [2]int
	nUps      [2]int
	schemes   []string
	rich      bool
	reject    bool
	dialMode  consts.DialMode
	bpfFaults bool
}

// setup draws the world and builds the real controller.
func (w *dnsWorld) setup(o dnsSetup) bool {
	T := w.T
	nNames := T.Range(o.nNames[0], o.nNames[1])
	perm := []int{0, 1, 2, 3, 4, 5}
	for i := 0; i < nNames; i++ {
		j := i + T.Choose(len(perm)-i)
		perm[i], perm[j] = perm[j], perm[i]
		w.names = append(w.names, perm[i])
	}
	nUps := T.Range(o.nUps[0], o.nUps[1])
	var tags []string
	for i := 0; i < nUps; i++ {
		u := &dnsUp{idx: i, tag: fmt.Sprintf("u%d", i), scheme: o.schemes[T.Choose(len(o.schemes))]}
		u.addr = netip.MustParseAddrPort(fmt.Sprintf("10.9.0.%d:53", i+1))
		if w.mode == dnsModeC07 && i%2 == 0 {
			// configured by name: resolved lazily by the first questions routed to it
			u.host = fmt.Sprintf("dns-%c.test", 'a'+i)
		}
		w.ups = append(w.ups, u)
		tags = append(tags, u.tag)
	}
	w.rules = dnsGenRuleSet(T, tags, w.names, o.rich, o.reject)
	w.makeDialers(1 + T.Choose(2))
	w.installSendHook()
	if err := w.buildPlane(o.dialMode); err != nil {
		w.s.Failf("harness-dns", "cannot build controller: %v", err)
		return false
	}
	w.kern.install(o.bpfFaults)
	w.track = dnsNewTrack(w)
	w.track.ctl = w.ctl
	w.installUpstreamEvents()
	w.s.Invariant = func() {
		w.track.scan()
		w.checkForwarderStep()
	}
	if w.s.LogOn {
		w.s.Notef("mode %s: names %v, upstreams %v, optimistic=%v stale=%ds max=%d fixed=%v janitor=%v idle=%v faulty=%d", dnsModeProps[w.mode], w.names, w.upsString(),
			w.cfg.optimistic, w.cfg.staleTtl, w.cfg.maxSize, w.cfg.fixed, w.cfg.janitor, w.cfg.idleTTL, w.faulty)
		w.s.Notef("dns section:\n%s", w.rules.textCache)
	}
	return true
}

func (w *dnsWorld) upsString() string {
	r := ""
	for _, u := range w.ups {
		r += fmt.Sprintf("%s=%s://%s ", u.tag, u.scheme, u.hostPort())
	}
	return r
}

// drawSpecs fills the per-(upstream,name,type) answer script.
func (w *dnsWorld) drawSpecs(ttlIdx []int, shared bool, specials bool) {
	T := w.T
	for up := 0; up <= len(w.ups); up++ {
		for _, n := range w.names {
			for ti := range dnsQtypes {
				sp := dnsAnsSpec{ttlIdx: ttlIdx[T.Choose(len(ttlIdx))]}
				if shared {
					sp.shared = T.Choose(8)
					sp.drift = T.Chance(1, 3)
				}
				if specials {
					sp.special = T.Pick(6, 1, 1)
				}
				w.spec[[3]int{up, n, ti}] = sp
			}
		}
	}
}

// env runs f as an environment task.
func (w *dnsWorld) env(name string, f func()) {
	w.envTasks++
	verifsim.Go("env-"+name, func() { f(); w.envTasks-- })
}

// settle runs until cond holds. (Quiesce is not used while the oracles need the
// per-step cache observation: it does not run the invariant hook.)
func (w *dnsWorld) settle(cond func() bool, maxQ int) bool {
	ok := w.s.RunUntil(cond, maxQ)
	if w.track != nil {
		w.track.scan()
	}
	return ok && !w.s.Failed()
}

// idle lets exactly d of simulated time pass: a sleeper task bounds the jump, the
// scheduler keeps running timers, janitor, workers, deliveries and upstream reactions.
func (w *dnsWorld) idle(d time.Duration) {
	if d <= 0 {
		return
	}
	w.s.Notef("idle for %v", d)
	// a timer armed right now makes the scheduler's time step end exactly at the
	// target; the loop stops there, before the timer's (empty) task or anything else runs
	// Before every scheduling decision all runnable tasks are drained (tape-chosen
	// order, no time passing): during long pauses a runnable goroutine is never
	// starved across a jump of simulated time.
	target := w.s.Now() + d
	verifsim.AfterFunc("idle-timer", d, func() {})
	for w.s.Now() < target && !w.s.Failed() && w.s.Step < w.s.MaxSteps {
		w.s.Quiesce(func() bool { return true }, 0, 0)
		if w.track != nil {
			w.track.scan()
		}
		if w.s.Now() >= target || !w.s.StepOnce(true, 10) {
			break
		}
	}
	if w.track != nil {
		w.track.scan()
	}
}

func (w *dnsWorld) shutdown() {
	s := w.s
	w.closing = true
	w.env("close", func() {
		if w.ctl != nil {
			_ = w.ctl.Close()
		}
		if w.plane != nil {
			w.plane.cancel()
		}
		for _, d := range w.dialers {
			_ = d.Close()
		}
	})
	s.Quiesce(func() bool { return w.envTasks == 0 }, 0, time.Minute)
	if w.track != nil {
		w.track.frozen = true
	}
}

// ---------------------------------------------------------------------------
// C09

func dnsScenarioC09(w *dnsWorld) {
	s, T := w.s, w.T
	w.faulty = T.Pick(1, 2, 5)
	w.cfg = dnsCfg{optimistic: T.Chance(1, 2), staleTtl: []int{60, 5}[T.Choose(2)], maxSize: []int{0, 3}[T.Choose(2)],
		janitor: []time.Duration{30 * time.Second, 5 * time.Second}[T.Choose(2)], idleTTL: []time.Duration{2 * time.Minute, 10 * time.Second}[T.Choose(2)], fixed: map[string]int{}}
	if w.cfg.maxSize > 0 && T.Chance(1, 2) {
		w.cfg.staleTtl = 0 // stale answers never expire (LRU only): the pre-packed reply path is used
	}
	w.envBudget = T.Range(0, 12)
	if !w.setup(dnsSetup{nNames: [2]int{1, 3}, nUps: [2]int{1, 3}, schemes: []string{"udp", "tcp", "tcp+udp", "udp"}, dialMode: consts.DialMode_Ip}) {
		return
	}
	w.drawSpecs([]int{1, 2, 3}, false, false)
	nCli := T.Range(1, 6)
	ids := []uint16{1, 1, 2, 0x1234}
	sleeps := []time.Duration{0, time.Millisecond, 50 * time.Millisecond, time.Second, 6 * time.Second, 12 * time.Second, 35 * time.Second, 130 * time.Second}
	type step struct {
		sleep time.Duration
		align int // >0: sleep until the align-th next tick of the janitor (queries racing the janitor's passes)
		op    *dnsOp
	}
	plans := make([][]step, nCli)
	for ci := range plans {
		n := T.Range(1, 4)
		for i := 0; i < n; i++ {
			switch T.Pick(6, 3, 1) {
			case 1:
				plans[ci] = append(plans[ci], step{sleep: sleeps[T.Choose(len(sleeps))]})
			case 2:
				plans[ci] = append(plans[ci], step{align: []int{1, 3, 7, 25}[T.Choose(4)]})
			}
			op := &dnsOp{cli: ci, idx: len(w.ops), name: w.names[T.Choose(len(w.names))], qtype: dnsQtypes[T.Pick(4, 2, 1)], id: ids[T.Choose(len(ids))], viaUDP: T.Chance(1, 3)}
			op.qname = w.wireName(op.name, T.Pick(4, 1, 1))
			w.ops = append(w.ops, op)
			plans[ci] = append(plans[ci], step{op: op})
		}
	}
	w.opsTotal = len(w.ops)
	cliDone, sleeping := 0, 0
	for ci := 0; ci < nCli; ci++ {
		ci := ci
		verifsim.Go(fmt.Sprintf("client%d", ci), func() {
			defer func() { cliDone++ }()
			plan := plans[ci]
			for pi := 0; pi < len(plan); pi++ {
				st := plan[pi]
				if s.Failed() {
					return
				}
				if st.op == nil {
					if st.align > 0 {
						j := w.cfg.janitor
						st.sleep = j - s.Now()%j + time.Duration(st.align-1)*j
					}
					if st.sleep > 0 {
						sleeping++
						time.Sleep(st.sleep)
						verifsim.YieldB("client-woke")
						sleeping--
					}
					continue
				}
				spread := func(op *dnsOp) {
					if op.qtype == dnsmessage.TypeTXT {
						// "other type" questions: spread over the pool of rarely asked types when the
						// question is put (partner of a cached type first), mostly over UDP
						op.qtype = w.spreadOtherType(op.name, op.idx)
						op.viaUDP = op.viaUDP || op.idx%2 == 0
					}
				}
				spread(st.op)
				if !st.op.viaUDP && st.op.idx%3 == 2 {
					// third reply path (derived from the op number, no draw): this question and the
					// ones that follow it directly go over ONE TCP connection through the transparent
					// DNS-over-TCP fast path; every other such connection writes all queries at once
					group := []*dnsOp{st.op}
					for pi+1 < len(plan) && plan[pi+1].op != nil {
						pi++
						spread(plan[pi].op)
						plan[pi].op.viaUDP = false
						group = append(group, plan[pi].op)
					}
					w.doTCPConn(group, st.op.idx%2 == 0, 10*time.Second)
					continue
				}
				w.doOp(st.op, 10*time.Second)
				if op := st.op; op.viaUDP && op.idx%2 == 0 && op.qtype != dnsmessage.TypeA && op.qtype != dnsmessage.TypeAAAA && !s.Failed() {
					w.track.scan()
					if w.track.entry(op.key) != nil {
						// the answer is cached now: two more hosts ask the same question at the same
						// moment over the transparent UDP path, under their own ids (derived, no draw)
						s.Probe("dns.concurrent-udp-cache-hits")
						burst := 0
						for j := 0; j < 2; j++ {
							b := &dnsOp{cli: nCli + 2*ci + j, idx: len(w.ops), name: op.name, qtype: op.qtype, qname: op.qname, id: uint16(0x2000 + 2*op.idx + j), viaUDP: true}
							w.ops = append(w.ops, b)
							w.opsTotal++
							verifsim.Go(fmt.Sprintf("client%d", b.cli), func() {
								w.doOp(b, 10*time.Second)
								burst++
							})
						}
						for burst < 2 && !s.Failed() {
							time.Sleep(time.Millisecond)
							verifsim.YieldB("client-woke")
						}
					}
				}
			}
		})
	}
	if w.faulty >= 1 {
		life := T.Range(0, 2)
		busy := func() bool { return life > 0 && w.envTasks == 0 && len(w.fwds) > 0 && cliDone < nCli }
		s.AddEvent(&verifsim.Event{Name: "reset-forwarders", Enabled: busy, Fire: func() {
			life--
			s.Fault("forwarders-reset")
			w.env("reset", func() {
				s.Notef("ResetDnsForwarders()")
				_ = w.ctl.ResetDnsForwarders()
			})
		}})
		s.AddEvent(&verifsim.Event{Name: "reload-reuse", Enabled: busy, Fire: func() {
			life--
			s.Fault("reload-reuse")
			w.env("reload", func() { w.reloadReuse(w.rules) })
		}})
	}
	// Scheduling loop: while questions are being resolved simulated time advances in
	// steps of at most 100 ms (timeouts of seconds still elapse, but a runnable task is
	// not held back for seconds); while every client sleeps and nothing is in flight,
	// runnable tasks are drained and time may jump.
	allDone := func() bool { return cliDone == nCli && w.envTasks == 0 }
	for s.Step < s.MaxSteps && !s.Failed() && !allDone() {
		if sleeping+cliDone == nCli && w.fwdInFlight() == 0 && w.envTasks == 0 {
			s.Quiesce(func() bool { return true }, 0, 0)
			w.track.scan()
			if allDone() || sleeping+cliDone != nCli {
				continue
			}
			if !s.StepOnce(true, 9) {
				break
			}
			continue
		}
		if !s.StepOnce(true, 6) {
			break
		}
	}
	if !allDone() {
		if !s.Failed() {
			s.Probe("dns.step-budget-exhausted")
		}
		w.shutdown()
		return
	}
	// let background work (late copies, retirements) finish, then retire everything
	w.settle(func() bool { return w.fwdInFlight() == 0 }, 6)
	if s.Failed() {
		w.shutdown()
		return
	}
	w.checkCoalescing()
	w.checkCacheContents()
	w.env("reset", func() { _ = w.ctl.ResetDnsForwarders() })
	// queries still waiting for an upstream (e.g. a background refresh) end by their timeouts
	s.Quiesce(func() bool { return w.envTasks == 0 && w.fwdInFlight() == 0 }, 0, 30*time.Second)
	if !s.Failed() {
		w.checkForwardersRetired("after ResetDnsForwarders at quiescence")
	}
	w.shutdown()
	if s.Failed() {
		return
	}
	for _, f := range w.fwds {
		if f.closes != 1 {
			s.Failf("c09-forwarder-closed-twice", "forwarder f%d (%s over %s) was closed %d times by the end of the run", f.id, f.up, f.l4, f.closes)
			return
		}
	}
	w.probesC09()
}

func (w *dnsWorld) probesC09() {
	s := w.s
	for _, sk := range w.socks {
		if len(sk.queries) > 1 {
			s.Probe("dns.udp-socket-reused")
		}
	}
	for _, tc := range w.tconns {
		if len(tc.queries) > 1 {
			s.Probe("dns.tcp-conn-pipelined")
		}
	}
	for _, ch := range w.allChains {
		tcp, udp := false, false
		for _, q := range ch.queries {
			tcp = tcp || q.tcp
			udp = udp || !q.tcp
		}
		if tcp && udp {
			s.Probe("dns.udp-to-tcp-fallback")
		}
	}
	waiters := 0
	for _, op := range w.ops {
		if op.done && op.chain == nil && op.err == nil && len(op.replies) > 0 {
			waiters++
		}
	}
	if waiters > 0 {
		s.Probe("dns.reply-without-own-upstream-query")
	}
	for _, sr := range w.sent {
		if sr.kind == "duplicate" {
			s.Probe("dns.late-copy-delivered")
		}
	}
}

// reloadReuse swaps the routing through the production ReuseForReload path.
func (w *dnsWorld) reloadReuse(rs *dnsRuleSet) {
	routing, err := w.buildRouting(rs)
	if err != nil {
		w.s.Failf("harness-dns", "reload: %v", err)
		return
	}
	w.s.Notef("reload: ReuseForReload with\n%s", rs.textCache)
	nf, err := w.ctl.ReuseForReload(w.controllerOptionFor(true), routing)
	if err != nil || nf == nil {
		w.s.Failf("harness-dns", "ReuseForReload: %v", err)
		return
	}
	w.rules = rs
	w.gen++
	if w.mode == dnsModeC10 {
		// the reload also changes the routing section's domain rules: entries created from
		// now on carry the new generation's bitmap, existing entries keep theirs
		w.bitmapGen++
		w.s.Notef("domain rules generation %d", w.bitmapGen)
	}
	w.plane.dnsRouting = routing
	w.plane.dnsController = nf
	w.ctl = nf
	w.track.ctl = nf
}

func dnsScenario(s *verifsim.Sim) {
	mode := dnsPickMode(s)
	w := dnsNewWorld(s, mode)
	switch mode {
	case dnsModeC09:
		dnsScenarioC09(w)
	case dnsModeC08:
		s.TrackFrames = true // the refresh rule asks whether an earlier refresh is still inside its forwarder call
		dnsScenarioC08(w)
	case dnsModeC07:
		dnsScenarioC07(w)
	case dnsModeC10:
		dnsScenarioC10(w)
	case dnsModeC18:
		dnsScenarioC18(w)
	}
}

func TestSimDNS(t *testing.T) {
	prop := os.Getenv("VERIF_PROP")
	if prop == "" {
		prop = "C09"
	}
	verifsim.Main(t, verifsim.Engine{
		Prop: prop, Name: "dns", MaxSteps: 40000, Scenario: dnsScenario, Reset: dnsReset,
		Real:  []string{"control.DnsController (HandleWithResponseWriter_, singleflight path, dialSend, forwardWithFallback, cache insert/lookup/evict, janitor, evictor, bpfUpdateWorker, backgroundRefresh, ReuseForReload, Clone/RestoreReloadCache, forwarder cache beginUse/endUse/retire), control.DoUDP/DoTCP + udpConnPool/connPool/pipelinedConn, control.domainRoutingTracker via controlPlaneCore.BatchUpdate/RemoveDomainRouting and the production dnsControllerOption() callbacks, ControlPlane.ChooseDialTarget / triggerRealDomainProbe / probeAndUpdateRealDomain, component/dns request+response matchers built by dns.New from generated config text, component/outbound/dialer.Dialer"},
		Stubs: []string{"upstream DNS servers, UDP sockets, TCP connections, dial outcomes: simulated (verifsim.SimDialer/SimPacketConn/StreamEnd, scripted per query)", "client sockets: dnsmessage.ResponseWriter fake or a hook replacing sendRuntimeTrackedPkt (Anyfrom sockets need a netns)", "domain_routing_map: Go map behind hooks in the stub build's BpfMapBatchUpdate/Delete", "BestDialerChooser: harness function (outbound groups / routing of the DNS connection itself not built)", "routingMatcher.domainMatcher: table name->bitmap", "real-domain probe resolver: harness function behind the resolveIp46ForRealDomainProbe seam", "DoH/DoQ/DoTLS, DNS listener, ip_version_prefer wait: not run"},
		Rule:  "one run serves one property (mode in the tape): tape draws names, 1-3 upstreams (udp/tcp/tcp+udp), dns{} routing text, cache knobs, clients x questions (colliding ids, case variants, udp or writer reply path), per-query upstream behaviour (right/late/never/twice/other question/wrong id/truncated/close mid-frame/SERVFAIL/transport error), dial outcomes, forwarder reset, reload; non-trivial = >=2 schedulable options at some step or >=1 fault fired",
	})
}
